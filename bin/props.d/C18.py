# run configuration of C18 for bin/check (see bin/props.py)
PROP = {'level': 'exploration',
 'level_text': 'Every feasible completion order of 1..6 gated jobs x every outcome vector x every concurrency limit is executed against the real FirstSuccess '
               '(plain and under the race detector); the oracle is the statement itself (value of a finished succeeding job / complete error list / returns). '
               'Exhaustive inside that scope, nothing beyond it.',
 'level_note': 'completion order is controlled at the job-function boundary; termination is decided by goroutine state after all gates are released, never by '
               'wall-clock alone; the live-context clause only (cancelled context: termination only)',
 'technique': 'runtime monitoring: gated schedule enumeration + result oracle + race detector',
 'rule': 'exhaustive enumeration of gated schedules of FirstSuccess',
 'assumptions': ['completion order is enforced at the return of the job function, not at the internal channel send'],
 'race_allow': ['main\\.FirstSuccess', 'main\\.\\(\\*JobGroup'],
 'runs': [{'name': 'sched', 'pkg': '.', 'run': '^TestVerifC18(Search)?$', 'timeout': '20m', 'timeout_thorough': '60m'},
          {'name': 'sched-race',
           'pkg': '.',
           'run': '^TestVerifC18(Search)?$',
           'race': True,
           'timeout': '30m',
           'timeout_thorough': '90m',
           'env': {'VERIF_PART_SUFFIX': '-race'}}]}
