# run configuration of C05 for bin/check (see bin/props.py)
PROP = {'level': 'exploration',
 'level_text': 'Generated multisets of 64-byte signatures (all 65 536 prefixes with bucket populations 0,1,2,3,2^k-1,2^k,2^k+1 up to 4097; a ladder of every '
               'population 0..400 (thorough 0..1500); uniform 1/2/3; single signatures; the empty set; buckets around the 16 000 pre-allocation and around 2^16 '
               '(thorough: 2^17, 200 000 in one bucket, 200 000 in 16); whole-signature duplicates x2/x5; constructed xxhash64 collisions; 4 insertion orders; '
               '6 metadata shapes; directed prefixes 0000/ffff/00ff/ff00/...) are Put into the real current and legacy writers, sealed, and every signature plus '
               'not-added probes (same prefix, one byte changed at every position, equal hash under another / the byte-swapped prefix, equal hash under the same '
               'prefix) is looked up through Writer.Has (during insertion, before and after Seal) and through the sealed file opened with mmap, os.File, '
               'bytes.Reader and a ReaderAt that returns io.EOF with the final complete read. Oracle: per-prefix set of xxhash64 values computed with '
               'cespare/xxhash directly.',
 'level_note': 'one current-format writer per child process (8 GiB pre-allocation); buckets beyond 200 000 hashes and Reader.Has under concurrency are not '
               'exercised; the remote (HTTP) ReaderAt is covered by C01/C17, the epoch search that consumes Has by C18; metadata round-trips are not part of '
               'the statement and only the lookups under every metadata shape are judged',
 'technique': 'runtime monitoring: generated workloads + reference-model oracle (per-prefix hash sets) over the real writers and readers, child-process isolation',
 'rule': 'distinct bucket shapes sealed and probed',
 'race_allow': [],
 'runs': [{'name': 'current', 'pkg': './bucketteer', 'run': '^TestVerifC05$', 'timeout': '30m', 'timeout_thorough': '90m'},
          {'name': 'legacy', 'pkg': './deprecated/bucketteer', 'run': '^TestVerifC05$', 'timeout': '30m', 'timeout_thorough': '90m'}]}
