# run configuration of C04 for bin/check (see bin/props.py)
PROP = {'level': 'exploration',
 'level_text': 'Generated key sets (1..60 000 keys; key lengths 0..65 535 and beyond; every single-bucket population 1..N and the 2^k / 10 000 / 20 000 '
               'boundaries; adversarial sets searched with Header.BucketHash so that all keys share one bucket; six insertion orders; value sizes over the '
               'whole 8-bit range; declared counts 1, n/10, n-1, n, n+1, 10n; metadata shapes; os.File / mmap / bytes readers, Prefetch on/off) are built with '
               'the real builders of compactindexsized, deprecated/compactindex and deprecated/compactindex36, sealed, re-opened, and EVERY inserted key is '
               'looked up and compared with the model map; the same inserts are sealed twice and compared byte for byte; duplicate keys, over-long keys and '
               'unsupported value sizes must end in an error, never in a panic or an index that loses entries.',
 'level_note': 'exploration of a seeded, bounded case list (not exhaustive); absent keys are not queried (24-bit hashes make false positives part of the '
               'format); the metadata block itself and files identical across insertion orders are diagnostics, not demanded; a build error on legal input '
               'is excused only when some bucket holds more than the documented 10 000 entries; termination of Lookup is decided by a read-count budget, '
               'of mining by a ctx.Err() poll budget (inconclusive), never by wall-clock',
 'technique': 'runtime monitoring: generated workloads + reference-model (map) oracle over the real builders and readers, per-case panic capture, '
              'step-budget monitors on Lookup reads and mining rounds',
 'rule': 'see parts',
 'runs': [{'name': 'sized', 'pkg': './compactindexsized', 'run': '^TestVerifC04$', 'timeout': '20m', 'timeout_thorough': '60m'},
          {'name': 'legacy8', 'pkg': './deprecated/compactindex', 'run': '^TestVerifC04$', 'timeout': '20m', 'timeout_thorough': '60m'},
          {'name': 'legacy36', 'pkg': './deprecated/compactindex36', 'run': '^TestVerifC04$', 'timeout': '20m', 'timeout_thorough': '60m'}]}
