# run configuration of C06 for bin/check (see bin/props.py)
PROP = {
 'level': 'exploration',
 'level_text': 'Writer life cycles of the real GsfaWriter/GsfaReader against a per-address list model: real thresholds (batch 1000, periodic flush above 100 000 addresses) with boundary per-address counts, small-scope push histories with shrunk thresholds under steered flusher schedules, linked-log records of every length around the varint-width boundaries, all repeated under the race detector.',
 'level_note': 'the size of the popularity rank is never shrunk (it decides whether the periodic flush may touch an address with a batch in flight); schedules are steered at the channel hand-offs only',
 'technique': 'runtime monitoring: reference-model oracle over write/close/read life cycles, failpoint-steered flusher schedules, race detector',
 'rule': 'see parts',
 'race_allow': [r'/gsfa\.', r'/gsfa/linkedlog\.', r'/gsfa/manifest\.'],
 'runs': [
   {'name': 'records', 'pkg': './gsfa/linkedlog', 'run': '^TestVerifC06', 'timeout': '20m'},
   {'name': 'gsfa', 'pkg': './gsfa', 'run': '^TestVerifC06Real$', 'timeout': '40m', 'timeout_thorough': '120m'},
   {'name': 'sched', 'pkg': './gsfa', 'run': '^TestVerifC06Sched$', 'rewrite': ['gsfa-sched', 'pubkey-index-small'], 'timeout': '40m', 'timeout_thorough': '120m'},
   {'name': 'sched-race', 'pkg': './gsfa', 'run': '^TestVerifC06Sched$', 'rewrite': ['gsfa-sched', 'pubkey-index-small'], 'race': True, 'timeout': '60m', 'timeout_thorough': '240m', 'env': {'VERIF_PART_SUFFIX': '-race', 'VERIF_RACE': '1'}},
   {'name': 'gsfa-race', 'pkg': './gsfa', 'run': '^TestVerifC06Real$', 'race': True, 'timeout': '90m', 'timeout_thorough': '240m', 'env': {'VERIF_PART_SUFFIX': '-race', 'VERIF_RACE': '1'}},
 ],
}
