# run configuration of C07 for bin/check (see bin/props.py)
PROP = {
 'level': 'exploration',
 'level_text': 'One 3-epoch fixture (real CARs, real `index gsfa`) encodes all 125 per-epoch history shapes of 0..4 entries; every (address, limit, before, until) with before/until drawn from the history is evaluated against the model slice at reader level and through the JSON-RPC handler for every non-empty subset of loaded epochs (multi-epoch requests repeated, since the response order must not depend on map iteration); the slot-bounded variant is checked on a slot grid. Exhaustive inside the stated small scope.',
 'level_note': 'before/until signatures outside the history are not exercised (Solana requires them to be valid); completeness of the slot-bounded variant is left to C19',
 'technique': 'runtime monitoring: small-scope exhaustive workload + reference-model oracle over the real gsfa readers and handler',
 'rule': 'see parts',
 'runs': [{'name': 'paging', 'pkg': '.', 'run': '^TestVerifC07$', 'timeout': '40m', 'timeout_thorough': '120m'}],
}
