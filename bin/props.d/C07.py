# run configuration of C07 for bin/check (see bin/props.py)
PROP = {
 'level': 'exploration',
 'level_text': 'One 3-epoch fixture (real CARs, real `index gsfa`) encodes all 125 per-epoch history shapes of 0..4 entries; every (address, limit, before, until) with before/until drawn from the history is evaluated against the model slice at reader level and through the JSON-RPC handler for every non-empty subset of loaded epochs (multi-epoch requests repeated, since the response order must not depend on map iteration); the slot-bounded variant is checked on a slot grid. Exhaustive inside the stated small scope.  A second fixture holds one address with thousands of entries (several chained linked-log records per list): paging around every record and epoch boundary, and the same queries from 8 goroutines at once through one set of readers, also under the race detector.',
 'level_note': 'before/until signatures outside the history are not exercised (Solana requires them to be valid); the slot-bounded variant is judged for soundness and completeness at reader level (all readers, and the readers the server selects for the range); the streaming transport itself is C19',
 'technique': 'runtime monitoring: small-scope exhaustive workload + reference-model oracle over the real gsfa readers and handler; concurrent-query phase under the race detector',
 'rule': 'see parts',
 'race_allow': [r'/gsfa\.', r'/gsfa/linkedlog\.', r'main\.\(\*MultiEpoch\)', r'main\.\(\*Epoch\)', r'/compactindexsized\.', r'/indexes\.'],
 'runs': [{'name': 'paging', 'pkg': '.', 'run': '^TestVerifC07(Long)?$', 'timeout': '40m', 'timeout_thorough': '120m'},
          {'name': 'long-race', 'pkg': '.', 'run': '^TestVerifC07Long$', 'race': True, 'timeout': '40m', 'timeout_thorough': '120m', 'env': {'VERIF_PART_SUFFIX': '-race', 'VERIF_RACE': '1'}}],
}
