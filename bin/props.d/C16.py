# run configuration of C16 for bin/check (see bin/props.py)
PROP = {'level': 'exploration',
 'level_text': 'Reader half: every piece-size vector of 1..4 (thorough 1..5) pieces of 0..6 bytes x every (offset, length) x three kinds of conforming '
               'io.ReaderAt is read through the real MultiReaderAt, and NewSplitCarReader over 0..3 local/padded pieces likewise (exhaustive inside that '
               'scope), plus seed-driven large vectors with boundary-directed reads and pieces behind the HTTP ReaderAt; oracle = io.ReaderAt over the '
               "reference concatenation. Splitter half: generated epoch CARs are split by the real split-car command (child process, scratch cwd) at target "
               "sizes derived from the model's block-family sizes (exact fit, +-1, 1 piece .. one piece per block) and every piece is parsed by the "
               "generator's own CAR parser and compared section by section with the original; recorded sizes are compared with the files on disk.",
 'level_note': 'exhaustive only inside the stated small scope of the reader; the splitter half is exploration over generated CARs; Filecoin deal-based '
               'piece fetching is not exercised; orphan sections after the last block and the respect of the target size are diagnostics, not verdicts',
 'technique': 'runtime monitoring: exhaustive small-scope enumeration + generated workloads with a reference-model oracle over the real reader and the real split-car command',
 'rule': 'see parts',
 'race_allow': [],
 'runs': [{'name': 'reader', 'pkg': './split-car-fetcher', 'run': '^TestVerifC16Reader$', 'timeout': '20m', 'timeout_thorough': '60m'},
          {'name': 'split', 'pkg': '.', 'run': '^TestVerifC16Split$', 'timeout': '30m', 'timeout_thorough': '90m'}]}
