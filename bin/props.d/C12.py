# run configuration of C12 for bin/check (see bin/props.py)
PROP = {'level': 'exploration',
 'level_text': 'placeholder',
 'level_note': '',
 'technique': 'runtime monitoring: crash / allocation / step-budget monitors around every parser entry point, inputs by structure-aware mutation of valid files',
 'rule': 'see parts',
 'race_allow': [],
 'runs': [{'name': 'lib', 'pkg': './indexes', 'run': '^TestVerifC12$', 'timeout': '30m', 'timeout_thorough': '120m'}]}
