# run configuration of C12 for bin/check (see bin/props.py)
PROP = {'level': 'exploration',
 'level_text': 'Valid files of every external format (CAR, the seven IPLD node kinds, compactindexsized incl. the four typed indexes, both deprecated '
               'compact-index formats, sig-exists current and deprecated, block-time index, gsfa linked log / manifest / whole gsfa directory, index '
               'metadata, transaction-status metadata as protobuf and both bincode generations, zstd frames) are produced by the repository\'s own '
               'writers and then mutated with format knowledge: every length / count / size / offset field set to ~60 boundary values (0, 1, 2^k-1, '
               '2^k, 2^k+1, max, file size +-1, remaining bytes +-1, original +-1 ...), every CBOR item replaced by items of every other major type / '
               're-typed in place / given boundary arguments / deleted / duplicated, metadata values of every length, truncation at every field '
               'boundary, byte sweeps over the headers, bit flips, random bytes behind a valid magic, hand-made hostile documents (zstd RLE bombs and '
               'frames that only DECLARE a huge content size, linked-log records pointing to themselves, deep CBOR nesting). Every input is driven '
               'through every exported opening / decoding / querying entry point as a sequence of named steps inside a child process; in package '
               'main a whole generated epoch is loaded by NewEpochFromConfig with one hostile file (or a CAR whose node bytes were edited in place) '
               'and queried through Epoch methods and the JSON-RPC handler.',
 'level_note': 'exploration of a seeded, bounded case list (not exhaustive, no coverage feedback: native coverage-guided fuzzing is not part of the check); '
               'an error return is always accepted; allocation is judged per step against 256 MiB for inputs <= 1 MiB (288 MiB where the code has a '
               'deliberate 256 MiB record cap); non-termination is decided only by operation counts (sections returned > input bytes; > 500 000 read '
               'system calls on a <= 1 MiB input), a wall-clock watchdog expiry is INCONCLUSIVE; the index builders (createAllIndexes over a hostile '
               'CAR), Filecoin/lassie and HTTP-remote readers are not driven; after three process deaths with the same key on mutants of one field '
               'the remaining mutants of that field are skipped (reported in the evidence)',
 'technique': 'runtime monitoring: per-step panic capture (recover + innermost repository frame), allocation meter (runtime/metrics + heap profile of '
              'the re-executed step), RLIMIT_AS-bounded child processes with write-ahead journal for deaths recover() cannot see, read-syscall step '
              'budget, wall-clock watchdog (inconclusive only); inputs by structure-aware mutation of valid files',
 'rule': 'see parts',
 'assumptions': ['violation key = <outermost exported function of the faulting package on the stack>/<failure class>/<innermost repository function>'],
 'race_allow': [],
 'runs': [{'name': 'lib', 'pkg': './indexes', 'run': '^TestVerifC12$', 'timeout': '30m', 'timeout_thorough': '120m', 'env': {'CGO_ENABLED': '0'}},
          {'name': 'main', 'pkg': '.', 'run': '^TestVerifC12Main$', 'timeout': '30m', 'timeout_thorough': '120m', 'env': {'CGO_ENABLED': '0'}}]}
