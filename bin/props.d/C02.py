# run configuration of C02 for bin/check (see bin/props.py)
PROP = {'level': 'exploration',
 'level_text': 'Every archived slot and signature of generated epochs (incl. epoch 0 with genesis, multi-frame payloads, skipped slots, vote/failed/v0 '
               'transactions) is requested through JSON-RPC (4 encodings) and gRPC (unary and the bidirectional Get) for every non-empty subset of loaded '
               "epochs and search concurrency 1, 2, NumCPU, from 16 client goroutines; responses are compared with the generator's model field by field.",
 'level_note': "JSON `json` encoding is compared on signatures, account keys, fee and err only; slot 0's blockTime/previousBlockhash are documented "
               'Solana-compatible special cases and not compared; rewards are a diagnostic',
 'technique': 'runtime monitoring: generated epochs + model oracle over real handlers, concurrent clients (race detector in the thorough tier)',
 'rule': 'see parts',
 'race_allow': ['main\\.\\(\\*MultiEpoch\\)',
                'main\\.\\(\\*Epoch\\)',
                'main\\.FirstSuccess',
                '/huge-cache\\.',
                '/compactindexsized\\.',
                '/bucketteer\\.',
                '/tooling\\.'],
 'runs': [{'name': 'rpc', 'pkg': '.', 'run': '^TestVerifC02$', 'timeout': '40m', 'timeout_thorough': '120m', 'tiers': ('quick',)},
          {'name': 'rpc-race',
           'pkg': '.',
           'run': '^TestVerifC02$',
           'race': True,
           'timeout': '240m',
           'timeout_thorough': '240m',
           'tiers': ('thorough',),
           'env': {'VERIF_PART_SUFFIX': '-race'}}]}
