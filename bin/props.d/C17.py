# run configuration of C17 for bin/check (see bin/props.py)
PROP = {'level': 'exploration',
 'level_text': 'Every history of length <= 3 of GetRange / failing GetRange / SetRange / DeleteOldEntries over the full range alphabet of a small file '
               '(exhaustive), seeded random histories of length 60 over files of 0..300 bytes, directed int64-boundary reads, every pair of concurrent '
               'readers of a 6-byte file steered past the look-up before either fetches (x which fetch fails x expiry/SetRange in between), a 16-reader '
               'stress with expiry, SetRange and remote failures (plain and under the race detector), and HTTPSingleFileRemoteReaderAt.ReadAt against a '
               'loopback Range server that misbehaves on chosen requests (reset, 5xx/4xx with short/exact/long body, Range ignored, truncated 206). The oracle '
               'is the statement: bytes == file[range] or an error explained by a failed remote fetch; reads outside the file refused; a failed fetch '
               'leaves no cache entry; all cached ranges read back through the API at quiescent points.',
 'level_note': 'exhaustive only inside the short-history scope; hit/miss behaviour, expiry effectiveness, occupiedSpace and use after Close are not judged',
 'technique': 'runtime monitoring: model-based history enumeration + read oracle against an immutable model file, in-package cache inspection, '
              'context-hook schedule steering, fault-injecting loopback HTTP server, race detector',
 'rule': 'see parts',
 'assumptions': ['the remote file is immutable during a run (the statement speaks about "the bytes the remote holds")',
                 'SetRange is only ever given the true bytes of the range (callers own that obligation); the slice passed is not modified afterwards'],
 'race_allow': ['/range-cache\\.', '/split-car-fetcher\\.'],
 'runs': [{'name': 'cache', 'pkg': './range-cache', 'run': '^TestVerifC17', 'timeout': '20m', 'timeout_thorough': '60m'},
          {'name': 'cache-race',
           'pkg': './range-cache',
           'run': '^TestVerifC17Concurrent$',
           'race': True,
           'timeout': '30m',
           'timeout_thorough': '90m',
           'env': {'VERIF_PART_SUFFIX': '-race'}},
          {'name': 'http', 'pkg': './split-car-fetcher', 'run': '^TestVerifC17', 'timeout': '20m', 'timeout_thorough': '60m'},
          {'name': 'http-race',
           'pkg': './split-car-fetcher',
           'run': '^TestVerifC17HTTPConcurrent$',
           'race': True,
           'timeout': '30m',
           'timeout_thorough': '90m',
           'env': {'VERIF_PART_SUFFIX': '-race'}}]}
