# run configuration of C15 for bin/check (see bin/props.py)
PROP = {'level': 'exploration',
 'level_text': 'accum.ObjectAccumulator.Run is executed over CARs whose layout the harness owns (directed boundary layouts: 0/1/2/4999/5000/5001/12000 children, '
               '1000/1001/2500 groups, no block, only blocks, trailing objects, 1-4 byte length varints, four CID forms, 1-3 header roots; seeded random layouts; '
               'cargen epochs) for every ignore-set used in the repo plus none / all-but-blocks, SetSkip values around the first block and the end, and consumer '
               'callbacks that are instantaneous, yielding, sleeping or steered through the reader the accumulator reads from (consumer k groups behind, strict '
               'alternation, queue completely full), GOMAXPROCS 1/2/4/16, plain and under the race detector.',
 'level_note': 'schedules are steered at the io.Reader boundary and in the callback only (no instrumentation inside accum); whether deliveries stay intact after Run '
               'returned and empty parent-less callbacks are diagnostics; ErrStop / context cancellation / callback errors are outside the statement and not driven',
 'technique': 'runtime monitoring: reference-model oracle (group sequence + byte-exact offset check against the file) evaluated at callback entry and exit under '
              'steered producer/consumer schedules, plus the Go race detector',
 'rule': 'see parts',
 'assumptions': ['every section of a generated CAR has at least 2 data bytes and its kind in the second byte, as every node of the ledger schema has'],
 'race_allow': ['/accum\\.$', '/accum\\.(getFlushBuffer|putFlushBuffer|ObjectsToTransactionsAndMetadata|clone)', '/carreader\\.'],
 'runs': [{'name': 'traversal', 'pkg': './accum', 'run': '^TestVerifC15$', 'timeout': '20m', 'timeout_thorough': '60m'},
          {'name': 'traversal-race',
           'pkg': './accum',
           'run': '^TestVerifC15$',
           'race': True,
           'timeout': '30m',
           'timeout_thorough': '90m',
           'env': {'VERIF_PART_SUFFIX': '-race'}}]}
