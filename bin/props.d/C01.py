# run configuration of C01 for bin/check (see bin/props.py)
PROP = {'level': 'exploration',
 'level_text': "Generated well-formed epoch CARs (reference encoder, own CAR writer, ground-truth section table) are indexed by the repository's own "
               'createAllIndexes and every object/slot/signature is looked up through the index readers, a local Epoch, a remote (HTTP ReaderAt + range cache '
               '+ prefetch) Epoch and /api/v1. Exploration over layout knobs incl. the 10 000-entry bucket boundary; evidence lists the layout signatures '
               'reached.',
 'level_note': "trusts ipld-prime bindnode/dag-cbor, go-cid and the generator's own CAR writer as ground truth; Filecoin/lassie mode and split-piece CARs are "
               'not exercised',
 'technique': 'runtime monitoring: generated workloads + ground-truth model oracle over the real indexer and readers',
 'rule': 'see parts',
 'race_allow': [r'main\.createAllIndexes', r'/indexes\.', r'/compactindexsized\.', r'/bucketteer\.', r'/blocktimeindex\.', r'/carreader\.', r'main\.\(\*Epoch\)'],
 'runs': [{'name': 'indexall', 'pkg': '.', 'run': '^TestVerifC01$', 'timeout': '40m', 'timeout_thorough': '180m'},
          {'name': 'indexall-race', 'pkg': '.', 'run': '^TestVerifC01$', 'race': True, 'timeout': '60m', 'timeout_thorough': '180m', 'env': {'VERIF_PART_SUFFIX': '-race', 'VERIF_RACE': '1'}}]}
