# run configuration of C11 for bin/check (see bin/props.py)
PROP = {'level': 'exploration',
 'level_text': 'Typed values of all seven ledger kinds (directed sweeps: every integer field x 37 boundary integers, every absent/null/present '
               'combination of the optional fields of every DataFrame position, every list and byte-string length class around the CBOR header '
               'widths, 7 CID flavours at first/middle/last list position, minimal and maximal nodes; plus a seeded random mass) are encoded with '
               'the reference encoder (bindnode + dag-cbor) and decoded by the schema-driven reference decoder and by Decode*/DecodeAny/GetKind; '
               'every node of fixtures/*.car and of cargen epochs likewise; every node is also offered to the six decoders of the other kinds, and '
               'structures carrying a foreign kind field to their own decoder. Differential oracle per (node, decoder) pair.',
 'level_note': 'presence of optional fields is compared through Has*/Get* accessors only (null and omitted are the same observation; nil and empty '
               'link lists are the same list); a panic on a node the reference rejects is counted, not judged (C12); values the reference encoder '
               'cannot encode (an omitted optional before a present field) are outside the domain',
 'technique': 'runtime monitoring: differential oracle (hand-written decoders vs ipld-prime bindnode/dag-cbor reference decoder) over generated and archived nodes',
 'rule': 'see parts',
 'race_allow': [],
 'runs': [{'name': 'diff', 'pkg': './iplddecoders', 'run': '^TestVerifC11(Fixtures)?$', 'timeout': '15m', 'timeout_thorough': '60m'}]}
