# run configuration of C09 for bin/check (see bin/props.py)
PROP = {
 'level': 'exploration',
 'level_text': 'Stress of every query kind against stable epochs while writers churn the epoch set (real MultiEpoch, real handlers), with a progress monitor that decides deadlock by goroutine state, value oracles (answers equal the idle-server answers; listings duplicate-free, descending, within bounds), porcupine linearizability checking of short epoch-set histories, a lock-discipline monitor on the epoch-set mutex, all under the race detector.',
 'level_note': 'covers the acquisition sequences the workload executes (sites reached are listed in the evidence), not every path of the call graph; churn epochs are file-less except in the close-under-query sub-run',
 'technique': 'runtime monitoring: stress + state-based deadlock monitor, idle-server differential oracle, porcupine history checking, lock-discipline hook, race detector',
 'rule': 'see parts',
 'race_allow': [r'main\.\(\*MultiEpoch\)', r'main\.\(\*Epoch\)', r'main\.newMultiEpochHandler', r'/gsfa\.', r'/huge-cache\.'],
 'runs': [
   {'name': 'lock', 'pkg': '.', 'run': '^TestVerifC09Lock$', 'rewrite': ['multiepoch-lock'], 'timeout': '20m'},
   {'name': 'stress', 'pkg': '.', 'run': '^TestVerifC09(Stress|StressSingle|StressNarrow|Lin|Close)$', 'timeout': '40m', 'timeout_thorough': '120m'},
   {'name': 'stress-race', 'pkg': '.', 'run': '^TestVerifC09(Stress|StressSingle|StressNarrow|Lin)$', 'race': True, 'timeout': '60m', 'timeout_thorough': '240m', 'env': {'VERIF_PART_SUFFIX': '-race', 'VERIF_RACE': '1'}},
 ],
}
