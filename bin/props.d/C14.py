# run configuration of C14 for bin/check (see bin/props.py)
PROP = {'level': 'exploration',
 'level_text': 'Generated payloads (0..200 KiB) are split into 1..60 linked frames (the ledger.ipldsch layout for every frame count x every fan-out 1..10, '
               'the same layout with the link-carrying frame first, random trees incl. trees whose links lead to smaller indexes; `next` lists ascending / descending / shuffled; CRC64-ISO and legacy FNV-1a '
               'checksums), encoded with the reference encoder, stored in shuffled order and served by CID; the real tooling.LoadDataFromDataFrames, '
               'getTransactionAndMetaFromNode / parseTransactionAndMetaFromNode and accum.ObjectsToTransactionsAndMetadata must return exactly the payload. '
               'Then every single-frame fault of the statement (frame missing at the getter / unlinked, link duplicated, link replaced by a duplicate, one bit of '
               'data flipped, index altered, total altered, frame swapped with the same-index frame of another payload) is injected one at a time at directed '
               'and seeded targets into chains that carry hash and total: an error or the exact payload is accepted, other bytes without an error is the violation.',
 'level_note': 'fault enumeration is complete over fault kinds and directed targets (first/last/link-carrying/seeded frame), sampled over bit positions; '
               'cyclic links are outside the fault list; chains without hash or without total are reassembled clean only (faults on them are counted as a '
               'diagnostic, never judged); accum is driven with single-frame transaction payloads only (it documents that it rejects split transaction data)',
 'technique': 'runtime monitoring: generated frame chains + single-fault injection, reference-model oracle (original payload) over the real reassembly entry points',
 'rule': 'distinct = (frame count >= 2, layout + fan-out, checksum kind, fault kind or none) per entry point',
 'assumptions': ['a CRC64/FNV collision between a faulted and the original payload has probability ~2^-63 per case and is not expected to occur'],
 'race_allow': [],
 'runs': [{'name': 'tooling', 'pkg': './tooling', 'run': '^TestVerifC14Tooling$', 'timeout': '20m', 'timeout_thorough': '60m'},
          {'name': 'accum', 'pkg': './accum', 'run': '^TestVerifC14Accum$', 'timeout': '20m', 'timeout_thorough': '60m'},
          {'name': 'server', 'pkg': '.', 'run': '^TestVerifC14Server$', 'timeout': '20m', 'timeout_thorough': '60m'},
          {'name': 'server-after-gsfa', 'pkg': '.', 'run': '^TestVerifC14Server$', 'timeout': '20m', 'timeout_thorough': '60m', 'env': {'VERIF_C14_AFTER_GSFA': '1'}}]}
