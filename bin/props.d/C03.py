# run configuration of C03 for bin/check (see bin/props.py)
PROP = {
 'level': 'exploration',
 'level_text': 'Absent keys whose truncated in-bucket hash collides with a stored key are searched with the index\'s own lookup (all ~430 000 absent slots of an epoch; random signatures, addresses and CIDs until enough collide) and then requested through JSON-RPC/gRPC getBlock, getTransaction (one and three epochs loaded), getSignaturesForAddress and Epoch.GetNodeByCid; any payload is a violation.',
 'level_note': 'finding collisions is probabilistic, judging them is not; the /api/v1 cid endpoints are observed as a diagnostic only (not named by the statement)',
 'technique': 'runtime monitoring: collision search with the index\'s own hash + outcome oracle on every request surface',
 'rule': 'see parts',
 'runs': [{'name': 'absent', 'pkg': '.', 'run': '^TestVerifC03$', 'timeout': '40m', 'timeout_thorough': '120m'}],
}
