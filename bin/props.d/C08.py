# run configuration of C08 for bin/check (see bin/props.py)
PROP = {
 'level': 'exploration',
 'level_text': 'Grammar-generated and mutated HTTP requests (JSON-RPC envelopes with every params shape, ill-typed values, truncations, bit flips, splices, other verbs and paths, /api/v1) and gRPC messages over all RPCs and the Get stream are executed against the real handler/server methods in child processes with 0, 1 and 3 epochs loaded; a journal attributes process deaths that recover() cannot see; a canary checks that the server keeps serving.',
 'level_note': 'handlers are driven through fasthttp RequestCtx.Init (fasthttp\'s own fake server) and fake gRPC streams, not over sockets; unbounded stream ranges are bounded by a cancelled context',
 'technique': 'runtime monitoring: crash monitor (journal + recover + child processes) over grammar-based hostile inputs',
 'rule': 'see parts',
 'runs': [{'name': 'crash', 'pkg': '.', 'run': '^TestVerifC08$', 'timeout': '40m', 'timeout_thorough': '180m'}],
}
