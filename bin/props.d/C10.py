# run configuration of C10 for bin/check (see bin/props.py)
PROP = {
 'level': 'fault_enumeration',
 'level_text': 'Complete matrix of index-file substitutions on a loadable epoch configuration: every index role x every donor (other epoch, same epoch but other CAR, file of another role, same content with exactly one identity field changed, built with the repository\'s own writers), singly and in all pairs; plus identity round trip of every file the repository builds and fetches of every CID through the wrong CAR (local and remote reader). The real loader NewEpochFromConfig decides each case.',
 'level_note': 'Filecoin-mode root check needs a lassie host and is not exercised; sig-exists per-field variants are covered by whole-file donors only',
 'technique': 'runtime monitoring: exhaustive fault (substitution) matrix over the real loader with an identity oracle',
 'rule': 'see parts',
 'runs': [{'name': 'matrix', 'pkg': '.', 'run': '^TestVerifC10$', 'timeout': '40m'}],
}
