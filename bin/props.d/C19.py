# run configuration of C19 for bin/check (see bin/props.py)
PROP = {
 'level': 'exploration',
 'level_text': 'StreamBlocks and StreamTransactions of the real server are driven over a grid of slot ranges and filter combinations on two consecutive generated epochs (skipped slots, vote/failed/v0-with-lookups transactions over a 6-account universe), once with and once without the address index; the streamed sequences are compared with a reference filter over the generator\'s model (none missing, none extra, ascending slot/position order).',
 'level_note': '"mentions" = static account keys + address-table loaded keys (the definition both the block filter and the address indexer use); messages without a transaction (the "no results" sentinel) are ignored',
 'technique': 'runtime monitoring: generated epochs + reference-filter oracle over the real streaming RPCs, with/without index differential',
 'rule': 'see parts',
 'runs': [{'name': 'streams', 'pkg': '.', 'run': '^TestVerifC19$', 'timeout': '40m', 'timeout_thorough': '120m'}],
}
