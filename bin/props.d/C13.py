# run configuration of C13 for bin/check (see bin/props.py)
PROP = {'level': 'fault_enumeration',
 'level_text': 'Fault = the file is cut short at byte offset c (a real truncated copy on disk, or that copy served over loopback HTTP). For every file kind '
               '(the four compact-index kinds, sig-exists, slot-to-blocktime, gsfa pubkey index / linked log / manifest, CAR) the complete file\'s answer '
               'is recorded for every stored key, then for every cut offset (ALL offsets for the files of the tiny fixtures and for directly built small '
               'indexes; for larger files every structure boundary +-2 bytes - header fields, bucket-table entries, bucket starts/ends, per-key entry '
               'positions, section starts/ends - plus seed-chosen offsets) the truncated copy is opened with the repository\'s own openers (os.File, '
               'mmap, NewGsfaReader, FromFile, the server sequence ReadAllFromReaderAt+FromBytes, NewEpochFromConfig local and remote) and every stored '
               'key is looked up. One layer up, the same fault is observed at the JSON-RPC / gRPC surface of a server that has a second, complete epoch loaded. '
               'Oracle: same answer as the complete file, or an error that is not a not-found error.',
 'level_note': 'the fault space is enumerated completely only for the small files (parts marked exhaustive); for the large ones it is boundaries + a seeded '
               'sample. Only clean truncation is injected (no torn pages, no bit flips, no file that shrinks while it is mapped). Deprecated index formats '
               'and split-piece CARs are not exercised.',
 'technique': 'runtime monitoring: fault enumeration (truncation at every / every structural byte offset) + differential oracle against the complete file '
              'over the real openers and readers',
 'rule': 'see parts',
 'race_allow': [],
 'runs': [{'name': 'trunc', 'pkg': '.', 'run': '^TestVerifC13', 'timeout': '30m', 'timeout_thorough': '120m'}]}
