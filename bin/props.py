# Per-property run configuration for bin/check.
# run: name, pkg (relative to /repo), run (go test -run regex), race (bool), tiers, timeout, env
M = r"github\.com/rpcpool/yellowstone-faithful"

PROPS = {
    "C18": {
        "level": "exploration",
        "level_text": "Every feasible completion order of 1..6 gated jobs x every outcome vector x every concurrency limit is executed against the real FirstSuccess (plain and under the race detector); the oracle is the statement itself (value of a finished succeeding job / complete error list / returns). Exhaustive inside that scope, nothing beyond it.",
        "level_note": "completion order is controlled at the job-function boundary; termination is decided by goroutine state after all gates are released, never by wall-clock alone; the live-context clause only (cancelled context: termination only)",
        "technique": "runtime monitoring: gated schedule enumeration + result oracle + race detector",
        "rule": "exhaustive enumeration of gated schedules of FirstSuccess",
        "assumptions": ["completion order is enforced at the return of the job function, not at the internal channel send"],
        "race_allow": [r"main\.FirstSuccess", r"main\.\(\*JobGroup"],
        "runs": [
            {"name": "sched", "pkg": ".", "run": "^TestVerifC18$", "timeout": "20m", "timeout_thorough": "60m"},
            {"name": "sched-race", "pkg": ".", "run": "^TestVerifC18$", "race": True, "timeout": "30m", "timeout_thorough": "90m",
             "env": {"VERIF_PART_SUFFIX": "-race"}},
        ],
    },
}

NOT_BUILT = {}
