# Per-property run configuration for bin/check.
# run: name, pkg (relative to /repo), run (go test -run regex), race (bool), tiers, timeout, env
M = r"github\.com/rpcpool/yellowstone-faithful"

PROPS = {
    "C01": {
        "level": "exploration",
        "level_text": "Generated well-formed epoch CARs (reference encoder, own CAR writer, ground-truth section table) are indexed by the repository's own createAllIndexes and every object/slot/signature is looked up through the index readers, a local Epoch, a remote (HTTP ReaderAt + range cache + prefetch) Epoch and /api/v1. Exploration over layout knobs incl. the 10 000-entry bucket boundary; evidence lists the layout signatures reached.",
        "level_note": "trusts ipld-prime bindnode/dag-cbor, go-cid and the generator's own CAR writer as ground truth; Filecoin/lassie mode and split-piece CARs are not exercised",
        "technique": "runtime monitoring: generated workloads + ground-truth model oracle over the real indexer and readers",
        "rule": "see parts",
        "runs": [
            {"name": "indexall", "pkg": ".", "run": "^TestVerifC01$", "timeout": "40m", "timeout_thorough": "180m"},
        ],
    },
    "C02": {
        "level": "exploration",
        "level_text": "Every archived slot and signature of generated epochs (incl. epoch 0 with genesis, multi-frame payloads, skipped slots, vote/failed/v0 transactions) is requested through JSON-RPC (4 encodings) and gRPC (unary and the bidirectional Get) for every non-empty subset of loaded epochs and search concurrency 1, 2, NumCPU, from 16 client goroutines; responses are compared with the generator's model field by field.",
        "level_note": "JSON `json` encoding is compared on signatures, account keys, fee and err only; slot 0's blockTime/previousBlockhash are documented Solana-compatible special cases and not compared; rewards are a diagnostic",
        "technique": "runtime monitoring: generated epochs + model oracle over real handlers, concurrent clients (race detector in the thorough tier)",
        "rule": "see parts",
        "race_allow": [r"main\.\(\*MultiEpoch\)", r"main\.\(\*Epoch\)", r"main\.FirstSuccess", r"/huge-cache\.", r"/compactindexsized\.", r"/bucketteer\.", r"/tooling\."],
        "runs": [
            {"name": "rpc", "pkg": ".", "run": "^TestVerifC02$", "timeout": "40m", "timeout_thorough": "120m", "tiers": ("quick",)},
            {"name": "rpc-race", "pkg": ".", "run": "^TestVerifC02$", "race": True, "timeout": "240m", "timeout_thorough": "240m", "tiers": ("thorough",), "env": {"VERIF_PART_SUFFIX": "-race"}},
        ],
    },
    "C18": {
        "level": "exploration",
        "level_text": "Every feasible completion order of 1..6 gated jobs x every outcome vector x every concurrency limit is executed against the real FirstSuccess (plain and under the race detector); the oracle is the statement itself (value of a finished succeeding job / complete error list / returns). Exhaustive inside that scope, nothing beyond it.",
        "level_note": "completion order is controlled at the job-function boundary; termination is decided by goroutine state after all gates are released, never by wall-clock alone; the live-context clause only (cancelled context: termination only)",
        "technique": "runtime monitoring: gated schedule enumeration + result oracle + race detector",
        "rule": "exhaustive enumeration of gated schedules of FirstSuccess",
        "assumptions": ["completion order is enforced at the return of the job function, not at the internal channel send"],
        "race_allow": [r"main\.FirstSuccess", r"main\.\(\*JobGroup"],
        "runs": [
            {"name": "sched", "pkg": ".", "run": "^TestVerifC18$", "timeout": "20m", "timeout_thorough": "60m"},
            {"name": "sched-race", "pkg": ".", "run": "^TestVerifC18$", "race": True, "timeout": "30m", "timeout_thorough": "90m",
             "env": {"VERIF_PART_SUFFIX": "-race"}},
        ],
    },
}

NOT_BUILT = {}
