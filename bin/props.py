# Per-property run configuration for bin/check: one file bin/props.d/<ID>.py per property, defining PROP = {...}
#   level, level_text, level_note, technique, rule, assumptions, race_allow (regexes over the innermost repo frame of a
#   racing access), runs: [{name, pkg (relative to /repo), run (go test -run regex), race, tiers, timeout,
#   timeout_thorough, env}]
import glob, os
PROPS = {}
for _p in sorted(glob.glob(os.path.join(os.path.dirname(os.path.abspath(__file__)), "props.d", "C*.py"))):
    _ns = {}
    exec(open(_p).read(), _ns)
    PROPS[os.path.basename(_p)[:-3]] = _ns["PROP"]
NOT_BUILT = {}
