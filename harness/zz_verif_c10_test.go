//go:build verif

package main

// C10 — an epoch is served only from indexes built for that epoch and CAR.
// Fixtures: A (epoch 5, CAR X), B (epoch 6, CAR Y), A2 (epoch 5, CAR Z != X).  Matrix: every index role x
// every donor {B, A2, a file of another role, per-field variants built with the repository's own writers}
// singly, and all pairs of roles with donors B and A2.  Oracle: NewEpochFromConfig must fail whenever a
// substituted file differs in kind, epoch or a root CID it carries from the rest of the configuration.
// Round trip: the identity written at build time is read back unchanged.  Wrong CAR: CID-addressed
// fetches fail or return bytes whose CID equals the request.

import (
	"bytes"
	"context"
	"fmt"
	"io"
	"os"
	"path/filepath"
	"sort"
	"strings"
	"sync"
	"testing"

	"github.com/ipfs/go-cid"
	"github.com/rpcpool/yellowstone-faithful/blocktimeindex"
	"github.com/rpcpool/yellowstone-faithful/bucketteer"
	"github.com/rpcpool/yellowstone-faithful/deprecated/compactindex36"
	"github.com/rpcpool/yellowstone-faithful/gsfa"
	"github.com/rpcpool/yellowstone-faithful/indexes"
	"github.com/rpcpool/yellowstone-faithful/indexmeta"
	"github.com/rpcpool/yellowstone-faithful/zzverif/cargen"
	"github.com/rpcpool/yellowstone-faithful/zzverif/ev"
)

type c10Case struct {
	Seed  int64             `json:"seed"`
	Subst map[string]string `json:"substitutions"` // role -> donor description
	Note  string            `json:"note"`
}

func c10Copy(dst, src string) error {
	in, err := os.Open(src)
	if err != nil {
		return err
	}
	defer in.Close()
	os.MkdirAll(filepath.Dir(dst), 0o755)
	out, err := os.Create(dst)
	if err != nil {
		return err
	}
	defer out.Close()
	_, err = io.Copy(out, in)
	return err
}

func c10CopyDir(dst, src string) error {
	ents, err := os.ReadDir(src)
	if err != nil {
		return err
	}
	for _, e := range ents {
		if e.IsDir() {
			continue
		}
		if err := c10Copy(filepath.Join(dst, e.Name()), filepath.Join(src, e.Name())); err != nil {
			return err
		}
	}
	return nil
}

func TestVerifC10(t *testing.T) {
	rec := ev.New("C10", "swap-matrix")
	defer rec.Flush()
	rec.Rule("every index role {cid_to_offset_and_size, slot_to_cid, sig_to_cid, sig_exists, gsfa dir, gsfa manifest alone, gsfa pubkey index alone, slot_to_blocktime} x donor {other epoch, same epoch other CAR, file of another role, same content with one identity field (epoch / root CID / kind) changed}, singly and in pairs; the file roles again with the index fetched over HTTP; a current-format sibling of another epoch/CAR beside A's own legacy-format slot-to-cid / sig-to-cid; identity round trip; wrong-CAR fetches; fetches from a CAR cut short behind a piece-style reader; distinct = distinct (role(s), donor, field) substitutions")
	seed := ev.Seed()
	root := filepath.Join(ev.Scratch(), "c10")
	os.MkdirAll(root, 0o755)
	defer os.RemoveAll(root)
	mk := func(name string, epoch uint64, s int64) cargen.Opts {
		return cargen.Opts{Epoch: epoch, Seed: seed*11 + s, NSlots: 40, SkipOneIn: 4, MaxEntries: 2, MaxTx: 3, MultiFrameOneIn: 5, RewardsOneIn: 3, VoteOneIn: 4, FailOneIn: 4, V0OneIn: 4}
	}
	names := []string{"A", "B", "A2"}
	opts := []cargen.Opts{mk("A", 5, 1), mk("B", 6, 2), mk("A2", 5, 3)}
	fx := map[string]*vfEpochFx{}
	var mu sync.Mutex
	var wg sync.WaitGroup
	for i := range names {
		wg.Add(1)
		go func(i int) {
			defer wg.Done()
			f, ierr, err := vfMakeEpoch(filepath.Join(root, names[i]), opts[i], true)
			if err != nil || ierr != "" {
				t.Errorf("fixture %s: %v %s", names[i], err, ierr)
				return
			}
			mu.Lock()
			fx[names[i]] = f
			mu.Unlock()
		}(i)
	}
	wg.Wait()
	if t.Failed() {
		t.FailNow()
	}
	A, B, A2 := fx["A"], fx["B"], fx["A2"]
	if A.Model.Root.Equals(A2.Model.Root) {
		t.Fatalf("fixtures A and A2 have the same root")
	}
	ctx := context.Background()

	// ---- identity round trip
	for _, f := range []*vfEpochFx{A, B, A2} {
		m := f.Model
		chk := func(what string, md *indexes.Metadata, kind []byte) {
			rec.Eval(1)
			if md == nil || md.Epoch != m.Epoch || !md.RootCid.Equals(m.Root) || md.Network != indexes.NetworkMainnet || !bytes.Equal(md.IndexKind, kind) {
				rec.Violation("identity-round-trip/"+what, fmt.Sprintf("epoch %d root %s: read back %+v", m.Epoch, m.Root, md), c10Case{Seed: seed, Note: what})
			}
			rec.Distinct("roundtrip/" + what)
		}
		if r, err := indexes.Open_CidToOffsetAndSize(f.Idx.CidToOffsetAndSize); err == nil {
			chk("cid_to_offset_and_size", r.Meta(), indexes.Kind_CidToOffsetAndSize)
			r.Close()
		} else {
			rec.Violation("identity-round-trip/open", err.Error(), c10Case{Seed: seed})
		}
		if r, err := indexes.Open_SlotToCid(f.Idx.SlotToCid); err == nil {
			chk("slot_to_cid", r.Meta(), indexes.Kind_SlotToCid)
			r.Close()
		}
		if r, err := indexes.Open_SigToCid(f.Idx.SigToCid); err == nil {
			chk("sig_to_cid", r.Meta(), indexes.Kind_SigToCid)
			r.Close()
		}
		if r, err := indexes.Open_PubkeyToOffsetAndSize(filepath.Join(f.Idx.GsfaDir, string(indexes.Kind_PubkeyToOffsetAndSize)+".index")); err == nil {
			chk("gsfa-pubkey-index", r.Meta(), indexes.Kind_PubkeyToOffsetAndSize)
			r.Close()
		}
		if r, err := bucketteer.Open(f.Idx.SigExists); err == nil {
			rec.Eval(1)
			e, ok1 := r.Meta().GetUint64(indexmeta.MetadataKey_Epoch)
			c, ok2 := r.Meta().GetCid(indexmeta.MetadataKey_RootCid)
			if !ok1 || !ok2 || e != m.Epoch || !c.Equals(m.Root) {
				rec.Violation("identity-round-trip/sig_exists", fmt.Sprintf("epoch %d root %s: read back %d %s", m.Epoch, m.Root, e, c), c10Case{Seed: seed})
			}
			rec.Distinct("roundtrip/sig_exists")
			r.Close()
		}
		if r, err := gsfa.NewGsfaReader(f.Idx.GsfaDir); err == nil {
			rec.Eval(1)
			e, ok1 := r.Meta().GetUint64(indexmeta.MetadataKey_Epoch)
			c, ok2 := r.Meta().GetCid(indexmeta.MetadataKey_RootCid)
			if !ok1 || !ok2 || e != m.Epoch || !c.Equals(m.Root) {
				rec.Violation("identity-round-trip/gsfa-manifest", fmt.Sprintf("epoch %d root %s: read back %d %s", m.Epoch, m.Root, e, c), c10Case{Seed: seed})
			}
			rec.Distinct("roundtrip/gsfa-manifest")
			r.Close()
		}
		if bt, err := blocktimeindex.FromFile(f.Idx.SlotToBlocktime); err == nil {
			rec.Eval(1)
			if bt.Epoch() != m.Epoch {
				rec.Violation("identity-round-trip/slot_to_blocktime", fmt.Sprintf("epoch %d read back %d", m.Epoch, bt.Epoch()), c10Case{Seed: seed})
			}
			rec.Distinct("roundtrip/slot_to_blocktime")
		}
	}

	// ---- substitution matrix
	type donor struct {
		name string
		fx   *vfEpochFx
		// what differs from A in the identity this donor's files carry
		epochDiffers, rootDiffers bool
	}
	donors := []donor{{"B(other epoch, other CAR)", B, true, true}, {"A2(same epoch, other CAR)", A2, false, true}}
	roles := []string{"cid_to_offset_and_size", "slot_to_cid", "sig_to_cid", "sig_exists", "gsfa", "gsfa-manifest", "gsfa-pubkey-index", "slot_to_blocktime"}
	carriesRoot := map[string]bool{"cid_to_offset_and_size": true, "slot_to_cid": true, "sig_to_cid": true, "sig_exists": true, "gsfa": true, "gsfa-manifest": true, "gsfa-pubkey-index": true, "slot_to_blocktime": false}
	pathOf := func(f *vfEpochFx, role string) string {
		switch role {
		case "cid_to_offset_and_size":
			return f.Idx.CidToOffsetAndSize
		case "slot_to_cid":
			return f.Idx.SlotToCid
		case "sig_to_cid":
			return f.Idx.SigToCid
		case "sig_exists":
			return f.Idx.SigExists
		case "slot_to_blocktime":
			return f.Idx.SlotToBlocktime
		case "gsfa":
			return f.Idx.GsfaDir
		}
		return ""
	}
	variantN := 0
	// apply returns the config override for putting donor's file into the role (may build a scratch gsfa dir)
	apply := func(ov map[string]string, role string, d *vfEpochFx) {
		switch role {
		case "gsfa-manifest", "gsfa-pubkey-index":
			variantN++
			dir := filepath.Join(root, fmt.Sprintf("gsfa-variant-%d", variantN))
			base := A.Idx.GsfaDir
			if cur, ok := ov["gsfa"]; ok {
				base = cur
			}
			if err := c10CopyDir(dir, base); err != nil {
				t.Fatal(err)
			}
			fn := "manifest"
			if role == "gsfa-pubkey-index" {
				fn = string(indexes.Kind_PubkeyToOffsetAndSize) + ".index"
			}
			if err := c10Copy(filepath.Join(dir, fn), filepath.Join(d.Idx.GsfaDir, fn)); err != nil {
				t.Fatal(err)
			}
			ov["gsfa"] = dir
		default:
			ov[role] = pathOf(d, role)
		}
	}
	cfgN := 0
	tryLoad := func(ov map[string]string) error {
		cfgN++
		ov["__name"] = fmt.Sprintf("variant-%d.yml", cfgN)
		if err := A.writeConfig("", ov); err != nil {
			t.Fatal(err)
		}
		ep, err := A.vfLoad(vfNewCache())
		if err == nil {
			ep.Close()
		}
		return err
	}
	// sanity: the unmodified configuration loads
	if err := tryLoad(map[string]string{}); err != nil {
		t.Fatalf("unmodified configuration does not load: %v", err)
	}
	// singles
	for _, role := range roles {
		for _, d := range donors {
			ov := map[string]string{}
			apply(ov, role, d.fx)
			err := tryLoad(ov)
			rec.Eval(1)
			mustFail := d.epochDiffers || (d.rootDiffers && carriesRoot[role])
			c := c10Case{Seed: seed, Subst: map[string]string{role: d.name}}
			if mustFail && err == nil {
				rec.Violation("epoch-loads-with-foreign-index/"+role, fmt.Sprintf("role %s taken from %s: the epoch loaded although the file records a different %s", role, d.name, c10What(d.epochDiffers, d.rootDiffers && carriesRoot[role])), c)
			}
			rec.Distinct(fmt.Sprintf("single/%s/%s", role, d.name))
		}
	}
	// a file of another role in each role (kind mismatch); same epoch and root, so only the kind differs
	fileRoles := []string{"cid_to_offset_and_size", "slot_to_cid", "sig_to_cid", "sig_exists", "slot_to_blocktime"}
	for _, role := range fileRoles {
		for _, other := range fileRoles {
			if other == role {
				continue
			}
			ov := map[string]string{role: pathOf(A, other)}
			err := tryLoad(ov)
			rec.Eval(1)
			if err == nil {
				rec.Violation("epoch-loads-with-wrong-kind/"+role, fmt.Sprintf("the %s file was configured as %s and the epoch loaded", other, role), c10Case{Seed: seed, Subst: map[string]string{role: "A's " + other + " file"}})
			}
			rec.Distinct(fmt.Sprintf("kind/%s/%s", role, other))
		}
	}
	// pairs
	for i := 0; i < len(roles); i++ {
		for j := i + 1; j < len(roles); j++ {
			ri, rj := roles[i], roles[j]
			if (ri == "gsfa" && strings.HasPrefix(rj, "gsfa-")) || (rj == "gsfa" && strings.HasPrefix(ri, "gsfa-")) {
				continue
			}
			for _, d := range donors {
				ov := map[string]string{}
				apply(ov, ri, d.fx)
				apply(ov, rj, d.fx)
				err := tryLoad(ov)
				rec.Eval(1)
				// other root-carrying roles still come from A, so a donor root in any root-carrying role is a mismatch
				mustFail := d.epochDiffers || (d.rootDiffers && (carriesRoot[ri] || carriesRoot[rj]))
				if mustFail && err == nil {
					rec.Violation("epoch-loads-with-foreign-index/"+ri+"+"+rj, fmt.Sprintf("roles %s and %s taken from %s: the epoch loaded", ri, rj, d.name), c10Case{Seed: seed, Subst: map[string]string{ri: d.name, rj: d.name}})
				}
				rec.Distinct(fmt.Sprintf("pair/%s/%s/%s", ri, rj, d.name))
			}
		}
	}
	// per-field variants built with the repository's own writers: same content as A, one identity field changed
	{
		vdir := filepath.Join(root, "fieldvariants")
		os.MkdirAll(vdir, 0o755)
		type variant struct {
			field string
			epoch uint64
			root  cid.Cid
		}
		variants := []variant{{"epoch", B.Model.Epoch, A.Model.Root}, {"root", A.Model.Epoch, B.Model.Root}}
		for vi, v := range variants {
			sub := filepath.Join(vdir, fmt.Sprint(vi))
			tmp := filepath.Join(sub, "tmp")
			os.MkdirAll(tmp, 0o755)
			// cid-to-offset-and-size
			if w, err := indexes.NewWriter_CidToOffsetAndSize(v.epoch, v.root, indexes.NetworkMainnet, tmp, uint64(len(A.Model.Sections))); err == nil {
				for _, s := range A.Model.Sections {
					w.Put(s.Cid, s.Offset, s.Len)
				}
				if err := w.Seal(ctx, sub); err == nil {
					p := w.GetFilepath()
					w.Close()
					err := tryLoad(map[string]string{"cid_to_offset_and_size": p})
					rec.Eval(1)
					if err == nil {
						rec.Violation("epoch-loads-with-foreign-index/cid_to_offset_and_size", fmt.Sprintf("same content, %s field of another epoch/CAR: the epoch loaded", v.field), c10Case{Seed: seed, Subst: map[string]string{"cid_to_offset_and_size": "A's content with " + v.field + " changed"}})
					}
					rec.Distinct("field/cid_to_offset_and_size/" + v.field)
				}
			}
			os.MkdirAll(tmp, 0o755)
			if w, err := indexes.NewWriter_SlotToCid(v.epoch, v.root, indexes.NetworkMainnet, tmp, uint64(len(A.Model.Blocks))); err == nil {
				for _, b := range A.Model.Blocks {
					w.Put(b.Slot, b.Cid)
				}
				if err := w.Seal(ctx, sub); err == nil {
					p := w.GetFilepath()
					w.Close()
					err := tryLoad(map[string]string{"slot_to_cid": p})
					rec.Eval(1)
					if err == nil {
						rec.Violation("epoch-loads-with-foreign-index/slot_to_cid", fmt.Sprintf("same content, %s field of another epoch/CAR: the epoch loaded", v.field), c10Case{Seed: seed, Subst: map[string]string{"slot_to_cid": "A's content with " + v.field + " changed"}})
					}
					rec.Distinct("field/slot_to_cid/" + v.field)
				}
			}
			os.MkdirAll(tmp, 0o755)
			if w, err := indexes.NewWriter_SigToCid(v.epoch, v.root, indexes.NetworkMainnet, tmp, uint64(len(A.Model.BySig))); err == nil {
				for sig, tx := range A.Model.BySig {
					w.Put(sig, tx.Cid)
				}
				if err := w.Seal(ctx, sub); err == nil {
					p := w.GetFilepath()
					w.Close()
					err := tryLoad(map[string]string{"sig_to_cid": p})
					rec.Eval(1)
					if err == nil {
						rec.Violation("epoch-loads-with-foreign-index/sig_to_cid", fmt.Sprintf("same content, %s field of another epoch/CAR: the epoch loaded", v.field), c10Case{Seed: seed, Subst: map[string]string{"sig_to_cid": "A's content with " + v.field + " changed"}})
					}
					rec.Distinct("field/sig_to_cid/" + v.field)
				}
			}
		}
		// gsfa directories (manifest + pubkey index, no entries) built with the repository's writer for A's
		// root with B's epoch, and for A's epoch with B's root
		for vi, v := range variants {
			gdir := filepath.Join(vdir, fmt.Sprintf("gsfa-%d", vi))
			gtmp := filepath.Join(vdir, fmt.Sprintf("gsfa-tmp-%d", vi))
			os.MkdirAll(gtmp, 0o755)
			meta := indexmeta.Meta{}
			meta.AddUint64(indexmeta.MetadataKey_Epoch, v.epoch)
			meta.AddCid(indexmeta.MetadataKey_RootCid, v.root)
			meta.AddString(indexmeta.MetadataKey_Network, string(indexes.NetworkMainnet))
			w, err := gsfa.NewGsfaWriter(gdir, meta, v.epoch, v.root, indexes.NetworkMainnet, gtmp)
			if err != nil {
				rec.Inconclusive("gsfa variant: " + err.Error())
				continue
			}
			if err := w.Close(); err != nil {
				rec.Inconclusive("gsfa variant close: " + err.Error())
				continue
			}
			lerr := tryLoad(map[string]string{"gsfa": gdir})
			rec.Eval(1)
			if lerr == nil {
				rec.Violation("epoch-loads-with-foreign-index/gsfa", fmt.Sprintf("a gsfa index built by the repository's writer whose recorded %s is another epoch's / CAR's: the epoch loaded", v.field), c10Case{Seed: seed, Subst: map[string]string{"gsfa": "empty gsfa index with A's identity except the " + v.field}})
			}
			rec.Distinct("field/gsfa/" + v.field)
		}
		// blocktime index whose recorded epoch field alone is another epoch's (slot range untouched).
		// Layout written by the repository: magic "blocktimeindex" (14) | start u64 | end u64 | epoch u64 | capacity u64 | values.
		if raw, err := os.ReadFile(A.Idx.SlotToBlocktime); err == nil && len(raw) > 46 && string(raw[:14]) == "blocktimeindex" {
			mod := append([]byte{}, raw...)
			for i := 0; i < 8; i++ {
				mod[30+i] = byte(B.Model.Epoch >> (8 * uint(i)))
			}
			p := filepath.Join(vdir, "blocktime-epoch-field.index")
			os.WriteFile(p, mod, 0o644)
			err := tryLoad(map[string]string{"slot_to_blocktime": p})
			rec.Eval(1)
			if err == nil {
				rec.Violation("epoch-loads-with-foreign-index/slot_to_blocktime", fmt.Sprintf("block-time index of epoch %d whose recorded epoch field is %d: the epoch loaded", A.Model.Epoch, B.Model.Epoch), c10Case{Seed: seed, Subst: map[string]string{"slot_to_blocktime": "A's file with the recorded epoch field of B"}})
			}
			// and the value must read back unchanged
			if bt, e2 := blocktimeindex.FromBytes(mod); e2 == nil && bt.Epoch() != B.Model.Epoch {
				rec.Violation("identity-round-trip/slot_to_blocktime", fmt.Sprintf("file records epoch %d, read back %d", B.Model.Epoch, bt.Epoch()), c10Case{Seed: seed, Note: "epoch field patched"})
			}
			rec.Distinct("field/slot_to_blocktime/epoch")
		} else {
			rec.Count("diag_blocktime_layout_unknown", 1)
		}
	}

	// ---- the same substitutions with the index fetched over HTTP (a remote index goes through another
	// reader and, in the loader, through its own branches)
	{
		srv := vfServeDir(root)
		urlOf := func(p string) string {
			rel, _ := filepath.Rel(root, p)
			return srv.URL + "/" + filepath.ToSlash(rel)
		}
		for _, role := range fileRoles {
			// control: A's own file over HTTP must load, otherwise a refusal below proves nothing
			if err := tryLoad(map[string]string{role: urlOf(pathOf(A, role))}); err != nil {
				rec.Inconclusive(fmt.Sprintf("remote control: A's own %s over HTTP does not load: %v", role, err))
				continue
			}
			for _, d := range donors {
				err := tryLoad(map[string]string{role: urlOf(pathOf(d.fx, role))})
				rec.Eval(1)
				mustFail := d.epochDiffers || (d.rootDiffers && carriesRoot[role])
				if mustFail && err == nil {
					rec.Violation("epoch-loads-with-foreign-index/"+role+"/remote", fmt.Sprintf("role %s fetched over HTTP from %s: the epoch loaded although the file records a different %s", role, d.name, c10What(d.epochDiffers, d.rootDiffers && carriesRoot[role])), c10Case{Seed: seed, Subst: map[string]string{role: d.name + " over HTTP"}})
				}
				rec.Distinct(fmt.Sprintf("remote/%s/%s", role, d.name))
			}
		}
		srv.Close()
	}

	// ---- mixed formats: A's own slot-to-cid / sig-to-cid in the legacy format (which records no identity)
	// next to a current-format index of another epoch / CAR in the sibling role: the sibling's identity must
	// still be checked
	{
		ldir := filepath.Join(root, "legacy")
		os.MkdirAll(ldir, 0o755)
		build36 := func(name string, n int, each func(put func(key []byte, c cid.Cid) error) error) (string, error) {
			tmp := filepath.Join(ldir, name+"-tmp")
			os.MkdirAll(tmp, 0o755)
			b, err := compactindex36.NewBuilder(tmp, uint(n), 0)
			if err != nil {
				return "", err
			}
			defer b.Close()
			if err := each(func(key []byte, c cid.Cid) error {
				var v [36]byte
				copy(v[:], c.Bytes())
				return b.Insert(key, v)
			}); err != nil {
				return "", err
			}
			p := filepath.Join(ldir, name)
			f, err := os.Create(p)
			if err != nil {
				return "", err
			}
			defer f.Close()
			return p, b.Seal(ctx, f)
		}
		oldSlot, err1 := build36("epoch-5.car.slot-to-cid.index", len(A.Model.Blocks), func(put func([]byte, cid.Cid) error) error {
			for _, b := range A.Model.Blocks {
				if err := put(indexes.Uint64tob(b.Slot), b.Cid); err != nil {
					return err
				}
			}
			return nil
		})
		nTx := 0
		for _, b := range A.Model.Blocks {
			nTx += len(b.Txs)
		}
		oldSig, err2 := build36("epoch-5.car.sig-to-cid.index", nTx, func(put func([]byte, cid.Cid) error) error {
			for _, b := range A.Model.Blocks {
				for _, tx := range b.Txs {
					if err := put(tx.Sig[:], tx.Cid); err != nil {
						return err
					}
				}
			}
			return nil
		})
		if err1 != nil || err2 != nil {
			rec.Inconclusive(fmt.Sprintf("legacy index fixtures: %v %v", err1, err2))
		} else {
			for _, m := range []struct{ legacyRole, legacyPath, sibling string }{{"slot_to_cid", oldSlot, "sig_to_cid"}, {"sig_to_cid", oldSig, "slot_to_cid"}} {
				if err := tryLoad(map[string]string{m.legacyRole: m.legacyPath}); err != nil {
					rec.Inconclusive(fmt.Sprintf("legacy control: A with its own legacy-format %s does not load: %v", m.legacyRole, err))
					continue
				}
				for _, d := range donors {
					err := tryLoad(map[string]string{m.legacyRole: m.legacyPath, m.sibling: pathOf(d.fx, m.sibling)})
					rec.Eval(1)
					if err == nil {
						rec.Violation("epoch-loads-with-foreign-index/"+m.sibling+"/beside-legacy-"+m.legacyRole, fmt.Sprintf("A's own %s in the legacy format and the %s of %s: the epoch loaded", m.legacyRole, m.sibling, d.name), c10Case{Seed: seed, Subst: map[string]string{m.legacyRole: "A's own content, legacy format", m.sibling: d.name}})
					}
					rec.Distinct(fmt.Sprintf("mixed/%s/%s", m.legacyRole, d.name))
				}
			}
		}
	}

	// ---- wrong CAR: A's indexes with CAR Z (same epoch) and CAR Y; local and remote reader
	for _, wrong := range []*vfEpochFx{A2, B} {
		for _, remote := range []bool{false, true} {
			carURI := wrong.CarPath
			var closeSrv func()
			if remote {
				srv := vfServeDir(wrong.Dir)
				carURI = srv.URL + "/" + filepath.Base(wrong.CarPath)
				closeSrv = srv.Close
			}
			cfgN++
			ov := map[string]string{"car": carURI, "__name": fmt.Sprintf("wrongcar-%d.yml", cfgN)}
			if err := A.writeConfig("", ov); err != nil {
				t.Fatal(err)
			}
			ep, err := A.vfLoad(vfNewCache())
			if err != nil {
				// refusing to load is fine
				rec.Count("wrong_car_refused_at_load", 1)
			} else {
				for _, s := range A.Model.Sections {
					rec.Eval(1)
					data, err := ep.GetNodeByCid(ctx, s.Cid)
					if err != nil {
						continue
					}
					if !cargen.CidOf(data).Equals(s.Cid) && !bytes.Equal(data, s.Data) {
						rec.Violation(fmt.Sprintf("wrong-car-served-foreign-bytes/remote=%v", remote), fmt.Sprintf("indexes of CAR X with the CAR of epoch %d: GetNodeByCid(%s) returned %d bytes of another object", wrong.Model.Epoch, s.Cid, len(data)), c10Case{Seed: seed, Note: fmt.Sprintf("car=%s remote=%v cid=%s", filepath.Base(wrong.CarPath), remote, s.Cid)})
						break
					}
				}
				ep.Close()
			}
			rec.Distinct(fmt.Sprintf("wrongcar/%d/%v", wrong.Model.Epoch, remote))
			if closeSrv != nil {
				closeSrv()
			}
		}
	}
	// ---- a CAR that is shorter than the one the indexes were built from (a missing last piece, an upload cut
	// short), read through a piece-style reader that reports a short read as (n, io.EOF) - as the split-CAR
	// multi-reader does: an object that straddles the end must fail, never come back padded
	{
		carBytes, err := os.ReadFile(A.CarPath)
		if err != nil {
			t.Fatal(err)
		}
		last := A.Model.Sections[len(A.Model.Sections)-1]
		mid := A.Model.Sections[len(A.Model.Sections)*2/3]
		cuts := []uint64{last.Offset + last.Len - 1, last.Offset + last.Len/2, last.Offset + 45, mid.Offset + mid.Len - 3, mid.Offset + mid.Len/2}
		for _, cut := range cuts {
			if cut == 0 || cut >= uint64(len(carBytes)) {
				continue
			}
			if err := tryLoad(map[string]string{}); err != nil {
				t.Fatal(err)
			}
			ep, err := A.vfLoad(vfNewCache())
			if err != nil {
				t.Fatal(err)
			}
			ep.localCarReader = nil
			ep.remoteCarReader = c10ShortCar(carBytes[:cut])
			nFail, nOK := 0, 0
			for _, sct := range A.Model.Sections {
				if sct.Offset+sct.Len <= cut-200 && sct.Offset+sct.Len > 300 {
					continue // far from the cut: covered elsewhere
				}
				rec.Eval(1)
				data, err := ep.GetNodeByCid(ctx, sct.Cid)
				if err != nil {
					nFail++
					continue
				}
				nOK++
				if !bytes.Equal(data, sct.Data) {
					rec.Violation("short-car-served-padded-bytes", fmt.Sprintf("CAR of %d bytes cut at %d: GetNodeByCid(%s) (section at %d, %d bytes) returned %d bytes that are not the object's", len(carBytes), cut, sct.Cid, sct.Offset, sct.Len, len(data)), c10Case{Seed: seed, Note: fmt.Sprintf("cut=%d cid=%s", cut, sct.Cid)})
					break
				}
			}
			rec.Count("short_car_fetches_failed", nFail)
			rec.Count("short_car_fetches_exact", nOK)
			rec.Distinct(fmt.Sprintf("shortcar/%d", cut))
			ep.Close()
		}
	}
	var ks []string
	for k := range fx {
		ks = append(ks, k)
	}
	sort.Strings(ks)
	rec.Sample(map[string]any{"fixtures": ks, "roles": roles, "configs_tried": cfgN})
}

func c10What(epoch, root bool) string {
	switch {
	case epoch && root:
		return "epoch and root CID"
	case epoch:
		return "epoch"
	}
	return "root CID"
}

// c10ShortCar serves a byte slice like one piece of a split CAR: a read that reaches past the end returns the
// bytes there are together with io.EOF.
type c10ShortCar []byte

func (b c10ShortCar) ReadAt(p []byte, off int64) (int, error) {
	if off < 0 || off >= int64(len(b)) {
		return 0, io.EOF
	}
	n := copy(p, b[off:])
	if n < len(p) {
		return n, io.EOF
	}
	return n, nil
}

func (b c10ShortCar) Close() error { return nil }
