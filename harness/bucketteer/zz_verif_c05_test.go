//go:build verif

package bucketteer

// C05 — signature-existence index has no false negatives (current file format, version 2).
// Workload, model and oracle live in zzverif/c05kit; this file adapts the real Writer / Reader.
// Every case runs in its own child process: NewWriter pre-allocates 65 536 x 16 000 x 8 bytes and a
// second writer in one process costs ~50 s of GC.

import (
	"fmt"
	"io"
	"testing"

	"github.com/rpcpool/yellowstone-faithful/indexmeta"
	"github.com/rpcpool/yellowstone-faithful/zzverif/c05kit"
	"github.com/rpcpool/yellowstone-faithful/zzverif/ev"
)

type c05Writer struct{ w *Writer }

func (x c05Writer) Put(s [64]byte)      { x.w.Put(s) }
func (x c05Writer) Has(s [64]byte) bool { return x.w.Has(s) }
func (x c05Writer) Close() error        { return x.w.Close() }
func (x c05Writer) Seal(kvs []c05kit.KV) (int64, error) {
	var m indexmeta.Meta
	for _, kv := range kvs {
		if err := m.Add(kv.K, kv.V); err != nil {
			return 0, fmt.Errorf("%w: meta.Add: %v", c05kit.ErrHarness, err)
		}
	}
	return x.w.Seal(m)
}

func c05Format() c05kit.Format {
	return c05kit.Format{
		Name: "current", Pkg: "bucketteer",
		NewWriter: func(path string) (c05kit.Writer, error) {
			w, err := NewWriter(path)
			if err != nil {
				return nil, err
			}
			return c05Writer{w}, nil
		},
		Open: func(path string) (c05kit.Reader, error) {
			r, err := Open(path)
			if err != nil {
				return nil, err
			}
			return r, nil
		},
		NewReader: func(ra io.ReaderAt) (c05kit.Reader, error) {
			r, err := NewReader(ra)
			if err != nil {
				return nil, err
			}
			return r, nil
		},
	}
}

// TestVerifC05Child is the entry point of the per-case child processes.
func TestVerifC05Child(t *testing.T) {
	isChild, err := c05kit.ChildMain(c05Format())
	if !isChild {
		t.Skip("not a child")
	}
	if err != nil {
		t.Fatalf("child: %v", err)
	}
}

func TestVerifC05(t *testing.T) {
	rec := ev.New("C05", "current-format")
	defer rec.Flush()
	cases := c05kit.Cases(ev.Seed(), ev.Thorough(), ev.Pick(6, 60))
	c05kit.Drive(rec, c05Format(), cases, "TestVerifC05Child", 4)
}
