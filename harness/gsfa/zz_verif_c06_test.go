//go:build verif

package gsfa

// C06 — the address index returns every indexed transaction of an address, newest first.
// Model: per address the list of (offset,size,slot,flags) in push order; after Close,
// NewGsfaReader(dir).Get(addr, "all") must equal the reversed list exactly.
// This file: the real-threshold monitors (batch size 1000, periodic partial flush at > 100 000
// distinct addresses).  The shrunk-threshold schedule exploration lives in zz_verif_c06_sched_test.go.

import (
	"context"
	"fmt"
	"math/rand"
	"os"
	"path/filepath"
	"sync"
	"testing"

	"github.com/gagliardetto/solana-go"
	"github.com/rpcpool/yellowstone-faithful/gsfa/linkedlog"
	"github.com/rpcpool/yellowstone-faithful/indexes"
	"github.com/rpcpool/yellowstone-faithful/indexmeta"
	"github.com/rpcpool/yellowstone-faithful/zzverif/cargen"
	"github.com/rpcpool/yellowstone-faithful/zzverif/ev"
)

type c06Entry struct {
	Offset, Size, Slot uint64
	Flags              byte
}

type c06Model struct {
	order []solana.PublicKey
	m     map[solana.PublicKey][]c06Entry
}

func newC06Model() *c06Model { return &c06Model{m: map[solana.PublicKey][]c06Entry{}} }

type c06Case struct {
	Name string `json:"name"`
	// Hot: per hot address, the number of entries
	Hot []int `json:"hot_counts"`
	// Cold: number of cold addresses (each gets 1..ColdMax entries)
	Cold    int   `json:"cold_addresses"`
	ColdMax int   `json:"cold_max_entries"`
	Seed    int64 `json:"seed"`
	// MultiKey: probability (percent) that a push carries 2..4 addresses
	MultiKey int `json:"multi_key_percent"`
	// SlotStep: slots advance by 1 every SlotStep pushes
	SlotStep int `json:"slot_step"`
	// Wide > 0: before everything else, WidePushes pushes that each name the same Wide addresses (they all
	// fill their batches at the same push: a burst of full batches towards the background writer)
	Wide       int `json:"wide_addresses,omitempty"`
	WidePushes int `json:"wide_pushes,omitempty"`
}

func c06Key(i int, tag byte) solana.PublicKey {
	var k solana.PublicKey
	k[0] = tag
	k[1], k[2], k[3], k[4] = byte(i>>24), byte(i>>16), byte(i>>8), byte(i)
	// spread over the hash space
	x := uint64(i)*0x9E3779B97F4A7C15 + uint64(tag)
	for j := 8; j < 32; j++ {
		x ^= x >> 13
		x *= 0xff51afd7ed558ccd
		k[j] = byte(x >> 24)
	}
	return k
}

// c06Run drives one writer life cycle and compares every address with the model.
func c06Run(rec *ev.Recorder, c c06Case, root string) {
	dir := filepath.Join(root, c.Name)
	os.RemoveAll(dir)
	defer os.RemoveAll(dir)
	tmp := filepath.Join(dir, "tmp")
	os.MkdirAll(tmp, 0o755)
	idx := filepath.Join(dir, "gsfa")
	rootCid := cargen.CidOf([]byte("c06"))
	meta := indexmeta.Meta{}
	meta.AddUint64(indexmeta.MetadataKey_Epoch, 7)
	w, err := NewGsfaWriter(idx, meta, 7, rootCid, indexes.NetworkMainnet, tmp)
	if err != nil {
		rec.Inconclusive(fmt.Sprintf("%s: NewGsfaWriter: %v", c.Name, err))
		return
	}
	rng := rand.New(rand.NewSource(c.Seed))
	model := newC06Model()
	// the multiset of (address) occurrences to push, shuffled: hot addresses interleaved with cold ones
	type occ struct{ k solana.PublicKey }
	var occs []solana.PublicKey
	for hi, n := range c.Hot {
		k := c06Key(hi, 0xAA)
		for i := 0; i < n; i++ {
			occs = append(occs, k)
		}
	}
	for ci := 0; ci < c.Cold; ci++ {
		k := c06Key(ci, 0xCC)
		n := 1
		if c.ColdMax > 1 {
			n = 1 + rng.Intn(c.ColdMax)
		}
		for i := 0; i < n; i++ {
			occs = append(occs, k)
		}
	}
	rng.Shuffle(len(occs), func(i, j int) { occs[i], occs[j] = occs[j], occs[i] })
	step := c.SlotStep
	if step <= 0 {
		step = 3
	}
	slot := uint64(7*432000) + 1
	off := uint64(100)
	pushes := 0
	if c.Wide > 0 {
		wide := make(solana.PublicKeySlice, c.Wide)
		for i := range wide {
			wide[i] = c06Key(i, 0xBB)
			model.order = append(model.order, wide[i])
		}
		for p := 0; p < c.WidePushes; p++ {
			e := c06Entry{Offset: off, Size: uint64(40 + p%900), Slot: slot, Flags: byte(p % 8)}
			off += e.Size
			if err := w.Push(e.Offset, e.Size, e.Slot, wide, e.Flags&1 != 0, e.Flags&2 != 0, e.Flags&4 != 0); err != nil {
				rec.Violation("GsfaWriter.Push/error", fmt.Sprintf("%s: wide push %d: %v", c.Name, p, err), c)
				return
			}
			for _, k := range wide {
				model.m[k] = append(model.m[k], e)
			}
			pushes++
			if p%7 == 6 {
				slot++
				if slot%500 == 0 {
					slot++ // the periodic flush is for the later part of the history
				}
			}
		}
	}
	for i := 0; i < len(occs); {
		keys := solana.PublicKeySlice{occs[i]}
		i++
		if c.MultiKey > 0 && rng.Intn(100) < c.MultiKey {
			extra := 1 + rng.Intn(3)
			for e := 0; e < extra && i < len(occs); e++ {
				dup := false
				for _, k := range keys {
					if k == occs[i] {
						dup = true
					}
				}
				if dup {
					break
				}
				keys = append(keys, occs[i])
				i++
			}
		}
		size := uint64(50 + rng.Intn(1200))
		if rng.Intn(50) == 0 {
			size = uint64(20000 + rng.Intn(100000))
		}
		flags := byte(rng.Intn(8))
		e := c06Entry{Offset: off, Size: size, Slot: slot, Flags: flags}
		off += size
		if rng.Intn(30) == 0 {
			off += uint64(rng.Int63n(1 << 33)) // exercise wide varints
		}
		accBefore := w.accum.Len()
		if err := w.Push(e.Offset, e.Size, e.Slot, keys, flags&1 != 0, flags&2 != 0, flags&4 != 0); err != nil {
			rec.Violation("GsfaWriter.Push/error", fmt.Sprintf("%s: push %d: %v", c.Name, pushes, err), c)
			return
		}
		if w.accum.Len() < accBefore-1000 {
			// the accumulator shrank by more than a push can explain: the periodic partial flush ran
			rec.Count("periodic_partial_flushes_observed", 1)
		}
		for _, k := range keys {
			if _, ok := model.m[k]; !ok {
				model.order = append(model.order, k)
			}
			model.m[k] = append(model.m[k], e)
		}
		pushes++
		if pushes%step == 0 {
			slot++
		}
	}
	if err := w.Close(); err != nil {
		rec.Violation("GsfaWriter.Close/error", fmt.Sprintf("%s: %v", c.Name, err), c)
		return
	}
	c06Compare(rec, c.Name, idx, model, c)
	rec.Count("pushes", pushes)
	rec.Count("addresses", len(model.order))
}

func c06Compare(rec *ev.Recorder, name, idx string, model *c06Model, replay any) {
	r, err := NewGsfaReader(idx)
	if err != nil {
		rec.Violation("NewGsfaReader/cannot-open-own-index", fmt.Sprintf("%s: %v", name, err), replay)
		return
	}
	defer r.Close()
	ctx := context.Background()
	bad := 0
	for _, k := range model.order {
		want := model.m[k]
		rec.Eval(1)
		got, err := r.Get(ctx, k, 1<<30)
		if err != nil {
			rec.Violation("GsfaReader.Get/indexed-address-unreadable", fmt.Sprintf("%s: address %s with %d entries: %v", name, k, len(want), err), replay)
			bad++
		} else if msg := c06Diff(got, want); msg != "" {
			rec.Violation("GsfaReader.Get/"+c06Class(got, want), fmt.Sprintf("%s: address %s: %s", name, k, msg), replay)
			bad++
		}
		if bad >= 5 {
			return
		}
	}
}

func c06Class(got []linkedlog.OffsetAndSizeAndSlot, want []c06Entry) string {
	if len(got) < len(want) {
		return "entries-lost"
	}
	if len(got) > len(want) {
		return "entries-duplicated"
	}
	// same length: same multiset?
	seen := map[c06Entry]int{}
	for _, e := range want {
		seen[e]++
	}
	for _, g := range got {
		seen[c06Entry{g.Offset, g.Size, g.Slot, byte(g.Flags)}]--
	}
	for _, v := range seen {
		if v != 0 {
			return "entries-corrupted"
		}
	}
	return "entries-reordered"
}

func c06Diff(got []linkedlog.OffsetAndSizeAndSlot, want []c06Entry) string {
	if len(got) != len(want) {
		return fmt.Sprintf("%d entries returned, %d indexed", len(got), len(want))
	}
	for i := range got {
		w := want[len(want)-1-i]
		g := got[i]
		if g.Offset != w.Offset || g.Size != w.Size || g.Slot != w.Slot || byte(g.Flags) != w.Flags {
			return fmt.Sprintf("entry %d (newest first) is {off %d size %d slot %d flags %d}, expected {off %d size %d slot %d flags %d}", i, g.Offset, g.Size, g.Slot, byte(g.Flags), w.Offset, w.Size, w.Slot, w.Flags)
		}
	}
	return ""
}

func c06RealCases(seed int64) []c06Case {
	var cs []c06Case
	// per-address counts at and around the 1000-entry batch size
	for i, hot := range [][]int{{1}, {999}, {1000}, {1001}, {1999}, {2000}, {2001}, {3000}, {5000}, {1000, 1000, 1000}, {999, 1000, 1001, 2000, 2500}, {1, 2, 1000, 4000}} {
		cs = append(cs, c06Case{Name: fmt.Sprintf("hot-%d", i), Hot: hot, Cold: 40 + i*13, ColdMax: 3, Seed: seed*131 + int64(i), MultiKey: 20 * (i % 3), SlotStep: 1 + i%4})
	}
	// the same key several times in one push history with many keys per push
	cs = append(cs, c06Case{Name: "multi-key", Hot: []int{1000, 1500, 2000, 700}, Cold: 500, ColdMax: 5, Seed: seed + 99, MultiKey: 80, SlotStep: 2})
	// periodic partial flush: > 100 000 distinct addresses in the accumulator, slot%500==0 reached
	// periodic partial flush: > 100 000 distinct addresses in the accumulator and a push with slot%500==0.
	// Hot addresses with 1100..1500 entries: at the moment of the flush (somewhere between 67% and 90% of the
	// pushes) some of them have handed exactly one full batch to the background writer and hold a remainder
	// of 1..99 entries in the accumulator.
	var hotP []int
	for c := 1100; c <= 1500; c += 20 {
		hotP = append(hotP, c)
	}
	hotP = append(hotP, 2500, 1000, 120, 99)
	// bursts of full batches: 300 addresses named by every push (more full batches at once than the channel
	// to the background writer holds)
	if os.Getenv("VERIF_RACE") != "" {
		cs = append(cs, c06Case{Name: "wide-burst", Wide: 120, WidePushes: 2100, Hot: []int{1500}, Cold: 50, ColdMax: 2, Seed: seed + 11, SlotStep: 2})
	} else {
		cs = append(cs, c06Case{Name: "wide-burst", Wide: 300, WidePushes: 2100, Hot: []int{1500}, Cold: 50, ColdMax: 2, Seed: seed + 11, SlotStep: 2})
		// more ranked addresses (each has filled a batch) than the popularity rank holds, then the periodic flush
		cs = append(cs, c06Case{Name: "wide-rank", Wide: 10_400, WidePushes: 1040, Hot: []int{1200}, Cold: 115_000, ColdMax: 1, Seed: seed + 12, SlotStep: 1})
	}
	cs = append(cs, c06Case{Name: "periodic-flush", Hot: hotP, Cold: 125_000, ColdMax: 1, Seed: seed + 7, MultiKey: 0, SlotStep: 1})
	if ev.Thorough() {
		cs = append(cs, c06Case{Name: "periodic-flush-2", Hot: append(append([]int{}, hotP...), 3000, 1001, 2099, 150, 100, 98, 5), Cold: 260_000, ColdMax: 1, Seed: seed + 8, MultiKey: 5, SlotStep: 1})
		for i := 0; i < 12; i++ {
			r := rand.New(rand.NewSource(seed*977 + int64(i)))
			var hot []int
			for h := 0; h < 1+r.Intn(5); h++ {
				hot = append(hot, []int{1, 500, 999, 1000, 1001, 1999, 2000, 2001, 2999, 3000, 3001, 4000}[r.Intn(12)])
			}
			cs = append(cs, c06Case{Name: fmt.Sprintf("rand-%d", i), Hot: hot, Cold: r.Intn(3000), ColdMax: 1 + r.Intn(8), Seed: seed*31 + int64(i), MultiKey: r.Intn(90), SlotStep: 1 + r.Intn(9)})
		}
	}
	return cs
}

func TestVerifC06Real(t *testing.T) {
	rec := ev.New("C06", "real-thresholds")
	defer rec.Flush()
	rec.Rule("writer life cycles at the real thresholds: per-address counts {1,999,1000,1001,1999,2000,2001,3000,5000,...} interleaved with cold addresses, multi-address pushes, > 100 000 distinct addresses (periodic partial flush), bursts of hundreds of full batches at one push, more ranked addresses than the popularity rank holds; every pushed address read back and compared with the reversed push list; distinct = (case, per-address count) pairs whose count reaches a full batch or whose case triggers the periodic flush")
	root := filepath.Join(ev.Scratch(), "c06real")
	os.MkdirAll(root, 0o755)
	defer os.RemoveAll(root)
	var rc c06Case
	cases := c06RealCases(ev.Seed())
	if ev.LoadReplay(&rc) && rc.Name != "" {
		cases = []c06Case{rc}
	}
	sem := make(chan struct{}, 6)
	var wg sync.WaitGroup
	for _, c := range cases {
		if rec.Enough() {
			break
		}
		c := c
		wg.Add(1)
		sem <- struct{}{}
		go func() {
			defer func() { <-sem; wg.Done() }()
			c06Run(rec, c, root)
			for _, n := range c.Hot {
				if n >= 1000 || c.Cold > 100_000 {
					rec.Distinct(fmt.Sprintf("%s/%d", c.Name, n))
				}
			}
			if c.Wide > 0 && c.WidePushes >= 1000 {
				rec.Distinct(fmt.Sprintf("%s/wide-%dx%d", c.Name, c.Wide, c.WidePushes))
			}
			rec.Sample(c)
		}()
	}
	wg.Wait()
}
