//go:build verif

package linkedlog

// C06 (record-length boundaries) — directed search over entry counts and magnitudes until the record
// written by Put has every total length in [100,150] and [16 360,16 410]; ReadWithSize(offset,len)
// (what the gsfa reader calls with the (offset,size) stored by the writer) and Read(offset) must
// return exactly the entries and the previous-pointer that were put.

import (
	"fmt"
	"math/rand"
	"os"
	"path/filepath"
	"sort"
	"testing"

	"github.com/gagliardetto/solana-go"
	"github.com/rpcpool/yellowstone-faithful/indexes"
	"github.com/rpcpool/yellowstone-faithful/zzverif/ev"
)

type c06Rec struct {
	Len     uint32                 `json:"record_len"`
	Offset  uint64                 `json:"offset"`
	Prev    indexes.OffsetAndSize  `json:"prev"`
	Entries []OffsetAndSizeAndSlot `json:"entries_newest_first"`
}

func TestVerifC06Records(t *testing.T) {
	rec := ev.New("C06", "record-lengths")
	defer rec.Flush()
	rec.Rule("linked-log records produced by Put with directed entry counts/magnitudes; distinct = distinct total record lengths written and read back (targets: every length in [100,150] and [16360,16410])")
	dir := filepath.Join(ev.Scratch(), "c06ll")
	os.MkdirAll(dir, 0o755)
	defer os.RemoveAll(dir)
	rng := rand.New(rand.NewSource(ev.Seed() ^ 0xC06))
	ll, err := NewLinkedLog(filepath.Join(dir, "ll"))
	if err != nil {
		t.Fatal(err)
	}
	defer ll.Close()
	covered := map[uint32]bool{}
	want := map[uint32]bool{}
	for l := uint32(100); l <= 150; l++ {
		want[l] = true
	}
	for l := uint32(16360); l <= 16410; l++ {
		want[l] = true
	}
	var recs []c06Rec
	var pk solana.PublicKey
	prev := indexes.OffsetAndSize{}
	put := func(n int, incompressible bool) {
		vals := make([]*OffsetAndSizeAndSlot, n)
		for i := range vals {
			v := &OffsetAndSizeAndSlot{Offset: uint64(rng.Int63n(1 << 40)), Size: uint64(1 + rng.Intn(1<<16)), Slot: uint64(rng.Int63n(1 << 32))}
			if !incompressible {
				v.Offset = uint64(i * 7)
				v.Size = 100
				v.Slot = 1000
			}
			v.Flags = Bitmap(rng.Intn(8))
			vals[i] = v
		}
		var gotOff uint64
		var gotLen uint32
		before := prev
		_, err := ll.Put(
			func(solana.PublicKey) (indexes.OffsetAndSize, error) { return before, nil },
			func(_ solana.PublicKey, offset uint64, ln uint32) error { gotOff, gotLen = offset, ln; return nil },
			KeyToOffsetAndSizeAndBlocktime{Key: pk, Values: vals},
		)
		if err != nil {
			rec.Inconclusive("Put: " + err.Error())
			return
		}
		// Put reversed vals in place: vals is now newest first
		r := c06Rec{Len: gotLen, Offset: gotOff, Prev: before}
		for _, v := range vals {
			r.Entries = append(r.Entries, *v)
		}
		recs = append(recs, r)
		covered[gotLen] = true
		prev = indexes.OffsetAndSize{Offset: gotOff, Size: uint64(gotLen)}
	}
	// directed search: incompressible entries give ~10-13 bytes each after zstd
	attempts := 0
	maxAttempts := ev.Pick(6000, 60000)
	missing := func() int {
		n := 0
		for l := range want {
			if !covered[l] {
				n++
			}
		}
		return n
	}
	for n := 1; n <= 12 && attempts < maxAttempts; n++ {
		for rep := 0; rep < 40; rep++ {
			put(n, rep%4 != 0)
			attempts++
		}
	}
	// adaptive search: the record length grows ~linearly with the number of incompressible entries; keep
	// an estimate of bytes/entry from what was observed and aim at each missing target length
	lastN, lastLen := 1200, 0
	aim := func(target uint32) {
		per := 12.4
		if lastLen > 0 {
			per = float64(lastLen) / float64(lastN)
		}
		n := int(float64(target)/per + 0.5)
		if n < 1 {
			n = 1
		}
		n += rng.Intn(3) - 1
		if n < 1 {
			n = 1
		}
		before := len(recs)
		put(n, true)
		attempts++
		if len(recs) > before {
			lastN, lastLen = n, int(recs[len(recs)-1].Len)
		}
	}
	for missing() > 0 && attempts < maxAttempts {
		// pick the missing targets round-robin
		var todo []uint32
		for l := range want {
			if !covered[l] {
				todo = append(todo, l)
			}
		}
		sort.Slice(todo, func(i, j int) bool { return todo[i] < todo[j] })
		for _, tgt := range todo {
			if attempts >= maxAttempts {
				break
			}
			if tgt < 1000 {
				lastN, lastLen = 0, 0
				// small records: 4..12 entries
				n := int(tgt)/13 + rng.Intn(3) - 1
				if n < 1 {
					n = 1
				}
				put(n, true)
				attempts++
				continue
			}
			aim(tgt)
		}
	}
	if err := ll.Flush(); err != nil {
		t.Fatal(err)
	}
	for _, r := range recs {
		if rec.Enough() {
			break
		}
		rec.Eval(1)
		rec.Distinct(fmt.Sprint(r.Len))
		got, next, err := ll.ReadWithSize(r.Offset, uint64(r.Len))
		if err != nil {
			rec.Violation("LinkedLog.ReadWithSize/record-unreadable", fmt.Sprintf("record of %d bytes at offset %d: %v", r.Len, r.Offset, err), r)
			continue
		}
		if msg := c06cmp(got, r.Entries); msg != "" || next != r.Prev {
			rec.Violation("LinkedLog.ReadWithSize/record-differs", fmt.Sprintf("record of %d bytes: %s; previous-pointer %v want %v", r.Len, msg, next, r.Prev), r)
		}
	}
	for _, r := range recs {
		if rec.Enough() {
			break
		}
		rec.Eval(1)
		got2, next2, err := ll.Read(r.Offset)
		if err != nil {
			rec.Violation("LinkedLog.Read/record-unreadable", fmt.Sprintf("record of %d bytes at offset %d: %v", r.Len, r.Offset, err), r)
			continue
		}
		if msg := c06cmp(got2, r.Entries); msg != "" || next2 != r.Prev {
			rec.Violation("LinkedLog.Read/record-differs", fmt.Sprintf("record of %d bytes: %s; previous-pointer %v want %v", r.Len, msg, next2, r.Prev), r)
		}
	}
	nm := missing()
	rec.Note("target_lengths_missing", nm)
	rec.Note("records", len(recs))
	if len(recs) > 0 {
		rec.Sample(map[string]any{"record_len": recs[0].Len, "entries": len(recs[0].Entries)})
	}
	var b127, b128, b16383, b16384 bool
	b127, b128, b16383, b16384 = covered[127], covered[128], covered[16383] || covered[16384], covered[16385] || covered[16386]
	if !(b127 && b128 && b16383 && b16384) {
		rec.Inconclusive(fmt.Sprintf("directed search did not reach both sides of the varint boundaries (127:%v 128:%v 16383/4:%v 16385/6:%v)", b127, b128, b16383, b16384))
	}
}

func c06cmp(got, want []OffsetAndSizeAndSlot) string {
	if len(got) != len(want) {
		return fmt.Sprintf("%d entries read, %d written", len(got), len(want))
	}
	for i := range got {
		if got[i] != want[i] {
			return fmt.Sprintf("entry %d is %+v, written %+v", i, got[i], want[i])
		}
	}
	return ""
}
