//go:build verif

package gsfa

// C06 (schedule exploration) — small-scope push histories against an instrumented copy of
// gsfa-write.go: thresholds shrunk (batch 4, parked-batch limit 3, channel capacity 2, periodic flush
// above 2 addresses on even slots, flusher poll 1 ms) and failpoints at the channel hand-offs.  The size
// of the popularity rank is NOT shrunk (DESIGN.md §3 C06).  For every history the background writer is
// steered into its extremes: eager (drains before the next Push), lazy (held after each receive until
// the channel is full or Close has begun), split (held between receive and flush), plus seeded yields.
// Oracle: the same per-address list model as the real-threshold monitor.

import (
	"fmt"
	"math/rand"
	"os"
	"path/filepath"
	"runtime"
	"sync"
	"sync/atomic"
	"testing"
	"time"

	"github.com/gagliardetto/solana-go"
	"github.com/rpcpool/yellowstone-faithful/indexes"
	"github.com/rpcpool/yellowstone-faithful/indexmeta"
	"github.com/rpcpool/yellowstone-faithful/zzverif/cargen"
	"github.com/rpcpool/yellowstone-faithful/zzverif/ev"
	"github.com/rpcpool/yellowstone-faithful/zzverif/fp"
)

type c06Push struct {
	Keys     []int `json:"keys"` // indexes into the address universe
	EvenSlot bool  `json:"even_slot"`
}

type c06SchedCase struct {
	History  []c06Push `json:"history"`
	Schedule string    `json:"schedule"` // eager | lazy | split | random
	Seed     int64     `json:"seed"`
}

// c06SchedRun is single-threaded with respect to the failpoint runtime (fp is process global), so
// schedule cases run one at a time.
func c06SchedRun(rec *ev.Recorder, c c06SchedCase, dir string, hitOrders map[string]struct{}) {
	os.RemoveAll(dir)
	defer os.RemoveAll(dir)
	tmp := filepath.Join(dir, "tmp")
	os.MkdirAll(tmp, 0o755)
	idx := filepath.Join(dir, "gsfa")
	meta := indexmeta.Meta{}
	meta.AddUint64(indexmeta.MetadataKey_Epoch, 7)
	fp.Clear()
	fp.ResetHits()
	rng := rand.New(rand.NewSource(c.Seed))
	var closing atomic.Bool
	var order []byte // sequence of failpoint hits (the observed interleaving)
	var omu sync.Mutex
	note := func(b byte) {
		omu.Lock()
		if len(order) < 200 {
			order = append(order, b)
		}
		omu.Unlock()
	}
	var w *GsfaWriter
	full := func() bool { return w != nil && len(w.fullBufferWriterChan) == cap(w.fullBufferWriterChan) }
	hold := func(maxSpins int) {
		// hold the background writer until Close has begun or the channel is full (Push would block
		// otherwise: it holds the writer's mutex while sending) - bounded by logical steps
		for i := 0; i < maxSpins && !closing.Load() && !full(); i++ {
			runtime.Gosched()
			if i%64 == 63 {
				time.Sleep(20 * time.Microsecond)
			}
		}
	}
	fp.Set("gsfa.push.before-send", func() { note('s') })
	switch c.Schedule {
	case "lazy":
		fp.Set("gsfa.flusher.after-recv", func() { note('r'); hold(20000) })
		fp.Set("gsfa.flusher.before-flush", func() { note('f') })
	case "split":
		fp.Set("gsfa.flusher.after-recv", func() { note('r') })
		fp.Set("gsfa.flusher.before-flush", func() { note('f'); hold(20000) })
	case "random":
		fp.Set("gsfa.flusher.after-recv", func() {
			note('r')
			for i := rng.Intn(40); i > 0; i-- {
				runtime.Gosched()
			}
		})
		fp.Set("gsfa.flusher.before-flush", func() {
			note('f')
			for i := rng.Intn(40); i > 0; i-- {
				runtime.Gosched()
			}
		})
	default: // eager
		fp.Set("gsfa.flusher.after-recv", func() { note('r') })
		fp.Set("gsfa.flusher.before-flush", func() { note('f') })
	}
	fp.Set("gsfa.close.after-exiting", func() { note('c'); closing.Store(true) })
	defer fp.Clear()

	var err error
	w, err = NewGsfaWriter(idx, meta, 7, cargen.CidOf([]byte("c06s")), indexes.NetworkMainnet, tmp)
	if err != nil {
		rec.Inconclusive("NewGsfaWriter: " + err.Error())
		return
	}
	model := newC06Model()
	slot := uint64(7*432000 + 1)
	off := uint64(10)
	for pi, p := range c.History {
		if p.EvenSlot != (slot%2 == 0) {
			slot++
		}
		var keys solana.PublicKeySlice
		for _, k := range p.Keys {
			keys = append(keys, c06Key(k, 0x5C))
		}
		e := c06Entry{Offset: off, Size: uint64(30 + pi), Slot: slot, Flags: byte(pi % 8)}
		off += e.Size
		if err := w.Push(e.Offset, e.Size, e.Slot, keys, e.Flags&1 != 0, e.Flags&2 != 0, e.Flags&4 != 0); err != nil {
			rec.Violation("GsfaWriter.Push/error", err.Error(), c)
			return
		}
		for _, k := range keys {
			if _, ok := model.m[k]; !ok {
				model.order = append(model.order, k)
			}
			model.m[k] = append(model.m[k], e)
		}
		if c.Schedule == "eager" {
			// let the background writer take everything that was sent before the next Push
			for i := 0; i < 20000 && (len(w.fullBufferWriterChan) > 0 || fp.Hits("gsfa.flusher.after-recv") < fp.Hits("gsfa.push.before-send")); i++ {
				runtime.Gosched()
				if i%64 == 63 {
					time.Sleep(20 * time.Microsecond)
				}
			}
		}
	}
	done := make(chan error, 1)
	go func() { done <- w.Close() }()
	select {
	case err := <-done:
		if err != nil {
			rec.Violation("GsfaWriter.Close/error", err.Error(), c)
			return
		}
	case <-time.After(60 * time.Second):
		rec.Inconclusive(fmt.Sprintf("Close did not return within the watchdog (%+v)", c))
		return
	}
	fp.Clear()
	c06Compare(rec, "sched", idx, model, c)
	omu.Lock()
	hitOrders[c.Schedule+":"+string(order)] = struct{}{}
	omu.Unlock()
}

func TestVerifC06Sched(t *testing.T) {
	rec := ev.New("C06", "schedules")
	defer rec.Flush()
	rec.Rule("push histories over addresses {A,B,C} (each push = non-empty address subset, slot parity chosen to hit/miss the periodic flush) against the instrumented writer (batch 4, parked limit 3, channel 2, periodic flush above 2 addresses), every history under the eager / lazy / split / random flusher schedules; exhaustive for short histories, seeded random for longer ones; distinct = (history, schedule) pairs whose history fills at least one batch or triggers the periodic flush")
	if d := os.Getenv("VERIF_INSTRUMENTATION_DEGRADED"); d != "" || itemsPerBatch != 4 {
		// the anchors of the rewrite were not found in this tree: the outcome oracles of the real-threshold
		// monitor still apply; nothing is decided here
		rec.Note("instrumentation", "degraded: "+d)
		return
	}
	root := filepath.Join(ev.Scratch(), "c06sched")
	os.MkdirAll(root, 0o755)
	defer os.RemoveAll(root)
	seed := ev.Seed()
	var cases [][]c06Push
	// all pushes: 7 non-empty subsets of {0,1,2} x 2 parities
	var alphabet []c06Push
	for m := 1; m < 8; m++ {
		var ks []int
		for b := 0; b < 3; b++ {
			if m&(1<<b) != 0 {
				ks = append(ks, b)
			}
		}
		alphabet = append(alphabet, c06Push{Keys: ks, EvenSlot: false}, c06Push{Keys: ks, EvenSlot: true})
	}
	exhaustiveLen := ev.Pick(2, 3)
	if os.Getenv("VERIF_RACE") != "" {
		exhaustiveLen = 1
	}
	var rec2 func(prefix []c06Push, l int)
	rec2 = func(prefix []c06Push, l int) {
		if len(prefix) > 0 {
			cases = append(cases, append([]c06Push(nil), prefix...))
		}
		if l == 0 {
			return
		}
		for _, a := range alphabet {
			rec2(append(prefix, a), l-1)
		}
	}
	rec2(nil, exhaustiveLen)
	nExh := len(cases)
	rng := rand.New(rand.NewSource(seed ^ 0x5C))
	nRand := ev.Pick(300, 12000)
	if os.Getenv("VERIF_RACE") != "" {
		nRand = ev.Pick(60, 1500)
	}
	for i := 0; i < nRand; i++ {
		l := 4 + rng.Intn(14)
		var h []c06Push
		// bias towards one hot address so that batches fill (batch size 4) and repeat
		hot := rng.Intn(3)
		for j := 0; j < l; j++ {
			a := alphabet[rng.Intn(len(alphabet))]
			if rng.Intn(3) != 0 {
				has := false
				for _, k := range a.Keys {
					if k == hot {
						has = true
					}
				}
				if !has {
					a = c06Push{Keys: append(append([]int{}, a.Keys...), hot), EvenSlot: a.EvenSlot}
				}
			}
			h = append(h, a)
		}
		cases = append(cases, h)
	}
	var rc c06SchedCase
	replay := ev.LoadReplay(&rc) && len(rc.History) > 0
	hitOrders := map[string]struct{}{}
	schedules := []string{"eager", "lazy", "split", "random"}
	n := 0
	for ci, h := range cases {
		if rec.Enough() {
			break
		}
		for si, sch := range schedules {
			if ci < nExh && os.Getenv("VERIF_RACE") != "" && si > 1 {
				continue
			}
			c := c06SchedCase{History: h, Schedule: sch, Seed: seed*7919 + int64(ci*4+si)}
			if replay {
				c = rc
			}
			c06SchedRun(rec, c, filepath.Join(root, fmt.Sprint(n)), hitOrders)
			n++
			// non-trivial: some address reaches a full batch, or the periodic flush can trigger
			cnt := map[int]int{}
			trig := false
			for _, p := range h {
				for _, k := range p.Keys {
					cnt[k]++
				}
				if p.EvenSlot && len(cnt) > 2 {
					trig = true
				}
			}
			for _, v := range cnt {
				if v >= 4 {
					trig = true
				}
			}
			if trig {
				rec.Distinct(fmt.Sprintf("%v/%s", h, sch))
			}
			if n%997 == 1 {
				rec.Sample(c)
			}
			if replay {
				break
			}
		}
		if replay {
			break
		}
	}
	rec.Note("life_cycles", n)
	rec.Note("exhaustive_history_length", exhaustiveLen)
	rec.Note("distinct_failpoint_hit_orders", len(hitOrders))
	rec.Count("failpoint_hit_orders", len(hitOrders))
}
