//go:build verif

// Package c04eng is the workload generator, reference model and oracle of property C04
// (compact hash index: every inserted key is found with its value, in every format).
// It exists only in the go-build overlay.  The three index packages (compactindexsized,
// deprecated/compactindex, deprecated/compactindex36) inject a thin in-package adapter
// (zz_verif_c04_test.go) that implements Format and calls Run.
//
// Oracle = the property statement, nothing more:
//   - legal input (distinct keys of <= 65535 bytes, supported value size):
//     building may fail ONLY when some bucket holds more than the documented 10 000 entries; when it
//     succeeds every inserted key looks up to exactly its value; the same inserts sealed twice give
//     byte-identical files.
//   - input the builder cannot honour (duplicate key, key > 65535 bytes, unsupported value size):
//     an error from NewBuilder/Insert/Seal is the expected outcome; a panic, or success with a lost or
//     corrupted entry, is a violation; a duplicate key must always fail.
//
// Termination is decided by logical steps: a Lookup that performs more than lookupReadBudget
// ReadAt calls is aborted and reported (no wall-clock).
package c04eng

import (
	"bytes"
	"context"
	"crypto/sha256"
	"encoding/binary"
	"encoding/hex"
	"errors"
	"fmt"
	"io"
	"math/rand"
	"os"
	"path/filepath"
	"runtime/debug"
	"sort"
	"strings"
	"sync"
	"syscall"
	"testing"
	"time"

	"github.com/rpcpool/yellowstone-faithful/zzverif/ev"
	"golang.org/x/exp/mmap"
)

// DocumentedBucketLimit is the per-bucket population the package documentation promises to handle
// ("buckets of approx 10000 records", targetEntriesPerBucket).
const DocumentedBucketLimit = 10000

// MaxKeyLen is the largest key length the statement covers.
const MaxKeyLen = 65535

const lookupReadBudget = 100000 // ReadAt calls allowed for ONE lookup (legit: 2 + tree depth)

// ---------------------------------------------------------------- adapter interface

type Format interface {
	Name() string // compactindexsized | compactindex | compactindex36
	// LegalValueSizes lists the value sizes the format supports (bytes per value).
	LegalValueSizes() []int
	// UnsupportedValueSizes lists value sizes the builder can be asked for but cannot honour.
	UnsupportedValueSizes() []int
	// Variants lists format-specific configuration variants for a value size.
	Variants(valueSize int) []int
	HasMeta() bool
	// NumBucketsFor predicts the bucket count for a declared item count (used only to search
	// adversarial keys; the oracle uses the builder's actual count).
	NumBucketsFor(declared uint) uint32
	// BucketOf is the package's own key -> bucket function.
	BucketOf(numBuckets uint32, key []byte) uint
	// EntryHash is the package's own per-bucket hash (24 bits) of a key in a hash domain; used only to
	// search keys with extreme / colliding hashes, never by the oracle.
	EntryHash(domain uint32, key []byte) uint64
	// FixValue turns raw bytes (len = valueSize) into a value that is legal for the configuration, in
	// the representation Lookup returns.
	FixValue(valueSize, variant int, raw []byte) []byte
	NewBuilder(tmpDir string, declared uint, valueSize, variant int) (Builder, error)
	Open(r io.ReaderAt) (DB, error)
	IsNotFound(err error) bool
}

type Builder interface {
	NumBuckets() uint32
	AddMeta(k, v []byte) error
	SetKind(kind []byte) error
	Insert(key, value []byte) error
	Seal(ctx context.Context, f *os.File) error
	Close() error
}

type DB interface {
	Prefetch(bool)
	Lookup(key []byte) ([]byte, error)
	Meta() [][2][]byte
}

// ---------------------------------------------------------------- case description (replayable)

type Case struct {
	Format     string `json:"format"`
	Group      string `json:"group"`
	N          int    `json:"n"`
	KeyGen     string `json:"keygen"`
	KeyLen     int    `json:"keylen"`
	KeySeed    int64  `json:"keyseed"`
	Bucket     int    `json:"bucket"`      // target bucket of keygen "bucket"
	TooLong    int    `json:"toolong"`     // length of one extra over-long key (0 = none)
	TooLongPos string `json:"toolong_pos"` // first | middle | last
	Dup        string `json:"dup"`         // "", adjacent-same, ends-same, ends-diff, first-two
	ValueSize  int    `json:"value_size"`
	Variant    int    `json:"variant"`
	Order      string `json:"order"` // gen sorted reversed shuffle1..3
	Declared   uint   `json:"declared"`
	Meta       string `json:"meta"`
	Reader     string `json:"reader"` // file mmap bytes
	Prefetch   bool   `json:"prefetch"`
	Twice      bool   `json:"twice"`
	// CancelAt: 0 = the build context is never cancelled; -1 = cancelled before Seal; k > 0 = cancelled at
	// the k-th poll of the context during Seal
	CancelAt int `json:"cancel_at,omitempty"`
}

type pair struct{ k, v []byte }

// 12-byte keys whose EntryHash64(domain 0) & 0xffffff is 0x000000, 0x000001, 0x7fffff, 0x800000, 0xfffffe,
// 0xffffff with the xxhash-based entry hash all three formats share (found once by exhaustive search; if the
// hash function of the tree differs they are ordinary keys and the run-time search below still applies).
var precomputedExtremeKeys = []string{
	"c82001000000000063303421", "c1868d030000000063303421", "b5881a000000000063303421",
	"52231e000000000063303421", "188911000000000063303421", "5067bc010000000063303421",
}

var mixedLens = []int{0, 1, 2, 3, 4, 7, 8, 9, 15, 16, 17, 31, 32, 33, 63, 64, 65, 127, 128, 129, 255, 256, 257, 1000}

func le8(v uint64) []byte { b := make([]byte, 8); binary.LittleEndian.PutUint64(b, v); return b }

func randBytes(rng *rand.Rand, n int) []byte {
	b := make([]byte, n)
	rng.Read(b)
	return b
}

// genKeys materialises the distinct key set of a case (a pure function of the case).
func genKeys(f Format, c Case) [][]byte {
	rng := rand.New(rand.NewSource(c.KeySeed*7919 + 17))
	seen := make(map[string]struct{}, c.N)
	keys := make([][]byte, 0, c.N)
	add := func(k []byte) {
		if _, dup := seen[string(k)]; dup {
			return
		}
		seen[string(k)] = struct{}{}
		keys = append(keys, k)
	}
	tries := 0
	budget := c.N*64 + 100000
	switch c.KeyGen {
	case "rand", "p0000", "pffff":
		L := c.KeyLen
		if c.KeyGen != "rand" && L < 4 {
			L = 4
		}
		if c.KeyGen == "rand" && L <= 2 {
			// enumerate the whole space in a seeded order
			total := 1
			for i := 0; i < L; i++ {
				total *= 256
			}
			perm := rng.Perm(total)
			for _, p := range perm {
				if len(keys) >= c.N {
					break
				}
				k := make([]byte, L)
				for i := 0; i < L; i++ {
					k[i] = byte(p >> (8 * i))
				}
				add(k)
			}
			break
		}
		for len(keys) < c.N && tries < budget {
			tries++
			k := randBytes(rng, L)
			if c.KeyGen == "p0000" {
				k[0], k[1] = 0, 0
			} else if c.KeyGen == "pffff" {
				k[0], k[1] = 0xff, 0xff
			}
			add(k)
		}
	case "seqle": // slot-like: 8-byte little-endian counter
		base := rng.Uint64() >> 2
		if c.KeySeed%3 == 0 {
			base = 0
		}
		for i := 0; i < c.N; i++ {
			add(le8(base + uint64(i)))
		}
	case "seqbe":
		L := c.KeyLen
		if L < 4 {
			L = 4
		}
		for i := 0; i < c.N; i++ {
			k := make([]byte, L)
			binary.BigEndian.PutUint32(k[L-4:], uint32(i))
			add(k)
		}
	case "ascii":
		for i := 0; i < c.N; i++ {
			add([]byte(fmt.Sprintf("key-%d-%d", c.KeySeed, i)))
		}
	case "mixed":
		for len(keys) < c.N && tries < budget {
			tries++
			add(randBytes(rng, mixedLens[rng.Intn(len(mixedLens))]))
		}
	case "onebyte": // the empty key and every 1-byte key
		add([]byte{})
		for _, p := range rng.Perm(256) {
			if len(keys) >= c.N {
				break
			}
			add([]byte{byte(p)})
		}
	case "giant": // a few keys at the 16-bit length limit, the rest short
		for i, L := range []int{MaxKeyLen, MaxKeyLen - 1, MaxKeyLen} {
			if i >= c.N {
				break
			}
			add(randBytes(rng, L))
		}
		for len(keys) < c.N && tries < budget {
			tries++
			add(randBytes(rng, 32))
		}
	case "bucket": // adversarial: every key lands in one bucket
		nb := f.NumBucketsFor(c.Declared)
		L := c.KeyLen
		if L < 8 {
			L = 8
		}
		budget = c.N*int(nb)*8 + 100000
		for len(keys) < c.N && tries < budget {
			tries++
			k := randBytes(rng, L)
			if nb == 0 || f.BucketOf(nb, k) == uint(c.Bucket) {
				add(k)
			}
		}
	case "hashextreme":
		// keys whose per-bucket hash in domain 0 is at the ends of the 24-bit range (first / last slot of
		// the sorted table), found with the package's own hash; KeyLen = search budget in millions
		// one key per extreme hash value: two keys with the same hash would collide in domain 0 and push the
		// miner to another domain, where these keys are ordinary
		haveHash := map[uint64]bool{}
		for _, hx := range precomputedExtremeKeys {
			if pk, err := hex.DecodeString(hx); err == nil && !haveHash[f.EntryHash(0, pk)] {
				haveHash[f.EntryHash(0, pk)] = true
				add(pk)
			}
		}
		trials := c.KeyLen * 1000000
		k := make([]byte, 12)
		binary.LittleEndian.PutUint32(k[8:], uint32(c.KeySeed))
		for i := 0; i < trials && len(keys) < 12; i++ {
			binary.LittleEndian.PutUint64(k, uint64(i))
			if h := f.EntryHash(0, k); (h <= 2 || h >= 0xfffffd) && !haveHash[h] {
				haveHash[h] = true
				add(append([]byte(nil), k...))
			}
		}
		for len(keys) < c.N && tries < budget {
			tries++
			add(randBytes(rng, 12))
		}
	case "collide0":
		// pairs of keys with the same 24-bit hash in domain 0 (the miner must move to another domain
		// even for a tiny bucket), found by birthday search with the package's own hash
		byHash := map[uint64][]byte{}
		pairs := 0
		for i := 0; i < 200000 && pairs < 3 && len(keys)+2 <= c.N; i++ {
			k := randBytes(rng, 12)
			h := f.EntryHash(0, k)
			if o, ok := byHash[h]; ok && !bytes.Equal(o, k) {
				add(o)
				add(k)
				delete(byHash, h)
				pairs++
				continue
			}
			byHash[h] = k
		}
		for len(keys) < c.N && tries < budget {
			tries++
			add(randBytes(rng, 12))
		}
	default:
		panic("c04eng: unknown keygen " + c.KeyGen)
	}
	return keys
}

// materialise returns the insertion sequence of a case and the model (distinct keys -> value).
func materialise(f Format, c Case) (ins []pair, model []pair) {
	keys := genKeys(f, c)
	vrng := rand.New(rand.NewSource(c.KeySeed*31 + 5))
	vs := c.ValueSize
	if vs < 0 {
		vs = 0
	}
	rawLen := vs
	if rawLen > 4096 {
		rawLen = 4096
	}
	mkval := func(i int) []byte {
		raw := make([]byte, rawLen)
		switch i {
		case 0: // all zero
		case 1:
			for j := range raw {
				raw[j] = 0xff
			}
		default:
			vrng.Read(raw)
		}
		return f.FixValue(c.ValueSize, c.Variant, raw)
	}
	ps := make([]pair, len(keys))
	for i, k := range keys {
		ps[i] = pair{k, mkval(i)}
	}
	switch {
	case c.Order == "sorted":
		sort.Slice(ps, func(i, j int) bool { return bytes.Compare(ps[i].k, ps[j].k) < 0 })
	case c.Order == "reversed":
		sort.Slice(ps, func(i, j int) bool { return bytes.Compare(ps[i].k, ps[j].k) > 0 })
	case strings.HasPrefix(c.Order, "shuffle"):
		// shuffle a canonical (sorted) sequence so that the order depends on the label only
		sort.Slice(ps, func(i, j int) bool { return bytes.Compare(ps[i].k, ps[j].k) < 0 })
		srng := rand.New(rand.NewSource(c.KeySeed*131 + int64(len(c.Order))*1000 + int64(c.Order[len(c.Order)-1])))
		srng.Shuffle(len(ps), func(i, j int) { ps[i], ps[j] = ps[j], ps[i] })
	}
	model = append([]pair(nil), ps...)
	ins = ps
	if c.TooLong > 0 {
		p := pair{randBytes(vrng, c.TooLong), mkval(len(keys) + 7)}
		switch c.TooLongPos {
		case "first":
			ins = append([]pair{p}, ins...)
		case "middle":
			m := len(ins) / 2
			ins = append(append(append([]pair(nil), ins[:m]...), p), ins[m:]...)
		default:
			ins = append(append([]pair(nil), ins...), p)
		}
		model = append(model, p)
	}
	if c.Dup != "" && len(ins) > 0 {
		other := func(p pair) pair { // same key, different value
			v := append([]byte(nil), p.v...)
			if len(v) > 0 {
				v[0] ^= 0x5a
			}
			return pair{p.k, f.FixValue(c.ValueSize, c.Variant, v)}
		}
		switch c.Dup {
		case "adjacent-same":
			m := len(ins) / 2
			ins = append(append(append([]pair(nil), ins[:m+1]...), ins[m]), ins[m+1:]...)
		case "ends-same":
			ins = append(append([]pair(nil), ins...), ins[0])
		case "ends-diff":
			ins = append(append([]pair(nil), ins...), other(ins[0]))
		case "first-two":
			ins = append([]pair{ins[0]}, ins...)
		case "last-two-diff":
			ins = append(append([]pair(nil), ins...), other(ins[len(ins)-1]))
		default:
			panic("c04eng: unknown dup " + c.Dup)
		}
	}
	return ins, model
}

func metaPairs(shape string) (kind []byte, kvs [][2][]byte) {
	rep := func(b byte, n int) []byte { return bytes.Repeat([]byte{b}, n) }
	switch shape {
	case "", "none":
	case "kind":
		kind = []byte("verif-kind")
	case "typical":
		kind = []byte("cid-to-offset-and-size")
		kvs = append(kvs, [2][]byte{[]byte("epoch"), le8(700)}, [2][]byte{[]byte("rootCid"), rep(0x12, 36)},
			[2][]byte{[]byte("network"), []byte("mainnet")})
	case "pairs255-tiny":
		for i := 0; i < 255; i++ {
			kvs = append(kvs, [2][]byte{{byte(i)}, {byte(255 - i)}})
		}
	case "pairs255-max":
		for i := 0; i < 255; i++ {
			kvs = append(kvs, [2][]byte{rep(byte(i), 255), rep(byte(i+1), 255)})
		}
	case "empty-kv":
		kvs = append(kvs, [2][]byte{{}, {}}, [2][]byte{[]byte("k"), {}}, [2][]byte{{}, []byte("v")})
	case "dupkeys":
		kvs = append(kvs, [2][]byte{[]byte("a"), []byte("1")}, [2][]byte{[]byte("a"), []byte("2")}, [2][]byte{[]byte("a"), []byte("1")})
	case "kind-max":
		kind = rep('K', 255)
		kvs = append(kvs, [2][]byte{rep('x', 255), rep('y', 255)})
	default:
		panic("c04eng: unknown meta shape " + shape)
	}
	return
}

// ---------------------------------------------------------------- execution

var errStepBudget = errors.New("c04eng: build step budget exceeded")

// budgetCtx bounds the number of mining rounds by counting ctx.Err() polls (logical steps, no clock).
type budgetCtx struct {
	context.Context
	calls, budget int64
	cancelAt      int64
	cancel        context.CancelFunc
}

func (b *budgetCtx) Err() error {
	b.calls++
	if b.cancelAt > 0 && b.calls >= b.cancelAt && b.cancel != nil {
		b.cancel()
	}
	if err := b.Context.Err(); err != nil {
		return err
	}
	if b.calls > b.budget {
		return errStepBudget
	}
	return nil
}

type eofReader []byte

func (b eofReader) ReadAt(p []byte, off int64) (int, error) {
	if off < 0 || off > int64(len(b)) {
		return 0, io.EOF
	}
	n := copy(p, b[off:])
	if n < len(p) || off+int64(n) == int64(len(b)) {
		return n, io.EOF
	}
	return n, nil
}

type readBudgetExceeded struct{}

type countingReader struct {
	r     io.ReaderAt
	reads int64
}

func (c *countingReader) ReadAt(p []byte, off int64) (int, error) {
	c.reads++
	if c.reads > lookupReadBudget {
		panic(readBudgetExceeded{})
	}
	return c.r.ReadAt(p, off)
}

type buildResult struct {
	phase      string
	err        error
	panicked   bool
	panicVal   string
	stack      string
	numBuckets uint32
	haveNB     bool
	path       string
	budgetHit  bool
}

func trimStack(s string) string {
	// keep the frames of the code under test (drop runtime/debug and the engine)
	if len(s) > 2500 {
		s = s[:2500]
	}
	return s
}

func build(f Format, c Case, ins []pair, dir, tag string) (res buildResult) {
	res.phase = "NewBuilder"
	tmp := filepath.Join(dir, "tmp-"+tag)
	if err := os.MkdirAll(tmp, 0o755); err != nil {
		res.phase, res.err = "harness", err
		return
	}
	var b Builder
	var out *os.File
	defer func() {
		if r := recover(); r != nil {
			res.panicked = true
			res.panicVal = fmt.Sprint(r)
			res.stack = trimStack(string(debug.Stack()))
		}
		if out != nil {
			out.Close()
		}
		if b != nil {
			func() {
				defer func() { recover() }()
				b.Close()
			}()
		}
		os.RemoveAll(tmp)
	}()
	var err error
	b, err = f.NewBuilder(tmp, c.Declared, c.ValueSize, c.Variant)
	if err != nil {
		b = nil
		res.err = err
		return
	}
	res.numBuckets, res.haveNB = b.NumBuckets(), true
	if f.HasMeta() {
		res.phase = "Meta"
		kind, kvs := metaPairs(c.Meta)
		for _, kv := range kvs {
			if err := b.AddMeta(kv[0], kv[1]); err != nil {
				res.err = err
				return
			}
		}
		if kind != nil {
			if err := b.SetKind(kind); err != nil {
				res.err = err
				return
			}
		}
	}
	res.phase = "Insert"
	for _, p := range ins {
		if err := b.Insert(p.k, p.v); err != nil {
			res.err = err
			return
		}
	}
	res.phase = "Seal"
	res.path = filepath.Join(dir, "index-"+tag)
	out, err = os.OpenFile(res.path, os.O_CREATE|os.O_TRUNC|os.O_RDWR, 0o644)
	if err != nil {
		res.phase, res.err = "harness", err
		return
	}
	cctx, cancel := context.WithCancel(context.Background())
	defer cancel()
	ctx := &budgetCtx{Context: cctx, budget: int64(res.numBuckets)*20000 + 1000, cancelAt: int64(c.CancelAt), cancel: cancel}
	if c.CancelAt < 0 {
		cancel()
	}
	err = b.Seal(ctx, out)
	if err != nil {
		res.err = err
		res.budgetHit = errors.Is(err, errStepBudget)
		return
	}
	res.phase = "done"
	return
}

// environmental reports whether an error is a resource problem of the machine (disk full, descriptor
// limit ...) rather than a decision of the builder's logic; only those are excused as inconclusive.
func environmental(err error) bool {
	var en syscall.Errno
	if !errors.As(err, &en) {
		return false
	}
	switch en {
	case syscall.ENOSPC, syscall.EMFILE, syscall.ENFILE, syscall.EIO, syscall.EDQUOT, syscall.ENOMEM, syscall.EROFS, syscall.EACCES:
		return true
	}
	return false
}

type lookupFail struct {
	class  string // key-lost wrong-value error panic no-termination
	detail string
	keyHex string
	keyLen int
}

func hexHead(b []byte) string {
	if len(b) > 48 {
		return hex.EncodeToString(b[:48]) + fmt.Sprintf("...(%d bytes)", len(b))
	}
	return hex.EncodeToString(b)
}

// verify opens the sealed file through the reader kind of the case and looks up every model key.
func verify(f Format, c Case, path string, model []pair) (openPhaseErr error, openPanic string, fails []lookupFail, nFail int, meta [][2][]byte, nLook int) {
	var base io.ReaderAt
	switch c.Reader {
	case "mmap":
		m, err := mmap.Open(path)
		if err != nil {
			return fmt.Errorf("harness: %w", err), "", nil, 0, nil, 0
		}
		defer m.Close()
		base = m
	case "bytes":
		b, err := os.ReadFile(path)
		if err != nil {
			return fmt.Errorf("harness: %w", err), "", nil, 0, nil, 0
		}
		base = bytes.NewReader(b)
	case "eof":
		// an io.ReaderAt that reports io.EOF together with a complete read that ends at the end of the
		// source - explicitly allowed by the io.ReaderAt contract
		b, err := os.ReadFile(path)
		if err != nil {
			return fmt.Errorf("harness: %w", err), "", nil, 0, nil, 0
		}
		base = eofReader(b)
	default:
		fh, err := os.Open(path)
		if err != nil {
			return fmt.Errorf("harness: %w", err), "", nil, 0, nil, 0
		}
		defer fh.Close()
		base = fh
	}
	cr := &countingReader{r: base}
	var db DB
	func() {
		defer func() {
			if r := recover(); r != nil {
				openPanic = fmt.Sprint(r) + "\n" + trimStack(string(debug.Stack()))
			}
		}()
		db, openPhaseErr = f.Open(cr)
		if openPhaseErr == nil {
			db.Prefetch(c.Prefetch)
			meta = db.Meta()
		}
	}()
	if openPhaseErr != nil || openPanic != "" {
		return
	}
	for _, p := range model {
		nLook++
		cr.reads = 0
		var got []byte
		var err error
		var pv string
		budget := false
		func() {
			defer func() {
				if r := recover(); r != nil {
					if _, ok := r.(readBudgetExceeded); ok {
						budget = true
						return
					}
					pv = fmt.Sprint(r) + "\n" + trimStack(string(debug.Stack()))
				}
			}()
			got, err = db.Lookup(p.k)
		}()
		var lf *lookupFail
		switch {
		case budget:
			lf = &lookupFail{class: "no-termination", detail: fmt.Sprintf("Lookup issued more than %d reads without returning", lookupReadBudget)}
		case pv != "":
			lf = &lookupFail{class: "panic", detail: "Lookup panicked: " + pv}
		case err != nil && f.IsNotFound(err):
			lf = &lookupFail{class: "key-lost", detail: "Lookup of an inserted key says not found"}
		case err != nil:
			lf = &lookupFail{class: "error", detail: "Lookup of an inserted key failed: " + err.Error()}
		case !bytes.Equal(got, p.v):
			lf = &lookupFail{class: "wrong-value", detail: fmt.Sprintf("Lookup returned %s, inserted %s", hexHead(got), hexHead(p.v))}
		}
		if lf != nil {
			nFail++
			lf.keyHex, lf.keyLen = hexHead(p.k), len(p.k)
			if len(fails) < 3 {
				fails = append(fails, *lf)
			}
			if lf.class == "no-termination" || nFail >= 50 {
				break
			}
		}
	}
	return
}

type stats struct {
	mu          sync.Mutex
	orderHashes map[string]map[string]string // keyset id -> order -> sha of file
}

func popClass(n int) string {
	switch {
	case n <= 4:
		return fmt.Sprint(n)
	case n == DocumentedBucketLimit-1, n == DocumentedBucketLimit, n == DocumentedBucketLimit+1:
		return fmt.Sprint(n)
	case n > DocumentedBucketLimit:
		return ">10000"
	}
	k := 0
	for 1<<k <= n {
		k++
	}
	return fmt.Sprintf("<2^%d", k)
}

func declClass(declared uint, n int) string {
	switch {
	case int(declared) == n:
		return "=n"
	case declared == 1:
		return "1"
	case int(declared) == n+1:
		return "n+1"
	case int(declared) < n:
		return "<n"
	}
	return ">n"
}

func keyClass(c Case) string {
	if c.KeyGen == "rand" || c.KeyGen == "bucket" || c.KeyGen == "seqbe" {
		return fmt.Sprintf("%s%d", c.KeyGen, c.KeyLen)
	}
	return c.KeyGen
}

// RunCase executes one case against the real code and applies the oracle.
func RunCase(f Format, c Case, rec *ev.Recorder, st *stats, dir string) (violated bool) {
	viol := func(key string, format string, a ...any) {
		violated = true
		rec.Violation(key, fmt.Sprintf(format, a...), c)
	}
	rec.Eval(1)
	name := f.Name()
	cdir, err := os.MkdirTemp(dir, "case-")
	if err != nil {
		rec.Inconclusive("harness: " + err.Error())
		return
	}
	defer os.RemoveAll(cdir)
	ins, model := materialise(f, c)
	rec.Count("inserts", len(ins))
	switch c.KeyGen {
	case "hashextreme":
		for _, p := range model {
			h := f.EntryHash(0, p.k)
			if h <= 2 || h >= 0xfffffd {
				rec.Count("reach_keys_with_extreme_hash", 1)
			}
			if h == 0 {
				rec.Count("reach_keys_with_hash_000000", 1)
			}
			if h == 0xffffff {
				rec.Count("reach_keys_with_hash_ffffff", 1)
			}
		}
	case "collide0":
		seen := map[uint64]bool{}
		for _, p := range model {
			h := f.EntryHash(0, p.k)
			if seen[h] {
				rec.Count("reach_key_pairs_colliding_in_domain0", 1)
			}
			seen[h] = true
		}
	}

	// ---- classification of the input by the statement
	cond := "legal"
	legalVS := false
	for _, v := range f.LegalValueSizes() {
		if v == c.ValueSize {
			legalVS = true
		}
	}
	switch {
	case !legalVS:
		cond = "value-size-unsupported"
	case c.TooLong > MaxKeyLen:
		cond = "key-too-long"
	case c.Dup != "":
		cond = "duplicate-key"
	}

	r1 := build(f, c, ins, cdir, "a")
	rec.Count("builds", 1)
	if r1.phase == "harness" {
		rec.Inconclusive("harness: " + r1.err.Error())
		return
	}
	maxPop, empties := 0, 0
	if r1.haveNB && r1.numBuckets > 0 {
		pops := make([]int, r1.numBuckets)
		for _, p := range model {
			b := f.BucketOf(r1.numBuckets, p.k)
			if int(b) < len(pops) {
				pops[b]++
			}
		}
		for _, p := range pops {
			if p > maxPop {
				maxPop = p
			}
			if p == 0 {
				empties++
			}
		}
	}
	overfull := maxPop > DocumentedBucketLimit
	nb := "nb1"
	switch {
	case r1.numBuckets == 2:
		nb = "nb2"
	case r1.numBuckets > 2 && empties > 0:
		nb = "nb3+empty"
	case r1.numBuckets > 2:
		nb = "nb3+"
	}
	decided := func(outcome string) {
		if len(model) >= 2 {
			rec.Distinct(fmt.Sprintf("%s/vs%d.%d/%s/pop%s.%s/%s/decl%s/%s", name, c.ValueSize, c.Variant, keyClass(c), popClass(maxPop), nb, c.Order, declClass(c.Declared, len(model)), cond))
		}
		rec.Count("outcome_"+outcome, 1)
		if c.Group != "" {
			rec.Count("group_"+c.Group, 1)
		}
	}

	if r1.panicked {
		viol(fmt.Sprintf("%s/%s/panic/%s", name, r1.phase, cond),
			"%s panicked instead of returning an error (%s input, %d inserts, value size %d): %s\n%s", r1.phase, cond, len(ins), c.ValueSize, r1.panicVal, r1.stack)
		decided("panic")
		return
	}
	if r1.err != nil {
		switch {
		case r1.budgetHit:
			rec.Inconclusive(fmt.Sprintf("%+v: mining exceeded the step budget", c))
		case cond != "legal":
			decided("expected_error")
			rec.Count("expected_error_"+cond, 1)
		case overfull:
			decided("overfull_error")
		case c.CancelAt != 0 && (errors.Is(r1.err, context.Canceled) || errors.Is(r1.err, context.DeadlineExceeded)):
			// the build was cancelled and says so: the builder may not honour the inserts, and it failed loudly
			decided("cancelled_error")
		case environmental(r1.err):
			rec.Inconclusive(fmt.Sprintf("%+v: file-system error during %s: %v", c, r1.phase, r1.err))
		default:
			viol(fmt.Sprintf("%s/%s/unexpected-error/legal", name, r1.phase),
				"%s failed on a legal input (%d distinct keys, value size %d, declared %d, %d buckets, fullest bucket %d <= %d): %v",
				r1.phase, len(model), c.ValueSize, c.Declared, r1.numBuckets, maxPop, DocumentedBucketLimit, r1.err)
			decided("unexpected_error")
		}
		return
	}
	// ---- sealed
	if cond == "duplicate-key" {
		viol(fmt.Sprintf("%s/Seal/duplicate-key-accepted", name),
			"the same key was inserted twice (%s) among %d inserts and Seal succeeded", c.Dup, len(ins))
		decided("dup_accepted")
		return
	}
	if overfull {
		rec.Count("overfull_sealed", 1)
	}
	operr, oppanic, fails, nFail, meta, nLook := verify(f, c, r1.path, model)
	rec.Count("lookups", nLook)
	switch {
	case oppanic != "":
		viol(fmt.Sprintf("%s/Open/panic/%s", name, cond), "Open of a freshly sealed index panicked: %s", oppanic)
		decided("open_panic")
		return
	case operr != nil && strings.HasPrefix(operr.Error(), "harness:"):
		rec.Inconclusive(operr.Error())
		return
	case operr != nil:
		viol(fmt.Sprintf("%s/Open/unexpected-error/%s", name, cond), "Open of a freshly sealed index failed: %v", operr)
		decided("open_error")
		return
	}
	if nFail > 0 {
		lf := fails[0]
		key := fmt.Sprintf("%s/Lookup/%s/legal", name, lf.class)
		if cond != "legal" {
			// the builder accepted an input it cannot honour and produced an index that loses/corrupts entries
			key = fmt.Sprintf("%s/build/silent-loss/%s", name, cond)
		}
		viol(key, "sealed without error, but %d of %d inserted keys do not look up to their value; first: key %s (len %d): %s  [%s input, value size %d, declared %d, %d buckets, fullest %d, order %s, reader %s]",
			nFail, len(model), lf.keyHex, lf.keyLen, lf.detail, cond, c.ValueSize, c.Declared, r1.numBuckets, maxPop, c.Order, c.Reader)
		decided("lookup_failed")
		return
	}
	if f.HasMeta() && cond == "legal" {
		// diagnostic only: the statement speaks about keys, not about the metadata block
		kind, kvs := metaPairs(c.Meta)
		want := len(kvs)
		if kind != nil {
			want++
		}
		if len(meta) != want {
			rec.Count("diag_metadata_pair_count_differs", 1)
		}
	}
	// ---- determinism: the same inserts sealed twice
	if c.Twice {
		r2 := build(f, c, ins, cdir, "b")
		rec.Count("builds", 1)
		switch {
		case r2.phase == "harness":
			rec.Inconclusive("harness: " + r2.err.Error())
		case r2.panicked:
			viol(fmt.Sprintf("%s/%s/panic/%s", name, r2.phase, cond), "second build of the same inserts panicked: %s\n%s", r2.panicVal, r2.stack)
		case r2.err != nil && (environmental(r2.err) || r2.budgetHit):
			rec.Inconclusive(fmt.Sprintf("%+v: second build: %v", c, r2.err))
		case r2.err != nil:
			viol(fmt.Sprintf("%s/Seal/nondeterministic-outcome", name), "first build of these inserts sealed, the second failed in %s: %v", r2.phase, r2.err)
		default:
			a, e1 := os.ReadFile(r1.path)
			b, e2 := os.ReadFile(r2.path)
			if e1 != nil || e2 != nil {
				rec.Inconclusive(fmt.Sprintf("harness: reading sealed files: %v %v", e1, e2))
			} else if !bytes.Equal(a, b) {
				d := 0
				for d < len(a) && d < len(b) && a[d] == b[d] {
					d++
				}
				viol(fmt.Sprintf("%s/Seal/nondeterministic-bytes", name),
					"the same %d inserts sealed twice give different files (%d vs %d bytes, first difference at offset %d)", len(ins), len(a), len(b), d)
			} else {
				rec.Count("sealed_twice_identical", 1)
			}
		}
	}
	// diagnostic: are files identical across insertion orders? (not demanded by the statement)
	if st != nil && c.Group == "orders" {
		if b, err := os.ReadFile(r1.path); err == nil {
			id := fmt.Sprintf("%s/%d/%d/%d/%d", c.KeyGen, c.N, c.KeySeed, c.ValueSize, c.Declared)
			h := sha256.Sum256(b)
			st.mu.Lock()
			if st.orderHashes[id] == nil {
				st.orderHashes[id] = map[string]string{}
			}
			st.orderHashes[id][c.Order] = hex.EncodeToString(h[:8])
			st.mu.Unlock()
		}
	}
	if cond == "legal" {
		decided("ok")
	} else {
		decided("ok_despite_" + cond) // honoured after all: allowed by the statement
	}
	return
}

// ---------------------------------------------------------------- case lists

var orders = []string{"gen", "sorted", "reversed", "shuffle1", "shuffle2", "shuffle3"}
var readers = []string{"bytes", "file", "mmap", "eof"}
var metas = []string{"none", "kind", "typical", "pairs255-tiny", "pairs255-max", "empty-kv", "dupkeys", "kind-max"}
var keygens = []string{"rand", "seqle", "ascii", "mixed", "seqbe", "pffff", "p0000"}

func uniq(in []int) []int {
	m := map[int]bool{}
	var out []int
	for _, v := range in {
		if !m[v] {
			m[v] = true
			out = append(out, v)
		}
	}
	return out
}

func inList(l []int, v int) bool {
	for _, x := range l {
		if x == v {
			return true
		}
	}
	return false
}

// Cases returns the case list: a function of (format, seed, tier) only.
func Cases(f Format, seed int64, thorough bool) []Case {
	rng := rand.New(rand.NewSource(seed*1000003 + 0xC04))
	name := f.Name()
	legal := f.LegalValueSizes()
	sized := len(legal) > 16
	pick := func(q, t int) int {
		if thorough {
			return t
		}
		return q
	}
	// value sizes used for rotation
	var vsList []int
	if sized {
		for _, v := range []int{1, 2, 3, 4, 5, 7, 8, 9, 12, 16, 24, 32, 36, 48, 64, 100, 127, 128, 129, 200, 250, 251, 252} {
			if inList(legal, v) {
				vsList = append(vsList, v)
			}
		}
		for i := 0; i < 3; i++ {
			vsList = append(vsList, legal[rng.Intn(len(legal))])
		}
		vsList = uniq(vsList)
	} else {
		vsList = legal
	}
	var cs []Case
	n := 0
	next := func() int64 { n++; return seed*100000 + int64(n) }
	rot := func(i int, c *Case) {
		c.Format = name
		c.ValueSize = vsList[i%len(vsList)]
		vr := f.Variants(c.ValueSize)
		c.Variant = vr[(i/len(vsList))%len(vr)]
		c.Order = orders[i%len(orders)]
		c.Reader = readers[i%len(readers)]
		c.Prefetch = i%2 == 1
		if f.HasMeta() {
			c.Meta = metas[i%len(metas)]
			if c.Meta == "pairs255-max" && i%5 != 0 {
				c.Meta = "typical"
			}
		}
	}
	base := func(i int, group string, N int) Case {
		c := Case{Group: group, N: N, KeyGen: keygens[i%len(keygens)], KeyLen: []int{32, 64, 8, 16, 12}[i%5], KeySeed: next(), Declared: uint(N), Twice: N <= 2100 || i%4 == 0}
		rot(i, &c)
		if N > 3000 && c.Reader == "file" && i%4 != 0 {
			c.Reader = "mmap" // one pread per tree level and key: keep most large cases off the syscall path
		}
		return c
	}

	// 0. cancelled builds: a context cancelled before or during Seal must make Seal fail (or leave a complete
	// index) - never an index that silently lacks entries
	for i, ca := range []int{-1, 1, 2, 3, 7, 40} {
		c := base(i, "cancelled", []int{50, 3000, 25000}[i%3])
		c.CancelAt = ca
		c.Twice = false
		cs = append(cs, c)
	}

	// A. bucket sizes: one bucket with exactly n entries (every eytzinger layout)
	var ns []int
	upto := pick(130, 2100)
	if !sized {
		upto = pick(40, 600)
	}
	for i := 1; i <= upto; i++ {
		ns = append(ns, i)
	}
	for k := 6; k <= 13; k++ {
		ns = append(ns, 1<<k-1, 1<<k, 1<<k+1)
	}
	ns = append(ns, 9999, 10000)
	if thorough {
		ns = append(ns, 3000, 5000, 6561, 7777, 9998)
	}
	ns = uniq(ns)
	for i, N := range ns {
		cs = append(cs, base(i+int(seed), "layout", N))
	}

	// B. value sizes
	vsAll := vsList
	if thorough {
		vsAll = legal
	}
	for i, vs := range vsAll {
		for _, vr := range f.Variants(vs) {
			for j, N := range []int{1, 2, 3, 257} {
				c := base(i+j, "valuesize", N)
				c.ValueSize, c.Variant = vs, vr
				cs = append(cs, c)
			}
		}
	}
	for j, N := range []int{100, 1, 2} {
		for i, vs := range f.UnsupportedValueSizes() {
			c := base(i+j, "valuesize-unsupported", N)
			c.ValueSize, c.Variant, c.KeyGen = vs, 0, "rand"
			cs = append(cs, c)
		}
	}

	// C. key lengths
	for i, L := range []int{0, 1, 2, 3, 4, 7, 8, 9, 15, 16, 17, 31, 32, 33, 63, 64, 65, 127, 128, 129, 255, 256, 257, 1023, 4096, 65534, 65535} {
		N := 50
		switch {
		case L == 0:
			N = 1
		case L == 1:
			N = 256
		case L == 2:
			N = pick(700, 65536)
		case L > 60000:
			N = pick(5, 40)
		}
		c := base(i, "keylen", N)
		c.KeyGen, c.KeyLen = "rand", L
		if L == 2 && thorough {
			c.Declared = 70000
		}
		cs = append(cs, c)
	}
	for i, kg := range []string{"onebyte", "mixed", "giant", "p0000", "pffff", "seqle", "seqbe", "ascii"} {
		N := []int{257, 400, 12, 1000, 1000, 2000, 2000, 500}[i]
		c := base(i+3, "keylen", N)
		c.KeyGen = kg
		cs = append(cs, c)
	}
	tooLong := []int{65536, 65541, 131072}
	nshort := []int{0, 50}
	if thorough {
		tooLong = []int{65536, 65537, 65541, 65600, 70000, 131071, 131072, 131073, 200000}
		nshort = []int{0, 1, 2, 50, 500}
	}
	for i, L := range tooLong {
		for _, pos := range []string{"first", "middle", "last"} {
			for _, ns := range nshort {
				if ns == 0 && pos != "last" {
					continue
				}
				c := base(i, "key-too-long", ns)
				c.KeyGen, c.KeyLen, c.TooLong, c.TooLongPos, c.Order, c.Twice = "rand", 32, L, pos, "gen", false
				c.Declared = uint(ns + 1)
				cs = append(cs, c)
			}
		}
	}

	// D. insertion orders of one key set
	osizes := []int{2, 3, 10, 100, 3000, 25000}
	if thorough {
		osizes = append(osizes, 7, 1000, 10000, 60000)
	}
	for i, N := range osizes {
		proto := base(i+int(seed), "orders", N)
		proto.Twice = N <= 3000
		for _, o := range orders {
			c := proto
			c.Order = o
			cs = append(cs, c)
		}
	}

	// E. declared item counts (bucket-count boundaries 10 000 / 20 000 ...)
	dn := []int{1, 7, 1000, 9999, 10000, 10001, 20000, 20001}
	if thorough {
		dn = append(dn, 19999, 29999, 30000, 30001, 40001, 60000)
	}
	for i, N := range dn {
		ds := uniq([]int{1, max(1, N/10), max(1, N-1), N, N + 1, 10 * N})
		for j, d := range ds {
			if !thorough && N >= 20000 && d < N/2 && !(N == 20001 && d == 1) {
				continue // over-full single bucket: 1000 mining rounds each; one witness is enough in the quick tier
			}
			c := base(i+j, "declared", N)
			c.Declared = uint(d)
			c.Twice = N <= 10001 && d >= N/10
			cs = append(cs, c)
		}
	}

	// F. adversarial: all keys in one bucket of several
	type adv struct {
		declared, bucket, n int
	}
	advs := []adv{{20000, 0, 1}, {20000, 1, 2}, {20000, 0, 3}, {30000, 2, 7}, {20000, 1, 10000}, {20000, 0, 9999}, {70000, 6, 500}, {20000, 1, 10001}, {10001, 1, 4}, {1000000, 99, 65}}
	if thorough {
		advs = append(advs, adv{20000, 0, 12000}, adv{100000, 9, 10000}, adv{30000, 1, 10000}, adv{30000, 0, 5}, adv{50000, 4, 4096}, adv{20000, 0, 15000}, adv{20000, 1, 25000})
	}
	for i, a := range advs {
		c := base(i, "one-bucket", a.n)
		c.KeyGen, c.KeyLen, c.Declared, c.Bucket = "bucket", []int{8, 32, 64}[i%3], uint(a.declared), a.bucket
		c.Twice = a.n <= 10001
		cs = append(cs, c)
	}

	// F2. extreme and colliding per-bucket hashes; bucket tables with more than 255 entries
	for i, N := range []int{9, 20, 300} {
		c := base(i, "hash-extreme", N)
		c.KeyGen, c.KeyLen = "hashextreme", pick(8, 120)
		cs = append(cs, c)
	}
	for i, N := range []int{2, 3, 6, 40} {
		c := base(i+1, "hash-collide", N)
		c.KeyGen = "collide0"
		cs = append(cs, c)
	}
	for i, a := range []adv{{2560001, -1, 1500}, {2560001, 256, 3}, {2560001, 255, 2}, {700000, 64, 40}, {2570000, 0, 5}} {
		c := base(i+2, "many-buckets", a.n)
		c.Declared = uint(a.declared)
		if a.bucket >= 0 {
			c.KeyGen, c.KeyLen, c.Bucket = "bucket", 16, a.bucket
		}
		c.Twice = i == 1
		cs = append(cs, c)
	}

	// G. duplicate keys
	type dp struct {
		n    int
		kind string
	}
	dups := []dp{{1, "ends-same"}, {1, "ends-diff"}, {2, "adjacent-same"}, {2, "first-two"}, {3, "last-two-diff"}, {100, "adjacent-same"}, {100, "ends-diff"}, {1000, "ends-same"}, {10000, "ends-diff"}, {25000, "adjacent-same"}}
	if thorough {
		dups = append(dups, dp{7, "ends-same"}, dp{4096, "first-two"}, dp{9999, "adjacent-same"}, dp{20001, "ends-same"}, dp{60000, "last-two-diff"})
	}
	for i, d := range dups {
		c := base(i, "duplicate", d.n)
		c.Dup, c.Twice = d.kind, false
		c.Declared = uint(d.n + 1)
		cs = append(cs, c)
	}

	// H. metadata shapes x reader x prefetch
	ms := []string{""}
	if f.HasMeta() {
		ms = metas
	}
	i := 0
	for _, m := range ms {
		for _, rd := range readers {
			for _, pf := range []bool{false, true} {
				c := base(i, "meta-reader", 300)
				c.Meta, c.Reader, c.Prefetch = m, rd, pf
				cs = append(cs, c)
				i++
			}
		}
	}

	// I. seeded random mix of every knob
	nr := pick(150, 2500)
	for i := 0; i < nr; i++ {
		maxN := pick(3000, 30000)
		N := 1 + int(float64(maxN)*rng.Float64()*rng.Float64()*rng.Float64())
		c := base(rng.Intn(1<<20), "random", N)
		c.ValueSize = legal[rng.Intn(len(legal))]
		if rng.Intn(2) == 0 {
			c.ValueSize = vsList[rng.Intn(len(vsList))]
		}
		vr := f.Variants(c.ValueSize)
		c.Variant = vr[rng.Intn(len(vr))]
		c.Order = orders[rng.Intn(len(orders))]
		c.Reader = readers[rng.Intn(len(readers))]
		c.Prefetch = rng.Intn(2) == 0
		switch rng.Intn(6) {
		case 0:
			c.Declared = 1
		case 1:
			c.Declared = uint(max(1, N/10))
		case 2:
			c.Declared = uint(N + 1)
		case 3:
			c.Declared = uint(10 * N)
		case 4:
			c.Declared = uint(1 + rng.Intn(4*N))
		}
		if c.KeyGen == "rand" {
			c.KeyLen = []int{3, 4, 8, 32, 33, 64, 100, 255, 256, 300}[rng.Intn(10)]
		}
		c.Twice = N <= 2100 || rng.Intn(4) == 0
		cs = append(cs, c)
	}
	// cases about inputs the builder cannot honour run last, so that defects there (which may be known
	// findings) never cut the main workload short
	var head, tail []Case
	for _, c := range cs {
		if tailGroups[c.Group] {
			tail = append(tail, c)
		} else {
			head = append(head, c)
		}
	}
	return append(head, tail...)
}

var tailGroups = map[string]bool{"valuesize-unsupported": true, "key-too-long": true}

// scratchDir creates the directory that holds spill files and sealed indexes.  Seal fsyncs its output,
// which costs 10-50 ms per case on a journalled disk; the property is not about durability, so a tmpfs
// is preferred when the machine has one (VERIF_C04_SCRATCH overrides).
func scratchDir(name string) (string, error) {
	roots := []string{os.Getenv("VERIF_C04_SCRATCH"), "/dev/shm", ev.Scratch()}
	var lastErr error
	for _, r := range roots {
		if r == "" {
			continue
		}
		if st, err := os.Stat(r); err != nil || !st.IsDir() {
			continue
		}
		if r == "/dev/shm" {
			// leftovers of killed runs would pin RAM: drop those older than 3 hours
			if old, _ := filepath.Glob("/dev/shm/verif-c04-*"); len(old) > 0 {
				for _, o := range old {
					if st, err := os.Stat(o); err == nil && time.Since(st.ModTime()) > 3*time.Hour {
						os.RemoveAll(o)
					}
				}
			}
		}
		d, err := os.MkdirTemp(r, "verif-c04-"+name+"-")
		if err == nil {
			return d, nil
		}
		lastErr = err
	}
	if lastErr == nil {
		lastErr = errors.New("no usable scratch root")
	}
	return "", lastErr
}

// Run is the entry point called by the in-package adapters.
func Run(t *testing.T, f Format) {
	rec := ev.New("C04", f.Name())
	defer rec.Flush()
	rec.Rule("one case = build (NewBuilder, Insert*, Seal) + Lookup of EVERY inserted key (+ second build for byte identity); " +
		"distinct = distinct (format, value size.variant, key class, fullest-bucket class.bucket-count class, insertion order, declared ratio, input condition) with >= 2 keys and a decided outcome")
	dir, err := scratchDir(f.Name())
	if err != nil {
		t.Fatalf("scratch: %v", err)
	}
	defer os.RemoveAll(dir)
	rec.Note("scratch", filepath.Dir(dir))
	st := &stats{orderHashes: map[string]map[string]string{}}
	var rc Case
	if os.Getenv("VERIF_REPLAY") != "" {
		if ev.LoadReplay(&rc) && rc.Format == f.Name() {
			RunCase(f, rc, rec, st, dir)
			rec.Distinct("replay")
			rec.Distinct("replay2")
		}
		return
	}
	cases := Cases(f, ev.Seed(), ev.Thorough())
	rec.Note("cases_planned", len(cases))
	done := 0
	groupViol := map[string]int{}
	var mu sync.Mutex
	var wg sync.WaitGroup
	jobs := make(chan Case)
	const workers = 4 // cases are independent; the packages under test start no goroutines
	for w := 0; w < workers; w++ {
		wg.Add(1)
		go func() {
			defer wg.Done()
			for c := range jobs {
				func() {
					defer func() {
						if r := recover(); r != nil {
							rec.Inconclusive(fmt.Sprintf("harness panic on %+v: %v", c, r))
						}
					}()
					mu.Lock()
					skip := tailGroups[c.Group] && groupViol[c.Group] >= 3
					mu.Unlock()
					if skip {
						// the same class of input already produced 3 witnesses: more of them add nothing
						rec.Count("skipped_after_3_witnesses_"+c.Group, 1)
						return
					}
					t0 := time.Now()
					v := RunCase(f, c, rec, st, dir)
					rec.Count("diag_ms_group_"+c.Group, int(time.Since(t0).Milliseconds())) // diagnostic only, never part of a verdict
					mu.Lock()
					if v {
						groupViol[c.Group]++
					}
					done++
					mu.Unlock()
				}()
			}
		}()
	}
	for i, c := range cases {
		if rec.Enough() {
			rec.Note("stopped_early_at_case", i)
			break
		}
		if i%97 == 3 || c.Group == "key-too-long" && i%5 == 0 {
			rec.Sample(c)
		}
		jobs <- c
	}
	close(jobs)
	wg.Wait()
	same, differ := 0, 0
	for _, m := range st.orderHashes {
		first := ""
		eq := true
		for _, h := range m {
			if first == "" {
				first = h
			} else if h != first {
				eq = false
			}
		}
		if len(m) > 1 {
			if eq {
				same++
			} else {
				differ++
			}
		}
	}
	rec.Note("diag_keysets_with_identical_file_across_orders", same)
	rec.Note("diag_keysets_with_different_file_across_orders", differ)
	t.Logf("C04 %s: %d cases executed", f.Name(), done)
}
