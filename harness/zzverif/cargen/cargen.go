//go:build verif

// Package cargen generates well-formed epoch CAR files together with the ground-truth model they
// were generated from.  Nodes are encoded with the *reference* encoder (ipld-prime bindnode +
// dag-cbor), CIDs are computed here, and the CAR bytes are laid out by this package's own writer,
// so that nothing the repository's fast decoders / indexers do is trusted by the oracle.
// Overlay-only package (never inside /repo).
package cargen

import (
	"bufio"
	"bytes"
	"encoding/binary"
	"fmt"
	"hash/crc64"
	"hash/fnv"
	"math/rand"
	"os"

	"github.com/gagliardetto/solana-go"
	"github.com/ipfs/go-cid"
	carv1 "github.com/ipld/go-car"
	"github.com/ipld/go-ipld-prime"
	"github.com/ipld/go-ipld-prime/codec/dagcbor"
	"github.com/ipld/go-ipld-prime/datamodel"
	cidlink "github.com/ipld/go-ipld-prime/linking/cid"
	"github.com/ipld/go-ipld-prime/schema"
	"github.com/klauspost/compress/zstd"
	"github.com/multiformats/go-multicodec"
	"github.com/rpcpool/yellowstone-faithful/ipld/ipldbindcode"
	"github.com/rpcpool/yellowstone-faithful/third_party/solana_proto/confirmed_block"
	"google.golang.org/protobuf/proto"
)

const SlotsPerEpoch = 432000

// Kind bytes as in the ledger schema.
const (
	KindTransaction = 0
	KindEntry       = 1
	KindBlock       = 2
	KindSubset      = 3
	KindEpoch       = 4
	KindRewards     = 5
	KindDataFrame   = 6
)

// DummyCID is the "no rewards" link the real writers use (CIDv1 raw identity-less bafkqaaa).
var DummyCID = cid.MustParse("bafkqaaa")

type Opts struct {
	Epoch uint64
	Seed  int64
	// Slots: explicit list of block slots (ascending). If nil, NSlots positions from the epoch start
	// are used and each is skipped with probability 1/SkipOneIn (0 = none skipped).
	Slots     []uint64
	NSlots    int
	SkipOneIn int
	// shape
	MaxEntries      int // entries per block: 1..MaxEntries (default 3)
	MaxTx           int // transactions per entry: 0..MaxTx (default 3)
	EmptyBlockOneIn int // 1/k blocks are empty: one entry without transactions, or no entry at all (0 = never)
	ExactTx         int // if >0: total number of transactions is forced to exactly this (spread over blocks)
	MultiFrameOneIn int // 1/k transactions get multi-frame metadata (0 = never)
	// SplitTxData: multi-frame transactions also get their *transaction* payload split (the server
	// paths support it; the block-by-block indexers (gsfa, split-car) only accept single-frame tx data,
	// as all real writers produce)
	SplitTxData    bool
	MaxFrames      int // max frames per multi-frame payload (default 8)
	FanOut         int // next-link fan-out (0 = random 1..10)
	BigOneIn       int // 1/k transactions carry a big instruction payload => section > 16 KiB (3-byte varint)
	TinyOneIn      int // 1/k transactions have no metadata and minimal size
	RewardsOneIn   int // 1/k blocks have a rewards node (0 = never)
	RootSha512     bool
	LegacyFnvOneIn int // 1/k multi-frame payloads use the legacy FNV-1a checksum
	VoteOneIn      int
	FailOneIn      int
	V0OneIn        int
	// NoInstrOneIn: 1/k of the non-vote transactions carry no instruction at all (legal on the wire; such a
	// transaction names no program)
	NoInstrOneIn int
	// FailOtherKindOneIn: 1/k of the failed transactions fail with AccountInUse instead of InstructionError/Custom
	FailOtherKindOneIn int
	NoPosIndex         bool // no transaction carries the optional position index (archives of the first format generation)
	NoPosIndexOneIn    int  // 1/k transactions lack the optional position index
	// Universe: when non-empty, the non-fee-payer account keys are drawn from this small set
	Universe []solana.PublicKey
	// KeyHook lets a test force specific accounts into a transaction (appended to the static keys).
	KeyHook func(slot uint64, pos int) []solana.PublicKey `json:"-"`
	// TrailingJunkFrames adds n orphan DataFrame sections after the last block (before Subset/Epoch).
	TrailingJunkFrames int
	// SigEdgeOneIn: 1/k transactions get a first signature whose two-byte prefix is a boundary value
	SigEdgeOneIn int
	// BlocktimeEdgeOneIn: 1/k blocks get a block time from {1, 2^31-1, 2^31, 2^32-1}
	BlocktimeEdgeOneIn int
	// LastSlot appends the last slot of the epoch (base+431999) to the generated slot list
	LastSlot bool
	// HeightStart: block height of the first block (default epoch*400000+7); -1 => 0
	HeightStart int64
	// SubsetEvery: blocks per Subset node (default: all in one subset)
	SubsetEvery int
	// ExtraHeaderRoots is not supported by the indexer (needs exactly one root); kept 0.
}

type Section struct {
	Cid    cid.Cid
	Offset uint64 // offset of the section (its length varint) in the file
	Len    uint64 // total section length including the varint
	Kind   int
	Data   []byte // node bytes (without varint and CID)
}

type Tx struct {
	Sig     solana.Signature
	Sigs    []solana.Signature
	Raw     []byte // serialized solana transaction
	MetaRaw []byte // uncompressed protobuf TransactionStatusMeta (nil if none)
	MetaZ   []byte // compressed, as stored
	Slot    uint64
	Pos     int
	Static  []solana.PublicKey
	LoadedW []solana.PublicKey
	LoadedR []solana.PublicKey
	IsVote  bool
	NoInstr bool // the message carries no instruction
	NoPos   bool // archived without the optional position index
	Failed  bool
	V0      bool
	// FailOtherKind: failed with a TransactionError other than InstructionError/Custom
	FailOtherKind bool
	Fee           uint64
	Cid           cid.Cid
	Offset        uint64
	Len           uint64
	NFramesD      int
	NFramesM      int
}

// Mentions reports whether the transaction mentions the key (static or address-table loaded).
func (t *Tx) Mentions(k solana.PublicKey) bool {
	for _, s := range t.Static {
		if s == k {
			return true
		}
	}
	for _, s := range t.LoadedW {
		if s == k {
			return true
		}
	}
	for _, s := range t.LoadedR {
		if s == k {
			return true
		}
	}
	return false
}

func (t *Tx) AllKeys() []solana.PublicKey {
	out := append([]solana.PublicKey{}, t.Static...)
	out = append(out, t.LoadedW...)
	out = append(out, t.LoadedR...)
	return out
}

type Block struct {
	Slot       uint64
	Parent     uint64
	Blocktime  int64
	Height     uint64
	HasHeight  bool
	NEntries   int
	LastHash   []byte // hash of the last entry (nil when the block has no entries)
	RewardsRaw []byte // uncompressed rewards protobuf (nil if none)
	Cid        cid.Cid
	Offset     uint64
	Len        uint64
	Txs        []*Tx // in position order
}

type Model struct {
	Epoch     uint64
	Root      cid.Cid
	HeaderLen uint64
	Path      string
	Size      uint64
	Sections  []Section
	Blocks    []*Block
	BySlot    map[uint64]*Block
	BySig     map[solana.Signature]*Tx
	// layout signature pieces
	VarintWidths map[int]int // width -> count of sections
	Seed         int64
}

func (m *Model) AllTxs() []*Tx {
	var out []*Tx
	for _, b := range m.Blocks {
		out = append(out, b.Txs...)
	}
	return out
}

// LayoutSignature summarises the layout knobs a CAR actually exercised.
func (m *Model) LayoutSignature() string {
	nb, nt := len(m.Blocks), len(m.BySig)
	maxFr := 0
	for _, t := range m.AllTxs() {
		if t.NFramesD > maxFr {
			maxFr = t.NFramesD
		}
		if t.NFramesM > maxFr {
			maxFr = t.NFramesM
		}
	}
	bucket := func(n int) string {
		switch {
		case n < 10000:
			return "<10k"
		case n == 10000:
			return "=10k"
		case n <= 20000:
			return "10k-20k"
		default:
			return ">20k"
		}
	}
	return fmt.Sprintf("epoch=%d hdr=%d widths=%v blocks%s tx%s sections%s maxframes=%d", m.Epoch, m.HeaderLen, m.VarintWidths, bucket(nb), bucket(nt), bucket(len(m.Sections)), maxFr)
}

type enc struct {
	secs []Section
}

func pp(i int) **int { p := &i; return &p }

// EncodeNode encodes v with the reference encoder and returns (cid, bytes).
func EncodeNode(v any, proto schema.TypedPrototype) (cid.Cid, []byte) {
	data, err := ipld.Marshal(dagcbor.Encode, v, proto.Type())
	if err != nil {
		panic(fmt.Errorf("cargen: reference encoder failed: %w", err))
	}
	return CidOf(data), data
}

func CidOf(data []byte) cid.Cid {
	bd := cid.V1Builder{MhLength: -1, MhType: uint64(multicodec.Sha2_256), Codec: uint64(multicodec.DagCbor)}
	c, err := bd.Sum(data)
	if err != nil {
		panic(err)
	}
	return c
}

func cidOf512(data []byte) cid.Cid {
	bd := cid.V1Builder{MhLength: -1, MhType: uint64(multicodec.Sha2_512), Codec: uint64(multicodec.DagCbor)}
	c, err := bd.Sum(data)
	if err != nil {
		panic(err)
	}
	return c
}

func (e *enc) add(v any, proto schema.TypedPrototype, kind int) cid.Cid {
	c, data := EncodeNode(v, proto)
	e.secs = append(e.secs, Section{Cid: c, Kind: kind, Data: data})
	return c
}

func ChecksumCRC(data []byte) int {
	return int(crc64.Checksum(data, crc64.MakeTable(crc64.ISO)))
}

func ChecksumFNV(data []byte) int {
	h := fnv.New64a()
	h.Write(data)
	return int(h.Sum64())
}

// SplitFrames splits payload into k frames, stores the continuation frames through store (in
// an order such that a continuation frame precedes the frame that links to it) and returns
// the first frame.  Layout follows the ledger.ipldsch comment: the frames 1..k-1 are grouped in
// chunks of `fanout`; frame 0 links to the first chunk; the last frame of each chunk links to
// the next chunk.
func SplitFrames(payload []byte, k int, fanout int, fnvSum bool, store func(df *ipldbindcode.DataFrame) cid.Cid) ipldbindcode.DataFrame {
	return SplitFramesMin(payload, k, fanout, fnvSum, 0, store)
}

// SplitFramesMin is SplitFrames with a lower bound on the size of the first frame (the indexers read
// the first signature from the first frame of the transaction payload, as the real writers guarantee).
func SplitFramesMin(payload []byte, k int, fanout int, fnvSum bool, minFirst int, store func(df *ipldbindcode.DataFrame) cid.Cid) ipldbindcode.DataFrame {
	if k < 1 {
		k = 1
	}
	if k > len(payload) && len(payload) > 0 {
		k = len(payload)
	}
	if len(payload) == 0 {
		k = 1
	}
	if fanout < 1 {
		fanout = 1
	}
	sum := ChecksumCRC(payload)
	if fnvSum {
		sum = ChecksumFNV(payload)
	}
	// chunk boundaries
	if minFirst > len(payload) {
		minFirst = len(payload)
	}
	if k > 1 && len(payload)-minFirst < k-1 {
		k = 1 + (len(payload) - minFirst)
	}
	parts := make([][]byte, k)
	per := len(payload) / k
	off := 0
	for i := 0; i < k; i++ {
		end := off + per
		if i == 0 && end < minFirst {
			end = minFirst
			if k > 1 {
				per = (len(payload) - minFirst) / (k - 1)
			}
		}
		if i == k-1 {
			end = len(payload)
		}
		parts[i] = payload[off:end]
		off = end
	}
	mk := func(i int, next ipldbindcode.List__Link) *ipldbindcode.DataFrame {
		if next == nil {
			next = ipldbindcode.List__Link{}
		}
		pn := &next
		return &ipldbindcode.DataFrame{Kind: KindDataFrame, Hash: pp(sum), Index: pp(i), Total: pp(k), Data: parts[i], Next: &pn}
	}
	// groups of continuation frames: [1..fanout], [fanout+1 .. 2*fanout], ...
	var groups [][]int
	for i := 1; i < k; i += fanout {
		j := i + fanout
		if j > k {
			j = k
		}
		var g []int
		for x := i; x < j; x++ {
			g = append(g, x)
		}
		groups = append(groups, g)
	}
	// build from the last group backwards
	var nextLinks ipldbindcode.List__Link // links to the group that follows
	for gi := len(groups) - 1; gi >= 0; gi-- {
		g := groups[gi]
		var links ipldbindcode.List__Link
		for idx, fi := range g {
			var df *ipldbindcode.DataFrame
			if idx == len(g)-1 {
				df = mk(fi, nextLinks)
			} else {
				df = mk(fi, nil)
			}
			links = append(links, cidlink.Link{Cid: store(df)})
		}
		nextLinks = links
	}
	return *mk(0, nextLinks)
}

var zenc, _ = zstd.NewWriter(nil, zstd.WithEncoderLevel(zstd.SpeedDefault))

func Zstd(b []byte) []byte { return zenc.EncodeAll(b, nil) }

func randKey(rng *rand.Rand) solana.PublicKey {
	var k solana.PublicKey
	rng.Read(k[:])
	return k
}

func oneIn(rng *rand.Rand, k int) bool { return k > 0 && rng.Intn(k) == 0 }

// Generate writes the CAR to path and returns the model.
func Generate(path string, o Opts) (*Model, error) {
	rng := rand.New(rand.NewSource(o.Seed*1000003 + int64(o.Epoch)))
	if o.MaxEntries == 0 {
		o.MaxEntries = 3
	}
	if o.MaxTx == 0 {
		o.MaxTx = 3
	}
	if o.MaxFrames == 0 {
		o.MaxFrames = 8
	}
	base := o.Epoch * SlotsPerEpoch
	slots := o.Slots
	if slots == nil {
		n := o.NSlots
		if n == 0 {
			n = 100
		}
		for s := base; s < base+uint64(n); s++ {
			if o.SkipOneIn > 0 && rng.Intn(o.SkipOneIn) == 0 && s != base {
				continue
			}
			slots = append(slots, s)
		}
	}
	if o.LastSlot && (len(slots) == 0 || slots[len(slots)-1] != base+SlotsPerEpoch-1) {
		slots = append(slots, base+SlotsPerEpoch-1)
	}
	if len(slots) == 0 {
		return nil, fmt.Errorf("no slots")
	}
	m := &Model{Epoch: o.Epoch, Path: path, BySlot: map[uint64]*Block{}, BySig: map[solana.Signature]*Tx{}, VarintWidths: map[int]int{}, Seed: o.Seed}
	e := &enc{}
	txIndexOfSection := map[int]*Tx{}
	blockOfSection := map[int]*Block{}

	// how many txs per block when ExactTx is set
	var exactPlan []int
	if o.ExactTx > 0 {
		exactPlan = make([]int, len(slots))
		per := o.ExactTx / len(slots)
		rem := o.ExactTx - per*len(slots)
		for i := range exactPlan {
			exactPlan[i] = per
			if i < rem {
				exactPlan[i]++
			}
		}
	}

	var blockLinks ipldbindcode.List__Link
	var subsetLinks ipldbindcode.List__Link
	subsetFirst := -1
	flushSubset := func(lastIdx int) {
		if len(blockLinks) == 0 {
			return
		}
		sub := ipldbindcode.Subset{Kind: KindSubset, First: int(slots[subsetFirst]), Last: int(slots[lastIdx]), Blocks: blockLinks}
		c := e.add(&sub, ipldbindcode.Prototypes.Subset, KindSubset)
		subsetLinks = append(subsetLinks, cidlink.Link{Cid: c})
		blockLinks = nil
		subsetFirst = -1
	}
	parent := uint64(0)
	if o.Epoch > 0 {
		parent = base - 1
	}
	height := o.Epoch*400000 + 7
	if o.HeightStart > 0 {
		height = uint64(o.HeightStart)
	} else if o.HeightStart < 0 {
		height = 0
	}
	var pendingSubsets []func()
	_ = pendingSubsets
	for bi, slot := range slots {
		b := &Block{Slot: slot, Parent: parent}
		if slot == 0 {
			b.Parent = 0
		}
		nEntries := 1 + rng.Intn(o.MaxEntries)
		emptyBlock := oneIn(rng, o.EmptyBlockOneIn)
		if emptyBlock {
			// half of the empty blocks have one entry without transactions, the other half no entry at all
			// (a block with no child object of its own)
			nEntries = rng.Intn(2)
		}
		var plan []int // tx per entry
		if exactPlan != nil {
			plan = make([]int, nEntries)
			left := exactPlan[bi]
			for k := 0; k < nEntries; k++ {
				if k == nEntries-1 {
					plan[k] = left
				} else {
					x := 0
					if left > 0 {
						x = rng.Intn(left + 1)
					}
					plan[k] = x
					left -= x
				}
			}
		}
		var entryLinks ipldbindcode.List__Link
		pos := 0
		for en := 0; en < nEntries; en++ {
			var txLinks ipldbindcode.List__Link
			nTx := rng.Intn(o.MaxTx + 1)
			if emptyBlock {
				nTx = 0
			}
			if plan != nil {
				nTx = plan[en]
			}
			for k := 0; k < nTx; k++ {
				tx := genTx(rng, &o, slot, pos)
				// payload frames
				kd, km := 1, 1
				if oneIn(rng, o.MultiFrameOneIn) {
					if o.SplitTxData {
						kd = 1 + rng.Intn(o.MaxFrames)
					}
					km = 1 + rng.Intn(o.MaxFrames)
				}
				fan := o.FanOut
				if fan == 0 {
					fan = 1 + rng.Intn(10)
				}
				fnvSum := (kd > 1 || km > 1) && oneIn(rng, o.LegacyFnvOneIn)
				store := func(df *ipldbindcode.DataFrame) cid.Cid {
					return e.add(df, ipldbindcode.Prototypes.DataFrame, KindDataFrame)
				}
				dataFrame := SplitFramesMin(tx.Raw, kd, fan, fnvSum, 1+64*len(tx.Sigs), store)
				metaFrame := SplitFrames(tx.MetaZ, km, fan, fnvSum, store)
				tx.NFramesD, tx.NFramesM = **dataFrame.Total, **metaFrame.Total
				node := ipldbindcode.Transaction{Kind: KindTransaction, Data: dataFrame, Metadata: metaFrame, Slot: int(slot), Index: pp(pos)}
				if o.NoPosIndex || oneIn(rng, o.NoPosIndexOneIn) {
					// the optional position index absent (null), as in archives written before the field existed
					var none *int
					node.Index = &none
					tx.NoPos = true
				}
				c := e.add(&node, ipldbindcode.Prototypes.Transaction, KindTransaction)
				tx.Cid = c
				txIndexOfSection[len(e.secs)-1] = tx
				txLinks = append(txLinks, cidlink.Link{Cid: c})
				if _, dup := m.BySig[tx.Sig]; dup {
					return nil, fmt.Errorf("cargen: duplicate signature generated")
				}
				m.BySig[tx.Sig] = tx
				b.Txs = append(b.Txs, tx)
				pos++
			}
			h := make([]byte, 32)
			rng.Read(h)
			if txLinks == nil {
				txLinks = ipldbindcode.List__Link{}
			}
			entry := ipldbindcode.Entry{Kind: KindEntry, NumHashes: 1 + rng.Intn(20000), Hash: h, Transactions: txLinks}
			c := e.add(&entry, ipldbindcode.Prototypes.Entry, KindEntry)
			entryLinks = append(entryLinks, cidlink.Link{Cid: c})
			b.LastHash = h
		}
		b.NEntries = nEntries
		var rewardsLink datamodel.Link = cidlink.Link{Cid: DummyCID}
		if oneIn(rng, o.RewardsOneIn) {
			rw := &confirmed_block.Rewards{}
			nr := 1 + rng.Intn(4)
			for i := 0; i < nr; i++ {
				rw.Rewards = append(rw.Rewards, &confirmed_block.Reward{
					Pubkey: randKey(rng).String(), Lamports: int64(rng.Intn(1 << 30)), PostBalance: uint64(rng.Int63()),
					RewardType: confirmed_block.RewardType(1 + rng.Intn(4)), Commission: fmt.Sprint(rng.Intn(100)),
				})
			}
			raw, err := proto.Marshal(rw)
			if err != nil {
				return nil, err
			}
			b.RewardsRaw = raw
			z := Zstd(raw)
			kf := 1
			if oneIn(rng, 3) {
				kf = 1 + rng.Intn(4)
			}
			store := func(df *ipldbindcode.DataFrame) cid.Cid {
				return e.add(df, ipldbindcode.Prototypes.DataFrame, KindDataFrame)
			}
			df := SplitFrames(z, kf, 1+rng.Intn(4), false, store)
			rn := ipldbindcode.Rewards{Kind: KindRewards, Slot: int(slot), Data: df}
			rewardsLink = cidlink.Link{Cid: e.add(&rn, ipldbindcode.Prototypes.Rewards, KindRewards)}
		}
		b.Blocktime = 1_600_000_000 + int64(slot%1_000_000)*2 + int64(rng.Intn(2))
		if oneIn(rng, o.BlocktimeEdgeOneIn) {
			b.Blocktime = []int64{1, 1<<31 - 1, 1 << 31, 1<<32 - 1}[rng.Intn(4)]
		}
		b.Height = height
		b.HasHeight = true
		height++
		if len(entryLinks) == 0 {
			entryLinks = ipldbindcode.List__Link{}
		}
		shred := ipldbindcode.List__Shredding{}
		for i := 0; i < nEntries; i++ {
			shred = append(shred, ipldbindcode.Shredding{EntryEndIdx: i, ShredEndIdx: -1})
		}
		blk := ipldbindcode.Block{Kind: KindBlock, Slot: int(slot), Shredding: shred, Entries: entryLinks,
			Meta:    ipldbindcode.SlotMeta{Parent_slot: int(b.Parent), Blocktime: int(b.Blocktime), Block_height: pp(int(b.Height))},
			Rewards: rewardsLink}
		c := e.add(&blk, ipldbindcode.Prototypes.Block, KindBlock)
		b.Cid = c
		blockOfSection[len(e.secs)-1] = b
		if subsetFirst < 0 {
			subsetFirst = bi
		}
		blockLinks = append(blockLinks, cidlink.Link{Cid: c})
		m.Blocks = append(m.Blocks, b)
		m.BySlot[slot] = b
		parent = slot
		if o.SubsetEvery > 0 && len(blockLinks) >= o.SubsetEvery && bi != len(slots)-1 {
			flushSubset(bi)
		}
	}
	for i := 0; i < o.TrailingJunkFrames; i++ {
		junk := make([]byte, 10+rng.Intn(50))
		rng.Read(junk)
		df := SplitFrames(junk, 1, 1, false, nil)
		e.add(&df, ipldbindcode.Prototypes.DataFrame, KindDataFrame)
	}
	flushSubset(len(slots) - 1)
	ep := ipldbindcode.Epoch{Kind: KindEpoch, Epoch: int(o.Epoch), Subsets: subsetLinks}
	rootCid, rootData := EncodeNode(&ep, ipldbindcode.Prototypes.Epoch)
	if o.RootSha512 {
		rootCid = cidOf512(rootData)
	}
	e.secs = append(e.secs, Section{Cid: rootCid, Kind: KindEpoch, Data: rootData})
	m.Root = rootCid

	// ---- write the CAR with our own writer
	var buf bytes.Buffer
	if err := carv1.WriteHeader(&carv1.CarHeader{Roots: []cid.Cid{rootCid}, Version: 1}, &buf); err != nil {
		return nil, err
	}
	m.HeaderLen = uint64(buf.Len())
	seen := map[string]bool{}
	f, err := os.Create(path)
	if err != nil {
		return nil, err
	}
	defer f.Close()
	off := uint64(buf.Len())
	if _, err := f.Write(buf.Bytes()); err != nil {
		return nil, err
	}
	out := make([]Section, 0, len(e.secs))
	lb := make([]byte, binary.MaxVarintLen64)
	var w bytes.Buffer
	for i := range e.secs {
		s := e.secs[i]
		key := s.Cid.KeyString()
		if seen[key] {
			// identical object generated twice (possible for tiny frames): a well-formed CAR has distinct CIDs
			continue
		}
		seen[key] = true
		cb := s.Cid.Bytes()
		n := binary.PutUvarint(lb, uint64(len(cb)+len(s.Data)))
		s.Offset = off
		s.Len = uint64(n + len(cb) + len(s.Data))
		m.VarintWidths[n]++
		w.Write(lb[:n])
		w.Write(cb)
		w.Write(s.Data)
		if tx := txIndexOfSection[i]; tx != nil {
			tx.Offset, tx.Len = s.Offset, s.Len
		}
		if b := blockOfSection[i]; b != nil {
			b.Offset, b.Len = s.Offset, s.Len
		}
		off += s.Len
		out = append(out, s)
		if w.Len() > 4<<20 {
			if _, err := f.Write(w.Bytes()); err != nil {
				return nil, err
			}
			w.Reset()
		}
	}
	if _, err := f.Write(w.Bytes()); err != nil {
		return nil, err
	}
	m.Sections = out
	m.Size = off
	return m, nil
}

var sigEdges = [][2]byte{{0, 0}, {0, 1}, {0, 0xff}, {1, 0}, {0xff, 0}, {0xff, 0xfe}, {0xff, 0xff}, {0x7f, 0xff}, {0x80, 0}}

func genTx(rng *rand.Rand, o *Opts, slot uint64, pos int) *Tx {
	t := &Tx{Slot: slot, Pos: pos}
	nsig := 1
	if oneIn(rng, 5) {
		nsig = 2 + rng.Intn(2)
	}
	t.IsVote = oneIn(rng, o.VoteOneIn)
	t.V0 = !t.IsVote && oneIn(rng, o.V0OneIn)
	t.Failed = oneIn(rng, o.FailOneIn)
	if t.IsVote && nsig > 2 {
		nsig = 2
	}
	for i := 0; i < nsig; i++ {
		var s solana.Signature
		rng.Read(s[:])
		t.Sigs = append(t.Sigs, s)
	}
	if oneIn(rng, o.SigEdgeOneIn) {
		e := sigEdges[rng.Intn(len(sigEdges))]
		t.Sigs[0][0], t.Sigs[0][1] = e[0], e[1]
	}
	t.Sig = t.Sigs[0]
	pick := func() solana.PublicKey {
		if len(o.Universe) > 0 {
			return o.Universe[rng.Intn(len(o.Universe))]
		}
		return randKey(rng)
	}
	// static keys: signers (random, unique), then 1..3 other accounts, then the program id
	var keys []solana.PublicKey
	for i := 0; i < nsig; i++ {
		keys = append(keys, randKey(rng))
	}
	nOther := 1 + rng.Intn(3)
	have := map[solana.PublicKey]bool{}
	for i := 0; i < nOther; i++ {
		k := pick()
		if have[k] {
			continue
		}
		have[k] = true
		keys = append(keys, k)
	}
	if o.KeyHook != nil {
		for _, k := range o.KeyHook(slot, pos) {
			if !have[k] {
				have[k] = true
				keys = append(keys, k)
			}
		}
	}
	prog := solana.SystemProgramID
	if t.IsVote {
		prog = solana.VoteProgramID
	} else if oneIn(rng, 3) {
		prog = solana.TokenProgramID
	}
	keys = append(keys, prog)
	data := make([]byte, 1+rng.Intn(24))
	rng.Read(data)
	if oneIn(rng, o.BigOneIn) {
		data = make([]byte, 16384+rng.Intn(3000))
		rng.Read(data)
	} else if oneIn(rng, 4) {
		// sizes that push the *section* across the 127/128 and varint boundaries come from variety here
		data = make([]byte, rng.Intn(300))
		rng.Read(data)
	}
	accIdx := []uint16{0}
	if len(keys) > 2 {
		accIdx = append(accIdx, uint16(nsig))
	}
	msg := solana.Message{
		AccountKeys:  keys,
		Header:       solana.MessageHeader{NumRequiredSignatures: uint8(nsig), NumReadonlySignedAccounts: 0, NumReadonlyUnsignedAccounts: 1},
		Instructions: []solana.CompiledInstruction{{ProgramIDIndex: uint16(len(keys) - 1), Accounts: accIdx, Data: data}},
	}
	if !t.IsVote && oneIn(rng, o.NoInstrOneIn) {
		msg.Instructions = []solana.CompiledInstruction{}
		t.NoInstr = true
	}
	rng.Read(msg.RecentBlockhash[:])
	t.Static = append([]solana.PublicKey{}, keys...)
	if t.V0 {
		msg.SetVersion(solana.MessageVersionV0)
		nw, nr := rng.Intn(3), rng.Intn(3)
		if nw+nr == 0 {
			nw = 1
		}
		lk := solana.MessageAddressTableLookup{AccountKey: randKey(rng)}
		for i := 0; i < nw; i++ {
			lk.WritableIndexes = append(lk.WritableIndexes, uint8(rng.Intn(200)))
			t.LoadedW = append(t.LoadedW, pick())
		}
		for i := 0; i < nr; i++ {
			lk.ReadonlyIndexes = append(lk.ReadonlyIndexes, uint8(rng.Intn(200)))
			t.LoadedR = append(t.LoadedR, pick())
		}
		msg.AddressTableLookups = []solana.MessageAddressTableLookup{lk}
	}
	tx := solana.Transaction{Signatures: t.Sigs, Message: msg}
	raw, err := tx.MarshalBinary()
	if err != nil {
		panic(fmt.Errorf("cargen: tx marshal: %w", err))
	}
	t.Raw = raw
	t.Fee = 5000 + uint64(pos)*7 + uint64(rng.Intn(5))
	if !oneIn(rng, o.TinyOneIn) {
		nk := len(keys) + len(t.LoadedW) + len(t.LoadedR)
		meta := &confirmed_block.TransactionStatusMeta{Fee: t.Fee}
		for i := 0; i < nk; i++ {
			v := uint64(rng.Int63n(1 << 40))
			meta.PreBalances = append(meta.PreBalances, v)
			meta.PostBalances = append(meta.PostBalances, v+uint64(i))
		}
		for _, k := range t.LoadedW {
			meta.LoadedWritableAddresses = append(meta.LoadedWritableAddresses, append([]byte{}, k[:]...))
		}
		for _, k := range t.LoadedR {
			meta.LoadedReadonlyAddresses = append(meta.LoadedReadonlyAddresses, append([]byte{}, k[:]...))
		}
		if oneIn(rng, 3) {
			meta.LogMessages = []string{fmt.Sprintf("Program log: slot %d pos %d", slot, pos), "Program log: ok"}
		}
		cu := uint64(rng.Intn(200000))
		meta.ComputeUnitsConsumed = &cu
		if t.Failed {
			if oneIn(rng, o.FailOtherKindOneIn) {
				// bincode TransactionError::AccountInUse (variant 0, u32 LE)
				meta.Err = &confirmed_block.TransactionError{Err: []byte{0, 0, 0, 0}}
				t.FailOtherKind = true
			} else {
				// bincode TransactionError::InstructionError(0, InstructionError::Custom(code))
				code := uint32(rng.Intn(6000))
				meta.Err = &confirmed_block.TransactionError{Err: []byte{8, 0, 0, 0, 0, 25, 0, 0, 0, byte(code), byte(code >> 8), 0, 0}}
			}
		}
		mr, err := proto.Marshal(meta)
		if err != nil {
			panic(err)
		}
		t.MetaRaw = mr
		t.MetaZ = Zstd(mr)
	} else {
		// no metadata is archived for this transaction: its status and the addresses it loaded through
		// lookup tables are recorded nowhere, so the model must not claim them either
		t.Failed = false
		t.LoadedW, t.LoadedR = nil, nil
	}
	return t
}

// ---- independent CAR parser (used by C15/C16 oracles)

type RawSection struct {
	Offset uint64
	Len    uint64
	Cid    cid.Cid
	Data   []byte
}

// ParseCar parses a CARv1 byte slice with this package's own reader.
func ParseCar(b []byte) (roots []cid.Cid, headerLen uint64, secs []RawSection, err error) {
	hl, n := binary.Uvarint(b)
	if n <= 0 || uint64(n)+hl > uint64(len(b)) {
		return nil, 0, nil, fmt.Errorf("bad header length")
	}
	hdr, err := carv1.ReadHeader(bufio.NewReader(bytes.NewReader(b)))
	if err != nil {
		return nil, 0, nil, err
	}
	roots = hdr.Roots
	off := uint64(n) + hl
	headerLen = off
	for off < uint64(len(b)) {
		sl, n := binary.Uvarint(b[off:])
		if n <= 0 {
			return roots, headerLen, secs, fmt.Errorf("bad section varint at %d", off)
		}
		end := off + uint64(n) + sl
		if end > uint64(len(b)) {
			return roots, headerLen, secs, fmt.Errorf("section at %d overruns the file", off)
		}
		body := b[off+uint64(n) : end]
		cl, c, err := cid.CidFromBytes(body)
		if err != nil {
			return roots, headerLen, secs, fmt.Errorf("bad cid at %d: %w", off, err)
		}
		secs = append(secs, RawSection{Offset: off, Len: uint64(n) + sl, Cid: c, Data: body[cl:]})
		off = end
	}
	return roots, headerLen, secs, nil
}
