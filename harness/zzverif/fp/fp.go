//go:build verif

// Package fp is the failpoint runtime used by the instrumented (rewritten) copies of repository
// files.  fp.Point(name) is a no-op unless a test armed that point with an action.  Overlay-only.
package fp

import (
	"sync"
	"sync/atomic"
)

var (
	mu     sync.RWMutex
	hooks  = map[string]func(){}
	hits   sync.Map // name -> *atomic.Int64
	anySet atomic.Bool
)

// Point is called from instrumented code. It must never be called while the code under test holds a
// lock that the hook's action needs.
func Point(name string) {
	c, _ := hits.LoadOrStore(name, new(atomic.Int64))
	c.(*atomic.Int64).Add(1)
	if !anySet.Load() {
		return
	}
	mu.RLock()
	h := hooks[name]
	mu.RUnlock()
	if h != nil {
		h()
	}
}

// Set arms a point (nil disarms it).
func Set(name string, f func()) {
	mu.Lock()
	if f == nil {
		delete(hooks, name)
	} else {
		hooks[name] = f
	}
	anySet.Store(len(hooks) > 0)
	mu.Unlock()
}

// Clear disarms every point.
func Clear() {
	mu.Lock()
	hooks = map[string]func(){}
	anySet.Store(false)
	mu.Unlock()
}

// Hits returns how often a point was reached since the last ResetHits.
func Hits(name string) int64 {
	if c, ok := hits.Load(name); ok {
		return c.(*atomic.Int64).Load()
	}
	return 0
}

func ResetHits() {
	hits.Range(func(k, v any) bool { v.(*atomic.Int64).Store(0); return true })
}
