//go:build verif

// Package ev is the evidence/verdict recorder shared by all verif monitors.
// It exists only in the go-build overlay (never inside /repo).
package ev

import (
	"encoding/json"
	"fmt"
	"os"
	"path/filepath"
	"sort"
	"strconv"
	"strings"
	"sync"
	"time"
)

type Violation struct {
	Key    string `json:"key"`    // stable key: call site + failure class (matched against known-findings.txt)
	Detail string `json:"detail"` // what was observed vs expected
	Replay any    `json:"replay"` // concrete input needed to replay
}

type Recorder struct {
	mu           sync.Mutex
	Property     string
	Part         string
	start        time.Time
	evaluations  int64
	distinct     map[string]struct{}
	samples      []any
	maxSamples   int
	violations   []Violation
	vioCount     map[string]int
	inconclusive []string
	notes        map[string]any
	counters     map[string]int64
	exhaustive   *bool
	rule         string
}

func New(property, part string) *Recorder {
	part += os.Getenv("VERIF_PART_SUFFIX")
	return &Recorder{
		Property: property, Part: part, start: time.Now(),
		distinct: map[string]struct{}{}, maxSamples: 6, vioCount: map[string]int{},
		notes: map[string]any{}, counters: map[string]int64{},
	}
}

// Seed returns VERIF_SEED (default 1).
func Seed() int64 {
	s := os.Getenv("VERIF_SEED")
	if s == "" {
		return 1
	}
	v, err := strconv.ParseInt(s, 10, 64)
	if err != nil {
		return 1
	}
	return v
}

func Tier() string {
	if os.Getenv("VERIF_TIER") == "thorough" {
		return "thorough"
	}
	return "quick"
}

func Thorough() bool { return Tier() == "thorough" }

// Pick returns q in the quick tier and t in the thorough tier.
func Pick(q, t int) int {
	if Thorough() {
		return t
	}
	return q
}

func (r *Recorder) Eval(n int) {
	r.mu.Lock()
	r.evaluations += int64(n)
	r.mu.Unlock()
}

func (r *Recorder) Distinct(key string) {
	r.mu.Lock()
	r.distinct[key] = struct{}{}
	r.mu.Unlock()
}

func (r *Recorder) Count(name string, n int) {
	r.mu.Lock()
	r.counters[name] += int64(n)
	r.mu.Unlock()
}

func (r *Recorder) Sample(v any) {
	r.mu.Lock()
	if len(r.samples) < r.maxSamples {
		r.samples = append(r.samples, v)
	}
	r.mu.Unlock()
}

func (r *Recorder) Note(k string, v any) {
	r.mu.Lock()
	r.notes[k] = v
	r.mu.Unlock()
}

func (r *Recorder) Rule(s string) { r.mu.Lock(); r.rule = s; r.mu.Unlock() }

func (r *Recorder) Exhaustive(b bool) { r.mu.Lock(); r.exhaustive = &b; r.mu.Unlock() }

// Violation records a refuting observation. At most 5 full records are kept per key;
// the rest are only counted.
func (r *Recorder) Violation(key, detail string, replay any) {
	r.mu.Lock()
	defer r.mu.Unlock()
	r.vioCount[key]++
	if r.vioCount[key] <= 5 {
		r.violations = append(r.violations, Violation{Key: key, Detail: detail, Replay: replay})
	}
}

func (r *Recorder) Violationf(key string, replay any, format string, a ...any) {
	r.Violation(key, fmt.Sprintf(format, a...), replay)
}

func (r *Recorder) NumViolations() int {
	r.mu.Lock()
	defer r.mu.Unlock()
	n := 0
	for _, c := range r.vioCount {
		n += c
	}
	return n
}

var knownKeys = func() map[string]bool {
	m := map[string]bool{}
	for _, k := range strings.Split(os.Getenv("VERIF_KNOWN_KEYS"), "\n") {
		if k = strings.TrimSpace(k); k != "" {
			m[k] = true
		}
	}
	return m
}()

// numUnlistedViolations: violations whose key is not one of the listed known findings of the property.
func (r *Recorder) numUnlistedViolations() int {
	r.mu.Lock()
	defer r.mu.Unlock()
	n := 0
	for k, c := range r.vioCount {
		if !knownKeys[k] {
			n += c
		}
	}
	return n
}

// Enough reports that so many violations were recorded that continuing adds nothing
// (a broken tree must not turn a bounded run into an unbounded one).
func (r *Recorder) Enough() bool {
	if r.numUnlistedViolations() >= 10 {
		return true
	}
	r.mu.Lock()
	defer r.mu.Unlock()
	return len(r.inconclusive) >= 10
}

func (r *Recorder) Inconclusive(reason string) {
	r.mu.Lock()
	r.inconclusive = append(r.inconclusive, reason)
	r.mu.Unlock()
}

type fragment struct {
	Property     string           `json:"property"`
	Part         string           `json:"part"`
	Evaluations  int64            `json:"evaluations"`
	Distinct     int              `json:"distinct"`
	DistinctKeys []string         `json:"distinct_keys_sample"`
	Samples      []any            `json:"samples"`
	Violations   []Violation      `json:"violations"`
	VioCount     map[string]int   `json:"violation_counts"`
	Inconclusive []string         `json:"inconclusive"`
	Notes        map[string]any   `json:"notes"`
	Counters     map[string]int64 `json:"counters"`
	Exhaustive   *bool            `json:"exhaustive,omitempty"`
	Rule         string           `json:"rule"`
	WallS        float64          `json:"wall_s"`
}

// Flush writes the fragment to $VERIF_OUT/<property>.<part>.json (or stdout when unset).
func (r *Recorder) Flush() error {
	r.mu.Lock()
	defer r.mu.Unlock()
	keys := make([]string, 0, len(r.distinct))
	for k := range r.distinct {
		keys = append(keys, k)
	}
	sort.Strings(keys)
	if len(keys) > 8 {
		keys = keys[:8]
	}
	f := fragment{
		Property: r.Property, Part: r.Part, Evaluations: r.evaluations, Distinct: len(r.distinct),
		DistinctKeys: keys, Samples: r.samples, Violations: r.violations, VioCount: r.vioCount,
		Inconclusive: r.inconclusive, Notes: r.notes, Counters: r.counters, Exhaustive: r.exhaustive,
		Rule: r.rule, WallS: time.Since(r.start).Seconds(),
	}
	b, err := json.MarshalIndent(f, "", " ")
	if err != nil {
		// a sample or replay that cannot be marshalled must not lose the verdict
		f.Samples = []any{fmt.Sprintf("unmarshalable samples: %v", err)}
		for i := range f.Violations {
			f.Violations[i].Replay = fmt.Sprintf("%+v", f.Violations[i].Replay)
		}
		b, err = json.MarshalIndent(f, "", " ")
		if err != nil {
			return err
		}
	}
	dir := os.Getenv("VERIF_OUT")
	if dir == "" {
		fmt.Println(string(b))
		return nil
	}
	p := filepath.Join(dir, r.Property+"."+r.Part+".json")
	tmp := p + ".tmp"
	if err := os.WriteFile(tmp, b, 0o644); err != nil {
		return err
	}
	return os.Rename(tmp, p)
}

// Scratch returns a scratch directory for fixtures (VERIF_SCRATCH, else os.TempDir()).
func Scratch() string {
	if d := os.Getenv("VERIF_SCRATCH"); d != "" {
		return d
	}
	return os.TempDir()
}

// LoadReplay decodes the "replay" member of the file named by VERIF_REPLAY into v.
func LoadReplay(v any) bool {
	p := os.Getenv("VERIF_REPLAY")
	if p == "" {
		return false
	}
	b, err := os.ReadFile(p)
	if err != nil {
		return false
	}
	var w struct {
		Replay json.RawMessage `json:"replay"`
	}
	if json.Unmarshal(b, &w) != nil || len(w.Replay) == 0 {
		return false
	}
	return json.Unmarshal(w.Replay, v) == nil
}
