//go:build verif

// Package c14chain builds multi-frame payload chains (DataFrame trees) with the reference encoder and
// applies single-frame faults to them.  It is the ground truth of the C14 monitors: a Spec determines
// the payload, the split points, the shape of the `next` links and the checksum kind; a Fault
// determines exactly one corruption.  Overlay-only package (never inside /repo).
package c14chain

import (
	"context"
	"fmt"
	"math/rand"
	"sort"

	"github.com/ipfs/go-cid"
	cidlink "github.com/ipld/go-ipld-prime/linking/cid"
	"github.com/klauspost/compress/zstd"
	"github.com/rpcpool/yellowstone-faithful/compactindexsized"
	"github.com/rpcpool/yellowstone-faithful/ipld/ipldbindcode"
	"github.com/rpcpool/yellowstone-faithful/iplddecoders"
	"github.com/rpcpool/yellowstone-faithful/third_party/solana_proto/confirmed_block"
	"github.com/rpcpool/yellowstone-faithful/zzverif/cargen"
	"google.golang.org/protobuf/proto"
)

// Spec determines one well-formed chain.
type Spec struct {
	Seed    int64  `json:"seed"`              // payload bytes, split points, tree shape, link shuffles
	Len     int    `json:"len"`               // payload length (ignored when Payload is set)
	K       int    `json:"k"`                 // requested number of frames (clamped to max(1,len) unless AllowEmpty)
	Layout  string `json:"layout"`            // "schema": groups of Fanout, the LAST frame of a group links to the next group (ledger.ipldsch comment); "schema-head": the FIRST frame of a group carries the links; "tree": random tree, at most Fanout links per frame, links lead to larger indexes; "anytree": the same with the non-root frames relabelled at random
	Fanout  int    `json:"fanout"`            // 1..10
	Shuffle int    `json:"shuffle"`           // order of the links inside every `next`: 0 ascending index, 1 descending, 2 random
	Sum     string `json:"sum"`               // "crc" (CRC64-ISO), "fnv" (legacy FNV-1a), "none" (hash absent)
	NoTotal bool   `json:"no_total"`          // `total` absent in every frame
	Split   string `json:"split"`             // "even" | "fixed" (writer-like: equal chunks, last one shorter) | "random"
	Fill    string `json:"fill"`              // "rand" | "zero" | "period" (every frame holds the same bytes)
	Empty   bool   `json:"allow_empty"`       // allow K > len (frames with empty data)
	Payload []byte `json:"payload,omitempty"` // explicit payload
}

type Frame struct {
	Index  int
	Parent int   // -1 for frame 0
	Kids   []int // in link order
	Data   []byte
	Cid    cid.Cid // of the encoded frame (also computed for frame 0)
	Node   *ipldbindcode.DataFrame
	Bytes  []byte // reference encoding
}

type Chain struct {
	Spec    Spec
	Payload []byte
	K       int
	Sum     int
	Frames  []*Frame
}

func pp(i int) **int { p := &i; return &p }

func linkList(cids []cid.Cid) **ipldbindcode.List__Link {
	l := make(ipldbindcode.List__Link, 0, len(cids))
	for _, c := range cids {
		l = append(l, cidlink.Link{Cid: c})
	}
	p := &l
	return &p
}

// MakePayload returns the payload a Spec stands for.
func MakePayload(s Spec, k int) []byte {
	if s.Payload != nil {
		return s.Payload
	}
	b := make([]byte, s.Len)
	rng := rand.New(rand.NewSource(s.Seed ^ 0x5eed))
	switch s.Fill {
	case "zero":
	case "period":
		per := 1
		if k > 0 {
			per = s.Len / k
		}
		if per < 1 {
			per = 1
		}
		pat := make([]byte, per)
		rng.Read(pat)
		for i := range b {
			b[i] = pat[i%per]
		}
	default:
		rng.Read(b)
	}
	return b
}

// Build constructs the chain of s.
func Build(s Spec) *Chain {
	rng := rand.New(rand.NewSource(s.Seed))
	n := s.Len
	if s.Payload != nil {
		n = len(s.Payload)
	}
	k := s.K
	if k < 1 {
		k = 1
	}
	if !s.Empty && k > n {
		k = n
		if k < 1 {
			k = 1
		}
	}
	payload := MakePayload(s, k)
	c := &Chain{Spec: s, Payload: payload, K: k}
	switch s.Sum {
	case "fnv":
		c.Sum = cargen.ChecksumFNV(payload)
	default:
		c.Sum = cargen.ChecksumCRC(payload)
	}
	// ---- split points
	cuts := make([]int, k+1)
	cuts[k] = n
	switch {
	case s.Split == "random" && n >= k && k > 1:
		// k-1 distinct cut positions in 1..n-1 => no empty part
		seen := map[int]bool{}
		var ps []int
		for len(ps) < k-1 {
			p := 1 + rng.Intn(n-1)
			if !seen[p] {
				seen[p] = true
				ps = append(ps, p)
			}
		}
		sort.Ints(ps)
		copy(cuts[1:], ps)
	case s.Split == "fixed" && n >= k:
		ch := (n + k - 1) / k
		// equal chunks, the last one shorter; fall back to "even" if a chunk would be empty
		ok := ch*(k-1) < n
		for i := 1; i < k; i++ {
			cuts[i] = i * ch
		}
		if !ok {
			per := n / k
			for i := 1; i < k; i++ {
				cuts[i] = i * per
			}
		}
	default:
		per := 0
		if k > 0 {
			per = n / k
		}
		for i := 1; i < k; i++ {
			cuts[i] = i * per
		}
	}
	// ---- shape
	parent := make([]int, k)
	parent[0] = -1
	fan := s.Fanout
	if fan < 1 {
		fan = 1
	}
	switch s.Layout {
	case "tree", "anytree":
		deg := make([]int, k)
		for i := 1; i < k; i++ {
			for {
				p := rng.Intn(i)
				if deg[p] < fan {
					parent[i] = p
					deg[p]++
					break
				}
				// a free slot always exists among 0..i-1 (i frames, i-1 edges so far, fan>=1 gives i slots)
			}
		}
		if s.Layout == "anytree" && k > 2 {
			// relabel the non-root nodes at random: a frame may link to frames with a SMALLER index
			perm := rng.Perm(k - 1)
			lab := func(pos int) int {
				if pos == 0 {
					return 0
				}
				return perm[pos-1] + 1
			}
			np := make([]int, k)
			np[0] = -1
			for i := 1; i < k; i++ {
				np[lab(i)] = lab(parent[i])
			}
			parent = np
		}
	case "schema-head":
		// groups [1..fan], [fan+1..2fan] ...; the first frame of a group links to the next group
		for i := 1; i < k; i++ {
			g := (i - 1) / fan
			if g == 0 {
				parent[i] = 0
			} else {
				parent[i] = (g-1)*fan + 1
			}
		}
	default: // "schema"
		for i := 1; i < k; i++ {
			g := (i - 1) / fan
			if g == 0 {
				parent[i] = 0
			} else {
				parent[i] = g * fan // last frame of the previous group
			}
		}
	}
	c.Frames = make([]*Frame, k)
	for i := 0; i < k; i++ {
		c.Frames[i] = &Frame{Index: i, Parent: parent[i], Data: payload[cuts[i]:cuts[i+1]]}
	}
	for i := 1; i < k; i++ {
		p := c.Frames[parent[i]]
		p.Kids = append(p.Kids, i)
	}
	for _, f := range c.Frames {
		switch s.Shuffle {
		case 1:
			for a, b := 0, len(f.Kids)-1; a < b; a, b = a+1, b-1 {
				f.Kids[a], f.Kids[b] = f.Kids[b], f.Kids[a]
			}
		case 2:
			rng.Shuffle(len(f.Kids), func(a, b int) { f.Kids[a], f.Kids[b] = f.Kids[b], f.Kids[a] })
		}
	}
	// ---- encode bottom-up (children before the frame that links to them)
	var walk func(i int)
	walk = func(i int) {
		for _, j := range c.Frames[i].Kids {
			walk(j)
		}
		c.encode(c.Frames[i])
	}
	walk(0)
	return c
}

func (c *Chain) encode(f *Frame) {
	var kc []cid.Cid
	for _, j := range f.Kids {
		kc = append(kc, c.Frames[j].Cid)
	}
	df := &ipldbindcode.DataFrame{Kind: cargen.KindDataFrame, Index: pp(f.Index), Data: f.Data, Next: linkList(kc)}
	if c.Spec.Sum != "none" {
		df.Hash = pp(c.Sum)
	}
	if !c.Spec.NoTotal {
		df.Total = pp(c.K)
	}
	f.Node = df
	f.Cid, f.Bytes = cargen.EncodeNode(df, ipldbindcode.Prototypes.DataFrame)
}

// Fault is exactly one corruption of a chain.
type Fault struct {
	Kind string `json:"kind"`
	T    int    `json:"t"`       // target frame index
	U    int    `json:"u"`       // second frame (dup-replace)
	Off  int    `json:"off"`     // byte offset inside the data of frame T (bitflip)
	Bit  int    `json:"bit"`     // bit number (bitflip)
	Val  int    `json:"val"`     // new index / total
	Var  int    `json:"variant"` // see View
}

// View is what a reader sees: the first frame (embedded in the parent node) and the stored frames.
type View struct {
	First   ipldbindcode.DataFrame
	Store   map[string][]byte // cid.KeyString() -> encoded frame
	Cids    map[string]cid.Cid
	Missing map[string]bool // the getter must fail for these
	Applied bool            // false when the fault does not apply to this chain
	What    string
}

func cloneFrame(df *ipldbindcode.DataFrame) ipldbindcode.DataFrame {
	out := ipldbindcode.DataFrame{Kind: df.Kind, Data: append([]byte(nil), df.Data...)}
	if v, ok := df.GetHash(); ok {
		out.Hash = pp(int(v))
	}
	if v, ok := df.GetIndex(); ok {
		out.Index = pp(v)
	}
	if v, ok := df.GetTotal(); ok {
		out.Total = pp(v)
	}
	if l, ok := df.GetNext(); ok {
		nl := append(ipldbindcode.List__Link{}, l...)
		p := &nl
		out.Next = &p
	}
	return out
}

// Clean returns the unfaulted view.
func (c *Chain) Clean() View {
	v := View{First: cloneFrame(c.Frames[0].Node), Store: map[string][]byte{}, Cids: map[string]cid.Cid{}, Missing: map[string]bool{}, Applied: true}
	for _, f := range c.Frames[1:] {
		v.Store[f.Cid.KeyString()] = f.Bytes
		v.Cids[f.Cid.KeyString()] = f.Cid
	}
	return v
}

// mutate changes frame t as seen by the reader; the frame keeps its CID (as in a corrupt CAR).
func (c *Chain) mutate(v *View, t int, fn func(df *ipldbindcode.DataFrame)) {
	if t == 0 {
		fn(&v.First)
		return
	}
	df := cloneFrame(c.Frames[t].Node)
	fn(&df)
	_, b := cargen.EncodeNode(&df, ipldbindcode.Prototypes.DataFrame)
	v.Store[c.Frames[t].Cid.KeyString()] = b
}

func setNext(df *ipldbindcode.DataFrame, cids []cid.Cid) { df.Next = linkList(cids) }

func (c *Chain) kidCids(f *Frame) []cid.Cid {
	var out []cid.Cid
	for _, j := range f.Kids {
		out = append(out, c.Frames[j].Cid)
	}
	return out
}

// View applies one fault.  other is a second payload with the same frame count (swap-other only).
//
//	drop-getter   the getter fails for frame T
//	drop-link     the link to T is removed from its parent (Var 0: T's own links are re-attached to the parent, so exactly one frame is missing; Var 1: the sub-tree below T is unreachable as well)
//	dup-link      the link to T is repeated in its parent (Var 0: adjacent, Var 1: at the end)
//	dup-replace   the link to the leaf U is replaced by a second link to T
//	bitflip       one bit of the data of frame T flipped, CID kept
//	index-alter   index of frame T := Val
//	total-alter   total of frame T := Val
//	swap-other    frame T is replaced by the same-index frame of the other payload (Var 0: the parent links to the other payload's frame, whose own links lead into the other payload; Var 1 or T==0: the other frame's data under T's CID and links)
func (c *Chain) View(f Fault, other *Chain) View {
	v := c.Clean()
	v.Applied = false
	k := c.K
	if f.T < 0 || f.T >= k {
		return v
	}
	tf := c.Frames[f.T]
	needCont := func() bool { return f.T >= 1 }
	switch f.Kind {
	case "drop-getter":
		if !needCont() {
			return v
		}
		v.Missing[tf.Cid.KeyString()] = true
		delete(v.Store, tf.Cid.KeyString())
	case "drop-link":
		if !needCont() {
			return v
		}
		p := c.Frames[tf.Parent]
		var nl []cid.Cid
		for _, j := range p.Kids {
			if j == f.T {
				if f.Var == 0 {
					nl = append(nl, c.kidCids(tf)...)
				}
				continue
			}
			nl = append(nl, c.Frames[j].Cid)
		}
		c.mutate(&v, p.Index, func(df *ipldbindcode.DataFrame) { setNext(df, nl) })
		delete(v.Store, tf.Cid.KeyString())
		v.Missing[tf.Cid.KeyString()] = true
	case "dup-link":
		if !needCont() {
			return v
		}
		p := c.Frames[tf.Parent]
		var nl []cid.Cid
		for _, j := range p.Kids {
			nl = append(nl, c.Frames[j].Cid)
			if j == f.T && f.Var == 0 {
				nl = append(nl, tf.Cid)
			}
		}
		if f.Var != 0 {
			nl = append(nl, tf.Cid)
		}
		c.mutate(&v, p.Index, func(df *ipldbindcode.DataFrame) { setNext(df, nl) })
	case "dup-replace":
		if !needCont() || f.U < 1 || f.U >= k || f.U == f.T || len(c.Frames[f.U].Kids) != 0 {
			return v
		}
		uf := c.Frames[f.U]
		if c.isAncestor(f.T, f.U) {
			return v // the second link to T would sit below T: a cycle, which is outside the fault list
		}
		p := c.Frames[uf.Parent]
		var nl []cid.Cid
		for _, j := range p.Kids {
			if j == f.U {
				nl = append(nl, tf.Cid)
			} else {
				nl = append(nl, c.Frames[j].Cid)
			}
		}
		c.mutate(&v, p.Index, func(df *ipldbindcode.DataFrame) { setNext(df, nl) })
		delete(v.Store, uf.Cid.KeyString())
		v.Missing[uf.Cid.KeyString()] = true
	case "bitflip":
		if len(tf.Data) == 0 || f.Off < 0 || f.Off >= len(tf.Data) {
			return v
		}
		c.mutate(&v, f.T, func(df *ipldbindcode.DataFrame) { df.Data[f.Off] ^= 1 << uint(f.Bit&7) })
	case "index-alter":
		if f.Val == f.T {
			return v
		}
		c.mutate(&v, f.T, func(df *ipldbindcode.DataFrame) { df.Index = pp(f.Val) })
	case "total-alter":
		if c.Spec.NoTotal || f.Val == k {
			return v
		}
		c.mutate(&v, f.T, func(df *ipldbindcode.DataFrame) { df.Total = pp(f.Val) })
	case "swap-other":
		if other == nil || other.K != k {
			return v
		}
		of := other.Frames[f.T]
		if f.T == 0 || f.Var != 0 {
			c.mutate(&v, f.T, func(df *ipldbindcode.DataFrame) { df.Data = append([]byte(nil), of.Data...) })
		} else {
			p := c.Frames[tf.Parent]
			var nl []cid.Cid
			for _, j := range p.Kids {
				if j == f.T {
					nl = append(nl, of.Cid)
				} else {
					nl = append(nl, c.Frames[j].Cid)
				}
			}
			c.mutate(&v, p.Index, func(df *ipldbindcode.DataFrame) { setNext(df, nl) })
			// both payloads live in the same store
			for _, x := range other.Frames[1:] {
				if _, have := v.Store[x.Cid.KeyString()]; !have {
					v.Store[x.Cid.KeyString()] = x.Bytes
					v.Cids[x.Cid.KeyString()] = x.Cid
				}
			}
		}
	default:
		return v
	}
	v.Applied = true
	v.What = fmt.Sprintf("%s t=%d", f.Kind, f.T)
	return v
}

// isAncestor reports whether frame a lies on the path from frame d up to frame 0 (a == d included).
func (c *Chain) isAncestor(a, d int) bool {
	for x := d; x >= 0; x = c.Frames[x].Parent {
		if x == a {
			return true
		}
	}
	return false
}

// FaultKinds lists the single-frame faults of the property.
var FaultKinds = []string{"drop-getter", "drop-link", "dup-link", "dup-replace", "bitflip", "index-alter", "total-alter", "swap-other"}

// Faults returns the fault list for one chain: every kind at directed targets (first / last
// continuation frame, a link-carrying frame, frame 0 where it applies) plus one seeded target.
func (c *Chain) Faults(rng *rand.Rand, dense bool) []Fault {
	k := c.K
	var out []Fault
	targets := func(from int) []int {
		if k-1 < from {
			return nil
		}
		set := map[int]bool{}
		var ts []int
		add := func(t int) {
			if t >= from && t < k && !set[t] {
				set[t] = true
				ts = append(ts, t)
			}
		}
		add(from + rng.Intn(k-from))
		if dense {
			add(from)
			add(k - 1)
			// a frame that carries links (other than frame 0)
			for i := k - 1; i >= 1; i-- {
				if len(c.Frames[i].Kids) > 0 {
					add(i)
					break
				}
			}
		}
		return ts
	}
	for _, t := range targets(1) {
		out = append(out, Fault{Kind: "drop-getter", T: t})
		out = append(out, Fault{Kind: "drop-link", T: t, Var: rng.Intn(2)})
		out = append(out, Fault{Kind: "dup-link", T: t, Var: rng.Intn(2)})
		out = append(out, Fault{Kind: "swap-other", T: t, Var: rng.Intn(2)})
		// dup-replace: a leaf u != t
		var leaves []int
		for i := 1; i < k; i++ {
			if i != t && len(c.Frames[i].Kids) == 0 && !c.isAncestor(t, i) {
				leaves = append(leaves, i)
			}
		}
		if len(leaves) > 0 {
			out = append(out, Fault{Kind: "dup-replace", T: t, U: leaves[rng.Intn(len(leaves))]})
		}
	}
	out = append(out, Fault{Kind: "swap-other", T: 0})
	for _, t := range targets(0) {
		if n := len(c.Frames[t].Data); n > 0 {
			offs := []int{rng.Intn(n)}
			if dense {
				offs = append(offs, 0, n-1)
			}
			for _, o := range offs {
				out = append(out, Fault{Kind: "bitflip", T: t, Off: o, Bit: rng.Intn(8)})
			}
		}
		vals := []int{t + 1, t - 1, k, 0, k + 7, -1}
		out = append(out, Fault{Kind: "index-alter", T: t, Val: vals[rng.Intn(len(vals))]})
		if dense && t+1 < k {
			out = append(out, Fault{Kind: "index-alter", T: t, Val: k}) // moves the frame behind the last one
		}
	}
	tv := []int{k + 1, k - 1, 0, 1, 2 * k}
	out = append(out, Fault{Kind: "total-alter", T: 0, Val: tv[rng.Intn(len(tv))]})
	if dense {
		out = append(out, Fault{Kind: "total-alter", T: 0, Val: k + 1}, Fault{Kind: "total-alter", T: 0, Val: k - 1})
		if k > 1 {
			out = append(out, Fault{Kind: "total-alter", T: k - 1, Val: k + 1}) // ignored by readers: must stay exact
		}
	}
	return out
}

// Signature is the "distinct case" key of the evidence rule.
func (c *Chain) Signature(fault string) string {
	shape := fmt.Sprintf("%s/fan=%d", c.Spec.Layout, c.Spec.Fanout)
	return fmt.Sprintf("k=%d/%s/sum=%s/fault=%s", c.K, shape, c.Spec.Sum, fault)
}

// Decoded caches the decoded form of stored frames (one goroutine at a time).  An entry is only used
// while the stored bytes are the very same slice, so frames changed by a fault are decoded afresh.
// (The repository's frame decoder costs ~100 us per frame; decoding is C11's subject, not C14's.)
type Decoded map[string]decodedEntry

type decodedEntry struct {
	b0 *byte
	df *ipldbindcode.DataFrame
}

// notInArchive is the error a frame that is in no index produces in the server: the error chain of
// Epoch.GetDataFrameByCid -> GetNodeByCid -> index lookup, ending in the index's own "not found".
func notInArchive(wanted cid.Cid) error {
	return fmt.Errorf("failed to find node by cid %s: %w", wanted, fmt.Errorf("failed to find offset for CID %s: %w", wanted, compactindexsized.ErrNotFound))
}

// Getter serves the stored frames of the views the way Epoch.GetDataFrameByCid does after its index
// lookup: find by CID, decode with the repository's DecodeDataFrame.  cache may be nil.
func Getter(cache Decoded, fetched *int, views ...*View) func(ctx context.Context, wanted cid.Cid) (*ipldbindcode.DataFrame, error) {
	return func(ctx context.Context, wanted cid.Cid) (*ipldbindcode.DataFrame, error) {
		*fetched++
		if *fetched > 100000 {
			return nil, fmt.Errorf("c14: fetch budget exhausted")
		}
		k := wanted.KeyString()
		for _, v := range views {
			if v.Missing[k] {
				return nil, notInArchive(wanted)
			}
		}
		for _, v := range views {
			b, ok := v.Store[k]
			if !ok || len(b) == 0 {
				continue
			}
			if cache != nil {
				if e, ok := cache[k]; ok && e.b0 == &b[0] {
					return e.df, nil
				}
			}
			df, err := iplddecoders.DecodeDataFrame(b)
			if err == nil && cache != nil {
				cache[k] = decodedEntry{b0: &b[0], df: df}
			}
			return df, err
		}
		return nil, notInArchive(wanted)
	}
}

var zstdNoCRC, _ = zstd.NewWriter(nil, zstd.WithEncoderCRC(false), zstd.WithEncoderLevel(zstd.SpeedDefault), zstd.WithEncoderConcurrency(1))

// ZstdNoCRC compresses without the optional zstd content checksum, so that zstd itself does not mask
// what the frame checksum is there to catch.  Safe for concurrent use (EncodeAll).
func ZstdNoCRC(b []byte) []byte { return zstdNoCRC.EncodeAll(b, nil) }

// FattenMeta returns a protobuf TransactionStatusMeta equal to metaRaw plus log messages up to about
// target bytes (the generator's metadata is only ~100 bytes; real metadata reaches hundreds of KiB).
func FattenMeta(rng *rand.Rand, metaRaw []byte, target int) []byte {
	var m confirmed_block.TransactionStatusMeta
	if len(metaRaw) == 0 || proto.Unmarshal(metaRaw, &m) != nil {
		return metaRaw
	}
	size := len(metaRaw)
	for size < target {
		n := 20 + rng.Intn(200)
		b := make([]byte, n)
		for i := range b {
			if rng.Intn(3) == 0 {
				b[i] = byte('a' + rng.Intn(26))
			} else {
				b[i] = "Program log: invoke [1] success consumed compute units "[rng.Intn(54)]
			}
		}
		m.LogMessages = append(m.LogMessages, string(b))
		size += n + 3
	}
	out, err := proto.Marshal(&m)
	if err != nil {
		return metaRaw
	}
	return out
}
