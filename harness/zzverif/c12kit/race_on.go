//go:build verif && race

package c12kit

// RaceEnabled: the race detector's shadow memory needs terabytes of address space, so RLIMIT_AS
// is not applied to -race children.
const RaceEnabled = true
