//go:build verif

package c12kit

// Structure-aware mutation: every length / count / size / offset field of a valid file (located by
// the hand-written format tables in formats.go, independent of the repository's parsers) is set to
// 0, 1, max and to values inconsistent with the file size; plus truncation, bit flips, header byte
// sweeps and random bytes.

import (
	"encoding/binary"
	"fmt"
	"math/rand"
	"sort"
)

type Field struct {
	Name   string
	Off    int
	W      int  // width in bytes (fixed-width little-endian unless BE); for Varint the current encoded width
	BE     bool // big-endian
	Varint bool // unsigned LEB128
}

type Mut struct {
	Label string // "<field>=<value>"
	Class string // "<field>|<value class>"
	Data  []byte
}

type namedVal struct {
	name string
	v    uint64
}

func readFixed(b []byte, f Field) uint64 {
	var v uint64
	for i := 0; i < f.W && f.Off+i < len(b); i++ {
		if f.BE {
			v = v<<8 | uint64(b[f.Off+i])
		} else {
			v |= uint64(b[f.Off+i]) << (8 * uint(i))
		}
	}
	return v
}

func writeFixed(b []byte, f Field, v uint64) {
	for i := 0; i < f.W && f.Off+i < len(b); i++ {
		if f.BE {
			b[f.Off+i] = byte(v >> (8 * uint(f.W-1-i)))
		} else {
			b[f.Off+i] = byte(v >> (8 * uint(i)))
		}
	}
}

func maxOf(w int) uint64 {
	if w >= 8 {
		return ^uint64(0)
	}
	return uint64(1)<<(8*uint(w)) - 1
}

// boundaryValues: the value classes every numeric field is driven through.
func boundaryValues(w int, orig uint64, fileSize int, off int) []namedVal {
	mx := maxOf(w)
	vs := []namedVal{
		{"0", 0}, {"1", 1}, {"2", 2}, {"3", 3}, {"7", 7}, {"8", 8}, {"9", 9}, {"11", 11}, {"12", 12}, {"13", 13},
		{"24", 24}, {"25", 25}, {"36", 36}, {"127", 127}, {"128", 128}, {"252", 252}, {"253", 253}, {"254", 254}, {"255", 255}, {"256", 256}, {"257", 257},
		{"2^15-1", 1<<15 - 1}, {"2^15", 1 << 15}, {"2^16-1", 1<<16 - 1}, {"2^16", 1 << 16}, {"2^16+1", 1<<16 + 1},
		{"2^24-1", 1<<24 - 1}, {"2^24", 1 << 24}, {"2^24+1", 1<<24 + 1},
		{"2^25", 1 << 25}, {"2^28", 1 << 28}, {"2^30", 1 << 30},
		{"2^31-1", 1<<31 - 1}, {"2^31", 1 << 31}, {"2^32-13", 1<<32 - 13}, {"2^32-12", 1<<32 - 12}, {"2^32-1", 1<<32 - 1}, {"2^32", 1 << 32},
		{"2^33", 1 << 33}, {"2^36", 1 << 36}, {"2^40", 1 << 40}, {"2^47", 1 << 47}, {"2^48-1", 1<<48 - 1}, {"2^56", 1 << 56},
		{"2^62", 1 << 62}, {"2^63-1", 1<<63 - 1}, {"2^63", 1 << 63}, {"2^64-16", ^uint64(15)}, {"2^64-2", ^uint64(1)}, {"2^64-1", ^uint64(0)},
		{"max", mx}, {"max-1", mx - 1}, {"signbit", (mx >> 1) + 1}, {"signbit-1", mx >> 1},
		{"filesize", uint64(fileSize)}, {"filesize-1", uint64(fileSize - 1)}, {"filesize+1", uint64(fileSize + 1)},
		{"rest", uint64(fileSize - off)}, {"rest+1", uint64(fileSize - off + 1)}, {"rest-w", uint64(fileSize - off - w)}, {"rest-w+1", uint64(fileSize - off - w + 1)},
		{"orig-1", orig - 1}, {"orig+1", orig + 1}, {"orig*2", orig * 2}, {"orig/2", orig / 2}, {"orig+256", orig + 256}, {"orig^top", orig ^ ((mx >> 1) + 1)},
		{"orig*8", orig * 8}, {"orig+2^32", orig + 1<<32},
	}
	seen := map[uint64]bool{orig: true}
	out := vs[:0:0]
	for _, nv := range vs {
		if w < 8 && nv.v > mx {
			continue
		}
		if seen[nv.v] {
			continue
		}
		seen[nv.v] = true
		out = append(out, nv)
	}
	return out
}

func clone(b []byte) []byte { return append([]byte(nil), b...) }

// FieldMutants sets every field to every boundary value (one field at a time).
func FieldMutants(seedName string, valid []byte, fields []Field) []Mut {
	var out []Mut
	for _, f := range fields {
		if f.Off < 0 || f.Off >= len(valid) {
			continue
		}
		if f.Varint {
			orig, n := binary.Uvarint(valid[f.Off:])
			if n <= 0 {
				continue
			}
			for _, nv := range boundaryValues(8, orig, len(valid), f.Off) {
				enc := binary.AppendUvarint(nil, nv.v)
				d := append(clone(valid[:f.Off]), enc...)
				d = append(d, valid[f.Off+n:]...)
				out = append(out, Mut{Label: fmt.Sprintf("%s/%s=%s", seedName, f.Name, nv.name), Class: f.Name + "|" + nv.name, Data: d})
			}
			// malformed varints
			for _, raw := range []struct {
				name string
				b    []byte
			}{
				{"overlong-zero", []byte{0x80, 0x80, 0x80, 0x80, 0x80, 0x80, 0x80, 0x80, 0x80, 0x00}},
				{"overflow-11-bytes", []byte{0xff, 0xff, 0xff, 0xff, 0xff, 0xff, 0xff, 0xff, 0xff, 0xff, 0x01}},
				{"overflow-10th-byte", []byte{0xff, 0xff, 0xff, 0xff, 0xff, 0xff, 0xff, 0xff, 0xff, 0x7f}},
				{"padded-orig", append(padVarint(orig), 0x00)},
			} {
				d := append(clone(valid[:f.Off]), raw.b...)
				d = append(d, valid[f.Off+n:]...)
				out = append(out, Mut{Label: fmt.Sprintf("%s/%s=%s", seedName, f.Name, raw.name), Class: f.Name + "|" + raw.name, Data: d})
			}
			// unterminated varint at end of input
			d := append(clone(valid[:f.Off]), 0x80, 0x80)
			out = append(out, Mut{Label: fmt.Sprintf("%s/%s=unterminated-at-eof", seedName, f.Name), Class: f.Name + "|unterminated", Data: d})
			continue
		}
		if f.Off+f.W > len(valid) {
			continue
		}
		orig := readFixed(valid, f)
		for _, nv := range boundaryValues(f.W, orig, len(valid), f.Off) {
			d := clone(valid)
			writeFixed(d, f, nv.v)
			out = append(out, Mut{Label: fmt.Sprintf("%s/%s=%s", seedName, f.Name, nv.name), Class: f.Name + "|" + nv.name, Data: d})
		}
	}
	return out
}

// padVarint encodes v with every byte carrying the continuation bit (a terminator byte 0x00 is appended by the caller).
func padVarint(v uint64) []byte {
	var out []byte
	for i := 0; i < 4; i++ {
		out = append(out, byte(v&0x7f)|0x80)
		v >>= 7
	}
	return out
}

// Truncations cuts the file at every field boundary (and one byte around it), at 0..40, and at the tail.
func Truncations(seedName string, valid []byte, fields []Field, rng *rand.Rand, extra int) []Mut {
	cuts := map[int]string{}
	for i := 0; i <= 40 && i < len(valid); i++ {
		cuts[i] = "head"
	}
	for _, f := range fields {
		w := f.W
		for _, c := range []int{f.Off - 1, f.Off, f.Off + 1, f.Off + w - 1, f.Off + w, f.Off + w + 1} {
			if c >= 0 && c < len(valid) {
				if _, ok := cuts[c]; !ok {
					cuts[c] = "field:" + f.Name
				}
			}
		}
	}
	for _, c := range []int{len(valid) - 1, len(valid) - 2, len(valid) - 3, len(valid) - 4, len(valid) - 7, len(valid) - 8, len(valid) - 9, len(valid) - 16, len(valid) / 2} {
		if c >= 0 && c < len(valid) {
			if _, ok := cuts[c]; !ok {
				cuts[c] = "tail"
			}
		}
	}
	for i := 0; i < extra && len(valid) > 0; i++ {
		c := rng.Intn(len(valid))
		if _, ok := cuts[c]; !ok {
			cuts[c] = "random"
		}
	}
	ks := make([]int, 0, len(cuts))
	for k := range cuts {
		ks = append(ks, k)
	}
	sort.Ints(ks)
	var out []Mut
	for _, k := range ks {
		out = append(out, Mut{Label: fmt.Sprintf("%s/truncate@%d(%s)", seedName, k, cuts[k]), Class: "truncate|" + cuts[k], Data: clone(valid[:k])})
	}
	return out
}

// Extensions appends bytes (a parser must not trust that the file ends where the header says).
func Extensions(seedName string, valid []byte) []Mut {
	var out []Mut
	for _, n := range []int{1, 7, 16} {
		d := append(clone(valid), make([]byte, n)...)
		out = append(out, Mut{Label: fmt.Sprintf("%s/append-%d-zero-bytes", seedName, n), Class: "extend|zero", Data: d})
		d2 := clone(valid)
		for i := 0; i < n; i++ {
			d2 = append(d2, 0xff)
		}
		out = append(out, Mut{Label: fmt.Sprintf("%s/append-%d-ff-bytes", seedName, n), Class: "extend|ff", Data: d2})
	}
	return out
}

// HeaderSweep sets each of the first n bytes to 0x00, 0xff, ^orig, orig+1, orig-1.
func HeaderSweep(seedName string, valid []byte, from, n int) []Mut {
	var out []Mut
	for i := from; i < from+n && i < len(valid); i++ {
		o := valid[i]
		for _, nv := range []struct {
			name string
			v    byte
		}{{"00", 0}, {"ff", 0xff}, {"inv", ^o}, {"+1", o + 1}, {"-1", o - 1}, {"80", 0x80}, {"7f", 0x7f}} {
			if nv.v == o {
				continue
			}
			d := clone(valid)
			d[i] = nv.v
			out = append(out, Mut{Label: fmt.Sprintf("%s/byte@%d=%s", seedName, i, nv.name), Class: fmt.Sprintf("byte@%d|%s", i, nv.name), Data: d})
		}
	}
	return out
}

// BitFlips flips n random single bits and n/4 random byte pairs.
func BitFlips(seedName string, valid []byte, rng *rand.Rand, n int) []Mut {
	var out []Mut
	if len(valid) == 0 {
		return nil
	}
	for i := 0; i < n; i++ {
		p := rng.Intn(len(valid))
		bit := uint(rng.Intn(8))
		d := clone(valid)
		d[p] ^= 1 << bit
		out = append(out, Mut{Label: fmt.Sprintf("%s/bitflip@%d.%d", seedName, p, bit), Class: fmt.Sprintf("bitflip@%d|1bit", p), Data: d})
	}
	for i := 0; i < n/4; i++ {
		d := clone(valid)
		k := 2 + rng.Intn(6)
		for j := 0; j < k; j++ {
			d[rng.Intn(len(d))] = byte(rng.Intn(256))
		}
		out = append(out, Mut{Label: fmt.Sprintf("%s/randbytes-x%d-#%d", seedName, k, i), Class: fmt.Sprintf("randbytes#%d|x%d", i, k), Data: d})
	}
	return out
}

// RandomBlobs: random bytes of boundary lengths, raw and behind a valid prefix (magic).
func RandomBlobs(name string, prefix []byte, rng *rand.Rand, perLen int) []Mut {
	var out []Mut
	lens := []int{0, 1, 2, 3, 4, 7, 8, 9, 11, 12, 13, 15, 16, 17, 20, 23, 24, 25, 26, 31, 32, 33, 40, 46, 47, 48, 63, 64, 65, 100, 255, 256, 1000, 4096}
	for _, l := range lens {
		for k := 0; k < perLen; k++ {
			d := make([]byte, l)
			switch k % 4 {
			case 0:
				rng.Read(d)
			case 1: // all zero
			case 2:
				for i := range d {
					d[i] = 0xff
				}
			case 3:
				rng.Read(d)
				for i := range d {
					if rng.Intn(3) > 0 {
						d[i] &= 0x0f
					}
				}
			}
			out = append(out, Mut{Label: fmt.Sprintf("%s/random-len%d-#%d", name, l, k), Class: fmt.Sprintf("random-len%d|raw", l), Data: d})
			if len(prefix) > 0 {
				out = append(out, Mut{Label: fmt.Sprintf("%s/magic+random-len%d-#%d", name, l, k), Class: fmt.Sprintf("random-len%d|after-magic", l), Data: append(clone(prefix), d...)})
			}
		}
	}
	return out
}

// SlidingU64 overwrites 8 bytes at every offset (step) with length-like values: finds every
// little-endian u64 length prefix of a bincode/borsh stream without knowing the schema.
func SlidingU64(seedName string, valid []byte, step int) []Mut {
	var out []Mut
	vals := []namedVal{{"0", 0}, {"1", 1}, {"len", uint64(len(valid))}, {"2^20", 1 << 20}, {"2^24", 1 << 24}, {"2^31-1", 1<<31 - 1}, {"2^31", 1 << 31}, {"2^63", 1 << 63}, {"2^64-1", ^uint64(0)}}
	for off := 0; off+8 <= len(valid); off += step {
		for _, nv := range vals {
			d := clone(valid)
			binary.LittleEndian.PutUint64(d[off:], nv.v)
			out = append(out, Mut{Label: fmt.Sprintf("%s/u64@%d=%s", seedName, off, nv.name), Class: fmt.Sprintf("u64le@%d|%s", off, nv.name), Data: d})
		}
	}
	return out
}

// SlidingU32 does the same with 4-byte values.
func SlidingU32(seedName string, valid []byte, step int) []Mut {
	var out []Mut
	vals := []namedVal{{"0", 0}, {"1", 1}, {"2^31-1", 1<<31 - 1}, {"2^31", 1 << 31}, {"2^32-1", 1<<32 - 1}, {"2^24", 1 << 24}, {"2^28", 1 << 28}, {"len", uint64(len(valid))}}
	for off := 0; off+4 <= len(valid); off += step {
		for _, nv := range vals {
			d := clone(valid)
			binary.LittleEndian.PutUint32(d[off:], uint32(nv.v))
			out = append(out, Mut{Label: fmt.Sprintf("%s/u32@%d=%s", seedName, off, nv.name), Class: fmt.Sprintf("u32le@%d|%s", off, nv.name), Data: d})
		}
	}
	return out
}

// ---------------------------------------------------------------------------------------------
// CBOR

type CborItem struct {
	Off, End int // whole item including nested content
	HeadEnd  int // end of the head (initial byte + argument)
	Major    int
	Arg      uint64
	Depth    int
	Path     string // e.g. "2.0" = element 0 of element 2 of the root array
}

// CborItems walks a well-formed CBOR value and returns every data item (pre-order).
func CborItems(b []byte) []CborItem {
	var out []CborItem
	var walk func(off, depth int, path string) int
	walk = func(off, depth int, path string) int {
		if off >= len(b) || depth > 64 {
			return -1
		}
		ib := b[off]
		major := int(ib >> 5)
		ai := int(ib & 0x1f)
		headEnd := off + 1
		var arg uint64
		switch {
		case ai < 24:
			arg = uint64(ai)
		case ai == 24:
			if off+2 > len(b) {
				return -1
			}
			arg = uint64(b[off+1])
			headEnd = off + 2
		case ai == 25:
			if off+3 > len(b) {
				return -1
			}
			arg = uint64(binary.BigEndian.Uint16(b[off+1:]))
			headEnd = off + 3
		case ai == 26:
			if off+5 > len(b) {
				return -1
			}
			arg = uint64(binary.BigEndian.Uint32(b[off+1:]))
			headEnd = off + 5
		case ai == 27:
			if off+9 > len(b) {
				return -1
			}
			arg = binary.BigEndian.Uint64(b[off+1:])
			headEnd = off + 9
		default:
			return -1 // indefinite lengths do not occur in the seeds
		}
		idx := len(out)
		out = append(out, CborItem{Off: off, HeadEnd: headEnd, Major: major, Arg: arg, Depth: depth, Path: path})
		end := headEnd
		switch major {
		case 2, 3:
			end = headEnd + int(arg)
			if end > len(b) || end < headEnd {
				return -1
			}
		case 4:
			for i := uint64(0); i < arg; i++ {
				end = walk(end, depth+1, fmt.Sprintf("%s.%d", path, i))
				if end < 0 {
					return -1
				}
			}
		case 5:
			for i := uint64(0); i < 2*arg; i++ {
				end = walk(end, depth+1, fmt.Sprintf("%s.m%d", path, i))
				if end < 0 {
					return -1
				}
			}
		case 6:
			end = walk(end, depth+1, path+".t")
			if end < 0 {
				return -1
			}
		}
		out[idx].End = end
		return end
	}
	if walk(0, 0, "r") < 0 {
		return out
	}
	return out
}

var cborReplacements = []struct {
	name string
	b    []byte
}{
	{"uint0", []byte{0x00}},
	{"uint23", []byte{0x17}},
	{"uint8:255", []byte{0x18, 0xff}},
	{"uint64:max", []byte{0x1b, 0xff, 0xff, 0xff, 0xff, 0xff, 0xff, 0xff, 0xff}},
	{"uint64:2^63", []byte{0x1b, 0x80, 0, 0, 0, 0, 0, 0, 0}},
	{"negint:-1", []byte{0x20}},
	{"negint:min", []byte{0x3b, 0xff, 0xff, 0xff, 0xff, 0xff, 0xff, 0xff, 0xff}},
	{"bytes:empty", []byte{0x40}},
	{"bytes:1", []byte{0x41, 0x00}},
	{"bytes:2", []byte{0x42, 0x00, 0x01}},
	{"bytes:37-zero", append([]byte{0x58, 37}, make([]byte, 37)...)},
	{"text:empty", []byte{0x60}},
	{"text:a", []byte{0x61, 'a'}},
	{"array:empty", []byte{0x80}},
	{"array:[0]", []byte{0x81, 0x00}},
	{"array:[[]]", []byte{0x81, 0x80}},
	{"array:[null]", []byte{0x81, 0xf6}},
	{"array:6xnull", []byte{0x86, 0xf6, 0xf6, 0xf6, 0xf6, 0xf6, 0xf6}},
	{"array:6x0", []byte{0x86, 0, 0, 0, 0, 0, 0}},
	{"map:empty", []byte{0xa0}},
	{"map:{0:0}", []byte{0xa1, 0x00, 0x00}},
	{"tag42:bytes-empty", []byte{0xd8, 0x2a, 0x40}},
	{"tag42:bytes-1", []byte{0xd8, 0x2a, 0x41, 0x00}},
	{"tag42:bytes-2", []byte{0xd8, 0x2a, 0x42, 0x00, 0x01}},
	{"tag42:uint", []byte{0xd8, 0x2a, 0x00}},
	{"tag42:null", []byte{0xd8, 0x2a, 0xf6}},
	{"tag42:array", []byte{0xd8, 0x2a, 0x80}},
	{"tag42:tag42", []byte{0xd8, 0x2a, 0xd8, 0x2a, 0x40}},
	{"tag0:uint", []byte{0xc0, 0x00}},
	{"tag2:bignum", []byte{0xc2, 0x49, 1, 0, 0, 0, 0, 0, 0, 0, 0}},
	{"tag55799:uint", []byte{0xd9, 0xd9, 0xf7, 0x00}},
	{"false", []byte{0xf4}},
	{"true", []byte{0xf5}},
	{"null", []byte{0xf6}},
	{"undefined", []byte{0xf7}},
	{"simple:255", []byte{0xf8, 0xff}},
	{"float16", []byte{0xf9, 0x3c, 0x00}},
	{"float64:nan", []byte{0xfb, 0x7f, 0xf8, 0, 0, 0, 0, 0, 0}},
	{"break", []byte{0xff}},
	{"indef-array", []byte{0x9f, 0x00, 0xff}},
	{"indef-bytes", []byte{0x5f, 0x41, 0x00, 0xff}},
	{"indef-map", []byte{0xbf, 0xff}},
	{"reserved-28", []byte{0x1c}},
}

var cborMajorNames = []string{"uint", "negint", "bytes", "text", "array", "map", "tag", "simple"}

// CborMutants: every data item replaced by items of every other major type; every head retyped in
// place (major bits changed, argument kept); every length argument of arrays / byte strings / tags set
// to boundary values; items deleted and duplicated; truncation at every item boundary.
func CborMutants(seedName string, valid []byte, maxItems int) []Mut {
	items := CborItems(valid)
	var out []Mut
	add := func(label, class string, d []byte) {
		out = append(out, Mut{Label: seedName + "/" + label, Class: class, Data: d})
	}
	splice := func(off, end int, repl []byte) []byte {
		d := append(clone(valid[:off]), repl...)
		return append(d, valid[end:]...)
	}
	if len(items) > maxItems {
		// keep the first items (the schema fields) and the last ones
		keep := append([]CborItem{}, items[:maxItems*3/4]...)
		keep = append(keep, items[len(items)-maxItems/4:]...)
		items = keep
	}
	for _, it := range items {
		mn := cborMajorNames[it.Major]
		// 1. replacement by another item
		for _, r := range cborReplacements {
			add(fmt.Sprintf("item[%s](%s)<-%s", it.Path, mn, r.name), fmt.Sprintf("d%d-%s|replace:%s", it.Depth, mn, r.name), splice(it.Off, it.End, r.b))
		}
		// 2. retype the head in place
		for m := 0; m < 8; m++ {
			if m == it.Major {
				continue
			}
			d := clone(valid)
			d[it.Off] = byte(m<<5) | (d[it.Off] & 0x1f)
			add(fmt.Sprintf("item[%s](%s)retype->%s", it.Path, mn, cborMajorNames[m]), fmt.Sprintf("d%d-%s|retype:%s", it.Depth, mn, cborMajorNames[m]), d)
		}
		// 3. argument (length / count / value) boundary values
		if it.Major == 2 || it.Major == 3 || it.Major == 4 || it.Major == 5 || it.Major == 0 || it.Major == 6 {
			args := []namedVal{{"0", 0}, {"1", 1}, {"arg-1", it.Arg - 1}, {"arg+1", it.Arg + 1}, {"23", 23}, {"24", 24}, {"255", 255}, {"256", 256}, {"65535", 65535}, {"65536", 65536},
				{"131072", 131072}, {"131073", 131073}, {"2^31-1", 1<<31 - 1}, {"2^31", 1 << 31}, {"2^32-1", 1<<32 - 1}, {"2^32", 1 << 32}, {"2^63-1", 1<<63 - 1}, {"2^63", 1 << 63}, {"2^64-1", ^uint64(0)},
				{"rest", uint64(len(valid) - it.HeadEnd)}, {"rest+1", uint64(len(valid) - it.HeadEnd + 1)}}
			seen := map[uint64]bool{it.Arg: true}
			for _, a := range args {
				if seen[a.v] {
					continue
				}
				seen[a.v] = true
				add(fmt.Sprintf("item[%s](%s)arg=%s", it.Path, mn, a.name), fmt.Sprintf("d%d-%s|arg:%s", it.Depth, mn, a.name), splice(it.Off, it.HeadEnd, cborHead(it.Major, a.v)))
			}
			// non-minimal head encodings of the same argument
			for _, w := range []int{1, 2, 4, 8} {
				h := cborHeadWidth(it.Major, it.Arg, w)
				if h != nil && len(h) != it.HeadEnd-it.Off {
					add(fmt.Sprintf("item[%s](%s)head-width=%d", it.Path, mn, w), fmt.Sprintf("d%d-%s|headwidth:%d", it.Depth, mn, w), splice(it.Off, it.HeadEnd, h))
				}
			}
			// indefinite length head
			if it.Major >= 2 && it.Major <= 5 {
				add(fmt.Sprintf("item[%s](%s)indefinite-head", it.Path, mn), fmt.Sprintf("d%d-%s|indefinite", it.Depth, mn), splice(it.Off, it.HeadEnd, []byte{byte(it.Major<<5) | 31}))
			}
		}
		// 4. delete / duplicate the item
		if it.Depth > 0 {
			add(fmt.Sprintf("item[%s](%s)deleted", it.Path, mn), fmt.Sprintf("d%d-%s|delete", it.Depth, mn), splice(it.Off, it.End, nil))
			add(fmt.Sprintf("item[%s](%s)duplicated", it.Path, mn), fmt.Sprintf("d%d-%s|duplicate", it.Depth, mn), splice(it.End, it.End, valid[it.Off:it.End]))
		}
		// 5. truncate at the item start, after its head, and one byte before its end
		for _, cut := range []int{it.Off, it.HeadEnd, it.End - 1} {
			if cut > 0 && cut < len(valid) {
				add(fmt.Sprintf("item[%s](%s)truncate@%d", it.Path, mn, cut), fmt.Sprintf("d%d-%s|truncate", it.Depth, mn), clone(valid[:cut]))
			}
		}
	}
	return out
}

func cborHead(major int, arg uint64) []byte {
	switch {
	case arg < 24:
		return []byte{byte(major<<5) | byte(arg)}
	case arg <= 0xff:
		return []byte{byte(major<<5) | 24, byte(arg)}
	case arg <= 0xffff:
		return []byte{byte(major<<5) | 25, byte(arg >> 8), byte(arg)}
	case arg <= 0xffffffff:
		return []byte{byte(major<<5) | 26, byte(arg >> 24), byte(arg >> 16), byte(arg >> 8), byte(arg)}
	}
	h := []byte{byte(major<<5) | 27, 0, 0, 0, 0, 0, 0, 0, 0}
	binary.BigEndian.PutUint64(h[1:], arg)
	return h
}

func cborHeadWidth(major int, arg uint64, w int) []byte {
	switch w {
	case 1:
		if arg > 0xff {
			return nil
		}
		return []byte{byte(major<<5) | 24, byte(arg)}
	case 2:
		if arg > 0xffff {
			return nil
		}
		return []byte{byte(major<<5) | 25, byte(arg >> 8), byte(arg)}
	case 4:
		if arg > 0xffffffff {
			return nil
		}
		return []byte{byte(major<<5) | 26, byte(arg >> 24), byte(arg >> 16), byte(arg >> 8), byte(arg)}
	case 8:
		h := []byte{byte(major<<5) | 27, 0, 0, 0, 0, 0, 0, 0, 0}
		binary.BigEndian.PutUint64(h[1:], arg)
		return h
	}
	return nil
}

// CborSpecials: hand-made hostile documents that do not derive from a seed.
func CborSpecials(kind int) []Mut {
	var out []Mut
	add := func(label string, d []byte) {
		out = append(out, Mut{Label: fmt.Sprintf("special/kind%d/%s", kind, label), Class: "special|" + label, Data: d})
	}
	k := byte(kind)
	// arrays of every length 0..8 filled with: zeros, nulls, the kind + nulls, the kind + empty arrays, kind + empty byte strings
	for n := 0; n <= 8; n++ {
		for _, fill := range []struct {
			name string
			b    []byte
		}{{"zeros", []byte{0x00}}, {"nulls", []byte{0xf6}}, {"arrays", []byte{0x80}}, {"bytes", []byte{0x40}}, {"tags", []byte{0xd8, 0x2a, 0x40}}, {"maps", []byte{0xa0}}, {"texts", []byte{0x60}}, {"floats", []byte{0xf9, 0, 0}}} {
			d := []byte{0x80 | byte(n)}
			for i := 0; i < n; i++ {
				if i == 0 {
					d = append(d, k)
				} else {
					d = append(d, fill.b...)
				}
			}
			add(fmt.Sprintf("array%d-kind-then-%s", n, fill.name), d)
		}
	}
	// deep nesting (decoder recursion)
	for _, depth := range []int{16, 33, 64, 1000, 100000} {
		d := []byte{0x82, k}
		for i := 0; i < depth; i++ {
			d = append(d, 0x81)
		}
		d = append(d, 0x00)
		add(fmt.Sprintf("nested-arrays-depth-%d", depth), d)
		t := []byte{0x82, k}
		for i := 0; i < depth; i++ {
			t = append(t, 0xd8, 0x2a)
		}
		t = append(t, 0x40)
		add(fmt.Sprintf("nested-tags-depth-%d", depth), t)
	}
	// huge declared lengths with no content
	for _, m := range []int{2, 3, 4, 5} {
		for _, a := range []uint64{1 << 16, 1 << 24, 1<<31 - 1, 1 << 32, 1 << 40, 1<<63 - 1, ^uint64(0)} {
			d := append([]byte{0x82, k}, cborHead(m, a)...)
			add(fmt.Sprintf("declared-%s-length-%d", cborMajorNames[m], a), d)
		}
	}
	// a big but honest array (allocation must stay proportional)
	big := append([]byte{0x82, k}, cborHead(4, 200000)...)
	big = append(big, make([]byte, 200000)...)
	add("honest-array-200000-zeros", big)
	// well-shaped nodes of this kind whose link list holds a CID tag with EMPTY content
	emptyLink := []byte{0xd8, 0x2a, 0x40}
	links := append([]byte{0x81}, emptyLink...)
	frame := append([]byte{0x86, 0x06, 0xf6, 0xf6, 0xf6, 0x40}, links...)
	switch kind {
	case 0:
		add("link-with-empty-cid-bytes", append(append(append([]byte{0x85, 0x00}, frame...), frame...), 0x00, 0x00))
	case 1:
		add("link-with-empty-cid-bytes", append([]byte{0x84, 0x01, 0x00, 0x40}, links...))
	case 2:
		d := append([]byte{0x86, 0x02, 0x00, 0x80}, links...)
		d = append(d, 0x83, 0x00, 0x00, 0x00)
		add("link-with-empty-cid-bytes", append(d, emptyLink...))
		d2 := append([]byte{0x86, 0x02, 0x00, 0x80, 0x80}, 0x83, 0x00, 0x00, 0x00)
		add("rewards-link-with-empty-cid-bytes", append(d2, emptyLink...))
	case 3:
		add("link-with-empty-cid-bytes", append([]byte{0x84, 0x03, 0x00, 0x00}, links...))
	case 4:
		add("link-with-empty-cid-bytes", append([]byte{0x83, 0x04, 0x00}, links...))
	case 5:
		add("link-with-empty-cid-bytes", append([]byte{0x83, 0x05, 0x00}, frame...))
	case 6:
		add("link-with-empty-cid-bytes", frame)
	}
	add("empty", nil)
	add("one-byte-array0", []byte{0x80})
	add("one-byte", []byte{k})
	add("two-bytes-kind-at-1", []byte{0x81, k})
	add("two-bytes-not-array", []byte{0x00, k})
	add("text-kind", []byte{0x61, k})
	return out
}
