//go:build verif

// Package c12kit is the crash / allocation / step-budget monitor shared by the C12 checks
// ("parsers of external data return errors, never crash, on arbitrary bytes").
//
// It exists only in the go-build overlay.  It provides
//   - the case model (entry point, mutation label, input bytes),
//   - a child-process protocol: the test binary re-executes itself, the child regenerates the same
//     deterministic case list, journals every case BEFORE executing it, runs every step of a case under
//     recover() with an allocation meter, and reports per-step outcomes; the parent attributes a death
//     that recover() cannot see (fatal error: out of memory, stack overflow, ...) to the journaled case
//     and step and continues with the next case in a fresh child,
//   - the monitors: panic capture with the innermost repository frame, allocation meter
//     (runtime/metrics heap allocation counter + heap profile of large allocations to name the
//     allocating function), RLIMIT_AS so that a runaway allocation kills the child and not the sandbox,
//     a read-syscall step budget (a bounded input that makes the code issue millions of reads is a
//     non-terminating loop decided by an operation count, not by wall-clock) and a wall-clock watchdog
//     whose expiry is only ever INCONCLUSIVE.
package c12kit

import (
	"bufio"
	"bytes"
	"context"
	"crypto/sha256"
	"encoding/hex"
	"encoding/json"
	"fmt"
	"os"
	"os/exec"
	"path/filepath"
	"regexp"
	"runtime"
	"runtime/debug"
	"runtime/metrics"
	"sort"
	"strconv"
	"strings"
	"sync"
	"sync/atomic"
	"syscall"
	"time"

	"github.com/rpcpool/yellowstone-faithful/zzverif/ev"
)

const Module = "github.com/rpcpool/yellowstone-faithful/"

// ---------------------------------------------------------------------------------------------
// cases

// Case is one input for one entry-point driver.
type Case struct {
	Entry string            `json:"entry"` // driver name
	Label string            `json:"label"` // "<seed file>/<mutated field>=<value>"
	Class string            `json:"class"` // "<field>|<value class>" (distinct non-trivial classes: entry|field|value class)
	In    []byte            `json:"in"`
	Aux   map[string]string `json:"aux,omitempty"`
}

func (c *Case) AuxGet(k string) string {
	if c.Aux == nil {
		return ""
	}
	return c.Aux[k]
}

// Driver executes the steps of one case through a Stepper.
type Driver func(c *Case, s *Stepper)

// Group is one part of the check: a deterministic case list + the drivers it needs.
type Group struct {
	Name string
	// Gen returns the case list; it must be a pure function of (fixture directory, ev.Seed(), tier).
	Gen func(fixdir string) []Case
	// AllocLimit returns the allocation limit in bytes for a step on an input of n bytes
	// (nil = DefaultAllocLimit).
	AllocLimit func(step string, n int) uint64
}

var (
	Drivers = map[string]Driver{}
	Groups  = map[string]*Group{}
)

// AddressSpaceLimit is the head-room RLIMIT_AS leaves a child above what it maps before the first
// case: a runaway allocation kills the child (attributed through the journal) instead of the
// sandbox. 2 GiB leaves room for every legitimate allocation (largest deliberate cap in the code
// base: 256 MiB linked-log record) and keeps the cost of zeroing huge successful allocations low.
const AddressSpaceLimit = 2 << 30

// DefaultAllocLimit: 256 MiB for inputs up to 1 MiB (the largest legitimate constant of the code
// base is the 32 MiB CAR section cap), plus 64 bytes per input byte beyond that.
func DefaultAllocLimit(step string, n int) uint64 {
	lim := uint64(256 << 20)
	if n > 1<<20 {
		lim += 64 * uint64(n-(1<<20))
	}
	return lim
}

// ---------------------------------------------------------------------------------------------
// stepper (child side)

type StepRes struct {
	Name  string `json:"n"`
	Kind  string `json:"k"` // ok | err | panic | alloc | budget
	Msg   string `json:"m,omitempty"`
	Class string `json:"c,omitempty"` // failure class (panic:index-out-of-range, alloc-out-of-proportion, ...)
	Func  string `json:"f,omitempty"` // innermost repository function
	Entry string `json:"e,omitempty"` // outermost exported function of the faulting function's package on the stack (API boundary)
	Inner string `json:"i,omitempty"` // innermost non-runtime function (may be third-party)
	Stack string `json:"s,omitempty"`
	Alloc uint64 `json:"a,omitempty"`
}

type Stepper struct {
	c       *Case
	lim     func(step string, n int) uint64
	steps   []StepRes
	journal func(string)
	nOK     int
	nErr    int
	// Violated reports whether the most recent step ended in a violation (panic / allocation).
	Violated bool
}

var allocSample = []metrics.Sample{{Name: "/gc/heap/allocs:bytes"}}

func heapAllocs() uint64 {
	metrics.Read(allocSample)
	if allocSample[0].Value.Kind() == metrics.KindUint64 {
		return allocSample[0].Value.Uint64()
	}
	return 0
}

// Budget lets a driver report an operation-count violation of its own (e.g. more iterations than input bytes).
func (s *Stepper) Budget(name, class, msg string) {
	s.steps = append(s.steps, StepRes{Name: name, Kind: "budget", Class: class, Msg: msg})
}

// Do runs one step. It returns true when the step returned without error and without panic.
func (s *Stepper) Do(name string, fn func() error) (ok bool) {
	if s.journal != nil {
		s.journal("T " + name + "\n")
	}
	before := heapAllocs()
	var res StepRes
	res.Name = name
	s.Violated = false
	func() {
		defer func() {
			if r := recover(); r != nil {
				res.Kind = "panic"
				res.Msg = trunc(fmt.Sprint(r), 300)
				res.Class = "panic:" + PanicKind(r)
				pcs := make([]uintptr, 64)
				n := runtime.Callers(2, pcs)
				res.Entry, res.Func, res.Inner, res.Stack = frames(pcs[:n])
			}
		}()
		err := fn()
		if err != nil {
			res.Kind = "err"
		} else {
			res.Kind = "ok"
		}
	}()
	after := heapAllocs()
	res.Alloc = after - before
	lim := s.lim(name, len(s.c.In))
	if res.Kind != "panic" && res.Alloc > lim {
		kind := res.Kind
		res.Kind = "alloc"
		res.Class = "alloc-out-of-proportion"
		res.Msg = fmt.Sprintf("step allocated %d bytes (limit %d) for an input of %d bytes; the step returned %s", res.Alloc, lim, len(s.c.In), kind)
		res.Entry, res.Func, res.Stack = bigAllocator(fn)
		s.steps = append(s.steps, res)
		s.Violated = true
		return false
	}
	switch res.Kind {
	case "ok":
		s.nOK++
		return true
	case "err":
		s.nErr++
		return false
	}
	s.steps = append(s.steps, res)
	s.Violated = true
	return false
}

func trunc(s string, n int) string {
	if len(s) > n {
		return s[:n] + "..."
	}
	return s
}

var reNum = regexp.MustCompile(`[0-9]+`)

// PanicKind normalises a panic value to a stable class.
func PanicKind(r any) string {
	msg := fmt.Sprint(r)
	if _, ok := r.(runtime.Error); ok || strings.HasPrefix(msg, "runtime error: ") {
		m := strings.TrimPrefix(msg, "runtime error: ")
		switch {
		case strings.HasPrefix(m, "index out of range"):
			return "index-out-of-range"
		case strings.HasPrefix(m, "slice bounds out of range"):
			return "slice-bounds-out-of-range"
		case strings.HasPrefix(m, "makeslice: len out of range"):
			return "makeslice-len-out-of-range"
		case strings.HasPrefix(m, "makeslice: cap out of range"):
			return "makeslice-cap-out-of-range"
		case strings.HasPrefix(m, "interface conversion"):
			return "interface-conversion"
		case strings.Contains(m, "nil pointer dereference"):
			return "nil-dereference"
		case strings.HasPrefix(m, "integer divide by zero"):
			return "divide-by-zero"
		case strings.HasPrefix(m, "makemap"), strings.Contains(m, "makechan"):
			return "make-size-out-of-range"
		case strings.Contains(m, "cannot convert slice with length"):
			return "slice-to-array-length"
		case strings.Contains(m, "negative shift"):
			return "negative-shift"
		}
		m = reNum.ReplaceAllString(m, "N")
		m = strings.Map(func(r rune) rune {
			if r == ' ' || r == ':' || r == '/' {
				return '-'
			}
			return r
		}, m)
		return trunc(m, 40)
	}
	return "explicit-panic"
}

func isHarnessFrame(fn, file string) bool {
	if fn == "main.main" || strings.HasSuffix(file, "_testmain.go") {
		return true
	}
	return strings.Contains(file, "zz_verif") || strings.Contains(file, "/zzverif/") || strings.Contains(fn, "/zzverif/") ||
		strings.Contains(file, "/verif/harness/") || strings.Contains(fn, "_test.") || strings.Contains(fn, ".TestVerif") ||
		strings.Contains(fn, ".c12")
}

// RootPkg: in a test binary of package main the functions of the root package carry the module path.
const RootPkg = "github.com/rpcpool/yellowstone-faithful."

func isRepoFunc(fn string) bool {
	return strings.HasPrefix(fn, Module) || strings.HasPrefix(fn, "main.") || strings.HasPrefix(fn, RootPkg)
}

// ShortFunc strips the module path from a function name.
func ShortFunc(fn string) string {
	if strings.HasPrefix(fn, RootPkg) {
		fn = "main." + fn[len(RootPkg):]
	}
	fn = strings.TrimPrefix(fn, Module)
	// closures: keep "X.func1" but drop generic instantiation noise
	fn = strings.ReplaceAll(fn, "[...]", "")
	return fn
}

// PkgOf returns the package path of a fully qualified function name.
func PkgOf(fn string) string {
	k := strings.LastIndex(fn, "/")
	d := strings.Index(fn[k+1:], ".")
	if d < 0 {
		return fn
	}
	return fn[:k+1+d]
}

func isExportedFunc(fn string) bool {
	fn = fn[len(PkgOf(fn)):]
	fn = strings.TrimPrefix(fn, ".")
	// drop closures
	if k := strings.Index(fn, ".func"); k >= 0 {
		fn = fn[:k]
	}
	parts := strings.Split(fn, ".")
	last := parts[len(parts)-1]
	last = strings.TrimLeft(last, "(*")
	if last == "" {
		return false
	}
	if len(parts) > 1 {
		// method: the receiver type need not be exported for the method to be reachable through an interface; require the method name only
	}
	c := last[0]
	return c >= 'A' && c <= 'Z'
}

// pickFrames applies the key rule to a list of function names ordered innermost first:
//
//	fn    = innermost repository function (the faulting function),
//	entry = outermost exported function of fn's package on the stack (the API boundary of the package
//	        that contains the fault); fn itself when there is none.
func pickFrames(fns []string) (entry, fn string) {
	for _, f := range fns {
		if isRepoFunc(f) {
			fn = f
			break
		}
	}
	if fn == "" {
		if len(fns) > 0 {
			return ShortFunc(fns[0]), ShortFunc(fns[0])
		}
		return "?", "?"
	}
	pkg := PkgOf(fn)
	entry = fn
	outer := ""
	for _, f := range fns {
		if PkgOf(f) == pkg {
			outer = f
			if isExportedFunc(f) {
				entry = f
			}
		}
	}
	if !isExportedFunc(entry) && outer != "" {
		entry = outer
	}
	clean := func(x string) string {
		if k := strings.Index(x, ".func"); k >= 0 {
			x = x[:k]
		}
		return ShortFunc(x)
	}
	return clean(entry), clean(fn)
}

func frames(pcs []uintptr) (entry, repoFn, innerFn, stack string) {
	fr := runtime.CallersFrames(pcs)
	var sb strings.Builder
	lines := 0
	var fns []string
	for {
		f, more := fr.Next()
		fn := f.Function
		if fn != "" && !strings.HasPrefix(fn, "runtime.") && !isHarnessFrame(fn, f.File) && !strings.HasPrefix(fn, "testing.") {
			if innerFn == "" {
				innerFn = fn
			}
			fns = append(fns, fn)
		}
		if lines < 14 && fn != "" && !strings.HasPrefix(fn, "runtime.") {
			fmt.Fprintf(&sb, "%s (%s:%d)\n", ShortFunc(fn), filepath.Base(f.File), f.Line)
			lines++
		}
		if !more {
			break
		}
	}
	entry, repoFn = pickFrames(fns)
	return entry, repoFn, innerFn, sb.String()
}

// heapSnapshot returns allocated bytes per allocation stack (heap profile; MemProfileRate is set so
// that every allocation >= 16 MiB is sampled). Two GC cycles publish the pending profile data.
func heapSnapshot() (map[string]int64, map[string][]uintptr) {
	runtime.GC()
	runtime.GC()
	n, _ := runtime.MemProfile(nil, true)
	recs := make([]runtime.MemProfileRecord, n+64)
	n, ok := runtime.MemProfile(recs, true)
	if !ok {
		return nil, nil
	}
	by := map[string]int64{}
	st := map[string][]uintptr{}
	for i := range recs[:n] {
		r := &recs[i]
		key := fmt.Sprint(r.Stack())
		by[key] += r.AllocBytes
		st[key] = append([]uintptr(nil), r.Stack()...)
	}
	return by, st
}

// bigAllocator names the function below the largest allocation of a step by running the step a second
// time between two heap-profile snapshots (only called after the allocation meter has already fired).
func bigAllocator(fn func() error) (entry string, repoFn string, stack string) {
	base, _ := heapSnapshot()
	func() {
		defer func() { recover() }()
		fn()
	}()
	cur, stacks := heapSnapshot()
	var bestKey string
	var bestDelta int64
	for k, v := range cur {
		if d := v - base[k]; d > bestDelta {
			bestDelta, bestKey = d, k
		}
	}
	if bestKey == "" {
		return "?", "?", ""
	}
	e, f, _, st := frames(stacks[bestKey])
	return e, f, st
}

// ---------------------------------------------------------------------------------------------
// child side

type ChildSpec struct {
	Group   string `json:"group"`
	FixDir  string `json:"fixdir"`
	Start   int    `json:"start"`
	Journal string `json:"journal"`
	// Only: when non-nil, run exactly this case (replay) instead of the generated list.
	Only     *Case `json:"only,omitempty"`
	NoRlimit bool  `json:"no_rlimit,omitempty"`
	// RlimitBytes overrides AddressSpaceLimit (used by the single-case retry of an unattributable death).
	RlimitBytes uint64 `json:"rlimit_bytes,omitempty"`
	HangSecs    int    `json:"hang_secs"`
	ReadLimit   int64  `json:"read_limit"`
	// SkipFields: "entry|field" pairs whose remaining cases are skipped (the parent adds a pair after
	// three process deaths with the same key on mutants of that field).
	SkipFields []string `json:"skip_fields,omitempty"`
}

func fieldOf(c *Case) string {
	f := c.Class
	if k := strings.Index(f, "|"); k >= 0 {
		f = f[:k]
	}
	return c.Entry + "|" + f
}

type resLine struct {
	Idx   int       `json:"i"`
	OK    int       `json:"ok"`
	Err   int       `json:"err"`
	Steps []StepRes `json:"st,omitempty"`
	Ms    int       `json:"ms,omitempty"` // only when the case took more than 100 ms (diagnostic, never a verdict)
}

// vmSize returns the current virtual size of the process in bytes.
func vmSize() uint64 {
	b, err := os.ReadFile("/proc/self/statm")
	if err != nil {
		return 0
	}
	var pages uint64
	fmt.Sscanf(string(b), "%d", &pages)
	return pages * uint64(os.Getpagesize())
}

func readSyscalls() int64 {
	b, err := os.ReadFile("/proc/self/io")
	if err != nil {
		return -1
	}
	for _, ln := range strings.Split(string(b), "\n") {
		if strings.HasPrefix(ln, "syscr:") {
			v, _ := strconv.ParseInt(strings.TrimSpace(ln[6:]), 10, 64)
			return v
		}
	}
	return -1
}

// FixDir is the fixture directory of the running child (set by ChildLoop).
var FixDir string

// ChildLoop is the body of a child process.
func ChildLoop(spec ChildSpec) error {
	FixDir = spec.FixDir
	g := Groups[spec.Group]
	if g == nil {
		return fmt.Errorf("c12kit: unknown group %q", spec.Group)
	}
	runtime.MemProfileRate = 16 << 20
	jf, err := os.OpenFile(spec.Journal, os.O_CREATE|os.O_WRONLY|os.O_APPEND, 0o644)
	if err != nil {
		return err
	}
	defer jf.Close()
	// a write(2) that returned survives the death of the process (page cache); fsync would only
	// protect against a machine crash.
	journal := func(s string) { jf.WriteString(s) }

	var cases []Case
	if spec.Only != nil {
		cases = []Case{*spec.Only}
	} else {
		cases = g.Gen(spec.FixDir)
	}
	journal(fmt.Sprintf("N %d\n", len(cases)))
	// The address-space limit is applied AFTER the case list exists and on top of what the process
	// already maps (binary, runtime reservations, case list): the head-room is what the code under
	// test may allocate.
	if !spec.NoRlimit && !RaceEnabled {
		as := uint64(AddressSpaceLimit)
		if spec.RlimitBytes > 0 {
			as = spec.RlimitBytes
		}
		// keep the collector from letting the heap (which holds the case list) drift into the head-room
		debug.SetGCPercent(50)
		runtime.GC()
		memSample := []metrics.Sample{{Name: "/memory/classes/total:bytes"}}
		metrics.Read(memSample)
		if memSample[0].Value.Kind() == metrics.KindUint64 {
			debug.SetMemoryLimit(int64(memSample[0].Value.Uint64() + as/2))
		}
		vs := vmSize()
		journal(fmt.Sprintf("V %d\n", vs))
		lim := syscall.Rlimit{Cur: vs + as, Max: vs + as}
		_ = syscall.Setrlimit(syscall.RLIMIT_AS, &lim)
	}
	lim := g.AllocLimit
	if lim == nil {
		lim = DefaultAllocLimit
	}

	// watchdog: wall-clock (=> inconclusive) and read-syscall budget (=> operation-count verdict)
	var curIdx atomic.Int64
	var curStart atomic.Int64 // unix nano
	var curReads atomic.Int64
	curIdx.Store(-1)
	hang := time.Duration(spec.HangSecs) * time.Second
	if hang <= 0 {
		hang = 60 * time.Second
	}
	go func() {
		for {
			time.Sleep(50 * time.Millisecond)
			idx := curIdx.Load()
			if idx < 0 {
				continue
			}
			if spec.ReadLimit > 0 {
				if now := readSyscalls(); now >= 0 {
					if d := now - curReads.Load(); d > spec.ReadLimit && curIdx.Load() == idx {
						journal(fmt.Sprintf("L %d %d\n", idx, d))
						dumpAndExit(4)
					}
				}
			}
			if st := curStart.Load(); st > 0 && time.Since(time.Unix(0, st)) > hang && curIdx.Load() == idx {
				journal(fmt.Sprintf("H %d\n", idx))
				dumpAndExit(3)
			}
		}
	}()

	skip := map[string]bool{}
	for _, f := range spec.SkipFields {
		skip[f] = true
	}
	for i := spec.Start; i < len(cases); i++ {
		c := &cases[i]
		if skip[fieldOf(c)] {
			journal(fmt.Sprintf("K %d\n", i))
			continue
		}
		d := Drivers[c.Entry]
		journal(fmt.Sprintf("S %d\n", i))
		if d == nil {
			journal(fmt.Sprintf("R {\"i\":%d,\"st\":[{\"n\":\"harness\",\"k\":\"nodriver\"}]}\n", i))
			continue
		}
		curReads.Store(readSyscalls())
		curStart.Store(time.Now().UnixNano())
		curIdx.Store(int64(i))
		s := &Stepper{c: c, lim: lim, journal: journal}
		d(c, s)
		curIdx.Store(-1)
		rl := resLine{Idx: i, OK: s.nOK, Err: s.nErr, Steps: s.steps}
		if ms := int(time.Since(time.Unix(0, curStart.Load())).Milliseconds()); ms > 100 {
			rl.Ms = ms
		}
		b, _ := json.Marshal(rl)
		journal("R " + string(b) + "\n")
		for _, st := range s.steps {
			if st.Kind == "alloc" && st.Alloc > 1<<30 {
				// the heap address space never shrinks: continue in a fresh process
				journal("X\n")
				return nil
			}
		}
	}
	journal("D\n")
	return nil
}

func dumpAndExit(code int) {
	buf := make([]byte, 4<<20)
	n := runtime.Stack(buf, true)
	blocks := strings.Split(string(buf[:n]), "\n\n")
	// the goroutine that executes the case first (crash-log consumers keep only the head of the log)
	sort.SliceStable(blocks, func(i, j int) bool {
		return strings.Contains(blocks[i], "c12kit.(*Stepper).Do") && !strings.Contains(blocks[j], "c12kit.(*Stepper).Do")
	})
	os.Stderr.WriteString("\nfatal error: C12-WATCHDOG goroutine dump:\n\n")
	os.Stderr.WriteString(strings.Join(blocks, "\n\n"))
	os.Stderr.WriteString("\n")
	os.Exit(code)
}

// ---------------------------------------------------------------------------------------------
// parent side

// Spawn starts one child for the spec and returns the child's combined output (tail), whether it
// exited abnormally and whether the parent's wall-clock limit killed it.
type Spawn func(spec ChildSpec, timeout time.Duration) (output string, exitErr error, timedOut bool)

var spawnSeq struct {
	sync.Mutex
	n int
}

// SelfSpawn re-executes the running test binary with -test.run=^<childTest>$; the child test calls
// ChildMain().
func SelfSpawn(childTest string) Spawn {
	return func(spec ChildSpec, timeout time.Duration) (string, error, bool) {
		spawnSeq.Lock()
		spawnSeq.n++
		n := spawnSeq.n
		spawnSeq.Unlock()
		dir := filepath.Join(ev.Scratch(), "c12child")
		os.MkdirAll(dir, 0o755)
		base := filepath.Join(dir, fmt.Sprintf("%s-%d-%d", spec.Group, os.Getpid(), n))
		sb, _ := json.Marshal(spec)
		if err := os.WriteFile(base+".spec.json", sb, 0o644); err != nil {
			return "", err, false
		}
		logf, err := os.Create(base + ".log")
		if err != nil {
			return "", err, false
		}
		ctx, cancel := context.WithTimeout(context.Background(), timeout)
		defer cancel()
		cmd := exec.CommandContext(ctx, os.Args[0], "-test.run=^"+childTest+"$", "-test.count=1", "-test.timeout=0")
		cmd.Env = append(os.Environ(), "C12_CHILD_SPEC="+base+".spec.json", "GOTRACEBACK=all")
		cmd.Stdout = logf
		cmd.Stderr = logf
		cmd.Dir, _ = os.Getwd()
		cmd.Cancel = func() error { return cmd.Process.Signal(syscall.SIGQUIT) }
		cmd.WaitDelay = 10 * time.Second
		err = cmd.Run()
		logf.Close()
		timedOut := ctx.Err() != nil
		out := ""
		if lb, rerr := os.ReadFile(base + ".log"); rerr == nil {
			out = CrashTail(string(lb))
		}
		os.Remove(base + ".log")
		os.Remove(base + ".spec.json")
		return out, err, timedOut
	}
}

// ChildMain is called by the child test entry point. It returns false when the process is not a child.
func ChildMain() (bool, error) {
	p := os.Getenv("C12_CHILD_SPEC")
	if p == "" {
		return false, nil
	}
	b, err := os.ReadFile(p)
	if err != nil {
		return true, err
	}
	var spec ChildSpec
	if err := json.Unmarshal(b, &spec); err != nil {
		return true, err
	}
	return true, ChildLoop(spec)
}

// CrashTail keeps the part of a log that matters: from the first panic / fatal error line on.
func CrashTail(txt string) string {
	first := -1
	for _, mark := range []string{"\npanic: ", "\nfatal error: ", "\nunexpected fault address", "\nruntime: out of memory", "\nC12-WATCHDOG", "\nSIGQUIT", "\nruntime: "} {
		if k := strings.Index("\n"+txt, mark); k >= 0 && (first < 0 || k < first) {
			first = k
		}
	}
	if first >= 0 {
		txt = txt[first:]
		if len(txt) > 12000 {
			txt = txt[:12000]
		}
	} else if len(txt) > 4000 {
		txt = txt[len(txt)-4000:]
	}
	return txt
}

// FuncFromDump applies the key rule to the first goroutine of a crash log / goroutine dump that
// contains a repository frame (wantMarker: only goroutines whose stack contains this text).
// outermost=true returns the outermost repository function twice (used for loops: the loop belongs
// to the function the driver called, wherever the goroutine happened to be).
func FuncFromDump(dump string, wantMarker string, outermost bool) (entry, fn string) {
	blocks := strings.Split(dump, "\n\n")
	for _, b := range blocks {
		if wantMarker != "" && !strings.Contains(b, wantMarker) {
			continue
		}
		var fns []string
		lines := strings.Split(b, "\n")
		for i, ln := range lines {
			if strings.HasPrefix(ln, "\t") || strings.HasPrefix(ln, " ") {
				continue // file:line rows
			}
			ln = strings.TrimSpace(ln)
			if ln == "" || strings.HasPrefix(ln, "goroutine ") || strings.HasPrefix(ln, "created by ") || strings.HasPrefix(ln, "runtime.") || strings.HasPrefix(ln, "testing.") {
				continue
			}
			k := strings.LastIndex(ln, "(")
			if k <= 0 {
				continue
			}
			f := ln[:k]
			file := ""
			if i+1 < len(lines) {
				file = lines[i+1]
			}
			if !strings.Contains(f, ".") || isHarnessFrame(f, file) {
				continue
			}
			fns = append(fns, f)
		}
		var repo []string
		for _, f := range fns {
			if isRepoFunc(f) {
				repo = append(repo, f)
			}
		}
		if len(repo) == 0 {
			continue
		}
		if outermost {
			o := repo[len(repo)-1]
			if k := strings.Index(o, ".func"); k >= 0 {
				o = o[:k]
			}
			return ShortFunc(o), ShortFunc(o)
		}
		return pickFrames(fns)
	}
	return "?", "?"
}

var reCannotAlloc = regexp.MustCompile(`cannot allocate (\d+)-byte block`)

// RefusedAllocation returns the size of the allocation the runtime could not satisfy (0 = unknown).
func RefusedAllocation(out string) uint64 {
	m := reCannotAlloc.FindStringSubmatch(out)
	if m == nil {
		return 0
	}
	v, _ := strconv.ParseUint(m[1], 10, 64)
	return v
}

// FatalClass normalises the first fatal line of a crash log.
//   - an allocation the address-space limit refused is the same failure class as an allocation the
//     meter flags ("alloc-out-of-proportion": allocation sized by untrusted input);
//   - a panic that killed the process (raised in a goroutine the caller cannot recover) keeps the
//     class of the panic value, so that it shares the key of the same panic observed under recover().
func FatalClass(out string) string {
	switch {
	case strings.Contains(out, "out of memory"), strings.Contains(out, "cannot allocate memory"):
		return "alloc-out-of-proportion"
	case strings.Contains(out, "stack overflow"), strings.Contains(out, "goroutine stack exceeds"):
		return "fatal:stack-overflow"
	case strings.Contains(out, "concurrent map"):
		return "fatal:concurrent-map-access"
	case strings.Contains(out, "\npanic: "), strings.HasPrefix(out, "panic: "):
		k := strings.Index(out, "panic: ")
		msg := out[k+len("panic: "):]
		if nl := strings.Index(msg, "\n"); nl >= 0 {
			msg = msg[:nl]
		}
		msg = strings.TrimSuffix(strings.TrimSpace(msg), " [recovered]")
		if strings.HasPrefix(msg, "runtime error: ") || strings.HasPrefix(msg, "interface conversion") {
			if !strings.HasPrefix(msg, "runtime error: ") {
				msg = "runtime error: " + msg
			}
			return "panic:" + PanicKind(msg)
		}
		return "panic:explicit-panic"
	case strings.Contains(out, "unexpected fault address"), strings.Contains(out, "SIGSEGV"), strings.Contains(out, "SIGBUS"):
		return "fatal:fault"
	}
	return "fatal:process-death"
}

// Replay is what a violation record carries; `check --replay` re-runs exactly this case.
type Replay struct {
	Group string `json:"group"`
	Case  Case   `json:"case"`
	Step  string `json:"step"`
	Sha   string `json:"sha256"`
}

type journalState struct {
	n        int
	done     bool
	results  map[int]resLine
	started  int // last S idx
	lastStep string
	hang     int
	loop     int
	loopN    int64
	skipped  int
	restart  bool // the child asked to be replaced by a fresh process (after a huge surviving allocation)
}

func parseJournal(path string) journalState {
	st := journalState{n: -1, results: map[int]resLine{}, started: -1, hang: -1, loop: -1}
	f, err := os.Open(path)
	if err != nil {
		return st
	}
	defer f.Close()
	sc := bufio.NewScanner(f)
	sc.Buffer(make([]byte, 1<<20), 64<<20)
	for sc.Scan() {
		ln := sc.Text()
		if len(ln) < 1 {
			continue
		}
		switch ln[0] {
		case 'N':
			st.n, _ = strconv.Atoi(strings.TrimSpace(ln[1:]))
		case 'S':
			st.started, _ = strconv.Atoi(strings.TrimSpace(ln[1:]))
			st.lastStep = ""
		case 'T':
			st.lastStep = strings.TrimSpace(ln[1:])
		case 'R':
			var rl resLine
			if json.Unmarshal([]byte(ln[2:]), &rl) == nil {
				st.results[rl.Idx] = rl
			}
		case 'K':
			st.skipped++
		case 'H':
			st.hang, _ = strconv.Atoi(strings.TrimSpace(ln[1:]))
		case 'L':
			fmt.Sscanf(ln[2:], "%d %d", &st.loop, &st.loopN)
		case 'D':
			st.done = true
		case 'X':
			st.restart = true
		}
	}
	return st
}

// Budgets of one group run (a broken tree must not turn a bounded run into an unbounded one).
const (
	MaxRecordedPerKey = 3
	MaxDistinctKeys   = 80
	MaxDeaths         = 400
	MaxInconclusive   = 10
)

type Runner struct {
	Rec    *ev.Recorder
	Group  string
	FixDir string
	Spawn  Spawn
	// ChildTimeout: wall-clock limit of one child (inconclusive when exceeded).
	ChildTimeout time.Duration
	HangSecs     int
	ReadLimit    int64
	NoRlimit     bool

	perKey  map[string]int
	deathBy map[string]int // key|field -> deaths
	skipSet []string
	skipped int
	slow    []string
	deaths  int
	inconc  int
	OKSteps int64
	ErrStep int64
}

func sha(b []byte) string {
	h := sha256.Sum256(b)
	return hex.EncodeToString(h[:8])
}

func (r *Runner) violate(c *Case, step, entry, class, fn, detail string) {
	if entry == "" || entry == "?" {
		entry = step
	}
	key := entry + "/" + class + "/" + fn
	key = strings.ReplaceAll(key, " ", "")
	if r.perKey == nil {
		r.perKey = map[string]int{}
	}
	r.perKey[key]++
	r.Rec.Count("viol:"+key, 1)
	if r.perKey[key] > MaxRecordedPerKey {
		return
	}
	in := c.In
	det := fmt.Sprintf("step %s (driver %s), input %q (%d bytes, sha256/8 %s): %s", step, c.Entry, c.Label, len(in), sha(in), detail)
	r.Rec.Violation(key, det, Replay{Group: r.Group, Case: *c, Step: step, Sha: sha(in)})
}

// retryAlone re-executes one case in a fresh child. It returns true when the retry produced a verdict
// (violations recorded from its journal, or a clean pass recorded as inconclusive).
func (r *Runner) retryAlone(c *Case, step, firstOut string, pressure bool) bool {
	jp := filepath.Join(ev.Scratch(), "c12journal", fmt.Sprintf("%s-%d-retry-%d.journal", r.Group, os.Getpid(), r.deaths))
	os.MkdirAll(filepath.Dir(jp), 0o755)
	os.Remove(jp)
	spec := ChildSpec{Group: r.Group, FixDir: r.FixDir, Start: 0, Journal: jp, Only: c, NoRlimit: r.NoRlimit, HangSecs: r.HangSecs, ReadLimit: r.ReadLimit,
		RlimitBytes: 4 * AddressSpaceLimit} // more head-room: the first death was memory exhaustion outside a Go stack
	out, exitErr, timedOut := r.Spawn(spec, r.ChildTimeout)
	st := parseJournal(jp)
	os.Remove(jp)
	r.deaths++
	if rl, ok := st.results[0]; ok && (st.done || st.restart) {
		n := 0
		for _, s := range rl.Steps {
			switch s.Kind {
			case "panic":
				r.violate(c, s.Name, s.Entry, s.Class, s.Func, fmt.Sprintf("PANIC %q; stack:\n%s", s.Msg, s.Stack))
				n++
			case "alloc":
				r.violate(c, s.Name, s.Entry, s.Class, s.Func, fmt.Sprintf("%s; allocating stack:\n%s", s.Msg, s.Stack))
				n++
			}
		}
		if n == 0 && pressure {
			// the case is fine on its own: the first death was the child running out of address space
			r.Rec.Count("restarts_after_memory_pressure", 1)
		} else if n == 0 {
			r.inconc++
			r.Rec.Inconclusive(fmt.Sprintf("%s: the child died once in step %s on input %q (sha256/8 %s) without a Go stack and the case passed when executed alone: %s", r.Group, step, c.Label, sha(c.In), trunc(firstOut, 300)))
		}
		return true
	}
	if timedOut {
		return false
	}
	class := FatalClass(out)
	en, fn := FuncFromDump(out, "", false)
	if fn == "?" || class == "fatal:process-death" {
		r.inconc++
		r.Rec.Inconclusive(fmt.Sprintf("%s: the child died twice in step %s on input %q (hex %s) without an attributable Go stack (exit %v): %s", r.Group, step, c.Label, hexShort(c.In), exitErr, trunc(out, 600)))
		return true
	}
	if st.lastStep != "" {
		step = st.lastStep
	}
	r.noteDeath(c, en+"/"+class+"/"+fn)
	r.violate(c, step, en, class, fn, fmt.Sprintf("the process DIED (exit: %v) — not recoverable by the caller; log:\n%s", exitErr, trunc(out, 3000)))
	return true
}

// noteDeath counts a process death per (key, mutated field); after three, the remaining mutants of
// that field are skipped (reported in the evidence) so that one defect cannot exhaust the budget that
// the other entry points need.
func (r *Runner) noteDeath(c *Case, key string) {
	if r.deathBy == nil {
		r.deathBy = map[string]int{}
	}
	f := fieldOf(c)
	k := key + " @ " + f
	r.deathBy[k]++
	if r.deathBy[k] == 3 {
		r.skipSet = append(r.skipSet, f)
		r.Rec.Note("skipped_after_3_deaths:"+f, key)
	}
}

func (r *Runner) enough() bool {
	return len(r.perKey) >= MaxDistinctKeys || r.deaths >= MaxDeaths || r.inconc >= MaxInconclusive
}

// Run executes the whole case list of the group in child processes and records verdicts.
func (r *Runner) Run() {
	g := Groups[r.Group]
	if g == nil {
		r.Rec.Inconclusive("unknown group " + r.Group)
		return
	}
	var cases []Case
	var only *Case
	var rp Replay
	if ev.LoadReplay(&rp) {
		if rp.Group != r.Group {
			return
		}
		cases = []Case{rp.Case}
		only = &rp.Case
		r.Rec.Note("replay", rp.Case.Label)
	} else {
		cases = g.Gen(r.FixDir)
	}
	if r.ChildTimeout == 0 {
		r.ChildTimeout = 20 * time.Minute
	}
	classes := map[string]int{}
	for i := range cases {
		classes[cases[i].Entry+"|"+cases[i].Class]++
	}
	start := 0
	spawns := 0
	earlyDeaths := 0
	journalDir := filepath.Join(ev.Scratch(), "c12journal")
	os.MkdirAll(journalDir, 0o755)
	for start < len(cases) && !r.enough() {
		spawns++
		jp := filepath.Join(journalDir, fmt.Sprintf("%s-%d-%d.journal", r.Group, os.Getpid(), spawns))
		os.Remove(jp)
		spec := ChildSpec{Group: r.Group, FixDir: r.FixDir, Start: start, Journal: jp, Only: only, NoRlimit: r.NoRlimit, HangSecs: r.HangSecs, ReadLimit: r.ReadLimit, SkipFields: r.skipSet}
		t0 := time.Now()
		out, exitErr, timedOut := r.Spawn(spec, r.ChildTimeout)
		st := parseJournal(jp)
		os.Remove(jp)
		r.skipped += st.skipped
		r.Rec.Count("child_ms", int(time.Since(t0).Milliseconds()))
		if st.n >= 0 && st.n != len(cases) {
			r.Rec.Inconclusive(fmt.Sprintf("%s: child generated %d cases, parent %d (generator not deterministic) — harness error", r.Group, st.n, len(cases)))
			return
		}
		// completed cases
		last := start - 1
		idxs := make([]int, 0, len(st.results))
		for i := range st.results {
			idxs = append(idxs, i)
		}
		sort.Ints(idxs)
		for _, i := range idxs {
			if i < start || i >= len(cases) {
				continue
			}
			rl := st.results[i]
			c := &cases[i]
			r.Rec.Eval(1)
			r.OKSteps += int64(rl.OK)
			r.ErrStep += int64(rl.Err)
			r.Rec.Count("steps_ok:"+c.Entry, rl.OK)
			r.Rec.Count("steps_err:"+c.Entry, rl.Err)
			if rl.Ms > 0 {
				r.slow = append(r.slow, fmt.Sprintf("%6d ms %s", rl.Ms, c.Label))
				r.Rec.Count("slow_cases_ms", rl.Ms)
			}
			for _, s := range rl.Steps {
				switch s.Kind {
				case "panic":
					r.violate(c, s.Name, s.Entry, s.Class, s.Func, fmt.Sprintf("PANIC %q (expected: an error or a result); innermost frame %s; stack:\n%s", s.Msg, ShortFunc(s.Inner), s.Stack))
				case "alloc":
					r.violate(c, s.Name, s.Entry, s.Class, s.Func, fmt.Sprintf("%s; allocating stack:\n%s", s.Msg, s.Stack))
				case "budget":
					r.violate(c, s.Name, s.Name, s.Class, "-", s.Msg)
				case "nodriver":
					r.Rec.Inconclusive("no driver for entry " + c.Entry)
					r.inconc++
				}
			}
			if i > last {
				last = i
			}
		}
		if st.done {
			start = len(cases)
			break
		}
		// the child did not finish: attribute to the journaled case
		bad := st.started
		if _, finished := st.results[bad]; finished || bad < start {
			// died between cases or before the first one
			if bad < start {
				earlyDeaths++
				if earlyDeaths <= 2 {
					continue
				}
				r.Rec.Inconclusive(fmt.Sprintf("%s: child died before executing a case (exit %v, timed out %v): %s", r.Group, exitErr, timedOut, trunc(out, 1500)))
				r.inconc++
				// cannot make progress reliably
				return
			}
			start = bad + 1
			continue
		}
		c := &cases[bad]
		r.Rec.Eval(1)
		step := st.lastStep
		if step == "" {
			step = c.Entry
		}
		switch {
		case st.loop == bad:
			en, fn := FuncFromDump(out, "c12kit.(*Stepper).Do", true)
			r.violate(c, step, en, "unbounded-reads", fn, fmt.Sprintf("the step issued %d read system calls on an input of %d bytes and had not returned (budget %d): a loop that does not terminate on this input; goroutine dump:\n%s", st.loopN, len(c.In), r.ReadLimit, trunc(out, 2500)))
			r.deaths++
		case st.hang == bad || timedOut:
			r.inconc++
			r.Rec.Inconclusive(fmt.Sprintf("%s: watchdog expired in step %s on input %q (%d bytes, sha256/8 %s, hex %s) — a finite run cannot decide 'forever'; dump: %s",
				r.Group, step, c.Label, len(c.In), sha(c.In), hexShort(c.In), trunc(out, 1200)))
		default:
			class := FatalClass(out)
			en, fn := FuncFromDump(out, "", false)
			pressure := false
			if class == "alloc-out-of-proportion" {
				// sound only if the allocation the runtime refused is itself beyond the limit of the step;
				// otherwise the child may simply have been short of address space (harness footprint,
				// heap left over from earlier hostile cases)
				lim := DefaultAllocLimit
				if g.AllocLimit != nil {
					lim = g.AllocLimit
				}
				if RefusedAllocation(out) <= lim(step, len(c.In)) {
					pressure = true
				}
			}
			if pressure || fn == "?" || class == "fatal:process-death" {
				// not attributable as it stands (no Go stack, e.g. a C thread aborting under the address-space
				// limit, or a small allocation refused): execute the case once more alone, in a fresh child
				if r.retryAlone(c, step, out, pressure) {
					start = bad + 1
					continue
				}
			}
			r.noteDeath(c, en+"/"+class+"/"+fn)
			r.violate(c, step, en, class, fn, fmt.Sprintf("the process DIED (exit: %v) — not recoverable by the caller; log:\n%s", exitErr, trunc(out, 3000)))
			r.deaths++
		}
		start = bad + 1
	}
	for k := range classes {
		r.Rec.Distinct(k)
	}
	sort.Sort(sort.Reverse(sort.StringSlice(r.slow)))
	if len(r.slow) > 8 {
		r.slow = r.slow[:8]
	}
	r.Rec.Note("slowest_cases", r.slow)
	r.Rec.Count("children", spawns)
	r.Rec.Count("cases_generated", len(cases))
	r.Rec.Count("deaths", r.deaths)
	r.Rec.Count("cases_skipped_after_repeated_deaths", r.skipped)
	if r.enough() && start < len(cases) {
		r.Rec.Note("stopped_early", fmt.Sprintf("budget reached after %d of %d cases (distinct keys %d, deaths %d, inconclusive %d)", start, len(cases), len(r.perKey), r.deaths, r.inconc))
	}
	// samples: a few concrete cases
	step := len(cases)/5 + 1
	for i := 0; i < len(cases); i += step {
		c := cases[i]
		r.Rec.Sample(map[string]any{"entry": c.Entry, "label": c.Label, "class": c.Class, "len": len(c.In), "hex_prefix": hexShort(c.In)})
	}
}

func hexShort(b []byte) string {
	if len(b) > 48 {
		return hex.EncodeToString(b[:48]) + "..."
	}
	return hex.EncodeToString(b)
}

// EqualBytes is a tiny helper for drivers.
func EqualBytes(a, b []byte) bool { return bytes.Equal(a, b) }
