//go:build verif && !race

package c12kit

const RaceEnabled = false
