//go:build verif

package c12kit

// Hand-written descriptions of the on-disk layouts (independent of the repository's parsers): where
// the length / count / size / offset fields of a VALID file are.

import (
	"encoding/binary"
	"fmt"
)

func le32(b []byte, off int) uint32 {
	if off < 0 || off+4 > len(b) {
		return 0
	}
	return binary.LittleEndian.Uint32(b[off:])
}

func le64(b []byte, off int) uint64 {
	if off < 0 || off+8 > len(b) {
		return 0
	}
	return binary.LittleEndian.Uint64(b[off:])
}

// metaFields walks an indexmeta block (u8 count, then (u8 klen, key, u8 vlen, value)*) starting at off.
func metaFields(b []byte, off int, prefix string) (fields []Field, end int) {
	if off >= len(b) {
		return nil, off
	}
	n := int(b[off])
	fields = append(fields, Field{Name: prefix + "meta.numKVs", Off: off, W: 1})
	p := off + 1
	for i := 0; i < n && p < len(b); i++ {
		kl := int(b[p])
		fields = append(fields, Field{Name: fmt.Sprintf("%smeta.kv%d.keyLen", prefix, i), Off: p, W: 1})
		p += 1 + kl
		if p >= len(b) {
			break
		}
		vl := int(b[p])
		fields = append(fields, Field{Name: fmt.Sprintf("%smeta.kv%d.valueLen", prefix, i), Off: p, W: 1})
		p += 1 + vl
	}
	return fields, p
}

func pickIdx(n int) []int {
	switch {
	case n <= 0:
		return nil
	case n <= 4:
		out := make([]int, n)
		for i := range out {
			out[i] = i
		}
		return out
	}
	return []int{0, 1, n / 2, n - 1}
}

func bucketHeaderFields(base int, name string) []Field {
	return []Field{
		{Name: name + ".hashDomain", Off: base, W: 4},
		{Name: name + ".numEntries", Off: base + 4, W: 4},
		{Name: name + ".hashLen", Off: base + 8, W: 1},
		{Name: name + ".pad", Off: base + 9, W: 1},
		{Name: name + ".fileOffset", Off: base + 10, W: 6},
	}
}

// CompactIndexSizedFields: magic[8] hdrLen:u32 valueSize:u64 numBuckets:u32 version:u8 meta ... bucket headers (16 B) ... entries.
func CompactIndexSizedFields(b []byte) []Field {
	fields := []Field{
		{Name: "header.length", Off: 8, W: 4},
		{Name: "header.valueSize", Off: 12, W: 8},
		{Name: "header.numBuckets", Off: 20, W: 4},
		{Name: "header.version", Off: 24, W: 1},
	}
	mf, _ := metaFields(b, 25, "header.")
	fields = append(fields, mf...)
	hs := 12 + int(le32(b, 8))
	nb := int(le32(b, 20))
	for _, i := range pickIdx(nb) {
		fields = append(fields, bucketHeaderFields(hs+16*i, fmt.Sprintf("bucket%d", i))...)
	}
	return fields
}

// CompactIndexLegacyFields (deprecated/compactindex and compactindex36): magic[8] fileSize:u64 numBuckets:u32 version:u8 pad[11], bucket headers at 32.
func CompactIndexLegacyFields(b []byte) []Field {
	fields := []Field{
		{Name: "header.fileSize", Off: 8, W: 8},
		{Name: "header.numBuckets", Off: 16, W: 4},
		{Name: "header.version", Off: 20, W: 1},
		{Name: "header.pad", Off: 21, W: 1},
	}
	nb := int(le32(b, 16))
	for _, i := range pickIdx(nb) {
		fields = append(fields, bucketHeaderFields(32+16*i, fmt.Sprintf("bucket%d", i))...)
	}
	return fields
}

// BucketteerFields: headerSize:u32 magic[8] version:u64 meta numPrefixes:u64 (prefix:u16 offset:u64)* | content: (numHashes:u32 hash:u64*)*
func BucketteerFields(b []byte) []Field {
	fields := []Field{
		{Name: "headerSize", Off: 0, W: 4},
		{Name: "version", Off: 12, W: 8},
	}
	mf, p := metaFields(b, 20, "")
	fields = append(fields, mf...)
	fields = append(fields, Field{Name: "numPrefixes", Off: p, W: 8})
	np := int(le64(b, p))
	contentBase := 4 + int(le32(b, 0))
	p += 8
	for _, i := range pickIdx(np) {
		e := p + 10*i
		fields = append(fields, Field{Name: fmt.Sprintf("prefix%d.prefix", i), Off: e, W: 2})
		fields = append(fields, Field{Name: fmt.Sprintf("prefix%d.offset", i), Off: e + 2, W: 8})
		off := int(le64(b, e+2))
		fields = append(fields, Field{Name: fmt.Sprintf("bucket%d.numHashes", i), Off: contentBase + off, W: 4})
	}
	return fields
}

// BucketteerLegacyFields: headerSize:u32 magic[8] version:u64 numMeta:u64 (str str)* numPrefixes:u64 ... (borsh strings: u32 length + bytes)
func BucketteerLegacyFields(b []byte) []Field {
	fields := []Field{
		{Name: "headerSize", Off: 0, W: 4},
		{Name: "version", Off: 12, W: 8},
		{Name: "numMeta", Off: 20, W: 8},
	}
	nm := int(le64(b, 20))
	p := 28
	for i := 0; i < nm && p+4 <= len(b); i++ {
		for _, part := range []string{"key", "value"} {
			fields = append(fields, Field{Name: fmt.Sprintf("meta%d.%sLen", i, part), Off: p, W: 4})
			p += 4 + int(le32(b, p))
			if p+4 > len(b) {
				break
			}
		}
	}
	fields = append(fields, Field{Name: "numPrefixes", Off: p, W: 8})
	np := int(le64(b, p))
	contentBase := 4 + int(le32(b, 0))
	p += 8
	for _, i := range pickIdx(np) {
		e := p + 10*i
		fields = append(fields, Field{Name: fmt.Sprintf("prefix%d.prefix", i), Off: e, W: 2})
		fields = append(fields, Field{Name: fmt.Sprintf("prefix%d.offset", i), Off: e + 2, W: 8})
		off := int(le64(b, e+2))
		fields = append(fields, Field{Name: fmt.Sprintf("bucket%d.numHashes", i), Off: contentBase + off, W: 4})
	}
	return fields
}

// BlocktimeFields: "blocktimeindex"[14] start:u64 end:u64 epoch:u64 capacity:u64 values:u32*
func BlocktimeFields(b []byte) []Field {
	return []Field{
		{Name: "start", Off: 14, W: 8},
		{Name: "end", Off: 22, W: 8},
		{Name: "epoch", Off: 30, W: 8},
		{Name: "capacity", Off: 38, W: 8},
		{Name: "value0", Off: 46, W: 4},
	}
}

// ManifestFields: "gsfamnfs"[8] version:u64 meta (u64 u64)*
func ManifestFields(b []byte) []Field {
	fields := []Field{{Name: "version", Off: 8, W: 8}}
	mf, p := metaFields(b, 16, "")
	fields = append(fields, mf...)
	if p+16 <= len(b) {
		fields = append(fields, Field{Name: "tuple0.key", Off: p, W: 8}, Field{Name: "tuple0.value", Off: p + 8, W: 8})
	}
	return fields
}

// LinkedLogRecordFields: one record at off: uvarint payloadLen | zstd frame | next offset:u48 next size:u24
func LinkedLogRecordFields(b []byte, off int, name string) []Field {
	pl, n := binary.Uvarint(b[off:])
	if n <= 0 {
		return nil
	}
	end := off + n + int(pl)
	fields := []Field{{Name: name + ".payloadLen", Off: off, W: n, Varint: true}}
	z := off + n
	fields = append(fields,
		Field{Name: name + ".zstd.magic", Off: z, W: 4},
		Field{Name: name + ".zstd.frameHeaderDescriptor", Off: z + 4, W: 1},
		Field{Name: name + ".zstd.byte5", Off: z + 5, W: 1},
		Field{Name: name + ".zstd.byte6", Off: z + 6, W: 1},
		Field{Name: name + ".zstd.bytes7-9", Off: z + 7, W: 3},
	)
	if end-9 >= z {
		fields = append(fields, Field{Name: name + ".next.offset", Off: end - 9, W: 6}, Field{Name: name + ".next.size", Off: end - 3, W: 3})
	}
	return fields
}

// CarFields: uvarint headerLen | dag-cbor header | (uvarint sectionLen | cid | data)*
// secOffs are the offsets of the sections to mutate (from an independent CAR parser).
func CarFields(b []byte, secOffs []int) []Field {
	fields := []Field{{Name: "header.length", Off: 0, W: 1, Varint: true}}
	for i, off := range secOffs {
		_, n := binary.Uvarint(b[off:])
		if n <= 0 {
			continue
		}
		nm := fmt.Sprintf("section%d", i)
		c := off + n
		fields = append(fields,
			Field{Name: nm + ".length", Off: off, W: n, Varint: true},
			Field{Name: nm + ".cid.version", Off: c, W: 1, Varint: true},
			Field{Name: nm + ".cid.codec", Off: c + 1, W: 1, Varint: true},
			Field{Name: nm + ".cid.mhCode", Off: c + 2, W: 1, Varint: true},
			Field{Name: nm + ".cid.mhLength", Off: c + 3, W: 1, Varint: true},
		)
	}
	return fields
}

// ---------------------------------------------------------------------------------------------
// hand-made files

// ZstdRLEBomb builds a valid zstd frame of `blocks` RLE blocks of 128 KiB each (4 bytes per block:
// expansion x32768).
func ZstdRLEBomb(blocks int) []byte {
	out := []byte{0x28, 0xb5, 0x2f, 0xfd, 0x00, 0x38} // magic, FHD (no FCS, no checksum), window descriptor 128 KiB
	for i := 0; i < blocks; i++ {
		hdr := uint32(1<<1) | uint32(128<<10)<<3 // RLE block, regenerated size 128 KiB
		if i == blocks-1 {
			hdr |= 1
		}
		out = append(out, byte(hdr), byte(hdr>>8), byte(hdr>>16), 0x00)
	}
	return out
}

// ZstdDeclaredSize builds a 13+3 byte frame whose header DECLARES a content size (8-byte field) and
// carries one empty last block.
func ZstdDeclaredSize(size uint64) []byte {
	out := []byte{0x28, 0xb5, 0x2f, 0xfd, 0xe0} // FHD: FCS 8 bytes, single segment
	var s [8]byte
	binary.LittleEndian.PutUint64(s[:], size)
	out = append(out, s[:]...)
	out = append(out, 0x01, 0x00, 0x00) // last block, raw, size 0
	return out
}

// BuildBucketteer writes a sig-exists file in the current format from (prefix -> sorted hashes in
// search-tree order given by the caller). layout: see BucketteerFields.
func BuildBucketteer(magic [8]byte, version uint64, metaKVs [][2][]byte, prefixes []uint16, hashes map[uint16][]uint64) []byte {
	var hdr []byte
	hdr = append(hdr, magic[:]...)
	hdr = binary.LittleEndian.AppendUint64(hdr, version)
	hdr = append(hdr, byte(len(metaKVs)))
	for _, kv := range metaKVs {
		hdr = append(hdr, byte(len(kv[0])))
		hdr = append(hdr, kv[0]...)
		hdr = append(hdr, byte(len(kv[1])))
		hdr = append(hdr, kv[1]...)
	}
	hdr = binary.LittleEndian.AppendUint64(hdr, uint64(len(prefixes)))
	var content []byte
	for _, p := range prefixes {
		hdr = binary.LittleEndian.AppendUint16(hdr, p)
		hdr = binary.LittleEndian.AppendUint64(hdr, uint64(len(content)))
		hs := hashes[p]
		content = binary.LittleEndian.AppendUint32(content, uint32(len(hs)))
		for _, h := range hs {
			content = binary.LittleEndian.AppendUint64(content, h)
		}
	}
	out := binary.LittleEndian.AppendUint32(nil, uint32(len(hdr)))
	out = append(out, hdr...)
	return append(out, content...)
}

// BuildBucketteerLegacy: same with the deprecated header (u64 meta count + borsh strings).
func BuildBucketteerLegacy(magic [8]byte, version uint64, meta [][2]string, prefixes []uint16, hashes map[uint16][]uint64) []byte {
	var hdr []byte
	hdr = append(hdr, magic[:]...)
	hdr = binary.LittleEndian.AppendUint64(hdr, version)
	hdr = binary.LittleEndian.AppendUint64(hdr, uint64(len(meta)))
	for _, kv := range meta {
		for _, s := range kv {
			hdr = binary.LittleEndian.AppendUint32(hdr, uint32(len(s)))
			hdr = append(hdr, s...)
		}
	}
	hdr = binary.LittleEndian.AppendUint64(hdr, uint64(len(prefixes)))
	var content []byte
	for _, p := range prefixes {
		hdr = binary.LittleEndian.AppendUint16(hdr, p)
		hdr = binary.LittleEndian.AppendUint64(hdr, uint64(len(content)))
		hs := hashes[p]
		content = binary.LittleEndian.AppendUint32(content, uint32(len(hs)))
		for _, h := range hs {
			content = binary.LittleEndian.AppendUint64(content, h)
		}
	}
	out := binary.LittleEndian.AppendUint32(nil, uint32(len(hdr)))
	out = append(out, hdr...)
	return append(out, content...)
}

// Eytzinger lays a sorted slice out in the search order used by the index readers
// (index<<1|1, +1 when smaller).
func Eytzinger(sorted []uint64) []uint64 {
	out := make([]uint64, len(sorted))
	var rec func(i, k int) int
	rec = func(i, k int) int {
		if k <= len(sorted) {
			i = rec(i, 2*k)
			out[k-1] = sorted[i]
			i++
			i = rec(i, 2*k+1)
		}
		return i
	}
	rec(0, 1)
	return out
}
