//go:build verif

// Package c05kit carries the workload generator, the reference model and the oracle of property C05
// (signature-existence index has no false negatives).  It is format agnostic: the in-package test
// files of bucketteer/ and deprecated/bucketteer/ supply adapters (Format) for the real writer and
// readers.  The package exists only in the go-build overlay.
//
// Model: per two-byte prefix the sorted set of xxhash64 values (cespare/xxhash called directly) of
// the signatures that were Put.  Oracle, for every probe signature s and every surface (writer
// before/after Seal, sealed file through mmap / os.File / bytes.Reader / a ReaderAt that reports
// io.EOF together with a complete read at the end of the file):
//
//	added(s)                      => Has(s) == true, no error
//	hash(s) not in model[prefix]  => Has(s) == false          (writer and sealed file)
//	hash(s) in model, s not added => writer and sealed file give the same answer
package c05kit

import (
	"bytes"
	"encoding/binary"
	"encoding/hex"
	"encoding/json"
	"errors"
	"fmt"
	"io"
	"math/bits"
	"math/rand"
	"os"
	"os/exec"
	"path/filepath"
	"runtime/debug"
	"sort"
	"strings"
	"sync"
	"sync/atomic"
	"syscall"
	"time"

	"github.com/cespare/xxhash/v2"
	"github.com/rpcpool/yellowstone-faithful/zzverif/ev"
)

// ---------------------------------------------------------------- adapters

type KV struct {
	K []byte `json:"k"`
	V []byte `json:"v"`
}

type Writer interface {
	Put(sig [64]byte)
	Has(sig [64]byte) bool
	Seal(meta []KV) (int64, error)
	Close() error
}

type Reader interface {
	Has(sig [64]byte) (bool, error)
	Close() error
}

// ErrHarness marks errors that are the harness's own (never a verdict about the code under test).
var ErrHarness = errors.New("harness error")

type Format struct {
	Name      string // "current" | "legacy"
	Pkg       string // call-site prefix used in violation keys, e.g. "bucketteer" / "deprecated/bucketteer"
	NewWriter func(path string) (Writer, error)
	Open      func(path string) (Reader, error) // memory-mapped
	NewReader func(r io.ReaderAt) (Reader, error)
}

// ---------------------------------------------------------------- case description

// PP forces the population of one prefix. P = first byte | second byte << 8.
type PP struct {
	P uint16 `json:"p"`
	N int    `json:"n"`
}

type Case struct {
	Name         string `json:"name"`
	Seed         int64  `json:"seed"`
	Layout       string `json:"layout"`                  // mixed | uniform | ladder | explicit
	ZeroPermille int    `json:"zero_permille,omitempty"` // mixed: share of empty prefixes
	Huge         bool   `json:"huge,omitempty"`          // mixed: populations 2^k-1,2^k,2^k+1 for k=9..12 on random prefixes
	Uniform      int    `json:"uniform,omitempty"`       // uniform: population of every prefix; ladder: largest population
	Explicit     []PP   `json:"explicit,omitempty"`      // forced populations (applied last, every layout)
	DupOneIn     int    `json:"dup_one_in,omitempty"`    // buckets selected for duplicated Puts (1 = every bucket, 0 = none)
	DupSigOneIn  int    `json:"dup_sig_one_in,omitempty"`
	DupTimes     int    `json:"dup_times,omitempty"`      // total number of Puts of a duplicated signature (2, 5)
	CollideOneIn int    `json:"collide_one_in,omitempty"` // buckets in which (2j, 2j+1) are distinct signatures with equal xxhash64
	Order        string `json:"order"`                    // asc | desc | shuffle | roundrobin
	Meta         string `json:"meta"`                     // none | std | max | emptykv | longkey | many
	EdgeSigs     bool   `json:"edge_sigs,omitempty"`      // all-zero signature in bucket 0000, all-0xff in bucket ffff
}

var hugePops = []int{511, 512, 513, 1023, 1024, 1025, 2047, 2048, 2049, 4095, 4096, 4097}

// BoundaryPrefixes are directed prefixes (first byte | second byte<<8).
var BoundaryPrefixes = []uint16{0x0000, 0x0001, 0x0100, 0x00ff, 0xff00, 0x7fff, 0x8000, 0xff7f, 0x0080, 0xfffe, 0xfeff, 0xffff, 0x0101, 0x0201, 0x0102}

func mix(x uint64) uint64 {
	x += 0x9E3779B97F4A7C15
	x = (x ^ x>>30) * 0xBF58476D1CE4E5B9
	x = (x ^ x>>27) * 0x94D049BB133111EB
	return x ^ x>>31
}

// Populations returns the number of distinct (p, j) signatures generated for every prefix.
func (c *Case) Populations() []int {
	pops := make([]int, 65536)
	rng := rand.New(rand.NewSource(c.Seed ^ 0x5EED05))
	switch c.Layout {
	case "mixed":
		small := []int{1, 2, 3}
		mid := []int{4, 5, 7, 8, 9, 15, 16, 17}
		big := []int{31, 32, 33, 63, 64, 65}
		large := []int{127, 128, 129, 255, 256, 257}
		z := c.ZeroPermille
		rest := 1000 - z
		for p := range pops {
			r := rng.Intn(1000)
			if r < z {
				continue
			}
			r = (r - z) * 1000 / rest // 0..999 inside the non-empty share
			switch {
			case r < 600:
				pops[p] = small[rng.Intn(len(small))]
			case r < 945:
				pops[p] = mid[rng.Intn(len(mid))]
			case r < 993:
				pops[p] = big[rng.Intn(len(big))]
			default:
				pops[p] = large[rng.Intn(len(large))]
			}
		}
		if c.Huge {
			for _, n := range hugePops {
				pops[1000+rng.Intn(60000)] = n
			}
		}
	case "uniform":
		for p := range pops {
			pops[p] = c.Uniform
		}
	case "ladder":
		// every population 0..Uniform once, on prefixes chosen by the seed (all tree shapes, not only 2^k +- 1)
		perm := rng.Perm(65536)
		for n := 0; n <= c.Uniform && n < 65536; n++ {
			pops[perm[n]] = n
		}
	case "explicit":
	}
	for _, e := range c.Explicit {
		pops[e.P] = e.N
	}
	return pops
}

func (c *Case) dupBucket(p int) bool {
	return c.DupOneIn > 0 && c.DupTimes > 1 && mix(uint64(c.Seed)^uint64(p)*0x1234567)%uint64(c.DupOneIn) == 0
}

func (c *Case) collideBucket(p int) bool {
	return c.CollideOneIn > 0 && mix(uint64(c.Seed)^uint64(p)*0x7654321+99)%uint64(c.CollideOneIn) == 0
}

func randomSig(seed int64, p int, j int, stream uint64) (sig [64]byte) {
	s := mix(uint64(seed)*0x100000001B3 ^ stream<<56 ^ uint64(p)<<32 ^ uint64(uint32(j)))
	sig[0], sig[1] = byte(p), byte(p>>8)
	var w [8]byte
	for k := 2; k < 64; k += 8 {
		s = mix(s)
		binary.LittleEndian.PutUint64(w[:], s)
		copy(sig[k:], w[:])
	}
	return sig
}

// SigAt is the j-th signature of prefix p.
func (c *Case) SigAt(p, j int) [64]byte {
	if c.EdgeSigs && j == 0 {
		if p == 0 {
			return [64]byte{}
		}
		if p == 0xffff {
			var s [64]byte
			for i := range s {
				s[i] = 0xff
			}
			return s
		}
	}
	if j%2 == 1 && c.collideBucket(p) {
		a := c.SigAt(p, j-1)
		var head [8]byte
		copy(head[:], a[:8])
		t := mix(uint64(j) ^ uint64(p)<<20 ^ uint64(c.Seed))
		for k := 2; k < 8; k++ {
			head[k] ^= byte(t >> (8 * uint(k)))
		}
		head[2] ^= 1 // guarantees a change when t's bytes are zero... and is harmless otherwise
		if b, ok := Twin(a, head); ok {
			return b
		}
	}
	return randomSig(c.Seed, p, j, 0)
}

// ---------------------------------------------------------------- xxhash64 collisions (64-byte inputs)

const (
	xxP1 = 11400714785074694791
	xxP2 = 14029467366897019727
)

var xxP2inv = func() uint64 {
	x := uint64(xxP2)
	for i := 0; i < 7; i++ {
		x *= 2 - xxP2*x
	}
	return x
}()

// Twin returns a signature equal to a except for bytes 0..7 (= head) and bytes 32..39, chosen so
// that xxhash64 is unchanged (lane 1 of xxhash64 absorbs bytes 0..7, then bytes 32..39; the second
// word is solved so that the lane's accumulator meets).  ok = verified with cespare/xxhash.
func Twin(a [64]byte, head [8]byte) (b [64]byte, ok bool) {
	b = a
	copy(b[:8], head[:])
	if b == a {
		return b, false
	}
	v0 := uint64(xxP1)
	v0 += xxP2
	round1 := func(in uint64) uint64 { return bits.RotateLeft64(v0+in*xxP2, 31) * xxP1 }
	vA := round1(binary.LittleEndian.Uint64(a[0:8]))
	vB := round1(binary.LittleEndian.Uint64(b[0:8]))
	inA2 := binary.LittleEndian.Uint64(a[32:40])
	inB2 := inA2 + (vA-vB)*xxP2inv
	binary.LittleEndian.PutUint64(b[32:40], inB2)
	return b, b != a && xxhash.Sum64(a[:]) == xxhash.Sum64(b[:])
}

// ---------------------------------------------------------------- metadata variants

func (c *Case) MetaKVs() []KV {
	rng := rand.New(rand.NewSource(c.Seed ^ 0x3E7A))
	rb := func(n int) []byte {
		b := make([]byte, n)
		rng.Read(b)
		return b
	}
	switch c.Meta {
	case "std":
		return []KV{{[]byte("epoch"), []byte{7, 0, 0, 0, 0, 0, 0, 0}}, {[]byte("rootCid"), rb(36)}, {[]byte("network"), []byte("mainnet")}}
	case "max":
		kvs := make([]KV, 255)
		for i := range kvs {
			kvs[i] = KV{rb(255), rb(255)}
		}
		return kvs
	case "emptykv":
		return []KV{{[]byte{}, []byte{}}}
	case "longkey":
		return []KV{{rb(255), []byte{}}, {[]byte("k"), rb(255)}}
	case "many":
		kvs := make([]KV, 200)
		for i := range kvs {
			kvs[i] = KV{[]byte(fmt.Sprintf("key-%03d", i)), rb(i)}
		}
		return kvs
	}
	return nil
}

// ---------------------------------------------------------------- results

type Vio struct {
	Key    string          `json:"key"`
	Detail string          `json:"detail"`
	Replay json.RawMessage `json:"replay"` // raw: 64-bit seeds must not pass through float64
}

type Result struct {
	Evals        int64            `json:"evals"`
	Distinct     []string         `json:"distinct"`
	Violations   []Vio            `json:"violations"`
	VioCounts    map[string]int   `json:"vio_counts"`
	Counters     map[string]int64 `json:"counters"`
	Inconclusive []string         `json:"inconclusive"`
	Sample       json.RawMessage  `json:"sample"`
}

type Replay struct {
	Format  string `json:"format"`
	Case    Case   `json:"case"`
	Surface string `json:"surface,omitempty"`
	Sig     string `json:"sig,omitempty"`
	Kind    string `json:"probe_kind,omitempty"`
}

type run struct {
	f     Format
	c     Case
	res   *Result
	total int
}

func (r *run) vio(site, class, surface string, sig *[64]byte, kind string, format string, a ...any) {
	key := r.f.Pkg + "." + site + "/" + class
	r.res.VioCounts[key]++
	r.total++
	if r.res.VioCounts[key] > 5 {
		return
	}
	rp := Replay{Format: r.f.Name, Case: r.c, Surface: surface, Kind: kind}
	if sig != nil {
		rp.Sig = hex.EncodeToString(sig[:])
	}
	rb, _ := json.Marshal(rp)
	r.res.Violations = append(r.res.Violations, Vio{Key: key, Detail: fmt.Sprintf("case %s [%s]: ", r.c.Name, r.f.Name) + fmt.Sprintf(format, a...), Replay: rb})
}

func (r *run) enough() bool { return r.total >= 40 }

// ---------------------------------------------------------------- the case runner

type item struct {
	sig  [64]byte
	hash uint64
	p    int32 // prefix index of the *signature bytes*
	j    int32
	twin bool // member of a constructed equal-hash pair
}

type probe struct {
	sig    [64]byte
	kind   string
	added  bool
	member bool // xxhash64 in the model set of the probe's prefix
}

func pidx(s *[64]byte) int { return int(s[0]) | int(s[1])<<8 }

type eofReaderAt struct{ b []byte }

// ReadAt is a conforming io.ReaderAt that uses the latitude the interface gives: a read that ends
// exactly at the end of the source returns n == len(p) together with io.EOF.
func (e eofReaderAt) ReadAt(p []byte, off int64) (int, error) {
	if off < 0 {
		return 0, errors.New("negative offset")
	}
	if off >= int64(len(e.b)) {
		return 0, io.EOF
	}
	n := copy(p, e.b[off:])
	if n < len(p) || off+int64(n) == int64(len(e.b)) {
		return n, io.EOF
	}
	return n, nil
}

func protect(fn func()) (panicked string) {
	defer func() {
		if x := recover(); x != nil {
			st := string(debug.Stack())
			if len(st) > 1800 {
				st = st[:1800]
			}
			panicked = fmt.Sprintf("%v\n%s", x, st)
		}
	}()
	fn()
	return ""
}

const eofSurface = "readerat-eof-with-full-read"

// EOFReaderIsViolation: whether an error from Has for an added signature on the ReaderAt that returns
// io.EOF together with a complete final read is reported as a violation (the property says "any
// ReaderAt"; the io.ReaderAt contract allows that return).
const EOFReaderIsViolation = true

// RunCase executes one case against the real writer/readers of format f. dir = private scratch dir.
func RunCase(f Format, c Case, dir string) (res *Result) {
	res = &Result{VioCounts: map[string]int{}, Counters: map[string]int64{}}
	r := &run{f: f, c: c, res: res}
	t0 := time.Now()
	pops := c.Populations()

	// ---- generate the distinct signatures and the model
	var items []item
	nonEmpty := 0
	for p, n := range pops {
		if n > 0 {
			nonEmpty++
		}
		coll := c.collideBucket(p)
		for j := 0; j < n; j++ {
			s := c.SigAt(p, j)
			items = append(items, item{sig: s, hash: xxhash.Sum64(s[:]), p: int32(pidx(&s)), j: int32(j), twin: coll})
		}
	}
	model := make([][]uint64, 65536)
	for i := range items {
		it := &items[i]
		model[it.p] = append(model[it.p], it.hash)
	}
	distinctPop := make([]int, 65536)
	for p := range model {
		m := model[p]
		sort.Slice(m, func(a, b int) bool { return m[a] < m[b] })
		k := 0
		for i := range m {
			if i == 0 || m[i] != m[i-1] {
				m[k] = m[i]
				k++
			}
		}
		model[p] = m[:k]
		distinctPop[p] = k
	}
	member := func(s *[64]byte) bool {
		m := model[pidx(s)]
		h := xxhash.Sum64(s[:])
		i := sort.Search(len(m), func(i int) bool { return m[i] >= h })
		return i < len(m) && m[i] == h
	}

	// ---- insertion sequence (indexes into items), duplicates included
	rng := rand.New(rand.NewSource(c.Seed ^ 0x0DDE5))
	seq := make([]int32, 0, len(items)+len(items)/4)
	var extras []int32
	nDupSigs := 0
	addBase := func(i int) {
		seq = append(seq, int32(i))
		it := &items[i]
		// note: bucket selection by the generation prefix == prefix of the bytes (SigAt keeps bytes 0,1)
		if c.dupBucket(int(it.p)) && (c.DupSigOneIn <= 1 || int(it.j)%c.DupSigOneIn == 0) {
			nDupSigs++
			for k := 1; k < c.DupTimes; k++ {
				if c.DupTimes == 2 {
					seq = append(seq, int32(i)) // adjacent duplicate
				} else {
					extras = append(extras, int32(i)) // far duplicates
				}
			}
		}
	}
	switch c.Order {
	case "desc":
		for i := len(items) - 1; i >= 0; i-- {
			addBase(i)
		}
	case "roundrobin":
		// one signature of every prefix in turn: items are grouped by prefix, ascending
		start := make([]int, 0, nonEmpty)
		cnt := make([]int, 0, nonEmpty)
		for i := 0; i < len(items); {
			k := i
			for k < len(items) && items[k].p == items[i].p {
				k++
			}
			start = append(start, i)
			cnt = append(cnt, k-i)
			i = k
		}
		for round := 0; ; round++ {
			any := false
			for b := range start {
				if round < cnt[b] {
					addBase(start[b] + round)
					any = true
				}
			}
			if !any {
				break
			}
		}
	default:
		for i := range items {
			addBase(i)
		}
	}
	for i := len(extras) - 1; i >= 0; i-- {
		seq = append(seq, extras[i])
	}
	if c.Order == "shuffle" {
		rng.Shuffle(len(seq), func(a, b int) { seq[a], seq[b] = seq[b], seq[a] })
	}
	firstPut := make([]int32, len(items))
	for i := range firstPut {
		firstPut[i] = -1
	}
	for t, i := range seq {
		if firstPut[i] < 0 {
			firstPut[i] = int32(t)
		}
	}

	// ---- probes that were not added
	var probes []probe
	addProbe := func(s [64]byte, kind string) {
		probes = append(probes, probe{sig: s, kind: kind, member: member(&s)})
	}
	{
		// (a) random tails in boundary prefixes and in a sample of empty / populated prefixes
		seen := map[int]bool{}
		var ps []int
		for _, b := range BoundaryPrefixes {
			ps = append(ps, int(b))
		}
		for k := 0; k < 3000; k++ {
			ps = append(ps, rng.Intn(65536))
		}
		for _, p := range ps {
			if seen[p] {
				continue
			}
			seen[p] = true
			addProbe(randomSig(c.Seed, p, 0, 1), "same-prefix-random")
			addProbe(randomSig(c.Seed, p, 1, 1), "same-prefix-random")
		}
		// (b) one byte changed, (c) equal hash under another prefix, (d) equal hash under the same prefix
		step := len(items)/4000 + 1
		pos := 0
		masks := []byte{0x01, 0x80, 0xff, 0x10}
		for i := 0; i < len(items); i++ {
			it := &items[i]
			boundary := false
			for _, b := range BoundaryPrefixes {
				if int(b) == int(it.p) && it.j < 40 {
					boundary = true
				}
			}
			if i%step != 0 && !boundary {
				continue
			}
			s := it.sig
			s[pos%64] ^= masks[(pos/64)%len(masks)]
			addProbe(s, fmt.Sprintf("one-byte-changed@%d", pos%64))
			pos++
			if pos%3 == 0 {
				var head [8]byte
				copy(head[:], it.sig[:8])
				if pos%2 == 0 && head[0] != head[1] {
					head[0], head[1] = head[1], head[0] // same hash under the byte-swapped prefix
				} else {
					q := rng.Intn(65536)
					head[0], head[1] = byte(q), byte(q>>8)
				}
				if b, ok := Twin(it.sig, head); ok {
					addProbe(b, "equal-hash-other-prefix")
				} else {
					res.Counters["twin_construction_failed"]++
				}
			}
			if pos%3 == 1 && !it.twin {
				var head [8]byte
				copy(head[:], it.sig[:8])
				head[5] ^= 0x5a
				if b, ok := Twin(it.sig, head); ok {
					addProbe(b, "equal-hash-same-prefix")
				} else {
					res.Counters["twin_construction_failed"]++
				}
			}
		}
	}

	res.Counters["signatures_distinct"] += int64(len(items))
	res.Counters["puts"] += int64(len(seq))
	res.Counters["duplicated_signatures"] += int64(nDupSigs)
	res.Counters["probes_not_added"] += int64(len(probes))
	res.Counters["prefixes_non_empty"] += int64(nonEmpty)
	res.Counters["ms_generate"] += time.Since(t0).Milliseconds()
	t0 = time.Now()

	// ---- the real writer
	path := filepath.Join(dir, "sig-exists.index")
	os.Remove(path)
	var w Writer
	var err error
	if pn := protect(func() { w, err = f.NewWriter(path) }); pn != "" {
		r.vio("NewWriter", "panic", "writer", nil, "", "%s", pn)
		return res
	}
	if err != nil {
		res.Inconclusive = append(res.Inconclusive, fmt.Sprintf("case %s: NewWriter(%s): %v", c.Name, path, err))
		return res
	}
	defer func() {
		if w != nil {
			protect(func() { w.Close() })
		}
	}()
	res.Counters["ms_new_writer"] += time.Since(t0).Milliseconds()
	t0 = time.Now()

	// Put, with incremental membership checkpoints
	checkEvery := len(seq)/200 + 1
	pn := protect(func() {
		for t, i := range seq {
			w.Put(items[i].sig)
			if t%checkEvery == 0 && !r.enough() {
				for k := 0; k < 6; k++ {
					u := rng.Intn(len(items))
					it := &items[u]
					if it.twin {
						continue
					}
					want := firstPut[u] <= int32(t)
					got := w.Has(it.sig)
					res.Evals++
					if got != want {
						if want {
							r.vio("Writer.Has", "false-negative-during-insertion", "writer-incremental", &it.sig, "added", "after %d Puts the writer denies a signature that was Put at step %d", t+1, firstPut[u])
						} else {
							r.vio("Writer.Has", "false-positive-during-insertion", "writer-incremental", &it.sig, "not-yet-added", "after %d Puts the writer reports a signature that is only Put at step %d (no equal hash in its prefix so far)", t+1, firstPut[u])
						}
					}
				}
			}
		}
	})
	if pn != "" {
		r.vio("Writer.Put", "panic", "writer", nil, "", "%s", pn)
		return res
	}
	res.Counters["ms_put"] += time.Since(t0).Milliseconds()
	t0 = time.Now()

	// writer answers (kept for the agreement clause)
	writerAns := make([]bool, len(probes))
	judgeWriter := func(stage string, record bool) {
		site := "Writer.Has"
		pn := protect(func() {
			for i := range items {
				if r.enough() {
					return
				}
				it := &items[i]
				if n := distinctPop[it.p]; n > 20000 && it.j%16 != 0 && it.j >= 64 && int(it.j) < n-64 {
					continue // Writer.Has is a linear scan: very large buckets are sampled (first/last 64, every 16th)
				}
				res.Evals++
				if !w.Has(it.sig) {
					r.vio(site, "false-negative-"+stage, "writer-"+stage, &it.sig, "added", "prefix %02x%02x population %d: the writer denies a signature that was Put", it.sig[0], it.sig[1], distinctPop[it.p])
				}
			}
			for i := range probes {
				if r.enough() {
					return
				}
				pb := &probes[i]
				res.Evals++
				got := w.Has(pb.sig)
				if record {
					writerAns[i] = got
				}
				if !pb.member && got {
					r.vio(site, "false-positive-"+stage, "writer-"+stage, &pb.sig, pb.kind, "the writer reports a signature whose xxhash64 is not in the set of its prefix %02x%02x (probe kind %s)", pb.sig[0], pb.sig[1], pb.kind)
				}
				if pb.member && !got {
					// equal hash under the same prefix: by construction of Writer.Has this must be true;
					// judged through the agreement clause below (sealed file vs writer)
					res.Counters["writer_denies_equal_hash_probe"]++
				}
			}
		})
		if pn != "" {
			r.vio(site, "panic", "writer-"+stage, nil, "", "%s", pn)
		}
	}
	judgeWriter("before-seal", true)
	res.Counters["ms_writer_has"] += time.Since(t0).Milliseconds()
	t0 = time.Now()

	var sealSize int64
	pn = protect(func() { sealSize, err = w.Seal(c.MetaKVs()) })
	if pn != "" {
		r.vio("Writer.Seal", "panic", "seal", nil, "", "%s", pn)
		return res
	}
	if err != nil {
		if errors.Is(err, ErrHarness) {
			res.Inconclusive = append(res.Inconclusive, fmt.Sprintf("case %s: %v", c.Name, err))
			return res
		}
		if len(items) > 0 {
			r.vio("Writer.Seal", "error", "seal", nil, "", "Seal failed for %d valid signatures (meta %q): %v", len(items), c.Meta, err)
		} else {
			res.Counters["seal_error_on_empty_set"]++
		}
		return res
	}
	res.Counters["ms_seal"] += time.Since(t0).Milliseconds()
	t0 = time.Now()
	judgeWriter("after-seal", false)
	pn = protect(func() { err = w.Close() })
	w = nil
	if pn != "" {
		r.vio("Writer.Close", "panic", "seal", nil, "", "%s", pn)
		return res
	}
	if err != nil && len(items) > 0 {
		r.vio("Writer.Close", "error", "seal", nil, "", "Close after Seal failed: %v", err)
		return res
	}
	content, rerr := os.ReadFile(path)
	if rerr != nil {
		if len(items) > 0 {
			r.vio("Writer.Seal", "no-file", "seal", nil, "", "sealed file unreadable: %v", rerr)
		}
		return res
	}
	res.Counters["file_bytes"] += int64(len(content))
	if sealSize != int64(len(content)) {
		res.Counters["diag_seal_size_differs_from_file_size"]++ // diagnostic: not part of the statement
	}
	res.Counters["ms_writer_has_after"] += time.Since(t0).Milliseconds()
	t0 = time.Now()

	// ---- the sealed file through every reader
	type surf struct {
		name string
		open func() (Reader, func(), error)
	}
	surfaces := []surf{
		{"mmap", func() (Reader, func(), error) {
			rd, err := f.Open(path)
			return rd, func() {}, err
		}},
		{"os.File", func() (Reader, func(), error) {
			fh, err := os.Open(path)
			if err != nil {
				return nil, nil, fmt.Errorf("%w: %v", ErrHarness, err)
			}
			rd, err := f.NewReader(fh)
			return rd, func() { fh.Close() }, err
		}},
		{"bytes.Reader", func() (Reader, func(), error) {
			rd, err := f.NewReader(bytes.NewReader(content))
			return rd, func() {}, err
		}},
		{eofSurface, func() (Reader, func(), error) {
			rd, err := f.NewReader(eofReaderAt{content})
			return rd, func() {}, err
		}},
	}
	for _, s := range surfaces {
		if r.enough() {
			break
		}
		site := "Reader.Has(" + s.name + ")"
		eofSurf := s.name == eofSurface
		var rd Reader
		var closeFn func()
		var oerr error
		if pn := protect(func() { rd, closeFn, oerr = s.open() }); pn != "" {
			r.vio("NewReader("+s.name+")", "panic", s.name, nil, "", "%s", pn)
			continue
		}
		if oerr != nil {
			if errors.Is(oerr, ErrHarness) {
				res.Inconclusive = append(res.Inconclusive, fmt.Sprintf("case %s: %v", c.Name, oerr))
				continue
			}
			if len(items) > 0 && (!eofSurf || EOFReaderIsViolation) {
				r.vio("NewReader("+s.name+")", "error-on-sealed-file", s.name, nil, "", "the file sealed from %d signatures cannot be opened: %v", len(items), oerr)
			} else {
				res.Counters["diag_open_error_"+s.name]++
			}
			if closeFn != nil {
				closeFn()
			}
			continue
		}
		pn := protect(func() {
			for i := range items {
				if r.enough() {
					return
				}
				it := &items[i]
				res.Evals++
				got, err := rd.Has(it.sig)
				if err != nil {
					if eofSurf && !EOFReaderIsViolation {
						res.Counters["diag_error_for_added_"+s.name]++
						continue
					}
					r.vio(site, "error-for-added", s.name, &it.sig, "added", "prefix %02x%02x population %d (Put #%d of the bucket): Has returns error %v for a signature that was Put", it.sig[0], it.sig[1], distinctPop[it.p], it.j, err)
					continue
				}
				if !got {
					r.vio(site, "false-negative", s.name, &it.sig, "added", "prefix %02x%02x population %d (Put #%d of the bucket, hash %016x): the sealed file denies a signature that was Put", it.sig[0], it.sig[1], distinctPop[it.p], it.j, it.hash)
				}
			}
			for i := range probes {
				if r.enough() {
					return
				}
				pb := &probes[i]
				res.Evals++
				got, err := rd.Has(pb.sig)
				if err != nil {
					res.Counters["diag_error_for_not_added_probe_"+s.name]++ // C13's subject, not C05's
					continue
				}
				if !pb.member && got {
					r.vio(site, "false-positive", s.name, &pb.sig, pb.kind, "the sealed file reports a signature whose xxhash64 %016x is not in the set of its prefix %02x%02x (population %d; probe kind %s)", xxhash.Sum64(pb.sig[:]), pb.sig[0], pb.sig[1], distinctPop[pidx(&pb.sig)], pb.kind)
				}
				if pb.member && got != writerAns[i] {
					r.vio(site, "writer-reader-disagree", s.name, &pb.sig, pb.kind, "signature not Put but with the xxhash64 of one that was (same prefix %02x%02x): writer.Has=%v, sealed file Has=%v", pb.sig[0], pb.sig[1], writerAns[i], got)
				}
			}
		})
		if pn != "" {
			r.vio(site, "panic", s.name, nil, "", "%s", pn)
		}
		// ---- the same reader from 8 goroutines at once (a reader serves every request of the server):
		// each goroutine looks up a strided share of the added signatures, so neighbouring lookups hit
		// buckets of different sizes
		if !eofSurf && pn == "" && len(items) > 1 && !r.enough() {
			const G = 8
			per := len(items)
			if per > 6000 {
				per = 6000
			}
			type miss struct {
				it  *item
				err error
			}
			var cmu sync.Mutex
			var misses []miss
			nMiss := 0
			var cwg sync.WaitGroup
			var cpanic atomic.Value
			for g := 0; g < G; g++ {
				cwg.Add(1)
				go func(g int) {
					defer cwg.Done()
					defer func() {
						if rc := recover(); rc != nil {
							cpanic.Store(fmt.Sprint(rc))
						}
					}()
					for k := 0; k < per; k++ {
						it := &items[(g*7919+k*G+g)%len(items)]
						got, err := rd.Has(it.sig)
						if err != nil || !got {
							cmu.Lock()
							nMiss++
							if len(misses) < 3 {
								misses = append(misses, miss{it, err})
							}
							cmu.Unlock()
						}
					}
				}(g)
			}
			cwg.Wait()
			res.Evals += int64(G * per)
			res.Counters["concurrent_lookups_"+s.name] += int64(G * per)
			if v := cpanic.Load(); v != nil {
				r.vio("Reader.Has("+s.name+", 8 goroutines)", "panic", s.name, nil, "", "%v", v)
			}
			for _, m := range misses {
				r.vio("Reader.Has("+s.name+", 8 goroutines)", "false-negative-under-concurrent-lookups", s.name, &m.it.sig, "added", "prefix %02x%02x population %d: a signature that was Put (and is found when looked up alone) is denied / fails (err=%v) when 8 goroutines use the reader at once; %d of %d concurrent lookups failed", m.it.sig[0], m.it.sig[1], distinctPop[m.it.p], m.err, nMiss, G*per)
			}
		}
		protect(func() { rd.Close() })
		closeFn()
		res.Counters["ms_reader_"+s.name] += time.Since(t0).Milliseconds()
		t0 = time.Now()
	}

	// ---- evidence: distinct bucket shapes sealed and probed
	dset := map[string]struct{}{}
	for p, n := range distinctPop {
		if n == 0 {
			continue
		}
		d := 1
		if c.dupBucket(p) {
			d = c.DupTimes
		}
		k := fmt.Sprintf("%s/pop=%d/puts-per-sig=%d", f.Name, n, d)
		if c.collideBucket(p) && pops[p] != n {
			k += "/equal-hash-pairs"
		}
		dset[k] = struct{}{}
	}
	for k := range dset {
		res.Distinct = append(res.Distinct, k)
	}
	sort.Strings(res.Distinct)
	res.Sample, _ = json.Marshal(map[string]any{"format": f.Name, "case": c, "signatures": len(items), "puts": len(seq), "non_empty_prefixes": nonEmpty,
		"probes_not_added": len(probes), "file_bytes": len(content), "distinct_bucket_shapes": len(dset)})
	os.Remove(path)
	return res
}

// ---------------------------------------------------------------- child processes

const childEnv = "VERIF_C05_CHILD"

type childSpec struct {
	Case Case   `json:"case"`
	Dir  string `json:"dir"`
	Out  string `json:"out"`
}

// ChildMain is the body of the child entry-point test; returns false when this process is not a child.
func ChildMain(f Format) (bool, error) {
	spec := os.Getenv(childEnv)
	if spec == "" {
		return false, nil
	}
	b, err := os.ReadFile(spec)
	if err != nil {
		return true, err
	}
	var cs childSpec
	if err := json.Unmarshal(b, &cs); err != nil {
		return true, err
	}
	res := RunCase(f, cs.Case, cs.Dir)
	ob, err := json.Marshal(res)
	if err != nil {
		return true, err
	}
	if err := os.WriteFile(cs.Out+".tmp", ob, 0o644); err != nil {
		return true, err
	}
	return true, os.Rename(cs.Out+".tmp", cs.Out)
}

var childSeq struct {
	sync.Mutex
	n int
}

// RunChild re-executes the test binary (entry point childTest) for one case. died != "" when the
// process ended without a result (tail of its output).
func RunChild(childTest string, c Case, root string, timeout time.Duration) (res *Result, died string, timedOut bool) {
	childSeq.Lock()
	childSeq.n++
	n := childSeq.n
	childSeq.Unlock()
	dir := filepath.Join(root, fmt.Sprintf("c05-child-%d-%d", os.Getpid(), n))
	if err := os.MkdirAll(dir, 0o755); err != nil {
		return nil, "mkdir: " + err.Error(), false
	}
	defer os.RemoveAll(dir)
	cs := childSpec{Case: c, Dir: dir, Out: filepath.Join(dir, "result.json")}
	sb, _ := json.Marshal(cs)
	specPath := filepath.Join(dir, "spec.json")
	if err := os.WriteFile(specPath, sb, 0o644); err != nil {
		return nil, "spec: " + err.Error(), false
	}
	logPath := filepath.Join(dir, "child.log")
	logf, err := os.Create(logPath)
	if err != nil {
		return nil, "log: " + err.Error(), false
	}
	cmd := exec.Command(os.Args[0], "-test.run=^"+childTest+"$", "-test.count=1", "-test.timeout=0")
	cmd.Env = append(os.Environ(), childEnv+"="+specPath)
	cmd.Stdout, cmd.Stderr = logf, logf
	if err := cmd.Start(); err != nil {
		logf.Close()
		return nil, "start: " + err.Error(), false
	}
	done := make(chan error, 1)
	go func() { done <- cmd.Wait() }()
	var werr error
	select {
	case werr = <-done:
	case <-time.After(timeout): // watchdog only
		timedOut = true
		cmd.Process.Signal(syscall.SIGQUIT)
		select {
		case werr = <-done:
		case <-time.After(10 * time.Second):
			cmd.Process.Kill()
			werr = <-done
		}
	}
	logf.Close()
	if ob, rerr := os.ReadFile(cs.Out); rerr == nil {
		var rr Result
		if json.Unmarshal(ob, &rr) == nil {
			return &rr, "", timedOut
		}
	}
	lb, _ := os.ReadFile(logPath)
	if len(lb) > 4000 {
		lb = lb[len(lb)-4000:]
	}
	return nil, fmt.Sprintf("exit: %v\n%s", werr, lb), timedOut
}

// IsCrash tells a crash of the code under test (panic / fatal error in the child's output) from
// resource exhaustion or a kill, which are inconclusive.
func IsCrash(out string) bool {
	if strings.Contains(out, "out of memory") || strings.Contains(out, "cannot allocate memory") || strings.Contains(out, "signal: killed") {
		return false
	}
	return strings.Contains(out, "panic:") || strings.Contains(out, "fatal error:")
}

// ---------------------------------------------------------------- case lists (functions of seed and tier only)

func boundaryForced(shift int, emptyEnds bool) []PP {
	if shift < 0 {
		shift = -shift
	}
	shift %= 15
	ns := []int{2, 1, 3, 2, 4, 1, 7, 2, 8, 3, 9, 2, 5, 1, 3}
	var out []PP
	for i, b := range BoundaryPrefixes {
		n := ns[(i+shift)%len(ns)]
		if emptyEnds && (b == 0x0000 || b == 0xffff) {
			n = 0
		}
		out = append(out, PP{P: b, N: n})
	}
	return out
}

// Cases returns the case list. small = additional small explicit cases (cheap formats only).
func Cases(seed int64, thorough bool, small int) []Case {
	rng := rand.New(rand.NewSource(seed*1000003 + 0xC05))
	orders := []string{"asc", "desc", "shuffle", "roundrobin"}
	metas := []string{"none", "std", "max", "emptykv", "longkey", "many"}
	sd := func() int64 { return rng.Int63() }
	var cs []Case
	cs = append(cs,
		Case{Name: "mixed-nodup", Seed: sd(), Layout: "mixed", ZeroPermille: 250, Huge: true, Order: "asc", Meta: "std", EdgeSigs: true, Explicit: boundaryForced(int(seed), false)},
		Case{Name: "mixed-dup2", Seed: sd(), Layout: "mixed", ZeroPermille: 250, Huge: true, DupOneIn: 3, DupSigOneIn: 2, DupTimes: 2, CollideOneIn: 50, Order: "shuffle", Meta: "none", Explicit: boundaryForced(int(seed)+3, false)},
		Case{Name: "mixed-dup5-ends-empty", Seed: sd(), Layout: "mixed", ZeroPermille: 600, Huge: true, DupOneIn: 7, DupSigOneIn: 1, DupTimes: 5, Order: "roundrobin", Meta: "max", Explicit: boundaryForced(int(seed)+7, true)},
		Case{Name: "uniform-2", Seed: sd(), Layout: "uniform", Uniform: 2, Order: "desc", Meta: "emptykv"},
		Case{Name: "uniform-1-dup2", Seed: sd(), Layout: "uniform", Uniform: 1, DupOneIn: 1, DupSigOneIn: 1, DupTimes: 2, Order: "shuffle", Meta: "longkey", EdgeSigs: true},
		Case{Name: "uniform-3-collide", Seed: sd(), Layout: "uniform", Uniform: 3, CollideOneIn: 4, Order: "asc", Meta: "many"},
		Case{Name: "empty", Seed: sd(), Layout: "explicit", Order: "asc", Meta: "std"},
		Case{Name: "single-ffff", Seed: sd(), Layout: "explicit", Explicit: []PP{{0xffff, 1}}, Order: "asc", Meta: "none"},
		Case{Name: "single-0000-edge", Seed: sd(), Layout: "explicit", Explicit: []PP{{0x0000, 1}}, EdgeSigs: true, Order: "asc", Meta: "std"},
	)
	{
		// a handful of large buckets around the writer's pre-allocated capacity (16 000) and powers of two
		big := []int{16000, 16001, 15999, 8191, 8192, 8193}
		var ex []PP
		for i, n := range big {
			p := uint16(rng.Intn(65536))
			if i == 0 {
				p = 0xffff
			}
			if i == 1 {
				p = 0x0000
			}
			ex = append(ex, PP{p, n})
		}
		cs = append(cs, Case{Name: "few-big", Seed: sd(), Layout: "explicit", Explicit: ex, DupOneIn: 2, DupSigOneIn: 3, DupTimes: 2, Order: orders[rng.Intn(4)], Meta: "std"})
	}
	// buckets beyond the writer's pre-allocated capacity whose neighbours (in prefix order) are populated too
	for _, ord := range []string{"asc", "shuffle"} {
		cs = append(cs, Case{Name: "big-with-neighbours-" + ord, Seed: sd(), Layout: "explicit", Order: ord, Meta: "std",
			Explicit: []PP{{0x1233, 5}, {0x1234, 16010}, {0x1235, 7}, {0xfffe, 16003}, {0xffff, 4}, {0x0000, 16001}, {0x0001, 1}}})
	}
	cs = append(cs, Case{Name: "pow16", Seed: sd(), Layout: "explicit", Order: "roundrobin", Meta: "none",
		Explicit: []PP{{uint16(rng.Intn(65536)), 65535}, {0xffff, 65536}, {uint16(rng.Intn(65535)), 65537}}})
	ladder := 400
	if thorough {
		ladder = 1500
	}
	cs = append(cs, Case{Name: fmt.Sprintf("ladder-%d", ladder), Seed: sd(), Layout: "ladder", Uniform: ladder, Order: orders[rng.Intn(4)], Meta: "std",
		DupOneIn: 5, DupSigOneIn: 4, DupTimes: 2, Explicit: []PP{{0xffff, 6}, {0x0000, 10}}})
	nRand := 4
	if thorough {
		nRand = 60
	}
	for i := 0; i < nRand; i++ {
		c := Case{Name: fmt.Sprintf("mixed-rand-%d", i), Seed: sd(), Layout: "mixed", ZeroPermille: []int{100, 250, 600, 900, 990}[rng.Intn(5)], Huge: rng.Intn(2) == 0,
			Order: orders[rng.Intn(4)], Meta: metas[rng.Intn(len(metas))], EdgeSigs: rng.Intn(2) == 0, Explicit: boundaryForced(rng.Intn(15), rng.Intn(4) == 0)}
		switch rng.Intn(4) {
		case 1:
			c.DupOneIn, c.DupSigOneIn, c.DupTimes = 1+rng.Intn(9), 1+rng.Intn(3), 2
		case 2:
			c.DupOneIn, c.DupSigOneIn, c.DupTimes = 1+rng.Intn(9), 1+rng.Intn(3), 5
		case 3:
			c.DupOneIn, c.DupSigOneIn, c.DupTimes = 1000+rng.Intn(3000), 1, 2 // a single duplicate somewhere
		}
		if rng.Intn(3) == 0 {
			c.CollideOneIn = 2 + rng.Intn(40)
		}
		cs = append(cs, c)
	}
	if thorough {
		for _, u := range []int{4, 5, 7, 8, 9} {
			cs = append(cs, Case{Name: fmt.Sprintf("uniform-%d", u), Seed: sd(), Layout: "uniform", Uniform: u, Order: orders[rng.Intn(4)], Meta: metas[rng.Intn(len(metas))],
				DupOneIn: []int{0, 5}[rng.Intn(2)], DupSigOneIn: 2, DupTimes: 2})
		}
		// 200 000 signatures in 16 prefixes
		var ex []PP
		for i := 0; i < 16; i++ {
			ex = append(ex, PP{uint16(rng.Intn(65536)), 12500})
		}
		cs = append(cs, Case{Name: "200k-in-16", Seed: sd(), Layout: "explicit", Explicit: ex, Order: "shuffle", Meta: "std"})
		cs = append(cs, Case{Name: "very-big-buckets", Seed: sd(), Layout: "explicit", Order: "roundrobin", Meta: "none",
			Explicit: []PP{{0xffff, 32769}, {uint16(rng.Intn(65535)), 32767}, {uint16(rng.Intn(65535)), 32768}, {0x0000, 131073}, {uint16(1 + rng.Intn(65000)), 131071}}})
		cs = append(cs, Case{Name: "200k-in-1", Seed: sd(), Layout: "explicit", Order: "asc", Meta: "std", DupOneIn: 1, DupSigOneIn: 1000, DupTimes: 2,
			Explicit: []PP{{uint16(rng.Intn(65536)), 200000}, {0xffff, 3}}})
		for i := 0; i < 4; i++ {
			var ex []PP
			for k := 0; k < 6; k++ {
				ex = append(ex, PP{uint16(rng.Intn(65536)), []int{16000, 16001, 15999, 16383, 16384, 16385, 20000, 4095, 4096, 4097}[rng.Intn(10)]})
			}
			cs = append(cs, Case{Name: fmt.Sprintf("few-big-%d", i), Seed: sd(), Layout: "explicit", Explicit: ex, DupOneIn: []int{0, 1, 2}[rng.Intn(3)], DupSigOneIn: 1 + rng.Intn(4), DupTimes: []int{2, 5}[rng.Intn(2)],
				Order: orders[rng.Intn(4)], Meta: metas[rng.Intn(len(metas))]})
		}
	}
	// small explicit cases: few prefixes, every small population, boundary prefixes
	popList := []int{1, 2, 3, 4, 5, 6, 7, 8, 9, 15, 16, 17, 31, 32, 33}
	for i := 0; i < small; i++ {
		np := 1 + rng.Intn(12)
		if i%7 == 0 {
			np = 1 + rng.Intn(300)
		}
		var ex []PP
		for k := 0; k < np; k++ {
			p := uint16(rng.Intn(65536))
			if rng.Intn(3) == 0 {
				p = BoundaryPrefixes[rng.Intn(len(BoundaryPrefixes))]
			}
			ex = append(ex, PP{p, popList[rng.Intn(len(popList))]})
		}
		c := Case{Name: fmt.Sprintf("small-%d", i), Seed: sd(), Layout: "explicit", Explicit: ex, Order: orders[rng.Intn(4)], Meta: metas[rng.Intn(len(metas))], EdgeSigs: rng.Intn(3) == 0}
		switch rng.Intn(3) {
		case 1:
			c.DupOneIn, c.DupSigOneIn, c.DupTimes = 1+rng.Intn(3), 1+rng.Intn(2), []int{2, 5}[rng.Intn(2)]
		case 2:
			c.CollideOneIn = 1 + rng.Intn(3)
		}
		cs = append(cs, c)
	}
	return cs
}

// ---------------------------------------------------------------- parent driver

const Rule = "distinct (format, number of distinct hashes in a bucket, Puts per signature, equal-hash pairs) bucket shapes that were sealed by the real writer and whose every signature was looked up through the writer and through every reader; empty buckets are probed but not counted"

// Drive runs the cases (each in a child process when childTest != "", else in-process), `parallel`
// at a time, and merges the results into rec.
func Drive(rec *ev.Recorder, f Format, cases []Case, childTest string, parallel int) {
	rec.Rule(Rule)
	var eofMu sync.Mutex
	eofSeen := map[string]bool{}
	var rp Replay
	if ev.LoadReplay(&rp) {
		if rp.Format != f.Name {
			rec.Note("replay", "replay file is for format "+rp.Format+"; nothing to do for "+f.Name)
			return
		}
		cases = []Case{rp.Case}
		rec.Note("replay", rp.Case.Name)
	}
	root := filepath.Join(ev.Scratch(), fmt.Sprintf("c05-%s-%d", f.Name, os.Getpid()))
	os.MkdirAll(root, 0o755)
	defer os.RemoveAll(root)
	jobs := make(chan int)
	var wg sync.WaitGroup
	for w := 0; w < parallel; w++ {
		wg.Add(1)
		go func(w int) {
			defer wg.Done()
			for i := range jobs {
				c := cases[i]
				if rec.Enough() {
					continue
				}
				var res *Result
				if childTest != "" {
					var died string
					var timedOut bool
					res, died, timedOut = RunChild(childTest, c, root, 15*time.Minute)
					if res == nil {
						if !timedOut && IsCrash(died) {
							rec.Violation(f.Pkg+".child/process-death", fmt.Sprintf("case %s: the process running the real writer/readers died: %s", c.Name, died), Replay{Format: f.Name, Case: c})
						} else {
							rec.Inconclusive(fmt.Sprintf("case %s: child ended without a result (timed out=%v): %s", c.Name, timedOut, died))
						}
						continue
					}
				} else {
					dir := filepath.Join(root, fmt.Sprintf("w%d", w))
					os.MkdirAll(dir, 0o755)
					res = RunCase(f, c, dir)
				}
				rec.Eval(int(res.Evals))
				rec.Count("cases", 1)
				for _, k := range res.Distinct {
					rec.Distinct(k)
				}
				for k, n := range res.Counters {
					rec.Count(k, int(n))
				}
				stored := map[string]int{}
				for _, v := range res.Violations {
					stored[v.Key]++
					if strings.Contains(v.Key, eofSurface) {
						// one deterministic defect class (last slot of the file): report it once per run so
						// that it cannot exhaust the violation budget of the other surfaces
						eofMu.Lock()
						first := !eofSeen[v.Key]
						eofSeen[v.Key] = true
						eofMu.Unlock()
						if !first {
							rec.Count("repeats:"+v.Key, 1)
							continue
						}
					}
					rec.Violation(v.Key, v.Detail, v.Replay)
				}
				for k, n := range res.VioCounts {
					if n > stored[k] {
						rec.Count("violations_not_stored:"+k, n-stored[k])
					}
				}
				for _, s := range res.Inconclusive {
					rec.Inconclusive(s)
				}
				if len(res.Sample) > 0 {
					rec.Sample(res.Sample)
				}
			}
		}(w)
	}
	for i := range cases {
		jobs <- i
	}
	close(jobs)
	wg.Wait()
}
