//go:build verif

package splitcarfetcher

// C17 — HTTPSingleFileRemoteReaderAt.ReadAt (range cache + HTTP range fetch) against a loopback Range server
// that holds an immutable file F and misbehaves on chosen GET requests:
//   reset            connection closed without a response (k times: the client retries 3 times)
//   5xx/4xx:<rel>    error status with a body of  (requested length + rel) bytes  (rel = -1, 0, +1, +4096)
//   200full          Range header ignored: 200 + whole file
//   206trunc         correct 206 headers, body cut short, connection aborted
//   206empty         correct 206 status, empty body (the read ends with exactly io.EOF)
//   416              416 with an empty body
// Oracle (the statement): ReadAt returns exactly F[off:off+len(p)] with a nil error, or an error; an error
// is acceptable only when the server misbehaved on a request made during that call; a read reaching past the
// end of the file returns an error and never n == len(p); after the remote has recovered every range read
// before is read again and must equal F (a cached failed fetch would show here).

import (
	"bytes"
	"context"
	"errors"
	"fmt"
	"math"
	"math/rand"
	"net"
	"net/http"
	"net/http/httptest"
	"os"
	"strconv"
	"strings"
	"sync"
	"testing"
	"time"

	"github.com/rpcpool/yellowstone-faithful/zzverif/ev"
)

type c17Req struct {
	method string
	rng    string
	mode   string
}

type c17Server struct {
	f           []byte
	srv         *httptest.Server
	mu          sync.Mutex
	mode        string // fault applied to the next `left` GET requests
	left        int
	planFn      func(idx int) string // concurrent part: fault by GET index
	gets        int
	headRefused bool
	log         []c17Req
}

func c17FileBytes(n int) []byte {
	f := make([]byte, n)
	x := uint64(0x9E3779B97F4A7C15)
	for i := range f {
		x ^= x << 13
		x ^= x >> 7
		x ^= x << 17
		f[i] = byte(x>>24) | 1 // never 0x00: padding with zeroes can never look right
	}
	return f
}

func c17ParseRange(h string, size int64) (start, end int64, ok bool) {
	if !strings.HasPrefix(h, "bytes=") {
		return 0, 0, false
	}
	parts := strings.SplitN(strings.TrimPrefix(h, "bytes="), "-", 2)
	if len(parts) != 2 {
		return 0, 0, false
	}
	s, err1 := strconv.ParseInt(parts[0], 10, 64)
	e, err2 := strconv.ParseInt(parts[1], 10, 64)
	if err1 != nil || err2 != nil {
		return 0, 0, false
	}
	return s, e, true
}

func c17ErrorBody(n int64) []byte {
	if n < 0 {
		n = 0
	}
	pat := []byte("<Error><Code>SlowDown</Code><Message>Please reduce your request rate.</Message></Error>\n")
	b := make([]byte, n)
	for i := range b {
		b[i] = pat[i%len(pat)]
	}
	return b
}

func c17NewServer(f []byte, headRefused bool) *c17Server {
	s := &c17Server{f: f, headRefused: headRefused}
	s.srv = httptest.NewServer(http.HandlerFunc(s.handle))
	return s
}

func (s *c17Server) handle(w http.ResponseWriter, r *http.Request) {
	s.mu.Lock()
	mode := "ok"
	if r.Method == "GET" {
		if s.planFn != nil {
			mode = s.planFn(s.gets)
		} else if s.left > 0 {
			mode = s.mode
			s.left--
		}
		s.gets++
	}
	if r.Method == "HEAD" && s.headRefused {
		mode = "head-refused"
	}
	s.log = append(s.log, c17Req{r.Method, r.Header.Get("Range"), mode})
	s.mu.Unlock()
	rs, re, _ := c17ParseRange(r.Header.Get("Range"), int64(len(s.f)))
	reqLen := re - rs // the client asks for bytes=off-(off+len): len+1 bytes; the read itself wants `len`
	switch {
	case mode == "ok":
		http.ServeContent(w, r, "", time.Time{}, bytes.NewReader(s.f))
	case mode == "head-refused":
		w.WriteHeader(http.StatusForbidden)
	case mode == "reset":
		if hj, ok := w.(http.Hijacker); ok {
			if c, _, err := hj.Hijack(); err == nil {
				if tc, ok := c.(*net.TCPConn); ok {
					tc.SetLinger(0)
				}
				c.Close()
				return
			}
		}
		panic(http.ErrAbortHandler)
	case strings.HasPrefix(mode, "5xx:") || strings.HasPrefix(mode, "4xx:"):
		rel, _ := strconv.ParseInt(mode[4:], 10, 64)
		body := c17ErrorBody(reqLen + rel)
		w.Header().Set("Content-Type", "application/xml")
		w.Header().Set("Content-Length", strconv.Itoa(len(body)))
		if mode[0] == '5' {
			w.WriteHeader(http.StatusServiceUnavailable)
		} else {
			w.WriteHeader(http.StatusNotFound)
		}
		w.Write(body)
	case mode == "200full":
		w.Header().Set("Content-Length", strconv.Itoa(len(s.f)))
		w.WriteHeader(http.StatusOK)
		w.Write(s.f)
	case mode == "206trunc":
		e := re
		if e >= int64(len(s.f)) {
			e = int64(len(s.f)) - 1
		}
		if rs < 0 || rs > e {
			w.WriteHeader(http.StatusRequestedRangeNotSatisfiable)
			return
		}
		w.Header().Set("Content-Range", fmt.Sprintf("bytes %d-%d/%d", rs, e, len(s.f)))
		w.Header().Set("Content-Length", strconv.FormatInt(e-rs+1, 10))
		w.WriteHeader(http.StatusPartialContent)
		cut := (reqLen) / 2 // strictly fewer bytes than the read wants (reqLen >= 1 whenever this mode is used)
		w.Write(s.f[rs : rs+cut])
		if fl, ok := w.(http.Flusher); ok {
			fl.Flush()
		}
		panic(http.ErrAbortHandler)
	case mode == "206empty":
		// correct 206 headers but a (cleanly) empty body: the client's io.ReadFull ends with exactly io.EOF
		w.Header().Set("Content-Range", fmt.Sprintf("bytes %d-%d/%d", rs, re, len(s.f)))
		w.Header().Set("Content-Length", "0")
		w.WriteHeader(http.StatusPartialContent)
	case mode == "416":
		w.Header().Set("Content-Range", fmt.Sprintf("bytes */%d", len(s.f)))
		w.WriteHeader(http.StatusRequestedRangeNotSatisfiable)
	default:
		http.ServeContent(w, r, "", time.Time{}, bytes.NewReader(s.f))
	}
}

func (s *c17Server) setFault(mode string, k int) {
	s.mu.Lock()
	s.mode, s.left = mode, k
	s.mu.Unlock()
}

func (s *c17Server) logLen() int {
	s.mu.Lock()
	defer s.mu.Unlock()
	return len(s.log)
}

func (s *c17Server) since(i int) []c17Req {
	s.mu.Lock()
	defer s.mu.Unlock()
	return append([]c17Req(nil), s.log[i:]...)
}

type c17Step struct {
	Mode string `json:"mode,omitempty"` // fault for the next K GET requests ("" = none)
	K    int    `json:"k,omitempty"`
	Off  int64  `json:"off"`
	Len  int    `json:"len"`
}

type c17Scenario struct {
	Kind        string    `json:"kind"` // "http"
	FileSize    int       `json:"file_size"`
	HeadRefused bool      `json:"head_refused"`
	Steps       []c17Step `json:"steps"`
	Step        int       `json:"failing_step,omitempty"`
	Phase       string    `json:"phase,omitempty"`
	Obs         string    `json:"observed,omitempty"`
}

type c17V struct{ key, detail string }

const c17Site = "HTTPSingleFileRemoteReaderAt.ReadAt"

func c17FaultClass(mode string) string {
	switch {
	case strings.HasPrefix(mode, "5xx:"), strings.HasPrefix(mode, "4xx:"):
		return "error-status-body"
	case mode == "200full":
		return "range-ignored-200"
	case mode == "":
		return ""
	default:
		return mode
	}
}

func c17SafeReadAt(r interface {
	ReadAt(p []byte, off int64) (int, error)
}, p []byte, off int64,
) (n int, err error, pan any) {
	defer func() {
		if x := recover(); x != nil {
			pan = x
		}
	}()
	n, err = r.ReadAt(p, off)
	return
}

// c17JudgeRead applies the oracle to one ReadAt.  reqs = what the server saw during the call; taint = fault
// class injected earlier on a range overlapping this one (only used to name the failure class).
func c17JudgeRead(f []byte, off int64, p []byte, n int, err error, pan any, reqs []c17Req, taint string) *c17V {
	size := int64(len(f))
	ln := int64(len(p))
	if pan != nil {
		return &c17V{c17Site + "/panic", fmt.Sprintf("ReadAt(len %d, off %d) panicked: %v", ln, off, pan)}
	}
	inFile := off >= 0 && off <= size && ln <= size-off
	if !inFile {
		if ln > 0 && (err == nil || n == len(p)) {
			return &c17V{c17Site + "/read-past-end-served", fmt.Sprintf("ReadAt(len %d, off %d) on a %d-byte file returned n=%d err=%v (must be refused, never a full read)", ln, off, size, n, err)}
		}
		return nil
	}
	fault := ""
	for _, r := range reqs {
		if r.method == "GET" && r.mode != "ok" {
			fault = r.mode
		}
	}
	if err != nil {
		var op *net.OpError
		if errors.As(err, &op) && op.Op == "dial" {
			// the request never left this machine (no socket / no port): says nothing about the code under test
			return &c17V{"", "local dial failure, read not judged: " + err.Error()}
		}
		if fault == "" && off < size {
			return &c17V{c17Site + "/error-without-remote-failure", fmt.Sprintf("ReadAt(len %d, off %d) returned error %q although the remote answered every request of this call correctly (%d requests)", ln, off, err.Error(), len(reqs))}
		}
		return nil
	}
	if n != len(p) {
		return &c17V{c17Site + "/short-read-without-error", fmt.Sprintf("ReadAt(len %d, off %d) returned n=%d and a nil error", ln, off, n)}
	}
	if !bytes.Equal(p, f[off:off+ln]) {
		class := "wrong-bytes"
		switch {
		case fault != "":
			class = "wrong-bytes/" + c17FaultClass(fault) + "-returned-as-file-bytes"
		case len(reqs) == 0 && taint != "":
			class = "wrong-bytes/" + taint + "-served-from-cache-after-recovery"
		case len(reqs) == 0:
			class = "wrong-bytes/served-from-cache"
		}
		show := func(b []byte) string {
			if len(b) > 24 {
				return fmt.Sprintf("%q...", b[:24])
			}
			return fmt.Sprintf("%q", b)
		}
		return &c17V{c17Site + "/" + class, fmt.Sprintf("ReadAt(len %d, off %d) returned %s with a nil error; the remote file holds %s there (requests seen during the call: %v)", ln, off, show(p), show(f[off:off+ln]), reqs)}
	}
	return nil
}

// c17RunScenario: fresh server, fresh reader through the real constructor, the steps, then recovery.
// All violations of the scenario are returned (one per key), so that one defect does not hide another.
func c17RunScenario(sc *c17Scenario) ([]*c17V, string) {
	f := c17FileBytes(sc.FileSize)
	srv := c17NewServer(f, sc.HeadRefused)
	defer srv.srv.Close()
	ctx, cancel := context.WithCancel(context.Background())
	defer cancel()
	rd, size, err := NewRemoteHTTPFileAsIoReaderAt(ctx, srv.srv.URL+"/epoch-0.car")
	if err != nil {
		return nil, "set-up: NewRemoteHTTPFileAsIoReaderAt: " + err.Error()
	}
	defer rd.Close()
	if size != int64(len(f)) {
		return []*c17V{{"NewRemoteHTTPFileAsIoReaderAt/wrong-size", fmt.Sprintf("size %d reported for a %d-byte file (HEAD refused: %v)", size, len(f), sc.HeadRefused)}}, ""
	}
	var out []*c17V
	seen := map[string]bool{}
	inconclusive := ""
	add := func(v *c17V, phase string, step int) {
		if v.key == "" {
			inconclusive = v.detail
			return
		}
		if seen[v.key] {
			return
		}
		seen[v.key] = true
		v.detail = fmt.Sprintf("[%s, step %d] %s", phase, step, v.detail)
		if sc.Obs == "" {
			sc.Step, sc.Phase, sc.Obs = step, phase, v.detail
		}
		out = append(out, v)
	}
	type done struct {
		off   int64
		ln    int
		taint string
	}
	var history []done
	// taint: class of an earlier faulted read that actually returned foreign bytes with a nil error and
	// overlaps this range (only used to name the failure class of a wrong answer served from the cache)
	errPat := c17ErrorBody(8192)
	taintOf := func(off int64, ln int, p []byte) string {
		classes := map[string]bool{}
		last := ""
		for _, h := range history {
			if h.taint != "" && h.off < off+int64(ln) && off < h.off+int64(h.ln) {
				classes[h.taint] = true
				last = h.taint
			}
		}
		if len(classes) > 1 && len(p) >= 4 && len(p) < 4096 { // two candidate origins: decide by content
			if bytes.Contains(errPat, p) {
				return "error-status-body"
			}
			if bytes.Contains(f, p) {
				return "range-ignored-200"
			}
		}
		return last
	}
	for i, st := range sc.Steps {
		if st.Mode != "" {
			srv.setFault(st.Mode, st.K)
		}
		p := make([]byte, st.Len)
		l0 := srv.logLen()
		n, err, pan := c17SafeReadAt(rd, p, st.Off)
		reqs := srv.since(l0)
		srv.setFault("", 0)
		poison := ""
		if v := c17JudgeRead(f, st.Off, p, n, err, pan, reqs, taintOf(st.Off, st.Len, p)); v != nil {
			if strings.HasSuffix(v.key, "-returned-as-file-bytes") {
				poison = c17FaultClass(st.Mode)
			}
			add(v, "steps", i)
		}
		for j := range p {
			p[j] = 0x55
		}
		history = append(history, done{st.Off, st.Len, poison})
	}
	// recovery: the remote works again; every earlier in-file read is repeated
	for i, h := range history {
		if h.off < 0 || h.off > int64(len(f)) || int64(h.ln) > int64(len(f))-h.off {
			continue
		}
		p := make([]byte, h.ln)
		l0 := srv.logLen()
		n, err, pan := c17SafeReadAt(rd, p, h.off)
		if v := c17JudgeRead(f, h.off, p, n, err, pan, srv.since(l0), taintOf(h.off, h.ln, p)); v != nil {
			add(v, "re-read after recovery", i)
		}
	}
	return out, inconclusive
}

func c17ScenarioSig(sc *c17Scenario) string {
	var b strings.Builder
	fmt.Fprintf(&b, "n%d/h%v/", sc.FileSize, sc.HeadRefused)
	for _, st := range sc.Steps {
		m := st.Mode
		if m == "" {
			m = "ok"
		}
		pos := "mid"
		switch {
		case st.Off == 0 && st.Len == sc.FileSize:
			pos = "all"
		case st.Off == 0:
			pos = "head"
		case st.Off+int64(st.Len) == int64(sc.FileSize):
			pos = "tail"
		case st.Off+int64(st.Len) > int64(sc.FileSize) || st.Off < 0:
			pos = "out"
		}
		fmt.Fprintf(&b, "%s@%s,", m, pos)
	}
	return b.String()
}

func TestVerifC17HTTP(t *testing.T) {
	rec := ev.New("C17", "http-readat")
	defer rec.Flush()
	rec.Rule("scenario = fresh reader + reads with a server fault on chosen requests + re-read after recovery; distinct = distinct (file size, per-step fault@position) signatures containing >= 1 fault and >= 1 later read of an overlapping range")
	if os.Getenv("VERIF_REPLAY") != "" {
		var sc c17Scenario
		rec.Eval(1)
		if ev.LoadReplay(&sc) && sc.Kind == "http" {
			sc.Step, sc.Phase, sc.Obs = 0, "", ""
			if vs, inc := c17RunScenario(&sc); len(vs) > 0 {
				for _, v := range vs {
					rec.Violation(v.key, v.detail, sc)
					t.Logf("replayed: VIOLATION %s: %s", v.key, v.detail)
				}
			} else if inc != "" {
				rec.Inconclusive(inc)
			} else {
				t.Logf("replayed: held")
			}
		} else {
			rec.Note("replay", "not a replay of this part")
		}
		return
	}
	// At most 2 violations are recorded per key (the rest is counted): the case list is fixed and short, so
	// the run stays bounded, and one defect cannot use up the violation budget before the other failure
	// classes have been looked at.
	perKey := map[string]int{}
	run := func(sc *c17Scenario, nontrivial bool) {
		if rec.Enough() {
			return
		}
		vs, inc := c17RunScenario(sc)
		rec.Eval(len(sc.Steps))
		for _, v := range vs {
			perKey[v.key]++
			if perKey[v.key] <= 2 {
				rec.Violation(v.key, v.detail, *sc)
			} else {
				rec.Count("further_scenarios_with:"+v.key, 1)
			}
		}
		if inc != "" {
			rec.Inconclusive(inc)
		}
		if nontrivial {
			rec.Distinct(c17ScenarioSig(sc))
		}
	}
	// ---- directed: every fault x boundary read x file size; the same range is read again while the remote works
	faults := []struct {
		mode string
		k    int
	}{
		{"5xx:-1", 1}, {"5xx:0", 1}, {"5xx:1", 1}, {"5xx:4096", 1}, {"4xx:-1", 1}, {"4xx:0", 1}, {"4xx:300", 1},
		{"200full", 1}, {"206trunc", 1}, {"206empty", 1}, {"416", 1},
	}
	sizes := []int{1, 2, 127, 128, 1000, 4133}
	nd := 0
	for _, size := range sizes {
		S := int64(size)
		reads := [][2]int64{{0, 1}, {S - 1, 1}, {0, S}, {S / 2, S - S/2}, {1, c17min(S-1, 31)}, {S / 3, c17min(S-S/3, 64)}, {c17max(S-17, 0), c17min(S, 16)}}
		for ri, rd := range reads {
			if rd[1] <= 0 || rd[0] < 0 || rd[0]+rd[1] > S {
				continue
			}
			for fi, fl := range faults {
				sc := &c17Scenario{Kind: "http", FileSize: size, HeadRefused: (ri+fi)%2 == 1}
				// warm the cache with a disjoint or enclosing range first in some scenarios
				if (ri+fi)%3 == 0 && rd[0] > 0 {
					sc.Steps = append(sc.Steps, c17Step{Off: 0, Len: int(c17min(rd[0], 8))})
				}
				sc.Steps = append(sc.Steps,
					c17Step{Mode: fl.mode, K: fl.k, Off: rd[0], Len: int(rd[1])},
					c17Step{Off: rd[0], Len: int(rd[1])}, // same range, remote healthy again
				)
				if rd[1] >= 2 {
					sc.Steps = append(sc.Steps, c17Step{Off: rd[0] + 1, Len: int(rd[1] - 1)}) // nested
				}
				sc.Steps = append(sc.Steps, c17Step{Off: 0, Len: size}) // superset of everything
				run(sc, true)
				nd++
				if nd%97 == 3 {
					rec.Sample(*sc)
				}
			}
		}
	}
	// connection resets: once (the retry succeeds) and three times (all retries used up -> error)
	for _, k := range []int{1, 3} {
		sc := &c17Scenario{Kind: "http", FileSize: 1000, Steps: []c17Step{
			{Off: 10, Len: 20}, {Mode: "reset", K: k, Off: 500, Len: 100}, {Off: 500, Len: 100}, {Off: 520, Len: 10}, {Off: 0, Len: 1000},
		}}
		run(sc, true)
	}
	// reads reaching past the end, extreme offsets, empty reads; cold and with the whole file cached
	for _, size := range []int{1, 2, 128, 1000} {
		S := int64(size)
		for _, warm := range []bool{false, true} {
			sc := &c17Scenario{Kind: "http", FileSize: size, HeadRefused: warm}
			if warm {
				sc.Steps = append(sc.Steps, c17Step{Off: 0, Len: size})
			}
			for _, r := range [][2]int64{
				{S - 1, 2}, {0, S + 1}, {S, 1}, {S + 1, 1}, {S / 2, S}, {-1, 1}, {-1, 2}, {math.MaxInt64, 1}, {math.MinInt64, 1},
				{math.MaxInt64 - 1, 4}, {S, 0}, {0, 0}, {S - 1, 0}, {S - 1, 1}, {0, S},
			} {
				sc.Steps = append(sc.Steps, c17Step{Off: r[0], Len: int(r[1])})
			}
			run(sc, true)
		}
	}
	// ---- seeded random scenarios
	rng := rand.New(rand.NewSource(ev.Seed()*7919 + 171))
	ns := ev.Pick(250, 6000)
	modes := []string{"5xx:-1", "5xx:0", "5xx:1", "5xx:4096", "4xx:0", "4xx:300", "200full", "206trunc", "206empty", "416"}
	for i := 0; i < ns && !rec.Enough(); i++ {
		size := []int{1, 2, 3, 16, 100, 1000, 4133, 1 + rng.Intn(3000)}[rng.Intn(8)]
		S := int64(size)
		sc := &c17Scenario{Kind: "http", FileSize: size, HeadRefused: rng.Intn(3) == 0}
		nsteps := 8 + rng.Intn(24)
		faulted := false
		var po, pl int64
		for j := 0; j < nsteps; j++ {
			var off, ln int64
			switch x := rng.Intn(12); {
			case x == 0:
				off = rng.Int63n(S + 1)
				ln = S - off + 1 + rng.Int63n(3) // past the end
			case x < 5 && j > 0: // related to the previous read: nested / overlapping / adjacent
				off = c17max(0, c17min(S, po+rng.Int63n(7)-3))
				e := c17max(off, c17min(S, po+pl+rng.Int63n(7)-3))
				ln = e - off
			case x == 5:
				off = rng.Int63n(S + 1)
				ln = S - off // suffix
			default:
				off = rng.Int63n(S + 1)
				ln = rng.Int63n(c17min(S-off, 200) + 1)
			}
			st := c17Step{Off: off, Len: int(ln)}
			if rng.Intn(4) == 0 && ln > 0 {
				st.Mode, st.K = modes[rng.Intn(len(modes))], 1
				faulted = true
			}
			sc.Steps = append(sc.Steps, st)
			po, pl = off, ln
		}
		run(sc, faulted)
		if i%60 == 11 {
			rec.Sample(*sc)
		}
	}
}

// c17ConcKey: with concurrent readers the requests seen during a call include other readers' requests, so
// the fault class cannot be attributed; the key is reduced to site + plain failure class.
func c17ConcKey(key, tag string) string {
	key = strings.Replace(key, c17Site, c17Site+tag, 1)
	if i := strings.Index(key, "/wrong-bytes/"); i >= 0 {
		key = key[:i] + "/wrong-bytes"
	}
	return key
}

func c17min(a, b int64) int64 {
	if a < b {
		return a
	}
	return b
}

func c17max(a, b int64) int64 {
	if a > b {
		return a
	}
	return b
}

// TestVerifC17HTTPConcurrent: 8 readers share one remote reader while the server fails (in ways that make the
// fetch fail visibly: short 5xx body, truncated 206, 416) on seeded request indices.  Run plain and with -race.
func TestVerifC17HTTPConcurrent(t *testing.T) {
	rec := ev.New("C17", "http-concurrent")
	defer rec.Flush()
	rec.Rule("rounds of 8 concurrent readers over one HTTPSingleFileRemoteReaderAt with failing fetches on seeded request indices; distinct = rounds in which cache hits, remote fetches and failed fetches all occurred")
	if os.Getenv("VERIF_REPLAY") != "" {
		rec.Eval(1)
		rec.Note("replay", "concurrent rounds are replayed by re-running the check with the same seed")
		return
	}
	rounds := ev.Pick(3, 20)
	for round := 0; round < rounds && !rec.Enough(); round++ {
		size := []int{600, 64, 3000}[round%3]
		f := c17FileBytes(size)
		S := int64(size)
		srv := c17NewServer(f, round%2 == 1)
		seed := ev.Seed()*131 + int64(round)
		srv.planFn = func(idx int) string {
			h := uint64(seed)*0x9E3779B97F4A7C15 + uint64(idx)*0xC2B2AE3D27D4EB4F
			h ^= h >> 31
			switch h % 9 {
			case 0:
				return "5xx:-1"
			case 1:
				return "206trunc"
			case 2:
				return "416"
			}
			return "ok"
		}
		ctx, cancel := context.WithCancel(context.Background())
		// the constructor's own GET (zero-range probe) must not be failed
		srv.mu.Lock()
		plan := srv.planFn
		srv.planFn = nil
		srv.mu.Unlock()
		rd, _, err := NewRemoteHTTPFileAsIoReaderAt(ctx, srv.srv.URL+"/f.car")
		if err != nil {
			cancel()
			srv.srv.Close()
			rec.Inconclusive("set-up: " + err.Error())
			continue
		}
		srv.mu.Lock()
		srv.planFn = plan
		srv.gets = 0
		srv.mu.Unlock()
		var wg sync.WaitGroup
		var mu sync.Mutex
		hits, fetched, failed, refused := 0, 0, 0, 0
		nops := ev.Pick(250, 1200)
		// expiry interleaved with the reads (in-package: the reader's own cache)
		stopExp := make(chan struct{})
		expDone := make(chan struct{})
		go func() {
			defer close(expDone)
			ca := rd.(*HTTPSingleFileRemoteReaderAt).ca
			for i := 0; ; i++ {
				select {
				case <-stopExp:
					return
				default:
				}
				if i%3 == 2 {
					ca.DeleteOldEntries(ctx, time.Hour)
				} else {
					ca.DeleteOldEntries(ctx, -time.Nanosecond)
				}
				time.Sleep(200 * time.Microsecond) // pacing only; no verdict depends on it
			}
		}()
		for w := 0; w < 8; w++ {
			wg.Add(1)
			go func(w int) {
				defer wg.Done()
				rng := rand.New(rand.NewSource(seed*100 + int64(w)))
				for i := 0; i < nops; i++ {
					var off, ln int64
					switch x := rng.Intn(10); {
					case x == 0:
						off = rng.Int63n(S + 1)
						ln = S - off + 1
					case x < 4:
						hot := [][2]int64{{0, 32}, {8, 8}, {S - 16, 16}, {S / 2, 40}, {0, S}}
						h := hot[rng.Intn(len(hot))]
						off, ln = h[0], h[1]
					default:
						off = rng.Int63n(S)
						ln = 1 + rng.Int63n(c17min(S-off, 48))
					}
					p := make([]byte, ln)
					l0 := srv.logLen()
					n, err, pan := c17SafeReadAt(rd, p, off)
					reqs := srv.since(l0)
					if v := c17JudgeRead(f, off, p, n, err, pan, reqs, ""); v != nil && v.key == "" {
						rec.Inconclusive(v.detail)
					} else if v != nil {
						rec.Violation(c17ConcKey(v.key, "(concurrent)"), v.detail, map[string]any{"kind": "http-concurrent", "seed": ev.Seed(), "round": round, "off": off, "len": ln})
					}
					mu.Lock()
					switch {
					case off+ln > S:
						refused++
					case err != nil:
						failed++
					case len(reqs) == 0:
						hits++
					default:
						fetched++
					}
					mu.Unlock()
				}
			}(w)
		}
		fin := make(chan struct{})
		go func() { wg.Wait(); close(fin) }()
		select {
		case <-fin:
		case <-time.After(10 * time.Minute):
			rec.Inconclusive(fmt.Sprintf("round %d did not finish before the watchdog", round))
			close(stopExp)
			cancel()
			srv.srv.Close()
			return
		}
		close(stopExp)
		<-expDone
		// quiescent: remote healthy; every hot range and the whole file must read back correctly
		srv.mu.Lock()
		srv.planFn = nil
		srv.mu.Unlock()
		for _, h := range [][2]int64{{0, 32}, {8, 8}, {S - 16, 16}, {S / 2, 40}, {0, S}, {1, S - 1}} {
			p := make([]byte, h[1])
			l0 := srv.logLen()
			n, err, pan := c17SafeReadAt(rd, p, h[0])
			if v := c17JudgeRead(f, h[0], p, n, err, pan, srv.since(l0), ""); v != nil && v.key == "" {
				rec.Inconclusive(v.detail)
			} else if v != nil {
				rec.Violation(c17ConcKey(v.key, "(readback)"), v.detail, map[string]any{"kind": "http-concurrent", "seed": ev.Seed(), "round": round, "off": h[0], "len": h[1]})
			}
		}
		rec.Eval(8 * nops)
		rec.Count("hits", hits)
		rec.Count("reads_with_remote_fetch", fetched)
		rec.Count("reads_failed_with_explained_error", failed)
		rec.Count("reads_past_end_refused", refused)
		if hits > 0 && fetched > 0 && failed > 0 {
			rec.Distinct(fmt.Sprintf("round-%d-size-%d", round, size))
		}
		if round == 0 {
			rec.Sample(map[string]any{"kind": "http-concurrent", "seed": ev.Seed(), "round": round, "file_size": size, "readers": 8, "reads_per_reader": nops})
		}
		rd.Close()
		cancel()
		srv.srv.Close()
	}
}
