//go:build verif

package splitcarfetcher

// C16 (reader half) — reading any byte range through MultiReaderAt / SplitCarReader returns exactly
// the bytes of the concatenation (original header, then each piece's content in order), with
// end-of-file reported only at the true end.
//
// Workload
//   multi-exhaustive : every piece-size vector of 1..4 (thorough: 1..5) pieces of 0..6 bytes x every
//                      (off in 0..total+2, len in 0..total+3) x three kinds of conforming io.ReaderAt
//                      (bytes.Reader, io.SectionReader over a padded backing as NewSplitCarReader builds
//                      them, a reader that reports io.EOF together with the last bytes).
//   multi-random     : seed-driven large vectors (up to 40 pieces, sizes around 0/1/4096/65536 and
//                      random, file- or memory-backed), reads directed at every boundary +-2 plus random.
//   split-exhaustive : NewSplitCarReader over 0..3 pieces with content 0..4 bytes, own headers of
//                      different sizes, local files (exact size) and padded in-memory pieces (as after
//                      upload), every (off,len); directed header lengths 1/127/128/300 (1- and 2-byte
//                      length prefix); pieces behind the repository's HTTP ReaderAt on loopback.
// Oracle: io.ReaderAt over the reference concatenation built by the harness (c16Judge).

import (
	"bytes"
	"context"
	"encoding/base64"
	"encoding/binary"
	"fmt"
	"io"
	"math/rand"
	"net/http"
	"net/http/httptest"
	"os"
	"path/filepath"
	"strings"
	"sync"
	"sync/atomic"
	"testing"
	"time"

	"github.com/anjor/carlet"
	"github.com/rpcpool/yellowstone-faithful/zzverif/ev"
)

const c16Poison = 0xA5

type c16ReadCase struct {
	Part     string  `json:"part"` // multi | split
	Kind     string  `json:"kind"` // reader kind
	Sizes    []int64 `json:"sizes"`
	Seed     int64   `json:"seed"` // 0: counting bytes 1,2,3...; else random content from this seed
	Off      int64   `json:"off"`
	Len      int     `json:"len"`
	HdrLen   int     `json:"hdr_len,omitempty"`   // split: length of the original header (without prefix)
	PieceHdr []int64 `json:"piece_hdr,omitempty"` // split: size of each piece's own header
	Pad      []int64 `json:"pad,omitempty"`       // split: trailing padding of each piece
}

// c16Judge is the oracle: (n, err, p[:n]) against an io.ReaderAt over ref.
func c16Judge(ref []byte, off int64, l int, n int, err error, p []byte) (class, detail string) {
	total := int64(len(ref))
	want := 0
	if off < total {
		want = l
		if total-off < int64(l) {
			want = int(total - off)
		}
	}
	switch {
	case n < 0 || n > l:
		return "count-out-of-range", fmt.Sprintf("n=%d for a buffer of %d", n, l)
	case n != want:
		return "wrong-count", fmt.Sprintf("n=%d err=%v, want n=%d (total %d)", n, err, want, total)
	case n > 0 && !bytes.Equal(p[:n], ref[off:off+int64(n)]):
		return "wrong-bytes", fmt.Sprintf("got %x want %x", c16Clip(p[:n]), c16Clip(ref[off:off+int64(n)]))
	case n < l && err == nil:
		return "short-read-without-error", fmt.Sprintf("n=%d < len=%d with a nil error (total %d)", n, l, total)
	case off+int64(l) < total && err == io.EOF:
		return "eof-before-end", fmt.Sprintf("io.EOF for a read ending at %d of %d", off+int64(l), total)
	case off+int64(l) < total && err != nil:
		return "error-before-end", fmt.Sprintf("err=%v for a read ending at %d of %d", err, off+int64(l), total)
	}
	return "", ""
}

func c16Clip(b []byte) []byte {
	if len(b) > 48 {
		return b[:48]
	}
	return b
}

// c16Content returns the content of the pieces for (sizes, seed).
func c16Content(sizes []int64, seed int64) [][]byte {
	out := make([][]byte, len(sizes))
	var rng *rand.Rand
	if seed != 0 {
		rng = rand.New(rand.NewSource(seed))
	}
	b := byte(1)
	for i, s := range sizes {
		seg := make([]byte, s)
		if rng != nil {
			rng.Read(seg)
		} else {
			for k := range seg {
				seg[k] = b
				b++
				if b == c16Poison {
					b++
				}
			}
		}
		out[i] = seg
	}
	return out
}

// ---- conforming io.ReaderAt kinds

// c16Eager reports io.EOF together with the bytes when the read reaches the end (allowed by io.ReaderAt).
type c16Eager struct{ b []byte }

func (e c16Eager) ReadAt(p []byte, off int64) (int, error) {
	if off < 0 {
		return 0, fmt.Errorf("negative offset")
	}
	if off >= int64(len(e.b)) {
		return 0, io.EOF
	}
	n := copy(p, e.b[off:])
	if off+int64(n) == int64(len(e.b)) {
		return n, io.EOF
	}
	return n, nil
}

var c16MultiKinds = []string{"bytes", "section", "eager"}

func c16MakeReader(kind string, seg []byte, i int) io.ReaderAt {
	switch kind {
	case "section":
		// as NewSplitCarReader: a section of a larger backing (own header before, padding after)
		pre := i%3 + 1
		back := make([]byte, 0, pre+len(seg)+2)
		for k := 0; k < pre; k++ {
			back = append(back, 0xF0)
		}
		back = append(back, seg...)
		back = append(back, 0xF1, 0xF2)
		return io.NewSectionReader(bytes.NewReader(back), int64(pre), int64(len(seg)))
	case "eager":
		return c16Eager{seg}
	default:
		return bytes.NewReader(seg)
	}
}

func c16Crosses(sizes []int64, off int64, l int) bool {
	// does [off, off+l) contain a boundary between two pieces strictly inside it?
	var acc int64
	for i := 0; i < len(sizes)-1; i++ {
		acc += sizes[i]
		if off < acc && acc < off+int64(l) {
			return true
		}
	}
	return false
}

// c16ReadGuard runs one ReadAt under recover().
func c16ReadGuard(r io.ReaderAt, p []byte, off int64) (n int, err error, panicked any) {
	defer func() {
		if x := recover(); x != nil {
			panicked = x
		}
	}()
	n, err = r.ReadAt(p, off)
	return
}

func c16CheckRead(rec *ev.Recorder, site string, r io.ReaderAt, ref []byte, c c16ReadCase, buf []byte) bool {
	p := buf[:c.Len]
	for i := range p {
		p[i] = c16Poison
	}
	n, err, pv := c16ReadGuard(r, p, c.Off)
	rec.Eval(1)
	if pv != nil {
		rec.Violation(site+"/panic", fmt.Sprintf("sizes=%v kind=%s off=%d len=%d: panic: %v", c.Sizes, c.Kind, c.Off, c.Len, pv), c)
		return false
	}
	if class, detail := c16Judge(ref, c.Off, c.Len, n, err, p); class != "" {
		rec.Violation(site+"/"+class, fmt.Sprintf("sizes=%v kind=%s off=%d len=%d: %s", c.Sizes, c.Kind, c.Off, c.Len, detail), c)
		return false
	}
	return true
}

func c16MultiFor(kind string, sizes []int64, seed int64) (*MultiReaderAt, []byte) {
	segs := c16Content(sizes, seed)
	var ref []byte
	readers := make([]io.ReaderAt, len(segs))
	for i, s := range segs {
		ref = append(ref, s...)
		readers[i] = c16MakeReader(kind, s, i)
	}
	return NewMultiReaderAt(readers, append([]int64(nil), sizes...)), ref
}

func TestVerifC16Reader(t *testing.T) {
	recM := ev.New("C16", "reader-multi")
	recS := ev.New("C16", "reader-split")
	defer func() {
		for _, r := range []*ev.Recorder{recM, recS} {
			if err := r.Flush(); err != nil {
				t.Errorf("evidence fragment not written: %v", err)
			}
		}
	}()
	recM.Rule("distinct = piece-size vectors with >= 2 pieces for which at least one read window strictly containing a piece boundary was checked (counter reads_crossing_boundary = number of such windows)")
	recS.Rule("distinct = (backing kind, original header length, piece-size vector) with >= 1 piece for which at least one read window crossing the header/piece or a piece/piece boundary was checked")

	var rc c16ReadCase
	if os.Getenv("VERIF_REPLAY") != "" {
		if ev.LoadReplay(&rc) && (rc.Part == "multi" || rc.Part == "split") {
			c16Replay(t, recM, recS, rc)
		} else {
			recM.Note("replay", "the replay file is not a reader case; nothing to do in this part")
		}
		return
	}
	c16MultiExhaustive(recM)
	c16MultiRandom(t, recM)
	c16SplitExhaustive(t, recS)
	c16SplitDirected(t, recS)
	c16SplitManyPieces(t, recS)
	c16SplitHTTP(t, recS)
}

func c16Replay(t *testing.T, recM, recS *ev.Recorder, c c16ReadCase) {
	buf := make([]byte, c.Len+1)
	switch c.Part {
	case "multi":
		kind := c.Kind
		if kind == "file" {
			kind = "bytes"
		}
		m, ref := c16MultiFor(kind, c.Sizes, c.Seed)
		recM.Distinct("replay")
		recM.Distinct("replay2")
		c16CheckRead(recM, "MultiReaderAt.ReadAt", m, ref, c, buf)
	case "split":
		recS.Distinct("replay")
		recS.Distinct("replay2")
		dir, err := os.MkdirTemp(ev.Scratch(), "c16replay")
		if err != nil {
			t.Fatal(err)
		}
		defer os.RemoveAll(dir)
		kind := c.Kind
		if kind == "http" {
			kind = "mem"
		}
		fx, err := c16NewSplitFx(dir, kind, c.HdrLen, c.Sizes, c.PieceHdr, c.Pad, c.Seed, nil)
		if err != nil {
			recS.Violation("NewSplitCarReader/rejects-consistent-pieces", err.Error(), c)
			return
		}
		defer fx.scr.Close()
		c16CheckRead(recS, "SplitCarReader.ReadAt", fx.scr, fx.ref, c, buf)
	}
}

// ---------------------------------------------------------------- MultiReaderAt, exhaustive

func c16MultiExhaustive(rec *ev.Recorder) {
	maxPieces := ev.Pick(4, 5)
	const maxSize = 6
	buf := make([]byte, maxPieces*maxSize+8)
	var vectors int
	var walk func(sizes []int64)
	check := func(sizes []int64) {
		vectors++
		crossed := false
		for _, kind := range c16MultiKinds {
			m, ref := c16MultiFor(kind, sizes, 0)
			T := int64(len(ref))
			for off := int64(0); off <= T+2; off++ {
				for l := 0; l <= int(T)+3; l++ {
					if rec.Enough() {
						return
					}
					c := c16ReadCase{Part: "multi", Kind: kind, Sizes: sizes, Off: off, Len: l}
					c16CheckRead(rec, "MultiReaderAt.ReadAt", m, ref, c, buf)
					if c16Crosses(sizes, off, l) {
						crossed = true
						rec.Count("reads_crossing_boundary", 1)
					}
				}
			}
		}
		if crossed && len(sizes) >= 2 {
			rec.Distinct(fmt.Sprint(sizes))
		}
		if vectors%700 == 3 {
			rec.Sample(map[string]any{"sizes": append([]int64(nil), sizes...), "kinds": c16MultiKinds, "reads": "every off in 0..total+2, len in 0..total+3"})
		}
	}
	walk = func(sizes []int64) {
		if rec.Enough() {
			return
		}
		if len(sizes) > 0 {
			check(sizes)
		}
		if len(sizes) == maxPieces {
			return
		}
		for s := int64(0); s <= maxSize; s++ {
			walk(append(append([]int64{}, sizes...), s))
		}
	}
	walk(nil)
	rec.Count("exhaustive_vectors", vectors)
	rec.Note("exhaustive_scope", fmt.Sprintf("all vectors of 1..%d pieces with sizes 0..%d, all (off<=total+2, len<=total+3), reader kinds %v", maxPieces, maxSize, c16MultiKinds))
	if !rec.Enough() {
		rec.Exhaustive(true)
	}
}

// ---------------------------------------------------------------- MultiReaderAt, random large vectors

var c16SizePool = []int64{0, 0, 1, 1, 2, 3, 127, 128, 4095, 4096, 4097, 65535, 65536, 65537}

func c16RandomSizes(rng *rand.Rand) []int64 {
	n := 1 + rng.Intn(40)
	sizes := make([]int64, n)
	for i := range sizes {
		switch rng.Intn(4) {
		case 0:
			sizes[i] = c16SizePool[rng.Intn(len(c16SizePool))]
		case 1:
			sizes[i] = int64(rng.Intn(50))
		default:
			sizes[i] = int64(rng.Intn(20000))
		}
	}
	switch rng.Intn(6) {
	case 0:
		sizes[0] = 0 // leading empty piece
	case 1:
		sizes[n-1] = 0 // trailing empty piece
	case 2:
		if n > 2 {
			sizes[n-2], sizes[n-1] = 0, 0
		}
	}
	return sizes
}

// c16DirectedReads lists (off,len) pairs aimed at every boundary of the concatenation.
func c16DirectedReads(rng *rand.Rand, bounds []int64, total int64, nRandom int) [][2]int64 {
	var out [][2]int64
	seen := map[[2]int64]bool{}
	add := func(off, l int64) {
		if off < 0 || l < 0 || l > total+70000 {
			return
		}
		k := [2]int64{off, l}
		if !seen[k] {
			seen[k] = true
			out = append(out, k)
		}
	}
	for bi, b := range bounds {
		next := total
		if bi+1 < len(bounds) {
			next = bounds[bi+1]
		}
		for d := int64(-2); d <= 2; d++ {
			off := b + d
			for _, l := range []int64{0, 1, 2, 3, 5} {
				add(off, l)
			}
			add(off, next-off-1)
			add(off, next-off)
			add(off, next-off+1)
			add(off, total-off-1)
			add(off, total-off)
			add(off, total-off+1)
		}
	}
	add(0, total)
	add(0, total+3)
	add(total, 0)
	add(total, 1)
	add(total+1, 4)
	for i := 0; i < nRandom; i++ {
		off := rng.Int63n(total + 3)
		l := rng.Int63n(total + 4 - off + 1)
		if rng.Intn(3) == 0 {
			l = rng.Int63n(300)
		}
		add(off, l)
	}
	return out
}

func c16MultiRandom(t *testing.T, rec *ev.Recorder) {
	rng := rand.New(rand.NewSource(ev.Seed()*7907 + 16))
	nVec := ev.Pick(60, 600)
	dir, err := os.MkdirTemp(ev.Scratch(), "c16multi")
	if err != nil {
		t.Fatalf("scratch: %v", err)
	}
	defer os.RemoveAll(dir)
	for v := 0; v < nVec && !rec.Enough(); v++ {
		sizes := c16RandomSizes(rng)
		seed := ev.Seed()*100003 + int64(v) + 1
		kind := []string{"bytes", "section", "eager", "file"}[v%4]
		segs := c16Content(sizes, seed)
		var ref []byte
		var bounds []int64
		readers := make([]io.ReaderAt, len(segs))
		var files []*os.File
		for i, s := range segs {
			bounds = append(bounds, int64(len(ref)))
			ref = append(ref, s...)
			if kind == "file" {
				p := filepath.Join(dir, fmt.Sprintf("v%d-p%d", v, i))
				if err := os.WriteFile(p, s, 0o644); err != nil {
					t.Fatalf("scratch: %v", err)
				}
				f, err := os.Open(p)
				if err != nil {
					t.Fatalf("scratch: %v", err)
				}
				files = append(files, f)
				readers[i] = f
			} else {
				readers[i] = c16MakeReader(kind, s, i)
			}
		}
		m := NewMultiReaderAt(readers, append([]int64(nil), sizes...))
		total := int64(len(ref))
		buf := make([]byte, total+70010)
		crossed := false
		for _, ol := range c16DirectedReads(rng, bounds, total, ev.Pick(150, 400)) {
			if rec.Enough() {
				break
			}
			c := c16ReadCase{Part: "multi", Kind: kind, Sizes: sizes, Seed: seed, Off: ol[0], Len: int(ol[1])}
			c16CheckRead(rec, "MultiReaderAt.ReadAt", m, ref, c, buf)
			if c16Crosses(sizes, c.Off, c.Len) {
				crossed = true
				rec.Count("reads_crossing_boundary", 1)
			}
		}
		for _, f := range files {
			f.Close()
			os.Remove(f.Name())
		}
		if crossed && len(sizes) >= 2 {
			rec.Distinct(fmt.Sprintf("large:%s:%v", kind, sizes))
		}
		rec.Count("random_vectors", 1)
		if v < 2 {
			rec.Sample(map[string]any{"kind": kind, "pieces": len(sizes), "total_bytes": total, "sizes": sizes})
		}
	}
}

// ---------------------------------------------------------------- SplitCarReader

type c16MemPiece struct {
	b      []byte
	closed int
}

func (m *c16MemPiece) ReadAt(p []byte, off int64) (int, error) {
	return bytes.NewReader(m.b).ReadAt(p, off)
}
func (m *c16MemPiece) Close() error { m.closed++; return nil }
func (m *c16MemPiece) Size() int64  { return int64(len(m.b)) }

type c16SplitFx struct {
	scr   *SplitCarReader
	ref   []byte
	first int64 // length of the reconstructed original header
	mems  []*c16MemPiece
}

// c16NewSplitFx builds piece files (own header || content || padding) plus the metadata and opens them
// with NewSplitCarReader. kind: file (NewFileSplitCarReader, no padding), mem (padded in-memory pieces),
// http (pieces behind NewRemoteHTTPFileAsIoReaderAt; urlOf maps a piece name to its URL).
func c16NewSplitFx(dir, kind string, hdrLen int, sizes, pieceHdr, pad []int64, seed int64, urlOf func(name string, body []byte) string) (*c16SplitFx, error) {
	segs := c16Content(sizes, seed)
	hdr := make([]byte, hdrLen)
	for i := range hdr {
		hdr[i] = byte(0x40 + i%0x30)
	}
	prefix := binary.AppendUvarint(nil, uint64(hdrLen))
	fx := &c16SplitFx{}
	fx.ref = append(append([]byte{}, prefix...), hdr...)
	fx.first = int64(len(fx.ref))
	meta := &carlet.CarPiecesAndMetadata{
		OriginalCarHeaderSize: uint64(len(prefix) + hdrLen),
		OriginalCarHeader:     base64.StdEncoding.EncodeToString(hdr),
	}
	bodies := map[string][]byte{}
	for i, s := range segs {
		fx.ref = append(fx.ref, s...)
		var body []byte
		for k := int64(0); k < pieceHdr[i]; k++ {
			body = append(body, 0xE0+byte(i))
		}
		body = append(body, s...)
		if kind != "file" {
			for k := int64(0); k < pad[i]; k++ {
				body = append(body, 0xD0+byte(i))
			}
		}
		name := fmt.Sprintf("piece-%d.car", i)
		bodies[name] = body
		meta.CarPieces = append(meta.CarPieces, carlet.CarFile{Name: name, HeaderSize: uint64(pieceHdr[i]), ContentSize: uint64(len(s))})
		if kind == "file" {
			if err := os.WriteFile(filepath.Join(dir, name), body, 0o644); err != nil {
				return nil, err
			}
		}
	}
	memByName := map[string]*c16MemPiece{}
	urls := map[string]string{}
	for name, body := range bodies {
		memByName[name] = &c16MemPiece{b: body}
		fx.mems = append(fx.mems, memByName[name])
		if kind == "http" {
			urls[name] = urlOf(name, body) // registered before the (concurrent) creators run
		}
	}
	scr, err := NewSplitCarReader(meta, func(cf carlet.CarFile) (ReaderAtCloserSize, error) {
		if c16CreatorDelay != nil {
			// steer the completion order of the concurrently running creators (schedule only, never a verdict)
			time.Sleep(c16CreatorDelay(cf.Name))
		}
		switch kind {
		case "file":
			return NewFileSplitCarReader(filepath.Join(dir, cf.Name))
		case "http":
			r, _, err := NewRemoteHTTPFileAsIoReaderAt(context.Background(), urls[cf.Name])
			return r, err
		default:
			return memByName[cf.Name], nil
		}
	})
	if err != nil {
		return nil, err
	}
	fx.scr = scr
	return fx, nil
}

// c16CreatorDelay, when set, delays the piece creators so that they complete in a chosen order.
var c16CreatorDelay func(name string) time.Duration

// c16SplitManyPieces: more pieces than NewSplitCarReader opens concurrently (10), creators completing in
// reverse order: the pieces must still be served in metadata order.
func c16SplitManyPieces(t *testing.T, rec *ev.Recorder) {
	dir, err := os.MkdirTemp(ev.Scratch(), "c16many")
	if err != nil {
		t.Fatalf("scratch: %v", err)
	}
	defer os.RemoveAll(dir)
	rng := rand.New(rand.NewSource(ev.Seed()*17 + 9))
	for _, n := range []int{2, 10, 11, 23} {
		if rec.Enough() {
			return
		}
		sizes := make([]int64, n)
		ph := make([]int64, n)
		pad := make([]int64, n)
		for i := range sizes {
			sizes[i] = int64(1 + rng.Intn(9))
			ph[i] = int64(rng.Intn(3))
			pad[i] = int64(rng.Intn(3))
		}
		kind := []string{"mem", "file"}[n%2]
		seed := ev.Seed()*53 + int64(n)
		c16CreatorDelay = func(name string) time.Duration {
			var i int
			fmt.Sscanf(name, "piece-%d.car", &i)
			return time.Duration((n-i)%10) * 3 * time.Millisecond
		}
		fx, err := c16NewSplitFx(dir, kind, 59, sizes, ph, pad, seed, nil)
		c16CreatorDelay = nil
		if err != nil {
			rec.Eval(1)
			rec.Violation("NewSplitCarReader/rejects-consistent-pieces", fmt.Sprintf("kind=%s sizes=%v: %v", kind, sizes, err),
				c16ReadCase{Part: "split", Kind: kind, Sizes: sizes, Seed: seed, HdrLen: 59, PieceHdr: ph, Pad: pad})
			continue
		}
		total := int64(len(fx.ref))
		buf := make([]byte, total+8)
		for _, ol := range [][2]int64{{0, total}, {0, total + 3}, {fx.first - 1, 12}, {fx.first, total}, {total - 5, 5}, {total - 5, 6}} {
			c := c16ReadCase{Part: "split", Kind: kind, Sizes: sizes, Seed: seed, Off: ol[0], Len: int(ol[1]), HdrLen: 59, PieceHdr: ph, Pad: pad}
			c16CheckRead(rec, "SplitCarReader.ReadAt", fx.scr, fx.ref, c, buf)
			rec.Count("reads_crossing_boundary", 1)
		}
		fx.scr.Close()
		rec.Distinct(fmt.Sprintf("%s:h59:reverse-completion:%v", kind, sizes))
		rec.Count("many_piece_vectors", 1)
	}
}

func c16SplitCrosses(first int64, sizes []int64, off int64, l int) bool {
	all := append([]int64{first}, sizes...)
	return c16Crosses(all, off, l)
}

var (
	c16PieceHdrs = []int64{2, 0, 5, 1}
	c16Pads      = []int64{0, 3, 1, 2}
)

func c16SplitExhaustive(t *testing.T, rec *ev.Recorder) {
	dir, err := os.MkdirTemp(ev.Scratch(), "c16split")
	if err != nil {
		t.Fatalf("scratch: %v", err)
	}
	defer os.RemoveAll(dir)
	maxPieces, maxSize := 3, int64(ev.Pick(4, 6))
	const hdrLen = 3
	buf := make([]byte, 64)
	var vectors int
	check := func(sizes []int64) {
		vectors++
		for _, kind := range []string{"file", "mem"} {
			fx, err := c16NewSplitFx(dir, kind, hdrLen, sizes, c16PieceHdrs[:len(sizes)], c16Pads[:len(sizes)], 0, nil)
			if err != nil {
				rec.Eval(1)
				rec.Violation("NewSplitCarReader/rejects-consistent-pieces", fmt.Sprintf("kind=%s sizes=%v: %v", kind, sizes, err),
					c16ReadCase{Part: "split", Kind: kind, Sizes: sizes, HdrLen: hdrLen, PieceHdr: c16PieceHdrs[:len(sizes)], Pad: c16Pads[:len(sizes)]})
				continue
			}
			T := int64(len(fx.ref))
			crossed := false
			for off := int64(0); off <= T+2 && !rec.Enough(); off++ {
				for l := 0; l <= int(T)+3; l++ {
					c := c16ReadCase{Part: "split", Kind: kind, Sizes: sizes, Off: off, Len: l, HdrLen: hdrLen, PieceHdr: c16PieceHdrs[:len(sizes)], Pad: c16Pads[:len(sizes)]}
					c16CheckRead(rec, "SplitCarReader.ReadAt", fx.scr, fx.ref, c, buf)
					if c16SplitCrosses(fx.first, sizes, off, l) {
						crossed = true
						rec.Count("reads_crossing_boundary", 1)
					}
				}
			}
			fx.scr.Close()
			if kind == "mem" {
				for _, m := range fx.mems {
					if m.closed != 1 {
						rec.Count("diag_piece_not_closed_exactly_once", 1)
					}
				}
			}
			if crossed && len(sizes) >= 1 {
				rec.Distinct(fmt.Sprintf("%s:h%d:%v", kind, hdrLen, sizes))
			}
		}
		if vectors%40 == 7 {
			rec.Sample(map[string]any{"content_sizes": append([]int64(nil), sizes...), "original_header_len": hdrLen, "piece_header_sizes": c16PieceHdrs[:len(sizes)], "padding(mem)": c16Pads[:len(sizes)], "kinds": "file,mem"})
		}
	}
	var walk func(sizes []int64)
	walk = func(sizes []int64) {
		if rec.Enough() {
			return
		}
		check(sizes)
		if len(sizes) == maxPieces {
			return
		}
		for s := int64(0); s <= maxSize; s++ {
			walk(append(append([]int64{}, sizes...), s))
		}
	}
	walk([]int64{})
	rec.Count("exhaustive_vectors", vectors)
	rec.Note("exhaustive_scope", fmt.Sprintf("all vectors of 0..%d pieces with content 0..%d bytes, original header of %d bytes, backings file+mem, all (off<=total+2, len<=total+3)", maxPieces, maxSize, hdrLen))
}

func c16SplitDirected(t *testing.T, rec *ev.Recorder) {
	dir, err := os.MkdirTemp(ev.Scratch(), "c16splitd")
	if err != nil {
		t.Fatalf("scratch: %v", err)
	}
	defer os.RemoveAll(dir)
	rng := rand.New(rand.NewSource(ev.Seed()*611 + 3))
	nPer := ev.Pick(3, 20)
	for _, hdrLen := range []int{1, 59, 127, 128, 300} {
		for k := 0; k < nPer && !rec.Enough(); k++ {
			var sizes []int64
			if k == 0 {
				sizes = []int64{0, 1, 0, 4096}
			} else {
				sizes = c16RandomSizes(rng)
				if len(sizes) > 12 {
					sizes = sizes[:12]
				}
			}
			ph := make([]int64, len(sizes))
			pad := make([]int64, len(sizes))
			for i := range sizes {
				ph[i] = []int64{59, 0, 1, 60}[rng.Intn(4)]
				pad[i] = int64(rng.Intn(130))
			}
			kind := []string{"file", "mem"}[k%2]
			seed := ev.Seed()*977 + int64(hdrLen*100+k) + 1
			fx, err := c16NewSplitFx(dir, kind, hdrLen, sizes, ph, pad, seed, nil)
			if err != nil {
				rec.Eval(1)
				rec.Violation("NewSplitCarReader/rejects-consistent-pieces", fmt.Sprintf("kind=%s sizes=%v: %v", kind, sizes, err),
					c16ReadCase{Part: "split", Kind: kind, Sizes: sizes, Seed: seed, HdrLen: hdrLen, PieceHdr: ph, Pad: pad})
				continue
			}
			total := int64(len(fx.ref))
			bounds := []int64{0, fx.first}
			acc := fx.first
			for _, s := range sizes[:len(sizes)-1] {
				acc += s
				bounds = append(bounds, acc)
			}
			buf := make([]byte, total+70010)
			crossed := false
			for _, ol := range c16DirectedReads(rng, bounds, total, ev.Pick(60, 200)) {
				if rec.Enough() {
					break
				}
				c := c16ReadCase{Part: "split", Kind: kind, Sizes: sizes, Seed: seed, Off: ol[0], Len: int(ol[1]), HdrLen: hdrLen, PieceHdr: ph, Pad: pad}
				c16CheckRead(rec, "SplitCarReader.ReadAt", fx.scr, fx.ref, c, buf)
				if c16SplitCrosses(fx.first, sizes, c.Off, c.Len) {
					crossed = true
					rec.Count("reads_crossing_boundary", 1)
				}
			}
			fx.scr.Close()
			if crossed {
				rec.Distinct(fmt.Sprintf("%s:h%d:%v", kind, hdrLen, sizes))
			}
			rec.Count("directed_vectors", 1)
		}
	}
}

// c16SplitHTTP: the pieces are served over loopback HTTP and opened with the repository's own remote
// ReaderAt (range cache in front), as the server does for pieces given by URL.
func c16SplitHTTP(t *testing.T, rec *ev.Recorder) {
	var capBytes, capped atomic.Int64
	bodies := map[string][]byte{}
	var mu sync.RWMutex
	srv := httptest.NewServer(http.HandlerFunc(func(w http.ResponseWriter, r *http.Request) {
		mu.RLock()
		b, ok := bodies[strings.TrimPrefix(r.URL.Path, "/")]
		mu.RUnlock()
		if !ok {
			http.NotFound(w, r)
			return
		}
		if cp := capBytes.Load(); cp > 0 {
			// a gateway that caps the size of a range: a well-formed 206 that carries fewer bytes than asked for
			var a, e int64
			if n, _ := fmt.Sscanf(r.Header.Get("Range"), "bytes=%d-%d", &a, &e); n == 2 && a >= 0 && a < int64(len(b)) {
				end := a + cp
				if end > int64(len(b)) {
					end = int64(len(b))
				}
				if end > e+1 {
					end = e + 1
				}
				w.Header().Set("Content-Range", fmt.Sprintf("bytes %d-%d/%d", a, end-1, len(b)))
				w.Header().Set("Content-Length", fmt.Sprint(end-a))
				w.WriteHeader(http.StatusPartialContent)
				w.Write(b[a:end])
				capped.Add(1)
				return
			}
		}
		http.ServeContent(w, r, "piece.car", time.Unix(1_600_000_000, 0), bytes.NewReader(b))
	}))
	defer srv.Close()
	rng := rand.New(rand.NewSource(ev.Seed()*31 + 5))
	nVec := ev.Pick(2, 8)
	for v := 0; v < nVec && !rec.Enough(); v++ {
		sizes := []int64{5, 0, 1, 700, 64}
		if v > 0 {
			sizes = c16RandomSizes(rng)
			if len(sizes) > 6 {
				sizes = sizes[:6]
			}
		}
		ph := make([]int64, len(sizes))
		pad := make([]int64, len(sizes))
		for i := range sizes {
			ph[i] = 59 // remote files must be non-empty
			pad[i] = int64(rng.Intn(100))
		}
		seed := ev.Seed()*389 + int64(v) + 1
		fx, err := c16NewSplitFx("", "http", 59, sizes, ph, pad, seed, func(name string, body []byte) string {
			key := fmt.Sprintf("v%d-%s", v, name)
			mu.Lock()
			bodies[key] = body
			mu.Unlock()
			return srv.URL + "/" + key
		})
		if err != nil {
			// loopback trouble is the harness's, not the reader's
			rec.Inconclusive(fmt.Sprintf("http-backed pieces could not be opened: %v", err))
			return
		}
		total := int64(len(fx.ref))
		bounds := []int64{0, fx.first}
		acc := fx.first
		for _, s := range sizes[:len(sizes)-1] {
			acc += s
			bounds = append(bounds, acc)
		}
		buf := make([]byte, total+70010)
		crossed := false
		for _, ol := range c16DirectedReads(rng, bounds, total, 20) {
			if rec.Enough() {
				break
			}
			c := c16ReadCase{Part: "split", Kind: "http", Sizes: sizes, Seed: seed, Off: ol[0], Len: int(ol[1]), HdrLen: 59, PieceHdr: ph, Pad: pad}
			c16CheckRead(rec, "SplitCarReader.ReadAt", fx.scr, fx.ref, c, buf)
			if c16SplitCrosses(fx.first, sizes, c.Off, c.Len) {
				crossed = true
				rec.Count("reads_crossing_boundary", 1)
			}
			rec.Count("http_reads", 1)
		}
		fx.scr.Close()
		if crossed {
			rec.Distinct(fmt.Sprintf("http:h59:%v", sizes))
		}
		// ---- the same pieces behind a gateway that caps ranges at 7 bytes while the reads are made, then
		// recovers: a read either fails or returns the exact bytes, and after the recovery every read is exact
		fx2, err := c16NewSplitFx("", "http", 59, sizes, ph, pad, seed, func(name string, body []byte) string {
			key := fmt.Sprintf("v%d-capped-%s", v, name)
			mu.Lock()
			bodies[key] = body
			mu.Unlock()
			return srv.URL + "/" + key
		})
		if err != nil {
			rec.Inconclusive(fmt.Sprintf("http-backed pieces could not be opened: %v", err))
			return
		}
		reads := c16DirectedReads(rng, bounds, total, 12)
		for pass := 0; pass < 2; pass++ {
			if pass == 0 {
				capBytes.Store(7)
			} else {
				capBytes.Store(0)
			}
			for _, ol := range reads {
				if ol[1] <= 0 || ol[0] >= total {
					continue
				}
				c := c16ReadCase{Part: "split", Kind: "http-capped-ranges", Sizes: sizes, Seed: seed, Off: ol[0], Len: int(ol[1]), HdrLen: 59, PieceHdr: ph, Pad: pad}
				p := buf[:ol[1]]
				n, rerr, pn := c16ReadGuard(fx2.scr, p, ol[0])
				rec.Eval(1)
				rec.Count("http_reads_capped_gateway", 1)
				if pn != nil {
					rec.Violation("SplitCarReader.ReadAt/panic", fmt.Sprint(pn), c)
					continue
				}
				want := fx2.ref[ol[0]:]
				if int64(len(want)) > ol[1] {
					want = want[:ol[1]]
				}
				if rerr == nil || (rerr == io.EOF && n == len(want)) {
					if n != len(want) || !bytes.Equal(p[:n], want) {
						what := "while the gateway caps ranges"
						if pass == 1 {
							what = "after the gateway recovered"
						}
						rec.Violation("SplitCarReader.ReadAt/wrong-bytes", fmt.Sprintf("http pieces, %s: ReadAt(off=%d,len=%d) reports success (n=%d err=%v) but the bytes differ from the original CAR", what, ol[0], ol[1], n, rerr), c)
					}
				} else if pass == 1 {
					rec.Violation("SplitCarReader.ReadAt/error-after-recovery", fmt.Sprintf("http pieces, gateway recovered: ReadAt(off=%d,len=%d) fails: %v", ol[0], ol[1], rerr), c)
				}
			}
		}
		capBytes.Store(0)
		fx2.scr.Close()
		rec.Distinct(fmt.Sprintf("http-capped:h59:%v", sizes))
		rec.Count("http_responses_capped", int(capped.Swap(0)))
	}
}
