//go:build verif

package main

// C03 — a request is never answered with an object that belongs to a different key.
// The compact indexes store only a 24-bit in-bucket hash of the key: absent keys that collide with
// a stored key are found with the index's own lookup (the search engine), then requested through
// every surface the statement names.  Oracle: not-found / epoch-not-available / empty / error —
// never a payload that belongs to another key.

import (
	"bytes"
	"context"
	"encoding/json"
	"fmt"
	"math/rand"
	"os"
	"path/filepath"
	"runtime"
	"sort"
	"sync"
	"sync/atomic"
	"testing"

	"github.com/gagliardetto/solana-go"
	"github.com/ipfs/go-cid"
	"github.com/multiformats/go-multihash"
	old_faithful_grpc "github.com/rpcpool/yellowstone-faithful/old-faithful-proto/old-faithful-grpc"
	"github.com/rpcpool/yellowstone-faithful/zzverif/cargen"
	"github.com/rpcpool/yellowstone-faithful/zzverif/ev"
	"github.com/valyala/fasthttp"
)

type c03Witness struct {
	Seed    int64  `json:"seed"`
	Fixture string `json:"fixture"`
	Surface string `json:"surface"`
	Slot    uint64 `json:"slot,omitempty"`
	Sig     string `json:"signature,omitempty"`
	Address string `json:"address,omitempty"`
	Cid     string `json:"cid,omitempty"`
	Loaded  int    `json:"epochs_loaded"`
}

func c03JSONResult(resp []byte) (hasResult bool, isNullOrEmpty bool, errObj any) {
	var r struct {
		Result json.RawMessage `json:"result"`
		Error  any             `json:"error"`
	}
	if json.Unmarshal(resp, &r) != nil {
		return false, false, "unparsable"
	}
	if r.Error != nil {
		return false, false, r.Error
	}
	s := string(r.Result)
	if s == "" || s == "null" || s == "[]" {
		return true, true, nil
	}
	return true, false, nil
}

func TestVerifC03(t *testing.T) {
	rec := ev.New("C03", "absent-keys")
	defer rec.Flush()
	rec.Rule("absent keys whose truncated in-bucket hash collides with a stored key (found with the index's own lookup) requested through JSON-RPC/gRPC getBlock, getTransaction (1 and 3 epochs loaded; also against an epoch whose transaction payloads are all split into several frames), getSignaturesForAddress, GetNodeByCid; plus slots of epochs that are not loaded; plus, on a server whose three epochs share one cache, every slot with the same in-epoch index as a just-served block of another epoch (answer cold = answer warm, never a block for an absent slot); plus 16 goroutines issuing present/absent-key requests with their own ids at once (each must get its own answer); distinct = distinct colliding absent keys per (index, surface)")
	seed := ev.Seed()
	rng := rand.New(rand.NewSource(seed ^ 0xC03))
	root := filepath.Join(ev.Scratch(), "c03")
	os.MkdirAll(root, 0o755)
	defer os.RemoveAll(root)

	nBlocks := ev.Pick(2000, 20000)
	main := cargen.Opts{Epoch: 3, Seed: seed, NSlots: nBlocks * 3 / 2, SkipOneIn: 3, MaxEntries: 2, MaxTx: 3, MultiFrameOneIn: 9, RewardsOneIn: 20, VoteOneIn: 4, FailOneIn: 5, V0OneIn: 4}
	side1 := cargen.Opts{Epoch: 2, Seed: seed + 1, NSlots: 300, SkipOneIn: 4, MaxEntries: 2, MaxTx: 3}
	side2 := cargen.Opts{Epoch: 5, Seed: seed + 2, NSlots: 300, SkipOneIn: 4, MaxEntries: 2, MaxTx: 3}
	type res struct {
		fx  *vfEpochFx
		err error
	}
	ch := make([]chan res, 3)
	for i, o := range []cargen.Opts{main, side1, side2} {
		ch[i] = make(chan res, 1)
		go func(i int, o cargen.Opts) {
			fx, ierr, err := vfMakeEpoch(filepath.Join(root, fmt.Sprintf("e%d", o.Epoch)), o, true)
			if err == nil && ierr != "" {
				err = fmt.Errorf("index: %s", ierr)
			}
			ch[i] <- res{fx, err}
		}(i, o)
	}
	var fxs []*vfEpochFx
	for i := range ch {
		r := <-ch[i]
		if r.err != nil {
			t.Fatalf("fixture: %v", r.err)
		}
		fxs = append(fxs, r.fx)
	}
	fx := fxs[0]
	m := fx.Model
	ctx := context.Background()

	load := func(which ...*vfEpochFx) (*MultiEpoch, []*Epoch, func(*fasthttp.RequestCtx)) {
		cache := vfNewCache()
		multi := NewMultiEpoch(&Options{EpochSearchConcurrency: 2})
		var eps []*Epoch
		for _, f := range which {
			ep, err := f.vfLoad(cache)
			if err != nil {
				t.Fatalf("load: %v", err)
			}
			multi.AddEpoch(f.Model.Epoch, ep)
			eps = append(eps, ep)
		}
		return multi, eps, newMultiEpochHandler(multi, nil)
	}
	multi1, eps1, h1 := load(fx)
	multi3, eps3, h3 := load(fxs...)
	ep := eps1[0]
	// (epochs are not closed: the multi-epoch signature search leaves jobs running after the first answer)
	_ = eps3

	// ---------------- (1) every absent slot of the epoch
	base := m.Epoch * cargen.SlotsPerEpoch
	var colliding []uint64
	for s := base; s < base+cargen.SlotsPerEpoch; s++ {
		if _, ok := m.BySlot[s]; ok {
			continue
		}
		rec.Eval(1)
		// the index's own lookup is the search engine
		if _, err := ep.slotToCidIndex.Get(s); err == nil {
			colliding = append(colliding, s)
		}
	}
	rec.Count("absent_slots_tried", int(cargen.SlotsPerEpoch)-len(m.Blocks))
	rec.Count("absent_slots_colliding", len(colliding))
	for _, s := range colliding {
		if rec.Enough() {
			break
		}
		for li, hm := range []struct {
			h     func(*fasthttp.RequestCtx)
			multi *MultiEpoch
			n     int
		}{{h1, multi1, 1}, {h3, multi3, 3}} {
			w := c03Witness{Seed: seed, Fixture: "main", Slot: s, Loaded: hm.n}
			rec.Eval(2)
			_, resp := vfCall(hm.h, fmt.Sprintf(`{"jsonrpc":"2.0","id":1,"method":"getBlock","params":[%d,{"encoding":"base64","transactionDetails":"full"}]}`, s))
			has, empty, _ := c03JSONResult(resp)
			if has && !empty {
				w.Surface = "jsonrpc/getBlock"
				rec.Violation("jsonrpc/getBlock/absent-slot-answered-with-a-block", fmt.Sprintf("slot %d has no block but getBlock returned one: %.160s", s, resp), w)
			}
			blk, err := hm.multi.GetBlock(ctx, &old_faithful_grpc.BlockRequest{Slot: s})
			if err == nil && blk != nil {
				w.Surface = "grpc/GetBlock"
				rec.Violation("grpc/GetBlock/absent-slot-answered-with-a-block", fmt.Sprintf("slot %d has no block but GetBlock returned the block of slot %d", s, blk.Slot), w)
			}
			rec.Distinct(fmt.Sprintf("slot-to-cid/%d/loaded%d", s, li))
			// diagnostic only (the statement does not name the /api/v1 endpoints)
			if st, _ := vfGet(hm.h, fmt.Sprintf("/api/v1/slot-to-cid/%d", s)); st == 200 {
				rec.Count("diag_api_slot_to_cid_answers_absent_slot", 1)
			}
		}
	}

	// ---------------- (1c) the slot-to-CID cache is shared by every loaded epoch: the answer for a slot must not
	// depend on whether the slot with the same index *in another epoch* was requested before (a key that drops
	// the epoch would hand epoch B the CID of epoch A's block).  Differential oracle on one server: ask s2
	// cold, ask the same-index slot s of the main epoch (which fills the cache), ask s2 again.
	{
		multiX, _, hX := load(fxs...)
		_ = multiX
		n := 0
		for _, b := range m.Blocks {
			if n >= ev.Pick(120, 600) || rec.Enough() {
				break
			}
			n++
			for _, f := range fxs[1:] {
				s2 := f.Model.Epoch*cargen.SlotsPerEpoch + (b.Slot - base)
				_, absent := f.Model.BySlot[s2]
				absent = !absent
				body := fmt.Sprintf(`{"jsonrpc":"2.0","id":7,"method":"getBlock","params":[%d,{"encoding":"base64","transactionDetails":"signatures"}]}`, s2)
				rec.Eval(2)
				_, cold := vfCall(hX, body)
				vfCall(hX, fmt.Sprintf(`{"jsonrpc":"2.0","id":8,"method":"getBlock","params":[%d,{"encoding":"base64","transactionDetails":"signatures"}]}`, b.Slot))
				_, warm := vfCall(hX, body)
				if !bytes.Equal(cold, warm) {
					w := c03Witness{Seed: seed, Fixture: "main+sides", Surface: "jsonrpc/getBlock", Slot: s2, Loaded: 3}
					rec.Violation(fmt.Sprintf("jsonrpc/getBlock/answer-changes-after-same-index-slot-of-another-epoch/absent=%v", absent), fmt.Sprintf("getBlock(%d) answered %.120s; after getBlock(%d) (same index, epoch %d) it answers %.120s", s2, cold, b.Slot, m.Epoch, warm), w)
				}
				if absent {
					if has, empty, _ := c03JSONResult(warm); has && !empty {
						w := c03Witness{Seed: seed, Fixture: "main+sides", Surface: "jsonrpc/getBlock", Slot: s2, Loaded: 3}
						rec.Violation("jsonrpc/getBlock/absent-slot-answered-with-a-block", fmt.Sprintf("slot %d has no block but getBlock returned one after slot %d of epoch %d was served: %.160s", s2, b.Slot, m.Epoch, warm), w)
					}
				}
				rec.Distinct(fmt.Sprintf("same-index/%d/absent=%v", s2, absent))
			}
		}
		rec.Count("same_index_cross_epoch_pairs", n*(len(fxs)-1))
	}

	// ---------------- (2) absent signatures colliding in sig-to-cid
	wantSigs := ev.Pick(20, 200)
	var csigs []solana.Signature
	tries := 0
	maxTries := 40_000_000
	for len(csigs) < wantSigs && tries < maxTries {
		var sig solana.Signature
		rng.Read(sig[:])
		tries++
		if _, ok := m.BySig[sig]; ok {
			continue
		}
		if _, err := ep.sigToCidIndex.Get(sig); err == nil {
			csigs = append(csigs, sig)
		}
	}
	rec.Eval(tries)
	rec.Count("absent_sigs_tried", tries)
	rec.Count("absent_sigs_colliding", len(csigs))
	for _, sig := range csigs {
		if rec.Enough() {
			break
		}
		for li, hm := range []struct {
			h     func(*fasthttp.RequestCtx)
			multi *MultiEpoch
			n     int
		}{{h1, multi1, 1}, {h3, multi3, 3}} {
			w := c03Witness{Seed: seed, Fixture: "main", Sig: sig.String(), Loaded: hm.n}
			rec.Eval(2)
			_, resp := vfCall(hm.h, fmt.Sprintf(`{"jsonrpc":"2.0","id":1,"method":"getTransaction","params":["%s",{"encoding":"base64"}]}`, sig))
			has, empty, _ := c03JSONResult(resp)
			if has && !empty {
				w.Surface = "jsonrpc/getTransaction"
				rec.Violation("jsonrpc/getTransaction/absent-signature-answered-with-a-transaction", fmt.Sprintf("signature %s is not archived but getTransaction returned: %.160s", sig, resp), w)
			}
			tx, err := hm.multi.GetTransaction(ctx, &old_faithful_grpc.TransactionRequest{Signature: sig[:]})
			if err == nil && tx != nil {
				w.Surface = "grpc/GetTransaction"
				rec.Violation("grpc/GetTransaction/absent-signature-answered-with-a-transaction", fmt.Sprintf("signature %s is not archived but GetTransaction returned a transaction of slot %d", sig, tx.Slot), w)
			}
			rec.Distinct(fmt.Sprintf("sig-to-cid/%s/loaded%d", sig, li))
		}
	}

	// ---------------- (2b) the same against an epoch whose transactions are all stored in several frames
	// (transaction payload split as well): the victim of a collision is then a multi-frame transaction
	{
		so := cargen.Opts{Epoch: 7, Seed: seed + 7, NSlots: ev.Pick(900, 6000), SkipOneIn: 3, MaxEntries: 2, MaxTx: 3, MultiFrameOneIn: 1, SplitTxData: true, VoteOneIn: 4, FailOneIn: 5, V0OneIn: 4}
		sfx, ierr, err := vfMakeEpoch(filepath.Join(root, "e7"), so, false)
		if err != nil || ierr != "" {
			rec.Inconclusive(fmt.Sprintf("split-frame fixture: %v %s", err, ierr))
		} else {
			multiS, epsS, hS := load(sfx)
			nMulti := 0
			for _, tx := range sfx.Model.AllTxs() {
				if tx.NFramesD > 1 {
					nMulti++
				}
			}
			rec.Count("split_fixture_transactions_with_multi_frame_data", nMulti)
			var ss []solana.Signature
			st := 0
			for len(ss) < ev.Pick(12, 120) && st < maxTries {
				var sig solana.Signature
				rng.Read(sig[:])
				st++
				if _, ok := sfx.Model.BySig[sig]; ok {
					continue
				}
				if _, err := epsS[0].sigToCidIndex.Get(sig); err == nil {
					ss = append(ss, sig)
				}
			}
			rec.Eval(st)
			rec.Count("absent_sigs_colliding_with_multi_frame_transactions", len(ss))
			for _, sig := range ss {
				w := c03Witness{Seed: seed, Fixture: "split-frames", Sig: sig.String(), Loaded: 1}
				rec.Eval(2)
				_, resp := vfCall(hS, fmt.Sprintf(`{"jsonrpc":"2.0","id":1,"method":"getTransaction","params":["%s",{"encoding":"base64"}]}`, sig))
				has, empty, _ := c03JSONResult(resp)
				if has && !empty {
					w.Surface = "jsonrpc/getTransaction"
					rec.Violation("jsonrpc/getTransaction/absent-signature-answered-with-a-transaction", fmt.Sprintf("signature %s is not archived (epoch of multi-frame transactions) but getTransaction returned: %.160s", sig, resp), w)
				}
				tx, err := multiS.GetTransaction(ctx, &old_faithful_grpc.TransactionRequest{Signature: sig[:]})
				if err == nil && tx != nil {
					w.Surface = "grpc/GetTransaction"
					rec.Violation("grpc/GetTransaction/absent-signature-answered-with-a-transaction", fmt.Sprintf("signature %s is not archived (epoch of multi-frame transactions) but GetTransaction returned a transaction of slot %d", sig, tx.Slot), w)
				}
				rec.Distinct(fmt.Sprintf("sig-to-cid/split-frames/%s", sig))
			}
		}
	}

	// ---------------- (3) absent addresses colliding in the gsfa pubkey index
	known := map[solana.PublicKey]bool{}
	for _, tx := range m.AllTxs() {
		for _, k := range tx.AllKeys() {
			known[k] = true
		}
	}
	wantAddrs := ev.Pick(5, 50)
	var caddrs []solana.PublicKey
	tries = 0
	if ep.gsfaReader == nil {
		t.Fatalf("fixture has no gsfa reader")
	}
	for len(caddrs) < wantAddrs && tries < maxTries {
		var k solana.PublicKey
		rng.Read(k[:])
		tries++
		if known[k] {
			continue
		}
		if r, err := ep.gsfaReader.Get(ctx, k, 5); err == nil && len(r) > 0 {
			caddrs = append(caddrs, k)
		}
	}
	rec.Eval(tries)
	rec.Count("absent_addresses_tried", tries)
	rec.Count("absent_addresses_colliding", len(caddrs))
	for _, k := range caddrs {
		if rec.Enough() {
			break
		}
		for li, hm := range []struct {
			h func(*fasthttp.RequestCtx)
			n int
		}{{h1, 1}, {h3, 3}} {
			w := c03Witness{Seed: seed, Fixture: "main", Address: k.String(), Loaded: hm.n, Surface: "jsonrpc/getSignaturesForAddress"}
			rec.Eval(1)
			_, resp := vfCall(hm.h, fmt.Sprintf(`{"jsonrpc":"2.0","id":1,"method":"getSignaturesForAddress","params":["%s",{"limit":10}]}`, k))
			has, empty, _ := c03JSONResult(resp)
			if has && !empty {
				rec.Violation("jsonrpc/getSignaturesForAddress/absent-address-answered-with-signatures", fmt.Sprintf("address %s appears in no transaction but signatures were returned: %.200s", k, resp), w)
			}
			rec.Distinct(fmt.Sprintf("gsfa/%s/loaded%d", k, li))
		}
	}

	// ---------------- (4) absent CIDs colliding in cid-to-offset-and-size (CAR read locally and through the remote ReaderAt)
	srv := vfServeDir(fx.Dir)
	defer srv.Close()
	var epRemote *Epoch
	if err := fx.writeConfig(srv.URL, nil); err == nil {
		epRemote, err = fx.vfLoad(vfNewCache())
		if err != nil {
			t.Fatalf("remote load: %v", err)
		}
		defer epRemote.Close()
	}
	wantCids := ev.Pick(20, 200)
	nc := 0
	tries = 0
	stored := map[string]bool{}
	for _, s := range m.Sections {
		stored[s.Cid.KeyString()] = true
	}
	for nc < wantCids && tries < maxTries {
		d := make([]byte, 32)
		rng.Read(d)
		mh, _ := multihash.Encode(d, multihash.SHA2_256)
		c := cid.NewCidV1(cid.DagCBOR, mh)
		tries++
		if stored[c.KeyString()] {
			continue
		}
		if _, err := ep.cidToOffsetAndSizeIndex.Get(c); err != nil {
			continue
		}
		nc++
		rec.Eval(1)
		data, err := ep.GetNodeByCid(ctx, c)
		if err == nil {
			rec.Violation("Epoch.GetNodeByCid/absent-cid-answered-with-bytes", fmt.Sprintf("cid %s is not in the CAR but %d bytes were returned", c, len(data)), c03Witness{Seed: seed, Fixture: "main", Cid: c.String(), Surface: "Epoch.GetNodeByCid", Loaded: 1})
		}
		if epRemote != nil {
			rec.Eval(1)
			if data, err := epRemote.GetNodeByCid(ctx, c); err == nil {
				rec.Violation("Epoch.GetNodeByCid/absent-cid-answered-with-bytes-remote-car", fmt.Sprintf("cid %s is not in the CAR but %d bytes were returned (remote CAR reader)", c, len(data)), c03Witness{Seed: seed, Fixture: "main", Cid: c.String(), Surface: "Epoch.GetNodeByCid(remote)", Loaded: 1})
			}
		}
		rec.Distinct("cid-to-offset/" + c.String())
	}
	rec.Eval(tries)
	rec.Count("absent_cids_tried", tries)
	rec.Count("absent_cids_colliding", nc)

	// ---------------- (5) slots of epochs that are not loaded
	for _, e := range []uint64{0, 1, 4, 6, 700} {
		for _, off := range []uint64{0, 1, 17, 431999} {
			s := e*cargen.SlotsPerEpoch + off
			w := c03Witness{Seed: seed, Slot: s, Loaded: 3}
			rec.Eval(2)
			_, resp := vfCall(h3, fmt.Sprintf(`{"jsonrpc":"2.0","id":1,"method":"getBlock","params":[%d]}`, s))
			has, empty, _ := c03JSONResult(resp)
			if has && !empty {
				w.Surface = "jsonrpc/getBlock"
				rec.Violation("jsonrpc/getBlock/unloaded-epoch-answered-with-a-block", fmt.Sprintf("epoch %d is not loaded but getBlock(%d) returned a block", e, s), w)
			}
			if blk, err := multi3.GetBlock(ctx, &old_faithful_grpc.BlockRequest{Slot: s}); err == nil && blk != nil {
				w.Surface = "grpc/GetBlock"
				rec.Violation("grpc/GetBlock/unloaded-epoch-answered-with-a-block", fmt.Sprintf("epoch %d is not loaded but GetBlock(%d) returned a block", e, s), w)
			}
			rec.Distinct(fmt.Sprintf("unloaded/%d", s))
		}
	}
	// ---------------- (6) requests in flight together: no request is answered with the answer to another one.
	// Every request carries its own id; the body is read after the handler has returned and the goroutine has
	// yielded once (a real server writes the response to the socket at that point, not inside the handler).
	{
		type creq struct {
			body string
			want []byte
		}
		var reqs []creq
		id := 1000
		mk := func(method, params string) {
			id++
			reqs = append(reqs, creq{body: fmt.Sprintf(`{"jsonrpc":"2.0","id":%d,"method":"%s","params":[%s]}`, id, method, params)})
		}
		for i := 0; i < 40; i++ {
			b := m.Blocks[rng.Intn(len(m.Blocks))]
			mk("getBlock", fmt.Sprintf(`%d,{"encoding":"base64","transactionDetails":"signatures"}`, b.Slot))
			mk("getBlockTime", fmt.Sprint(b.Slot))
			if len(b.Txs) > 0 {
				mk("getTransaction", fmt.Sprintf(`"%s",{"encoding":"base64"}`, b.Txs[rng.Intn(len(b.Txs))].Sig))
			}
		}
		for s := base; s < base+uint64(main.NSlots) && len(reqs) < 200; s++ {
			if _, ok := m.BySlot[s]; !ok {
				mk("getBlock", fmt.Sprint(s)) // skipped slot
			}
		}
		for _, sig := range csigs {
			mk("getTransaction", fmt.Sprintf(`"%s",{"encoding":"base64"}`, sig))
		}
		// address histories (every address must get its own signatures, also while others are being read)
		{
			var addrs []solana.PublicKey
			for k := range known {
				addrs = append(addrs, k)
			}
			sort.Slice(addrs, func(i, j int) bool { return bytes.Compare(addrs[i][:], addrs[j][:]) < 0 })
			for i := 0; i < len(addrs) && i < 60; i++ {
				mk("getSignaturesForAddress", fmt.Sprintf(`"%s",{"limit":25}`, addrs[(i*7919)%len(addrs)]))
			}
			for _, k := range caddrs {
				mk("getSignaturesForAddress", fmt.Sprintf(`"%s",{"limit":25}`, k))
			}
		}
		call := func(body string) []byte {
			var fctx fasthttp.RequestCtx
			var req fasthttp.Request
			req.Header.SetMethod("POST")
			req.SetRequestURI("/")
			req.Header.SetContentType("application/json")
			req.SetBody([]byte(body))
			fctx.Init(&req, nil, nil)
			h1(&fctx)
			runtime.Gosched()
			return append([]byte(nil), fctx.Response.Body()...)
		}
		stable := 0
		for i := range reqs {
			a, b := call(reqs[i].body), call(reqs[i].body)
			if bytes.Equal(a, b) {
				reqs[i].want = a
				stable++
			}
		}
		rounds := ev.Pick(150, 2500)
		var bad atomic.Int64
		var firstBad atomic.Value
		var cwg sync.WaitGroup
		for g := 0; g < 16; g++ {
			cwg.Add(1)
			go func(g int) {
				defer cwg.Done()
				lr := rand.New(rand.NewSource(seed*53 + int64(g)))
				for k := 0; k < rounds; k++ {
					r := &reqs[lr.Intn(len(reqs))]
					if r.want == nil {
						continue
					}
					got := call(r.body)
					if !bytes.Equal(got, r.want) {
						if bad.Add(1) == 1 {
							firstBad.Store(fmt.Sprintf("request %.120s answered %.200q; alone it is answered %.200q", r.body, got, r.want))
						}
					}
				}
			}(g)
		}
		cwg.Wait()
		rec.Eval(16 * rounds)
		rec.Count("concurrent_requests", 16*rounds)
		rec.Count("concurrent_request_kinds", stable)
		rec.Distinct("concurrent/16-goroutines")
		if n := bad.Load(); n > 0 {
			rec.Violation("jsonrpc/answer-of-another-request-under-concurrency", fmt.Sprintf("%d of %d requests issued from 16 goroutines were not answered with their own answer; first: %v", n, 16*rounds, firstBad.Load()), c03Witness{Seed: seed, Fixture: "main", Surface: "jsonrpc/concurrent", Loaded: 1})
		}
	}
	rec.Sample(map[string]any{"blocks": len(m.Blocks), "txs": len(m.BySig), "addresses": len(known), "colliding_slots": colliding, "colliding_sigs": len(csigs), "colliding_addresses": len(caddrs), "colliding_cids": nc})
	if len(colliding) == 0 && len(csigs) == 0 {
		rec.Inconclusive("no colliding absent slot or signature was found: the monitors had nothing to observe")
	}
}
