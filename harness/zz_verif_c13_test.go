//go:build verif

package main

// C13 — truncated index or CAR files fail loudly instead of answering "not found".
//
// Fault model: the file is cut short at byte offset c (a real truncated copy on disk; for the
// remote paths that copy is served over loopback HTTP). For every file kind the complete file's
// answer is recorded for every stored key; then, for every cut (all offsets of small files,
// structure boundaries +-2 and seed-chosen offsets of large ones), the truncated copy is opened
// with the repository's own openers and every stored key is looked up.
// Oracle (the statement itself): each result equals the complete file's answer or is an error;
// "not found" (also as an error value), false, an empty list, a different value - or a panic - is
// a violation.
//
// This file: engine (targets, cut lists, sweep, verdicts) and the test entry point.
// zz_verif_c13_fx_test.go: fixtures. zz_verif_c13_targets_test.go: the targets per file kind.

import (
	"context"
	"errors"
	"fmt"
	"io"
	"math/rand"
	"os"
	"path/filepath"
	"runtime"
	"runtime/debug"
	"sort"
	"strings"
	"sync"
	"testing"
	"time"

	"github.com/allegro/bigcache/v3"
	"github.com/rpcpool/yellowstone-faithful/bucketteer"
	"github.com/rpcpool/yellowstone-faithful/compactindexsized"
	hugecache "github.com/rpcpool/yellowstone-faithful/huge-cache"
	"github.com/rpcpool/yellowstone-faithful/zzverif/ev"
)

// ---------------------------------------------------------------- answers

const (
	c13Val      = iota // a value
	c13Err             // an error that is not a not-found error
	c13NotFound        // "not found" (error wrapping an ErrNotFound, or has == false)
	c13Empty           // empty result without an error
	c13Panic           // the reader panicked
)

var c13ClassNames = []string{"value", "error", "not-found", "empty-result", "panic"}

type c13Ans struct {
	Class int
	Val   string
}

func (a c13Ans) String() string {
	v := a.Val
	if len(v) > 160 {
		v = v[:160] + "..."
	}
	return c13ClassNames[a.Class] + "(" + v + ")"
}

// c13FromErr classifies an error returned by a lookup.
func c13FromErr(err error) c13Ans {
	if errors.Is(err, compactindexsized.ErrNotFound) || errors.Is(err, bucketteer.ErrNotFound) || errors.Is(err, ErrNotFound) {
		return c13Ans{c13NotFound, err.Error()}
	}
	return c13Ans{c13Err, err.Error()}
}

type c13Handle interface {
	Lookup(k int) c13Ans
	Close()
}

// ---------------------------------------------------------------- targets

// c13Target is one (file, opener) pair under truncation.
type c13Target struct {
	Part    string   // evidence part
	Fixture string   // fixture name
	Site    string   // "<file kind>/<opener>": prefix of the violation key
	Size    int64    // size of the complete file
	Keys    []string // printable names of the stored keys
	// SetCut makes the file (as seen by Open) exactly c bytes long (c == Size: complete).
	SetCut func(c int64) error
	Open   func() (c13Handle, error)
	Region func(c int64) string // structural region a cut falls into (evidence only)
	Bounds []int64              // structure boundaries (offsets at which a structure starts/ends)
	// KeyBounds: boundaries of the structures a lookup of key k touches (its table entry, its entry)
	KeyBounds func(k int) []int64
	// MustKeys: keys that are part of every key sample (e.g. addresses with a chain of several records)
	MustKeys []int
	// limits (set by the part)
	ExhaustBelow int64 // files up to this size are cut at every offset
	NRandom      int
	MaxKeys      int
	MaxCuts      int // 0 = unlimited; cap for expensive openers (keeps bounds first, then random)
	// Shard/NShards: this target handles the cuts whose rank in the cut list is Shard mod NShards
	// (expensive every-offset sweeps are spread over several workers)
	Shard, NShards int
	Cleanup        func()
}

func (t *c13Target) name() string {
	if t.NShards > 1 {
		return fmt.Sprintf("%s/%s#%d", t.Fixture, t.Site, t.Shard)
	}
	return t.Fixture + "/" + t.Site
}

func (t *c13Target) shard(cuts []int64) []int64 {
	if t.NShards <= 1 {
		return cuts
	}
	var out []int64
	for i, c := range cuts {
		if i%t.NShards == t.Shard {
			out = append(out, c)
		}
	}
	return out
}

type c13Replay struct {
	Seed    int64  `json:"seed"`
	Part    string `json:"part"`
	Fixture string `json:"fixture"`
	Site    string `json:"site"`
	Cut     int64  `json:"cut"`
	Size    int64  `json:"file_size"`
	Key     int    `json:"key_index"`
	KeyName string `json:"key"`
	Region  string `json:"region"`
}

var c13ReplayCase *c13Replay

func c13Seed() int64 {
	if c13ReplayCase != nil && c13ReplayCase.Seed != 0 {
		return c13ReplayCase.Seed
	}
	return ev.Seed()
}

// c13Rec wraps a recorder: at most 2 full witnesses per key, the rest is counted.
type c13Rec struct {
	*ev.Recorder
	mu   sync.Mutex
	seen map[string]int
	nRes int
}

func c13NewRec(part string) *c13Rec {
	return &c13Rec{Recorder: ev.New("C13", part), seen: map[string]int{}}
}

func (r *c13Rec) violation(key, detail string, replay any) {
	r.mu.Lock()
	r.seen[key]++
	n := r.seen[key]
	r.mu.Unlock()
	if n <= 2 {
		r.Violation(key, detail, replay)
	} else {
		r.Count("further_occurrences:"+key, 1)
	}
}

func c13ResourceErr(s string) bool {
	return strings.Contains(s, "too many open files") || strings.Contains(s, "cannot allocate memory")
}

// resourceErr counts a resource-exhaustion error; true for the first one (reported once per part).
func (r *c13Rec) resourceErr() bool {
	r.Count("resource_exhaustion_errors_skipped", 1)
	r.mu.Lock()
	defer r.mu.Unlock()
	r.nRes++
	return r.nRes == 1
}

// enough: stop generating cases when many distinct keys fired or many parts are inconclusive.
func (r *c13Rec) enough() bool {
	r.mu.Lock()
	n := len(r.seen)
	r.mu.Unlock()
	return n >= 10 || r.Enough()
}

// c13Guard runs fn; a panic is returned as text.
func c13Guard(fn func()) (panicked string) {
	defer func() {
		if p := recover(); p != nil {
			st := string(debug.Stack())
			// keep the frames below the panic
			if k := strings.Index(st, "panic("); k >= 0 {
				st = st[k:]
			}
			if len(st) > 1500 {
				st = st[:1500]
			}
			panicked = fmt.Sprintf("%v\n%s", p, st)
		}
	}()
	fn()
	return ""
}

// c13Cuts builds the cut list of a target (descending) and says whether it is exhaustive.
func c13Cuts(t *c13Target, rng *rand.Rand, keyIdx []int) (cuts []int64, exhaustive bool) {
	if t.Size <= 0 {
		return nil, false
	}
	if t.Size <= t.ExhaustBelow && (t.MaxCuts == 0 || int64(t.MaxCuts) >= t.Size) {
		for c := t.Size - 1; c >= 0; c-- {
			cuts = append(cuts, c)
		}
		return t.shard(cuts), true
	}
	set := map[int64]struct{}{}
	var order []int64
	add := func(c int64) {
		if c < 0 || c >= t.Size {
			return
		}
		if _, ok := set[c]; ok {
			return
		}
		set[c] = struct{}{}
		order = append(order, c)
	}
	// the file's two ends first
	nEnds := int64(9)
	if t.MaxCuts > 0 && t.MaxCuts < 100 {
		nEnds = 2
	}
	for d := int64(0); d < nEnds; d++ {
		add(d)
		add(t.Size - 1 - d)
	}
	// structure boundaries: the file's own ones and those of the must-keys first, then the sampled keys
	bounds := append([]int64(nil), t.Bounds...)
	isMust := map[int]bool{}
	if t.KeyBounds != nil {
		for _, k := range t.MustKeys {
			if k >= 0 && k < len(t.Keys) && !isMust[k] {
				isMust[k] = true
				bounds = append(bounds, t.KeyBounds(k)...)
			}
		}
	}
	nPrio := len(bounds)
	if t.KeyBounds != nil {
		for _, k := range keyIdx {
			if !isMust[k] {
				bounds = append(bounds, t.KeyBounds(k)...)
			}
		}
	}
	if t.MaxCuts > 0 && len(bounds)*5 > t.MaxCuts*3/4 {
		// more boundaries than the budget: the priority ones (at most half of the budget, seed-chosen
		// if there are more), then a seed-chosen subset of the others
		budget := t.MaxCuts * 3 / 4 / 5
		prio, rest := bounds[:nPrio], bounds[nPrio:]
		var keep []int64
		if len(prio) > budget/2 {
			for _, i := range rng.Perm(len(prio))[:budget/2] {
				keep = append(keep, prio[i])
			}
		} else {
			keep = append(keep, prio...)
		}
		for _, i := range rng.Perm(len(rest)) {
			if len(keep) >= budget {
				break
			}
			keep = append(keep, rest[i])
		}
		bounds = keep
	}
	for _, b := range bounds {
		for d := int64(-2); d <= 2; d++ {
			add(b + d)
		}
	}
	for i := 0; i < t.NRandom; i++ {
		add(rng.Int63n(t.Size))
	}
	if t.MaxCuts > 0 && len(order) > t.MaxCuts {
		order = order[:t.MaxCuts]
	}
	sort.Slice(order, func(i, j int) bool { return order[i] > order[j] })
	return t.shard(order), false
}

func c13KeySample(n, max int, rng *rand.Rand, must []int) []int {
	idx := make([]int, 0, n)
	if max <= 0 || n <= max {
		for i := 0; i < n; i++ {
			idx = append(idx, i)
		}
		return idx
	}
	seen := map[int]bool{0: true, n - 1: true}
	idx = append(idx, 0, n-1)
	for _, k := range must {
		if k >= 0 && k < n && !seen[k] {
			seen[k] = true
			idx = append(idx, k)
		}
	}
	for len(idx) < max {
		k := rng.Intn(n)
		if !seen[k] {
			seen[k] = true
			idx = append(idx, k)
		}
	}
	sort.Ints(idx)
	return idx
}

// c13Sweep runs one target: baseline on the complete file, then every cut x every sampled key.
func c13Sweep(rec *c13Rec, t *c13Target) {
	if t.Cleanup != nil {
		defer t.Cleanup()
	}
	t0 := time.Now()
	rng := rand.New(rand.NewSource(c13Seed()*1_000_003 + int64(len(t.Site))*7919 + t.Size))
	mkReplay := func(cut int64, k int) c13Replay {
		r := c13Replay{Seed: c13Seed(), Part: t.Part, Fixture: t.Fixture, Site: t.Site, Cut: cut, Size: t.Size, Key: k}
		if k >= 0 && k < len(t.Keys) {
			r.KeyName = t.Keys[k]
		}
		if t.Region != nil && cut >= 0 {
			r.Region = t.Region(cut)
		}
		return r
	}
	// ---- baseline: the complete file must answer every key with a value
	if err := t.SetCut(t.Size); err != nil {
		rec.Inconclusive(fmt.Sprintf("%s: cannot prepare the complete copy: %v", t.name(), err))
		return
	}
	var h c13Handle
	var oerr error
	if p := c13Guard(func() { h, oerr = t.Open() }); p != "" || oerr != nil {
		rec.Inconclusive(fmt.Sprintf("%s: the complete file does not open (fixture problem, not a truncation verdict): %v %s", t.name(), oerr, p))
		return
	}
	if len(t.Keys) == 0 {
		h.Close()
		rec.Inconclusive(fmt.Sprintf("%s: no stored keys", t.name()))
		return
	}
	keyIdx := c13KeySample(len(t.Keys), t.MaxKeys, rng, t.MustKeys)
	if c13ReplayCase != nil && c13ReplayCase.Key >= 0 && c13ReplayCase.Key < len(t.Keys) {
		keyIdx = []int{c13ReplayCase.Key}
	}
	full := make(map[int]c13Ans, len(keyIdx))
	bad := 0
	for _, k := range keyIdx {
		k := k
		var a c13Ans
		if p := c13Guard(func() { a = h.Lookup(k) }); p != "" {
			a = c13Ans{c13Panic, p}
		}
		full[k] = a
		if a.Class != c13Val {
			bad++
			if bad == 1 {
				rec.Inconclusive(fmt.Sprintf("%s: the complete file does not answer stored key %s: %s (fixture problem; covered by C01/C05/C06)", t.name(), t.Keys[k], a))
			}
		}
	}
	h.Close()
	if bad > 0 {
		return
	}
	cuts, exhaustive := c13Cuts(t, rng, keyIdx)
	if c13ReplayCase != nil {
		cuts, exhaustive = []int64{c13ReplayCase.Cut}, false
	}
	rec.Count("targets", 1)
	if exhaustive {
		rec.Count("targets_cut_at_every_offset", 1)
	}
	var nCuts, nOpenErr, nSame, nErr int
	for _, c := range cuts {
		if rec.enough() {
			break
		}
		region := "?"
		if t.Region != nil {
			region = t.Region(c)
		}
		if err := t.SetCut(c); err != nil {
			rec.Inconclusive(fmt.Sprintf("%s: cannot truncate to %d: %v", t.name(), c, err))
			return
		}
		nCuts++
		var h c13Handle
		var oerr error
		if p := c13Guard(func() { h, oerr = t.Open() }); p != "" {
			rec.Eval(1)
			rec.violation(t.Site+"/open/panic", fmt.Sprintf("%s cut at %d of %d bytes (%s): opening the truncated file panicked: %s", t.name(), c, t.Size, region, p), mkReplay(c, -1))
			rec.Distinct(t.Site + "|" + region + "|open-panic")
			continue
		}
		if oerr != nil && c13ResourceErr(oerr.Error()) {
			// the process ran out of descriptors / mappings: says nothing about the truncated file
			if rec.resourceErr() {
				rec.Inconclusive(fmt.Sprintf("%s cut at %d: resource exhaustion in the test process, not a verdict: %v", t.name(), c, oerr))
			}
			runtime.GC()
			continue
		}
		if oerr != nil {
			// loud at open time: every key is answered with an error
			rec.Eval(1)
			nOpenErr++
			if a := c13FromErr(oerr); a.Class == c13NotFound {
				rec.violation(t.Site+"/open/not-found", fmt.Sprintf("%s cut at %d of %d bytes (%s): open reports not-found: %v", t.name(), c, t.Size, region, oerr), mkReplay(c, -1))
			}
			rec.Distinct(t.Site + "|" + region + "|open-error")
			continue
		}
		same, errs := 0, 0
		for _, k := range keyIdx {
			var got c13Ans
			if p := c13Guard(func() { got = h.Lookup(k) }); p != "" {
				got = c13Ans{c13Panic, p}
			}
			if got.Class == c13Err && c13ResourceErr(got.Val) {
				if rec.resourceErr() {
					rec.Inconclusive(fmt.Sprintf("%s cut at %d: resource exhaustion in the test process, not a verdict: %s", t.name(), c, got.Val))
				}
				runtime.GC()
				continue
			}
			rec.Eval(1)
			switch {
			case got.Class == c13Err:
				errs++
			case got.Class == c13Val && got.Val == full[k].Val:
				same++
			default:
				class := c13ClassNames[got.Class]
				if got.Class == c13Val {
					class = "different-value"
				}
				detail := fmt.Sprintf("%s cut at %d of %d bytes (%s), key %s: complete file answers %s, truncated file answers %s (neither the same answer nor an error)",
					t.name(), c, t.Size, region, t.Keys[k], full[k], got)
				if got.Class == c13Panic {
					detail += "\n" + got.Val
				}
				rec.violation(t.Site+"/"+class, detail, mkReplay(c, k))
			}
		}
		c13Guard(func() { h.Close() })
		nSame += same
		nErr += errs
		mix := "mixed"
		if same == 0 {
			mix = "all-error"
		} else if errs == 0 {
			mix = "all-same"
		}
		rec.Distinct(t.Site + "|" + region + "|" + mix)
		if nCuts%97 == 1 {
			rec.Sample(map[string]any{"target": t.name(), "file_size": t.Size, "cut": c, "region": region, "keys_looked_up": len(keyIdx), "same_answer": same, "error": errs})
		}
	}
	t.SetCut(t.Size)
	rec.Count("cuts", nCuts)
	rec.Count("cuts_open_error", nOpenErr)
	rec.Count("lookups_same_answer", nSame)
	rec.Count("lookups_error", nErr)
	rec.Count("ms:"+t.name(), int(time.Since(t0).Milliseconds()))
	rec.Note("cuts:"+t.name(), map[string]any{"file_size": t.Size, "cuts": nCuts, "every_offset": exhaustive, "keys": len(keyIdx), "of_stored_keys": len(t.Keys)})
}

// ---------------------------------------------------------------- file helpers

func c13CopyFile(src, dst string) error {
	in, err := os.Open(src)
	if err != nil {
		return err
	}
	defer in.Close()
	os.MkdirAll(filepath.Dir(dst), 0o755)
	out, err := os.Create(dst)
	if err != nil {
		return err
	}
	if _, err := io.Copy(out, in); err != nil {
		out.Close()
		return err
	}
	return out.Close()
}

// c13Cutter returns a SetCut for a work copy of src: the copy is only ever shrunk between two
// restores, and restored from src whenever it must grow or its size is not what was left behind
// (some openers write to the file, e.g. the gsfa manifest).
func c13Cutter(src, work string) func(c int64) error {
	cur := int64(-1)
	return func(c int64) error {
		st, err := os.Stat(work)
		if err != nil || cur < 0 || st.Size() != cur || c > cur {
			if err := c13CopyFile(src, work); err != nil {
				return err
			}
		}
		if err := os.Truncate(work, c); err != nil {
			return err
		}
		cur = c
		return nil
	}
}

// c13NewCache: a cache per epoch load (a shared one would answer from memory and hide the
// truncation); tiny, without a cleaner goroutine (the default config allocates ~300 MB).
func c13NewCache() *hugecache.Cache {
	cache, err := hugecache.NewWithConfig(context.Background(), bigcache.Config{Shards: 2, LifeWindow: 5 * time.Minute, MaxEntriesInWindow: 16, MaxEntrySize: 64})
	if err != nil {
		panic(err)
	}
	return cache
}

// ---------------------------------------------------------------- entry point

func TestVerifC13(t *testing.T) {
	var rp c13Replay
	if ev.LoadReplay(&rp) {
		c13ReplayCase = &rp
	}
	root := filepath.Join(ev.Scratch(), "c13")
	os.RemoveAll(root)
	os.MkdirAll(root, 0o755)
	defer os.RemoveAll(root)

	parts := []string{"compact-index", "sig-exists", "slot-to-blocktime", "gsfa", "car", "epoch-index-files", "rpc"}
	recs := map[string]*c13Rec{}
	for _, p := range parts {
		recs[p] = c13NewRec(p)
	}
	defer func() {
		for _, r := range recs {
			r.Flush()
		}
	}()
	recs["compact-index"].Rule("the four compact-index kinds (cid-to-offset-and-size, slot-to-cid, sig-to-cid, pubkey-to-offset-and-size) of generated epochs and directly built indexes with 1..17 entries / several buckets, opened with Open_* (os.File) and OpenWithReader_* (mmap): every cut x every stored key; distinct = (file kind/opener, structural region of the cut, outcome mix: open-error / all-error / mixed / all-same)")
	recs["sig-exists"].Rule("sig-exists (bucketteer) files of generated epochs and a directed file with bucket populations 1..100 on boundary prefixes, opened with bucketteer.Open (mmap) and NewReader(os.File): header fields, prefix-table entries, bucket starts, hash positions +-2 and seeded offsets x stored signatures; distinct as in compact-index")
	recs["slot-to-blocktime"].Rule("slot-to-blocktime files (the 1.7 MB epoch file and directly built files of capacity 1..256, all offsets) through FromFile, FromBytes, FromReader and the server sequence openIndexStorage+ReadAllFromReaderAt+FromBytes x every slot that has a block; distinct as in compact-index")
	recs["gsfa"].Rule("gsfa directory (pubkey index, linked log, manifest) through NewGsfaReader + Get / Meta / Version with one of the three files cut x every indexed address; distinct as in compact-index")
	recs["car"].Rule("CAR file cut x every section CID through NewEpochFromConfig + Epoch.GetNodeByCid, local (carv2 reader) and remote (HTTP range reader); distinct as in compact-index")
	recs["epoch-index-files"].Rule("each index file of a loaded epoch cut (others complete) through NewEpochFromConfig (mmap and remote HTTP) + FindOffsetAndSizeFromCid / FindCidFromSlot / FindCidFromSignature / sigExists.Has / GetBlocktime / gsfaReader.Get; distinct as in compact-index")

	recs["rpc"].Rule("one layer up: a server with two epochs loaded (one complete, one with exactly one file cut) asked over JSON-RPC (getTransaction, getBlock, getBlockTime, getSignaturesForAddress) and gRPC (GetTransaction, GetBlock) for every archived key of the cut epoch; same response as with the complete file, or an error response other than not-found (JSON-RPC -32009 / null result, gRPC NotFound); distinct as in compact-index")

	fxs, err := c13BuildFixtures(root, c13Seed())
	if err != nil {
		for _, r := range recs {
			r.Inconclusive("fixtures: " + err.Error())
		}
		t.Fatalf("fixtures: %v", err)
	}
	defer fxs.close()

	var targets []*c13Target
	targets = append(targets, c13CompactTargets(fxs)...)
	targets = append(targets, c13SigExistsTargets(fxs)...)
	targets = append(targets, c13BlocktimeTargets(fxs)...)
	targets = append(targets, c13GsfaTargets(fxs)...)
	targets = append(targets, c13EpochTargets(fxs)...)
	targets = append(targets, c13RpcTargets(fxs)...)
	for _, e := range fxs.setupErrs {
		recs[e.part].Inconclusive(e.msg)
	}

	// expensive targets first so that the pool drains evenly
	sort.SliceStable(targets, func(i, j int) bool { return c13Cost(targets[i]) > c13Cost(targets[j]) })
	sem := make(chan struct{}, 8)
	var wg sync.WaitGroup
	for _, tg := range targets {
		if c13ReplayCase != nil && (tg.Part != c13ReplayCase.Part || tg.Fixture != c13ReplayCase.Fixture || tg.Site != c13ReplayCase.Site) {
			if tg.Cleanup != nil {
				tg.Cleanup()
			}
			continue
		}
		rec := recs[tg.Part]
		if rec == nil {
			t.Fatalf("target %s names unknown part %q", tg.name(), tg.Part)
		}
		tg := tg
		wg.Add(1)
		sem <- struct{}{}
		go func() {
			defer func() { <-sem; wg.Done() }()
			if p := c13Guard(func() { c13Sweep(rec, tg) }); p != "" {
				rec.Inconclusive(fmt.Sprintf("%s: harness panic: %s", tg.name(), p))
			}
		}()
	}
	wg.Wait()
}

// c13Cost: rough relative cost of a target (scheduling only).
func c13Cost(t *c13Target) int64 {
	n := t.Size
	if t.Size > t.ExhaustBelow {
		n = int64(len(t.Bounds)*5 + t.NRandom + 18)
	}
	if t.MaxCuts > 0 && n > int64(t.MaxCuts) {
		n = int64(t.MaxCuts)
	}
	if t.NShards > 1 {
		n /= int64(t.NShards)
	}
	w := int64(1)
	if strings.Contains(t.Site, "remote") {
		w = 4
	}
	switch t.Part {
	case "car", "epoch-index-files", "rpc":
		w *= 400
	case "slot-to-blocktime", "gsfa":
		w = 100
	case "sig-exists":
		w = 50
	}
	return n * w
}
