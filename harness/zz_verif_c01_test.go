//go:build verif

package main

// C01 — every archived object, slot and signature resolves through the generated indexes.
// Workload: cargen CARs over the layout knobs; index generation by the repository's own
// createAllIndexes in a child; lookups (i) through the index readers directly, (ii) through an
// Epoch over the local CAR, (iii) through an Epoch whose CAR and index files are remote (HTTP
// ReaderAt + range cache + Prefetch mode), (iv) through the /api/v1 endpoints.
// Oracle: the generator's section table.

import (
	"bytes"
	"context"
	"fmt"
	"math/rand"
	"os"
	"path/filepath"
	"sync"
	"sync/atomic"
	"testing"
	"time"

	"github.com/ipfs/go-cid"
	"github.com/rpcpool/yellowstone-faithful/blocktimeindex"
	"github.com/rpcpool/yellowstone-faithful/bucketteer"
	"github.com/rpcpool/yellowstone-faithful/indexes"
	"github.com/rpcpool/yellowstone-faithful/zzverif/cargen"
	"github.com/rpcpool/yellowstone-faithful/zzverif/ev"
)

type c01Case struct {
	Name string      `json:"name"`
	Opts cargen.Opts `json:"opts"`
	// RemoteSample: check every k-th section through the remote path (1 = all)
	RemoteSample int `json:"remote_sample"`
	// SharedTmp: scratch directory (under the run's root) shared with another case that runs at the same time
	SharedTmp string `json:"shared_tmp,omitempty"`
	// CancelIndex: the indexer runs with an already cancelled context
	CancelIndex bool `json:"cancel_index,omitempty"`
}

func c01Cases(seed int64) []c01Case {
	rng := rand.New(rand.NewSource(seed ^ 0xC01))
	var cs []c01Case
	epochs := []uint64{1, 7, 700, 0, 123}
	nRandom := ev.Pick(40, 160)
	if os.Getenv("VERIF_RACE") != "" {
		nRandom = ev.Pick(5, 16) // the race-detector run: index generation and lookups on a few CARs
	}
	for i := 0; i < nRandom; i++ {
		o := cargen.Opts{
			Epoch: epochs[rng.Intn(len(epochs))], Seed: seed*7919 + int64(i),
			NSlots: 10 + rng.Intn(290), SkipOneIn: []int{0, 2, 3, 5}[rng.Intn(4)],
			MaxEntries: 1 + rng.Intn(5), MaxTx: rng.Intn(7),
			MultiFrameOneIn: []int{0, 2, 5}[rng.Intn(3)], MaxFrames: []int{3, 8, 60}[rng.Intn(3)],
			BigOneIn: []int{0, 0, 7}[rng.Intn(3)], RewardsOneIn: []int{0, 1, 3}[rng.Intn(3)],
			RootSha512: rng.Intn(3) == 0, EmptyBlockOneIn: []int{0, 4}[rng.Intn(2)],
			TinyOneIn: []int{0, 6}[rng.Intn(2)], LegacyFnvOneIn: []int{0, 3}[rng.Intn(2)],
			VoteOneIn: 4, FailOneIn: 5, V0OneIn: 4, SplitTxData: rng.Intn(2) == 0, SubsetEvery: []int{0, 7}[rng.Intn(2)],
			TrailingJunkFrames: []int{0, 0, 2}[rng.Intn(3)],
			SigEdgeOneIn:       []int{0, 3, 9}[rng.Intn(3)], BlocktimeEdgeOneIn: []int{0, 4}[rng.Intn(2)],
			LastSlot: rng.Intn(4) == 0, HeightStart: []int64{0, 0, -1, 1 << 40}[rng.Intn(4)],
		}
		if i%5 == 0 {
			o.MaxFrames = 60
			o.MultiFrameOneIn = 2
		}
		cs = append(cs, c01Case{Name: fmt.Sprintf("rand-%d", i), Opts: o, RemoteSample: ev.Pick(4, 2)})
	}
	// bucket boundaries (10 000 entries per bucket): blocks and transactions below/at/above
	mk := func(name string, nslots, exactTx int) c01Case {
		return c01Case{Name: name, RemoteSample: 53, Opts: cargen.Opts{Epoch: 9, Seed: seed + int64(nslots*3+exactTx), NSlots: nslots, MaxEntries: 1, MaxTx: 1, ExactTx: exactTx, RewardsOneIn: 50}}
	}
	if os.Getenv("VERIF_RACE") != "" {
		return cs
	}
	cs = append(cs, mk("blocks-10001", 10001, 500))
	cs = append(cs, mk("tx-10000", 400, 10000))
	cs = append(cs, mk("tx-10001", 401, 10001))
	if ev.Thorough() {
		cs = append(cs, mk("blocks-9999", 9999, 300), mk("blocks-10000", 10000, 300), mk("tx-9999", 300, 9999),
			mk("blocks-20001", 20001, 100), mk("tx-20001", 700, 20001), mk("tx-60000", 3000, 60000))
	}
	return cs
}

func c01RunCase(rec *ev.Recorder, c c01Case, root string) {
	dir := filepath.Join(root, c.Name)
	defer os.RemoveAll(dir)
	o := c.Opts
	t0 := time.Now()
	lap := func(what string) {
		rec.Count("ms_"+what, int(time.Since(t0).Milliseconds()))
		t0 = time.Now()
	}
	tmpDir := filepath.Join(dir, "tmp")
	if c.SharedTmp != "" {
		tmpDir = filepath.Join(root, c.SharedTmp)
	}
	fx, indexErr, err := vfMakeEpochOpt(dir, o, false, tmpDir, c.CancelIndex)
	if err != nil {
		rec.Inconclusive(fmt.Sprintf("%s: fixture: %v", c.Name, err))
		return
	}
	lap("generate_and_index")
	m := fx.Model
	if len(m.Blocks) == 0 || len(m.BySig) == 0 {
		// not in the property's domain (needs >= 1 block and >= 1 transaction): regenerate with one forced tx
		o.ExactTx = len(m.Blocks)
		os.RemoveAll(dir)
		fx, indexErr, err = vfMakeEpochTmp(dir, o, false, tmpDir)
		if err != nil {
			rec.Inconclusive(fmt.Sprintf("%s: fixture: %v", c.Name, err))
			return
		}
		m = fx.Model
	}
	if c.CancelIndex {
		// an index run whose context was cancelled: refusing is right; reporting success is right only if
		// every lookup below resolves
		if indexErr != "" {
			rec.Eval(1)
			rec.Count("cancelled_index_runs_that_reported_the_error", 1)
			rec.Distinct("cancelled-index/" + c.Name)
			return
		}
		rec.Count("cancelled_index_runs_that_reported_success", 1)
	}
	if indexErr != "" {
		rec.Violation("index-all/fails-on-well-formed-car", fmt.Sprintf("%s: %s", c.Name, indexErr), c)
		return
	}
	rec.Distinct(m.LayoutSignature())
	rec.Sample(map[string]any{"case": c.Name, "layout": m.LayoutSignature(), "sections": len(m.Sections), "blocks": len(m.Blocks), "txs": len(m.BySig), "car_bytes": m.Size})
	rec.Count("cars", 1)
	rec.Count("sections", len(m.Sections))
	ctx := context.Background()

	// ---- (i) index readers directly
	{
		r, err := indexes.Open_CidToOffsetAndSize(fx.Idx.CidToOffsetAndSize)
		if err != nil {
			rec.Violation("direct/cid-to-offset/open", fmt.Sprintf("%s: %v", c.Name, err), c)
		} else {
			for _, s := range m.Sections {
				rec.Eval(1)
				oas, err := r.Get(s.Cid)
				if err != nil {
					rec.Violation("direct/cid-to-offset/missing", fmt.Sprintf("%s: cid %s: %v", c.Name, s.Cid, err), c)
					continue
				}
				if oas.Offset != s.Offset || oas.Size != s.Len {
					// diagnostic only: what matters is the bytes served (checked below)
					rec.Count("diag_offset_size_differs", 1)
				}
			}
			r.Close()
		}
		sr, err := indexes.Open_SlotToCid(fx.Idx.SlotToCid)
		if err != nil {
			rec.Violation("direct/slot-to-cid/open", fmt.Sprintf("%s: %v", c.Name, err), c)
		} else {
			for _, b := range m.Blocks {
				rec.Eval(1)
				got, err := sr.Get(b.Slot)
				if err != nil || !got.Equals(b.Cid) {
					rec.Violation("direct/slot-to-cid/wrong", fmt.Sprintf("%s: slot %d: got %v err %v want %s", c.Name, b.Slot, got, err, b.Cid), c)
				}
			}
			sr.Close()
		}
		gr, err := indexes.Open_SigToCid(fx.Idx.SigToCid)
		if err != nil {
			rec.Violation("direct/sig-to-cid/open", fmt.Sprintf("%s: %v", c.Name, err), c)
		} else {
			for sig, tx := range m.BySig {
				rec.Eval(1)
				got, err := gr.Get(sig)
				if err != nil || !got.Equals(tx.Cid) {
					rec.Violation("direct/sig-to-cid/wrong", fmt.Sprintf("%s: sig %s: got %v err %v want %s", c.Name, sig, got, err, tx.Cid), c)
				}
			}
			gr.Close()
		}
		br, err := bucketteer.Open(fx.Idx.SigExists)
		if err != nil {
			rec.Violation("direct/sig-exists/open", fmt.Sprintf("%s: %v", c.Name, err), c)
		} else {
			for sig := range m.BySig {
				rec.Eval(1)
				has, err := br.Has(sig)
				if err != nil || !has {
					rec.Violation("direct/sig-exists/false-negative", fmt.Sprintf("%s: sig %s: has=%v err=%v", c.Name, sig, has, err), c)
				}
			}
			br.Close()
		}
		bt, err := blocktimeindex.FromFile(fx.Idx.SlotToBlocktime)
		if err != nil {
			rec.Violation("direct/blocktime/open", fmt.Sprintf("%s: %v", c.Name, err), c)
		} else {
			for _, b := range m.Blocks {
				rec.Eval(1)
				got, err := bt.Get(b.Slot)
				if err != nil || got != b.Blocktime {
					rec.Violation("direct/blocktime/wrong", fmt.Sprintf("%s: slot %d: got %d err %v want %d", c.Name, b.Slot, got, err, b.Blocktime), c)
				}
			}
		}
	}

	lap("direct")
	checkEpoch := func(mode string, ep *Epoch, sample int) {
		defer lap(mode)
		multi := NewMultiEpoch(&Options{EpochSearchConcurrency: 2})
		multi.AddEpoch(m.Epoch, ep)
		h := newMultiEpochHandler(multi, nil)
		for i, s := range m.Sections {
			if sample > 1 && i%sample != 0 && s.Kind != cargen.KindEpoch && s.Kind != cargen.KindSubset {
				continue
			}
			rec.Eval(1)
			got, err := ep.GetNodeByCid(ctx, s.Cid)
			if err != nil {
				rec.Violation(mode+"/cid-lookup/missing", fmt.Sprintf("%s: section %d kind %d cid %s (offset %d len %d): %v", c.Name, i, s.Kind, s.Cid, s.Offset, s.Len, err), c)
				continue
			}
			if !bytes.Equal(got, s.Data) {
				rec.Violation(mode+"/cid-lookup/wrong-bytes", fmt.Sprintf("%s: section %d cid %s: %d bytes returned, %d expected", c.Name, i, s.Cid, len(got), len(s.Data)), c)
			}
		}
		for i, b := range m.Blocks {
			if sample > 1 && i%sample != 0 {
				continue
			}
			rec.Eval(2)
			got, err := ep.FindCidFromSlot(ctx, b.Slot)
			if err != nil || !got.Equals(b.Cid) {
				rec.Violation(mode+"/slot-to-cid/wrong", fmt.Sprintf("%s: slot %d: got %v err %v want %s", c.Name, b.Slot, got, err, b.Cid), c)
			}
			bt, err := ep.GetBlocktime(b.Slot)
			if err != nil || bt != b.Blocktime {
				rec.Violation(mode+"/blocktime/wrong", fmt.Sprintf("%s: slot %d: got %d err %v want %d", c.Name, b.Slot, bt, err, b.Blocktime), c)
			}
			if i%7 == 0 {
				rec.Eval(1)
				st, body := vfGet(h, fmt.Sprintf("/api/v1/slot-to-cid/%d", b.Slot))
				if st != 200 || string(body) != b.Cid.String() {
					rec.Violation(mode+"/api-slot-to-cid/wrong", fmt.Sprintf("%s: slot %d: status %d body %q want %s", c.Name, b.Slot, st, body, b.Cid), c)
				}
			}
		}
		i := 0
		for sig, tx := range m.BySig {
			i++
			if sample > 1 && i%sample != 0 {
				continue
			}
			rec.Eval(2)
			got, err := ep.FindCidFromSignature(ctx, sig)
			if err != nil || !got.Equals(tx.Cid) {
				rec.Violation(mode+"/sig-to-cid/wrong", fmt.Sprintf("%s: sig %s: got %v err %v want %s", c.Name, sig, got, err, tx.Cid), c)
			}
			has, err := ep.sigExists.Has(sig)
			if err != nil || !has {
				rec.Violation(mode+"/sig-exists/false-negative", fmt.Sprintf("%s: sig %s: has=%v err=%v", c.Name, sig, has, err), c)
			}
			if i%7 == 0 {
				rec.Eval(1)
				st, body := vfGet(h, "/api/v1/sig-to-cid/"+sig.String())
				if st != 200 || string(body) != tx.Cid.String() {
					rec.Violation(mode+"/api-sig-to-cid/wrong", fmt.Sprintf("%s: sig %s: status %d body %q want %s", c.Name, sig, st, body, tx.Cid), c)
				}
			}
		}
		// fetch first, look later: the bytes a fetch returned must still be the object's bytes after further
		// fetches have been made (a result that aliases a reused buffer changes under the caller's hands)
		{
			const window = 64
			type held struct {
				i   int
				got []byte
			}
			var hold []held
			nBad, nHeld := 0, 0
			firstBad := ""
			flush := func() {
				for _, h := range hold {
					if !bytes.Equal(h.got, m.Sections[h.i].Data) {
						nBad++
						if firstBad == "" {
							firstBad = fmt.Sprintf("section %d cid %s: %d bytes held, differ from the %d stored bytes", h.i, m.Sections[h.i].Cid, len(h.got), len(m.Sections[h.i].Data))
						}
					}
				}
				hold = hold[:0]
			}
			for i, s := range m.Sections {
				if sample > 1 && i%sample != 0 {
					continue
				}
				got, err := ep.GetNodeByCid(ctx, s.Cid)
				if err != nil {
					continue // judged by the sweep above
				}
				hold = append(hold, held{i, got})
				nHeld++
				if len(hold) == window {
					flush()
				}
			}
			flush()
			rec.Eval(nHeld)
			if nBad > 0 {
				rec.Violation(mode+"/cid-lookup/bytes-change-after-later-fetches", fmt.Sprintf("%s: %d of %d fetched objects no longer held their bytes after up to %d further fetches; first: %s", c.Name, nBad, nHeld, window, firstBad), c)
			}
		}
		// concurrent fetches: the same lookups from 8 goroutines at once (a reader shared between requests,
		// e.g. a seekable data reader, only shows when two fetches are in flight)
		{
			var wg sync.WaitGroup
			var bad atomic.Int64
			var firstBad atomic.Value
			nConc := 0
			for g := 0; g < 8; g++ {
				wg.Add(1)
				go func(g int) {
					defer wg.Done()
					for i := g; i < len(m.Sections); i += 8 {
						if sample > 1 && (i/8)%sample != 0 {
							continue
						}
						s := m.Sections[i]
						got, err := ep.GetNodeByCid(ctx, s.Cid)
						if err != nil || !bytes.Equal(got, s.Data) {
							if bad.Add(1) == 1 {
								firstBad.Store(fmt.Sprintf("section %d cid %s: err=%v, %d bytes returned, %d expected", i, s.Cid, err, len(got), len(s.Data)))
							}
						}
					}
				}(g)
			}
			wg.Wait()
			for i := range m.Sections {
				if !(sample > 1 && (i/8)%sample != 0) {
					nConc++
				}
			}
			rec.Eval(nConc)
			if n := bad.Load(); n > 0 {
				rec.Violation(mode+"/cid-lookup/wrong-under-concurrent-fetches", fmt.Sprintf("%s: %d of %d concurrent fetches failed; first: %v", c.Name, n, nConc, firstBad.Load()), c)
			}
		}
		if ep.rootCid != (cid.Cid{}) && !ep.rootCid.Equals(m.Root) {
			rec.Violation(mode+"/root-cid/wrong", fmt.Sprintf("%s: epoch root %s want %s", c.Name, ep.rootCid, m.Root), c)
		}
	}

	// ---- (ii) Epoch over the local CAR
	{
		ep, err := fx.vfLoad(vfNewCache())
		if err != nil {
			rec.Violation("local/epoch-load-fails", fmt.Sprintf("%s: %v", c.Name, err), c)
		} else {
			checkEpoch("local", ep, 1)
			ep.Close()
		}
	}
	// ---- (iii) Epoch with remote CAR and remote index files
	{
		srv := vfServeDir(fx.Dir)
		if err := fx.writeConfig(srv.URL, nil); err != nil {
			rec.Inconclusive(fmt.Sprintf("%s: %v", c.Name, err))
		} else {
			ep, err := fx.vfLoad(vfNewCache())
			if err != nil {
				rec.Violation("remote/epoch-load-fails", fmt.Sprintf("%s: %v", c.Name, err), c)
			} else {
				checkEpoch("remote", ep, c.RemoteSample)
				ep.Close()
			}
		}
		srv.Close()
	}
}

func TestVerifC01(t *testing.T) {
	rec := ev.New("C01", "index-all")
	defer rec.Flush()
	rec.Rule("cargen CARs (random shapes + bucket-boundary item counts) indexed by createAllIndexes; every section/slot/signature looked up via index readers, local Epoch (one fetch at a time and 8 at once), remote Epoch, /api/v1; pairs of same-epoch CARs indexed concurrently with a shared scratch directory; distinct = distinct layout signatures (epoch, header length, varint-width set, item-count classes, max frame chain)")
	root := filepath.Join(ev.Scratch(), "c01")
	os.MkdirAll(root, 0o755)
	defer os.RemoveAll(root)
	var rc c01Case
	cases := c01Cases(ev.Seed())
	if ev.LoadReplay(&rc) {
		cases = []c01Case{rc}
	}
	sem := make(chan struct{}, 4)
	var wg sync.WaitGroup
	for _, c := range cases {
		if rec.Enough() {
			break
		}
		c := c
		wg.Add(1)
		sem <- struct{}{}
		go func() {
			defer func() { <-sem; wg.Done() }()
			c01RunCase(rec, c, root)
		}()
	}
	wg.Wait()
	// index runs whose context is cancelled (an early SIGINT): an error, or complete indexes - never success
	// with lookups missing
	if !ev.LoadReplay(&rc) && os.Getenv("VERIF_RACE") == "" {
		for k := 0; k < ev.Pick(2, 8) && !rec.Enough(); k++ {
			o := cargen.Opts{Epoch: uint64(60 + k), Seed: ev.Seed()*131 + int64(k), NSlots: 30 + 200*k, SkipOneIn: 4, MaxEntries: 2, MaxTx: 3, MultiFrameOneIn: 6, VoteOneIn: 4, FailOneIn: 4}
			c01RunCase(rec, c01Case{Name: fmt.Sprintf("cancelled-%d", k), Opts: o, CancelIndex: true}, root)
		}
	}
	// two CARs of the same epoch number (think of two networks, or two attempts) indexed at the same time by
	// two `index` processes that were given the same scratch directory: each run must still come out complete
	if !ev.LoadReplay(&rc) {
		nTwins := ev.Pick(3, 12)
		if os.Getenv("VERIF_RACE") != "" {
			nTwins = 1
		}
		for k := 0; k < nTwins && !rec.Enough(); k++ {
			var tw sync.WaitGroup
			for side := 0; side < 2; side++ {
				o := cargen.Opts{Epoch: uint64(40 + k), Seed: ev.Seed()*977 + int64(k*2+side), NSlots: 500 + 60*k, SkipOneIn: 4, MaxEntries: 2, MaxTx: 3, MultiFrameOneIn: 6, RewardsOneIn: 5, VoteOneIn: 4, FailOneIn: 4, V0OneIn: 4}
				c := c01Case{Name: fmt.Sprintf("twin-%d-%c", k, 'a'+side), Opts: o, SharedTmp: fmt.Sprintf("twin-%d-tmp", k)}
				tw.Add(1)
				go func() {
					defer tw.Done()
					c01RunCase(rec, c, root)
				}()
			}
			tw.Wait()
			rec.Count("twin_index_runs_sharing_a_scratch_dir", 2)
		}
	}
}
