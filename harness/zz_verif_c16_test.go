//go:build verif

package main

// C16 (splitter half) — `split-car` writes every block together with all of its objects,
// byte-identical and in the original order, into exactly one piece, and the sizes recorded in the
// metadata (epoch-N-metadata.yaml, metadata csv) match the files written; what the split reader then
// serves from those pieces is the original header followed by each piece's content.
//
// Workload: cargen epochs over the layout knobs (interleaved Subset nodes, multi-frame payloads,
// sections > 16 KiB, rewards, sha2-512 root = longer original header, orphan frames after the last
// block) x target sizes derived from the model's block-family sizes (one piece, one piece per block,
// first piece holding exactly k families: exact fit / one byte less / one byte more, fractions of the
// total).  The real command runs through cli.App.Run in a child process whose cwd is a scratch
// directory (the command writes its yaml into the cwd, and its flusher goroutine panics on errors).
// Oracle: every piece is parsed with cargen.ParseCar (independent parser) and compared section by
// section with the generator's section table; recorded sizes are compared with os.Stat.

import (
	"bytes"
	"encoding/base64"
	"encoding/csv"
	"encoding/json"
	"fmt"
	"math/rand"
	"os"
	"path/filepath"
	"sort"
	"strconv"
	"strings"
	"sync"
	"testing"
	"time"

	"github.com/anjor/carlet"
	"github.com/ipfs/go-cid"
	splitcarfetcher "github.com/rpcpool/yellowstone-faithful/split-car-fetcher"
	"github.com/rpcpool/yellowstone-faithful/zzverif/cargen"
	"github.com/rpcpool/yellowstone-faithful/zzverif/ev"
	"github.com/urfave/cli/v2"
)

// ---------------------------------------------------------------- child role

type c16SplitJob struct {
	Car    string `json:"car"`
	OutDir string `json:"out_dir"`
	Epoch  uint64 `json:"epoch"`
	Size   int64  `json:"size"`
}

type c16SplitArgs struct {
	Jobs []c16SplitJob `json:"jobs"`
}

// each job leaves <OutDir>/DONE ("ok" or the error text) so that the parent can attribute a death
func init() {
	vfChildRoles["c16split"] = func(raw json.RawMessage) (any, error) {
		var a c16SplitArgs
		if err := json.Unmarshal(raw, &a); err != nil {
			return nil, err
		}
		for _, j := range a.Jobs {
			if err := os.MkdirAll(j.OutDir, 0o755); err != nil {
				return nil, err
			}
			if err := os.Chdir(j.OutDir); err != nil {
				return nil, err
			}
			app := &cli.App{Commands: []*cli.Command{newCmd_SplitCar(), newCmd_MergeCars()}}
			err := app.Run([]string{"x", "split-car", "--size", fmt.Sprint(j.Size), "--epoch", fmt.Sprint(j.Epoch),
				"--metadata", filepath.Join(j.OutDir, "metadata.csv"), "--output-dir", j.OutDir, j.Car})
			res := "ok"
			if err != nil {
				res = "error: " + err.Error()
			} else {
				// diagnostic only: merge the pieces back (merge-cars is not part of the statement)
				pieces := c16PieceFiles(j.OutDir, j.Epoch)
				margs := append([]string{"x", "merge-cars", "-o", filepath.Join(j.OutDir, "merged.out")}, pieces...)
				if merr := app.Run(margs); merr != nil {
					os.WriteFile(filepath.Join(j.OutDir, "MERGE-ERR"), []byte(merr.Error()), 0o644)
				}
			}
			if err := os.WriteFile(filepath.Join(j.OutDir, "DONE"), []byte(res), 0o644); err != nil {
				return nil, err
			}
		}
		return "done", nil
	}
}

// c16PieceFiles lists epoch-<E>-<k>.car in dir ordered by k.
func c16PieceFiles(dir string, epoch uint64) []string {
	m, _ := filepath.Glob(filepath.Join(dir, fmt.Sprintf("epoch-%d-*.car", epoch)))
	num := func(p string) int {
		b := strings.TrimSuffix(filepath.Base(p), ".car")
		n, _ := strconv.Atoi(b[strings.LastIndex(b, "-")+1:])
		return n
	}
	sort.Slice(m, func(i, j int) bool { return num(m[i]) < num(m[j]) })
	return m
}

// ---------------------------------------------------------------- cases

type c16Target struct {
	Size int64  `json:"size"`
	Why  string `json:"why"`
}

type c16SplitCase struct {
	Name   string      `json:"name"`
	Opts   cargen.Opts `json:"opts"`
	Target c16Target   `json:"target"`
}

type c16CarCase struct {
	Name     string
	Opts     cargen.Opts
	NTargets int
	Targets  []c16Target // when set: exactly these targets
}

func c16CarCases(seed int64) []c16CarCase {
	rng := rand.New(rand.NewSource(seed ^ 0xC16))
	var cs []c16CarCase
	// directed shapes first
	cs = append(cs,
		c16CarCase{Name: "two-blocks", NTargets: 8, Opts: cargen.Opts{Epoch: 1, Seed: seed + 1, NSlots: 2, MaxEntries: 2, MaxTx: 2}},
		c16CarCase{Name: "one-block", NTargets: 4, Opts: cargen.Opts{Epoch: 0, Seed: seed + 2, NSlots: 1, MaxEntries: 1, MaxTx: 2}},
		c16CarCase{Name: "subsets-interleaved", NTargets: 10, Opts: cargen.Opts{Epoch: 7, Seed: seed + 3, NSlots: 24, SkipOneIn: 4, MaxEntries: 3, MaxTx: 3, SubsetEvery: 3, RewardsOneIn: 2, MultiFrameOneIn: 3, MaxFrames: 12, VoteOneIn: 4, FailOneIn: 5, V0OneIn: 4}},
		c16CarCase{Name: "big-sections-sha512", NTargets: 10, Opts: cargen.Opts{Epoch: 700, Seed: seed + 4, NSlots: 12, MaxEntries: 2, MaxTx: 3, BigOneIn: 3, RootSha512: true, RewardsOneIn: 3, MultiFrameOneIn: 2, MaxFrames: 60, LegacyFnvOneIn: 3}},
		// blocks that own more objects than the accumulator's 5 000-slot group buffer (one of them exactly one
		// more than twice that)
		c16CarCase{Name: "huge-blocks", NTargets: 4, Opts: cargen.Opts{Epoch: 2, Seed: seed + 8, NSlots: 3, MaxEntries: 2, MaxTx: 3, ExactTx: 16000, VoteOneIn: 4, FailOneIn: 5}},
		c16CarCase{Name: "empty-blocks-orphans", NTargets: 8, Opts: cargen.Opts{Epoch: 3, Seed: seed + 5, NSlots: 30, EmptyBlockOneIn: 2, MaxEntries: 2, MaxTx: 1, TinyOneIn: 2, TrailingJunkFrames: 3, LastSlot: true}},
	)
	nRandom := ev.Pick(14, 150)
	epochs := []uint64{1, 7, 700, 0, 123}
	for i := 0; i < nRandom; i++ {
		o := cargen.Opts{
			Epoch: epochs[rng.Intn(len(epochs))], Seed: seed*7919 + int64(i),
			NSlots: 2 + rng.Intn(ev.Pick(60, 250)), SkipOneIn: []int{0, 2, 5}[rng.Intn(3)],
			MaxEntries: 1 + rng.Intn(4), MaxTx: 1 + rng.Intn(5),
			MultiFrameOneIn: []int{0, 2, 5}[rng.Intn(3)], MaxFrames: []int{3, 8, 60}[rng.Intn(3)],
			BigOneIn: []int{0, 0, 9}[rng.Intn(3)], RewardsOneIn: []int{0, 1, 3}[rng.Intn(3)],
			RootSha512: rng.Intn(3) == 0, EmptyBlockOneIn: []int{0, 4}[rng.Intn(2)],
			TinyOneIn: []int{0, 6}[rng.Intn(2)], LegacyFnvOneIn: []int{0, 3}[rng.Intn(2)],
			VoteOneIn: 4, FailOneIn: 5, V0OneIn: 4, SubsetEvery: []int{0, 1, 7}[rng.Intn(3)],
			TrailingJunkFrames: []int{0, 0, 2}[rng.Intn(3)],
		}
		cs = append(cs, c16CarCase{Name: fmt.Sprintf("rand-%d", i), Opts: o, NTargets: ev.Pick(7, 8)})
	}
	if ev.Thorough() {
		// more blocks than the per-piece link limit (432000/18 = 24000): a new piece is forced by the limit
		cs = append(cs, c16CarCase{Name: "link-limit", Targets: []c16Target{{Size: 1 << 40, Why: "one piece by size; the link limit forces a second"}}, Opts: cargen.Opts{Epoch: 9, Seed: seed + 6, NSlots: 24005, EmptyBlockOneIn: 1, MaxEntries: 1, MaxTx: 1}})
	}
	return cs
}

// c16Family is a block with all of its objects (the sections between the previous block and this
// block, Subset/Epoch nodes excluded), as laid out in the original CAR.
type c16Family struct {
	Slot  uint64
	First int // index into the expected sequence
	N     int
	Bytes int64
}

type c16Expected struct {
	fileBytes []byte
	secs      []cargen.Section // expected sequence: all sections of all families, original order
	fams      []c16Family
	orphans   int // sections after the last block that belong to no block (not demanded by the statement)
	orphanCid map[string]bool
	byCid     map[string]int
}

func c16Expect(m *cargen.Model) (*c16Expected, error) {
	b, err := os.ReadFile(m.Path)
	if err != nil {
		return nil, err
	}
	e := &c16Expected{fileBytes: b, byCid: map[string]int{}, orphanCid: map[string]bool{}}
	start := 0
	var bytesAcc int64
	bi := 0
	for _, s := range m.Sections {
		if s.Kind == cargen.KindSubset || s.Kind == cargen.KindEpoch {
			continue
		}
		e.secs = append(e.secs, s)
		bytesAcc += int64(s.Len)
		if s.Kind == cargen.KindBlock {
			if bi >= len(m.Blocks) {
				return nil, fmt.Errorf("model inconsistent: more block sections than blocks")
			}
			e.fams = append(e.fams, c16Family{Slot: m.Blocks[bi].Slot, First: start, N: len(e.secs) - start, Bytes: bytesAcc})
			bi++
			start = len(e.secs)
			bytesAcc = 0
		}
	}
	e.orphans = len(e.secs) - start
	for _, s := range e.secs[start:] {
		e.orphanCid[s.Cid.KeyString()] = true
	}
	e.secs = e.secs[:start]
	for i, s := range e.secs {
		e.byCid[s.Cid.KeyString()] = i
	}
	return e, nil
}

func (e *c16Expected) raw(i int) []byte {
	s := e.secs[i]
	return e.fileBytes[s.Offset : s.Offset+s.Len]
}

func c16Targets(rng *rand.Rand, e *c16Expected, pieceHdr int64, n int) []c16Target {
	var total, maxFam int64
	for _, f := range e.fams {
		total += f.Bytes
		if f.Bytes > maxFam {
			maxFam = f.Bytes
		}
	}
	N := len(e.fams)
	prefix := func(k int) int64 {
		var s int64
		for _, f := range e.fams[:k] {
			s += f.Bytes
		}
		return s
	}
	var out []c16Target
	seen := map[int64]bool{}
	add := func(sz int64, why string) {
		if sz < 1 || seen[sz] {
			return
		}
		seen[sz] = true
		out = append(out, c16Target{Size: sz, Why: why})
	}
	add(1<<40, "one piece")
	add(1, "one piece per block (nothing fits)")
	add(pieceHdr+total, "everything fits exactly")
	add(pieceHdr+total-1, "everything but one byte fits")
	add(pieceHdr+maxFam, "largest family fits alone exactly")
	if N >= 2 {
		ks := []int{1, N - 1, N / 2}
		for i := 0; i < 3; i++ {
			ks = append(ks, 1+rng.Intn(N-1))
		}
		for _, k := range ks {
			if k < 1 || k >= N {
				continue
			}
			add(pieceHdr+prefix(k), fmt.Sprintf("first %d families fit exactly", k))
			add(pieceHdr+prefix(k)-1, fmt.Sprintf("first %d families miss by one byte", k))
			add(pieceHdr+prefix(k)+1, fmt.Sprintf("first %d families fit with one byte to spare", k))
		}
		add(pieceHdr+total/2, "half")
		add(pieceHdr+total/3, "third")
		add(pieceHdr+total/int64(2+rng.Intn(9)), "fraction")
	}
	if len(out) > n {
		// keep the first four (1 piece, N pieces, exact total, total-1) and a seed-driven choice of the rest
		head, tail := out[:4], out[4:]
		rng.Shuffle(len(tail), func(i, j int) { tail[i], tail[j] = tail[j], tail[i] })
		keep := n - 4
		if keep < 0 {
			keep = 0
		}
		if n < 4 {
			head = head[:n]
		}
		out = append(append([]c16Target{}, head...), tail[:keep]...)
	}
	return out
}

// ---------------------------------------------------------------- monitor

// c16Vio records at most c16MaxPerKey witnesses per violation key and counts the rest: a defect that
// shows on every split (e.g. a listed known finding) must not exhaust rec.Enough() and thereby end the
// exploration before the other CARs and targets were looked at.  The case list is finite either way.
const c16MaxPerKey = 2

var c16VioSeen = map[string]int{}

func c16Vio(rec *ev.Recorder, key, detail string, replay any) {
	c16VioSeen[key]++
	if c16VioSeen[key] > c16MaxPerKey {
		rec.Count("further_occurrences:"+key, 1)
		return
	}
	rec.Violation(key, detail, replay)
}

func TestVerifC16Split(t *testing.T) {
	rec := ev.New("C16", "split")
	defer func() {
		if err := rec.Flush(); err != nil {
			t.Errorf("evidence fragment not written: %v", err)
		}
	}()
	rec.Rule("distinct = (CAR layout signature, target size) splits that produced >= 2 pieces and whose pieces were all parsed and compared; counter splits_one_piece counts the single-piece splits")
	root, err := os.MkdirTemp(ev.Scratch(), "c16s")
	if err != nil {
		t.Fatalf("scratch: %v", err)
	}
	defer os.RemoveAll(root)

	var rc c16SplitCase
	if os.Getenv("VERIF_REPLAY") != "" && (!ev.LoadReplay(&rc) || rc.Target.Size <= 0 || rc.Name == "") {
		rec.Note("replay", "the replay file is not a split case; nothing to do in this part")
		return
	}
	if ev.LoadReplay(&rc) {
		rec.Distinct("replay")
		rec.Distinct("replay2")
		c16RunCar(rec, root, c16CarCase{Name: rc.Name, Opts: rc.Opts}, []c16Target{rc.Target})
		return
	}
	for _, c := range c16CarCases(ev.Seed()) {
		if rec.Enough() {
			break
		}
		c16RunCar(rec, root, c, nil)
	}
}

func c16RunCar(rec *ev.Recorder, root string, c c16CarCase, forced []c16Target) {
	dir := filepath.Join(root, c.Name)
	if err := os.MkdirAll(dir, 0o755); err != nil {
		rec.Inconclusive(fmt.Sprintf("%s: scratch: %v", c.Name, err))
		return
	}
	defer os.RemoveAll(dir)
	carPath := filepath.Join(dir, fmt.Sprintf("epoch-%d.car", c.Opts.Epoch))
	m, err := cargen.Generate(carPath, c.Opts)
	if err != nil {
		rec.Inconclusive(fmt.Sprintf("%s: generator: %v", c.Name, err))
		return
	}
	exp, err := c16Expect(m)
	if err != nil {
		rec.Inconclusive(fmt.Sprintf("%s: model: %v", c.Name, err))
		return
	}
	rec.Count("cars", 1)
	rec.Count("car_blocks", len(exp.fams))
	rec.Count("car_orphan_sections_not_demanded", exp.orphans)
	targets := forced
	if targets == nil {
		targets = c.Targets
	}
	if targets == nil {
		rng := rand.New(rand.NewSource(ev.Seed()*131 + int64(len(c.Name))*17 + c.Opts.Seed))
		targets = c16Targets(rng, exp, int64(hdrSize), c.NTargets)
	}
	jobs := make([]c16SplitJob, len(targets))
	for i, tg := range targets {
		jobs[i] = c16SplitJob{Car: carPath, OutDir: filepath.Join(dir, fmt.Sprintf("out-%d", i)), Epoch: c.Opts.Epoch, Size: tg.Size}
	}
	// run the jobs in children; a death is attributed to the first job without a DONE marker
	next := 0
	for next < len(jobs) && !rec.Enough() {
		r := vfRunChild("c16split", c16SplitArgs{Jobs: jobs[next:]}, 10*time.Minute)
		progressed := false
		for next < len(jobs) {
			if _, err := os.Stat(filepath.Join(jobs[next].OutDir, "DONE")); err != nil {
				break
			}
			c16Judge(rec, c, m, exp, targets[next], jobs[next])
			os.RemoveAll(jobs[next].OutDir)
			next++
			progressed = true
		}
		if next >= len(jobs) {
			break
		}
		sc := c16SplitCase{Name: c.Name, Opts: c.Opts, Target: targets[next]}
		switch {
		case r.TimedOut:
			rec.Inconclusive(fmt.Sprintf("%s target=%d: split child hit the wall-clock watchdog", c.Name, targets[next].Size))
		case r.ExitErr != nil && (strings.Contains(r.Output, "panic:") || strings.Contains(r.Output, "fatal error:")):
			rec.Eval(1)
			c16Vio(rec, "split-car/process-death", fmt.Sprintf("%s target=%d (%s): the command killed its process on a well-formed epoch CAR: %v\n%s", c.Name, targets[next].Size, targets[next].Why, r.ExitErr, c16Tail(r.Output, 1500)), sc)
		default:
			rec.Inconclusive(fmt.Sprintf("%s target=%d: child ended without a result (exit=%v err=%q progressed=%v): %s", c.Name, targets[next].Size, r.ExitErr, r.Err, progressed, c16Tail(r.Output, 300)))
		}
		os.RemoveAll(jobs[next].OutDir)
		next++ // continue with the jobs after the one that did not finish
	}
}

func c16Tail(s string, n int) string {
	if len(s) > n {
		return s[len(s)-n:]
	}
	return s
}

// c16Kind reads the kind of a ledger node from its dag-cbor bytes (array header, small uint).
func c16Kind(data []byte) int {
	if len(data) >= 2 && data[0]>>5 == 4 && data[1] < 24 {
		return int(data[1])
	}
	return -1
}

type c16Piece struct {
	path          string
	bytes         []byte
	hdrLen        uint64
	roots         []cid.Cid
	secs          []cargen.RawSection
	nContent      int    // number of non-Subset/Epoch sections
	trailing      uint64 // bytes of the Subset/Epoch sections that follow the last content section
	misplacedMeta int    // Subset/Epoch sections found before a content section
}

type c16ReadOnlyPiece struct {
	f    *os.File
	size int64
}

func (p *c16ReadOnlyPiece) ReadAt(b []byte, off int64) (int, error) { return p.f.ReadAt(b, off) }
func (p *c16ReadOnlyPiece) Close() error                            { return p.f.Close() }
func (p *c16ReadOnlyPiece) Size() int64                             { return p.size }

func c16Judge(rec *ev.Recorder, c c16CarCase, m *cargen.Model, exp *c16Expected, tg c16Target, job c16SplitJob) {
	sc := c16SplitCase{Name: c.Name, Opts: c.Opts, Target: tg}
	where := fmt.Sprintf("%s target=%d (%s)", c.Name, tg.Size, tg.Why)
	rec.Eval(1)
	rec.Count("splits", 1)
	done, _ := os.ReadFile(filepath.Join(job.OutDir, "DONE"))
	if string(done) != "ok" {
		c16Vio(rec, "split-car/fails-on-well-formed-car", fmt.Sprintf("%s: %s", where, done), sc)
		return
	}
	files := c16PieceFiles(job.OutDir, job.Epoch)
	if len(files) == 0 {
		c16Vio(rec, "split-car/no-piece-written", where+": the command reported success and wrote no piece", sc)
		return
	}
	// ---- parse the pieces with the generator's parser
	pieces := make([]*c16Piece, len(files))
	for i, p := range files {
		b, err := os.ReadFile(p)
		if err != nil {
			rec.Inconclusive(fmt.Sprintf("%s: %v", where, err))
			return
		}
		roots, hl, secs, err := cargen.ParseCar(b)
		if err != nil {
			c16Vio(rec, "split-car/piece-not-a-car", fmt.Sprintf("%s: piece %s does not parse as CARv1: %v", where, filepath.Base(p), err), sc)
			return
		}
		pc := &c16Piece{path: p, bytes: b, hdrLen: hl, roots: roots, secs: secs}
		for _, s := range secs {
			k := c16Kind(s.Data)
			if k == cargen.KindSubset || k == cargen.KindEpoch {
				pc.trailing += s.Len
			} else {
				pc.nContent++
				if pc.trailing > 0 {
					pc.misplacedMeta++
				}
				pc.trailing = 0
			}
		}
		pieces[i] = pc
	}
	// ---- (1) every block with all of its objects, byte-identical, original order, exactly once
	idx := 0
	var ends []int // cumulative number of content sections at the end of each piece
	ok := true
compare:
	for pi, pc := range pieces {
		for _, s := range pc.secs {
			k := c16Kind(s.Data)
			if k == cargen.KindSubset || k == cargen.KindEpoch {
				continue
			}
			raw := pc.bytes[s.Offset : s.Offset+s.Len]
			if idx < len(exp.secs) && bytes.Equal(raw, exp.raw(idx)) {
				idx++
				continue
			}
			j, known := exp.byCid[s.Cid.KeyString()]
			if !known && exp.orphanCid[s.Cid.KeyString()] {
				// an object of the original that belongs to no block: the statement neither demands nor forbids it
				rec.Count("diag_orphan_section_written", 1)
				continue
			}
			ok = false
			switch {
			case !known:
				c16Vio(rec, "split-car/foreign-section", fmt.Sprintf("%s: piece %d contains section %s (kind %d) that is no object of any block of the original", where, pi+1, s.Cid, k), sc)
			case idx >= len(exp.secs) || j < idx:
				c16Vio(rec, "split-car/section-written-twice", fmt.Sprintf("%s: piece %d repeats section #%d %s", where, pi+1, j, s.Cid), sc)
			case j == idx:
				c16Vio(rec, "split-car/section-bytes-differ", fmt.Sprintf("%s: piece %d section #%d %s: %d bytes written, original has %d; not byte-identical", where, pi+1, j, s.Cid, len(raw), exp.secs[idx].Len), sc)
			default:
				// the expected section idx was skipped: written later (order) or never (missing)?
				later := false
				want := exp.secs[idx].Cid
				for _, q := range pieces {
					for _, qs := range q.secs {
						if qs.Cid.Equals(want) {
							later = true
						}
					}
				}
				if later {
					c16Vio(rec, "split-car/order-changed", fmt.Sprintf("%s: piece %d has section #%d (kind %d) where #%d (kind %d) is due; the original order is not kept", where, pi+1, j, exp.secs[j].Kind, idx, exp.secs[idx].Kind), sc)
				} else {
					c16Vio(rec, "split-car/section-missing", fmt.Sprintf("%s: section #%d %s (kind %d, slot family of offset %d) is in no piece", where, idx, want, exp.secs[idx].Kind, exp.secs[idx].Offset), sc)
				}
			}
			break compare
		}
		ends = append(ends, idx)
	}
	if ok && idx < len(exp.secs) {
		ok = false
		c16Vio(rec, "split-car/section-missing", fmt.Sprintf("%s: the pieces end after %d of %d sections; section #%d %s (kind %d) and all later ones are in no piece", where, idx, len(exp.secs), idx, exp.secs[idx].Cid, exp.secs[idx].Kind), sc)
	}
	if ok {
		famEnd := map[int]bool{0: true}
		for _, f := range exp.fams {
			famEnd[f.First+f.N] = true
		}
		for pi, e := range ends {
			if !famEnd[e] {
				ok = false
				c16Vio(rec, "split-car/block-split-across-pieces", fmt.Sprintf("%s: piece %d ends after section #%d, inside a block's family", where, pi+1, e), sc)
				break
			}
		}
	}
	for _, pc := range pieces {
		if pc.misplacedMeta > 0 {
			rec.Count("diag_subset_or_epoch_node_before_content", 1)
		}
		if pc.nContent == 0 {
			rec.Count("diag_piece_without_block", 1)
		}
	}

	// ---- (2) recorded sizes against the files
	metaPath := filepath.Join(job.OutDir, fmt.Sprintf("epoch-%d-metadata.yaml", job.Epoch))
	meta, err := splitcarfetcher.MetadataFromYaml(metaPath)
	var cp *carlet.CarPiecesAndMetadata
	if err != nil || meta == nil || meta.CarPieces == nil {
		c16Vio(rec, "split-car/metadata-yaml-unreadable", fmt.Sprintf("%s: %v", where, err), sc)
	} else {
		cp = meta.CarPieces
		hb, derr := base64.StdEncoding.DecodeString(cp.OriginalCarHeader)
		origHdr := exp.fileBytes[:m.HeaderLen]
		// the original header as stored: bytes after the length prefix
		_, pfx := c16Uvarint(origHdr)
		if derr != nil || cp.OriginalCarHeaderSize != m.HeaderLen || !bytes.Equal(hb, origHdr[pfx:]) {
			c16Vio(rec, "split-car/metadata-original-header", fmt.Sprintf("%s: recorded original header size=%d (%d decoded bytes, err=%v), the original CAR's header is %d bytes incl. prefix", where, cp.OriginalCarHeaderSize, len(hb), derr, m.HeaderLen), sc)
		}
		if len(cp.CarPieces) != len(pieces) {
			c16Vio(rec, "split-car/metadata-piece-count", fmt.Sprintf("%s: yaml lists %d pieces, %d files written", where, len(cp.CarPieces), len(pieces)), sc)
		}
		for i, cf := range cp.CarPieces {
			if i >= len(pieces) {
				break
			}
			pc := pieces[i]
			if filepath.Base(cf.Name) != filepath.Base(pc.path) {
				rec.Count("diag_yaml_piece_name_differs", 1)
			}
			disk := uint64(len(pc.bytes))
			if cf.HeaderSize != pc.hdrLen {
				c16Vio(rec, "split-car/metadata-header-size-mismatch", fmt.Sprintf("%s: piece %d: yaml headerSize=%d, the file's header is %d bytes", where, i+1, cf.HeaderSize, pc.hdrLen), sc)
			}
			sum := cf.HeaderSize + cf.ContentSize
			switch {
			case sum == disk:
			case pc.trailing > 0 && sum+pc.trailing == disk:
				c16Vio(rec, "split-car/metadata-size-excludes-trailing-nodes", fmt.Sprintf("%s: piece %d (%s): yaml headerSize+contentSize=%d, file on disk=%d; the %d bytes of the Subset/Epoch node(s) written after the size was taken are not recorded (NewSplitCarReader refuses such a local piece: size check)", where, i+1, filepath.Base(pc.path), sum, disk, pc.trailing), sc)
			default:
				c16Vio(rec, "split-car/metadata-size-mismatch", fmt.Sprintf("%s: piece %d (%s): yaml headerSize+contentSize=%d, file on disk=%d (trailing Subset/Epoch nodes: %d bytes)", where, i+1, filepath.Base(pc.path), sum, disk, pc.trailing), sc)
			}
		}
	}
	c16JudgeCsv(rec, where, sc, filepath.Join(job.OutDir, "metadata.csv"), pieces)

	// ---- (3) what the split reader serves from these pieces with this metadata
	if cp != nil && len(cp.CarPieces) == len(pieces) {
		c16JudgeReader(rec, where, sc, cp, pieces, exp, m, ok)
	}
	c16Diagnostics(rec, job, pieces, exp, tg)

	if ok && len(exp.fams) > maxLinks {
		var per []int
		for _, pc := range pieces {
			n := 0
			for _, s := range pc.secs {
				if c16Kind(s.Data) == cargen.KindBlock {
					n++
				}
			}
			per = append(per, n)
		}
		if len(per) <= 8 {
			rec.Note("link_limit_blocks_per_piece", per)
		}
		rec.Count("splits_beyond_link_limit", 1)
	}
	if ok {
		if len(pieces) >= 2 {
			rec.Distinct(fmt.Sprintf("%s|target=%d", m.LayoutSignature(), tg.Size))
			rec.Count("splits_multi_piece", 1)
		} else {
			rec.Count("splits_one_piece", 1)
		}
		rec.Count("pieces", len(pieces))
		rec.Count("sections_compared", len(exp.secs))
		rec.Sample(map[string]any{"car": c.Name, "layout": m.LayoutSignature(), "blocks": len(exp.fams), "sections": len(exp.secs), "target": tg, "pieces": len(pieces)})
	}
}

func c16Uvarint(b []byte) (uint64, int) {
	var x uint64
	var s uint
	for i, c := range b {
		if c < 0x80 {
			return x | uint64(c)<<s, i + 1
		}
		x |= uint64(c&0x7f) << s
		s += 7
	}
	return 0, 0
}

func c16JudgeCsv(rec *ev.Recorder, where string, sc c16SplitCase, path string, pieces []*c16Piece) {
	f, err := os.Open(path)
	if err != nil {
		c16Vio(rec, "split-car/metadata-csv-unreadable", fmt.Sprintf("%s: %v", where, err), sc)
		return
	}
	defer f.Close()
	rows, err := csv.NewReader(f).ReadAll()
	if err != nil || len(rows) == 0 {
		c16Vio(rec, "split-car/metadata-csv-unreadable", fmt.Sprintf("%s: %v (%d rows)", where, err, len(rows)), sc)
		return
	}
	col := -1
	nameCol := -1
	for i, h := range rows[0] {
		if h == "file size" {
			col = i
		}
		if h == "car file" {
			nameCol = i
		}
	}
	if col < 0 || nameCol < 0 {
		rec.Count("diag_csv_columns_renamed", 1)
		return
	}
	rows = rows[1:]
	if len(rows) != len(pieces) {
		c16Vio(rec, "split-car/metadata-piece-count", fmt.Sprintf("%s: csv lists %d pieces, %d files written", where, len(rows), len(pieces)), sc)
	}
	for i, r := range rows {
		if i >= len(pieces) {
			break
		}
		pc := pieces[i]
		got, perr := strconv.ParseUint(r[col], 10, 64)
		disk := uint64(len(pc.bytes))
		switch {
		case perr == nil && got == disk:
		case perr == nil && pc.trailing > 0 && got+pc.trailing == disk:
			c16Vio(rec, "split-car/csv-file-size-excludes-trailing-nodes", fmt.Sprintf("%s: piece %d (%s): csv \"file size\"=%d, file on disk=%d; the %d bytes of the trailing Subset/Epoch node(s) are not counted", where, i+1, r[nameCol], got, disk, pc.trailing), sc)
		default:
			c16Vio(rec, "split-car/csv-file-size-mismatch", fmt.Sprintf("%s: piece %d (%s): csv \"file size\"=%q, file on disk=%d", where, i+1, r[nameCol], r[col], disk), sc)
		}
	}
}

// c16JudgeReader opens the written pieces with the written metadata through NewSplitCarReader (pieces
// wrapped like the server's remote pieces, i.e. without the local-file size check) and reads the
// whole range plus windows around every boundary.
func c16JudgeReader(rec *ev.Recorder, where string, sc c16SplitCase, cp *carlet.CarPiecesAndMetadata, pieces []*c16Piece, exp *c16Expected, m *cargen.Model, splitOK bool) {
	byName := map[string]*c16Piece{}
	for i, cf := range cp.CarPieces {
		byName[cf.Name] = pieces[i]
	}
	if len(pieces) > 500 {
		rec.Count("e2e_skipped_more_than_500_pieces", 1)
		return
	}
	// observation: the same metadata with the local-file reader
	{
		var opened []*splitcarfetcher.FileSplitCarReader
		var mu sync.Mutex
		scr, err := splitcarfetcher.NewSplitCarReader(cp, func(cf carlet.CarFile) (splitcarfetcher.ReaderAtCloserSize, error) {
			r, err := splitcarfetcher.NewFileSplitCarReader(byName[cf.Name].path)
			if err == nil {
				mu.Lock()
				opened = append(opened, r)
				mu.Unlock()
			}
			return r, err
		})
		if err != nil {
			rec.Count("diag_own_local_pieces_rejected_by_NewSplitCarReader", 1)
			for _, r := range opened {
				r.Close() // the constructor does not close what it opened when it fails
			}
		} else {
			scr.Close()
		}
	}
	var openedFiles []*os.File
	var omu sync.Mutex
	scr, err := splitcarfetcher.NewSplitCarReader(cp, func(cf carlet.CarFile) (splitcarfetcher.ReaderAtCloserSize, error) {
		pc := byName[cf.Name]
		f, err := os.Open(pc.path)
		if err != nil {
			return nil, err
		}
		omu.Lock()
		openedFiles = append(openedFiles, f)
		omu.Unlock()
		return &c16ReadOnlyPiece{f: f, size: int64(len(pc.bytes))}, nil
	})
	if err != nil {
		for _, f := range openedFiles {
			f.Close()
		}
		c16Vio(rec, "split-e2e/reader-rejects-written-pieces", fmt.Sprintf("%s: %v", where, err), sc)
		return
	}
	defer scr.Close()
	// reference: original header || piece[headerSize : headerSize+contentSize] ...
	ref := append([]byte{}, exp.fileBytes[:m.HeaderLen]...)
	bounds := []int64{0, int64(len(ref))}
	for i, cf := range cp.CarPieces {
		pc := pieces[i]
		lo, hi := cf.HeaderSize, cf.HeaderSize+cf.ContentSize
		if hi > uint64(len(pc.bytes)) || lo > hi {
			return // size violation already recorded
		}
		ref = append(ref, pc.bytes[lo:hi]...)
		bounds = append(bounds, int64(len(ref)))
	}
	total := int64(len(ref))
	buf := make([]byte, total+400)
	read := func(off int64, l int) bool {
		p := buf[:l]
		n, rerr := scr.ReadAt(p, off)
		rec.Count("e2e_reads", 1)
		want := int64(0)
		if off < total {
			want = int64(l)
			if total-off < want {
				want = total - off
			}
		}
		bad := ""
		switch {
		case int64(n) != want:
			bad = fmt.Sprintf("wrong-count: n=%d err=%v want %d", n, rerr, want)
		case n > 0 && !bytes.Equal(p[:n], ref[off:off+int64(n)]):
			bad = "wrong-bytes"
		case n < l && rerr == nil:
			bad = "short-read-without-error"
		case off+int64(l) < total && rerr != nil:
			bad = fmt.Sprintf("error-before-end: %v", rerr)
		}
		if bad != "" {
			c16Vio(rec, "split-e2e/SplitCarReader.ReadAt/"+strings.SplitN(bad, ":", 2)[0], fmt.Sprintf("%s: off=%d len=%d of %d: %s", where, off, l, total, bad), sc)
			return false
		}
		return true
	}
	if !read(0, int(total)) || !read(0, int(total)+3) {
		return
	}
	for _, b := range bounds {
		for d := int64(-2); d <= 1; d++ {
			for _, l := range []int{1, 2, 5, 300} {
				if b+d >= 0 && !read(b+d, l) {
					return
				}
			}
		}
	}
	// diagnostic: the served stream is a CAR whose block families are the original's
	if _, hl, secs, perr := cargen.ParseCar(ref); perr != nil || hl != m.HeaderLen {
		rec.Count("diag_e2e_stream_not_a_car", 1)
	} else if splitOK {
		i := 0
		same := true
		for _, s := range secs {
			k := c16Kind(s.Data)
			if k == cargen.KindSubset || k == cargen.KindEpoch {
				rec.Count("diag_e2e_stream_contains_subset_or_epoch_nodes", 1)
				continue
			}
			if i >= len(exp.secs) || !s.Cid.Equals(exp.secs[i].Cid) {
				same = false
				break
			}
			i++
		}
		if !same || i != len(exp.secs) {
			rec.Count("diag_e2e_stream_sections_differ", 1)
		} else {
			rec.Count("diag_e2e_stream_equals_original_block_families", 1)
		}
	}
}

func c16Diagnostics(rec *ev.Recorder, job c16SplitJob, pieces []*c16Piece, exp *c16Expected, tg c16Target) {
	for _, pc := range pieces {
		if uint64(len(pc.bytes)) > uint64(tg.Size) && pc.nContent > 0 {
			rec.Count("diag_piece_larger_than_target", 1)
		}
		// root = CID of the piece's Subset node?
		found := false
		for _, s := range pc.secs {
			if c16Kind(s.Data) == cargen.KindSubset && len(pc.roots) == 1 && s.Cid.Equals(pc.roots[0]) {
				found = true
			}
		}
		if !found {
			rec.Count("diag_piece_root_is_not_its_subset_node", 1)
		}
	}
	last := pieces[len(pieces)-1]
	if n := len(last.secs); n == 0 || c16Kind(last.secs[n-1].Data) != cargen.KindEpoch {
		rec.Count("diag_last_piece_does_not_end_with_epoch_node", 1)
	}
	// merge-cars (not part of the statement): nul-root header || each piece without its header
	if mb, err := os.ReadFile(filepath.Join(job.OutDir, "merged.out")); err == nil {
		want := []byte(nulRootCarHeader)
		for _, pc := range pieces {
			want = append(want, pc.bytes[pc.hdrLen:]...)
		}
		switch {
		case bytes.Equal(mb, want):
			rec.Count("diag_merge_cars_output_complete", 1)
		case len(mb) < len(want) && bytes.Equal(mb, want[:len(mb)]):
			rec.Count("diag_merge_cars_output_truncated", 1)
			rec.Note("diag_merge_cars", fmt.Sprintf("merge-cars wrote %d of %d bytes (a prefix): cmd-merge-cars.go never flushes its bufio.Writer; outside the statement of C16, reported as an observation", len(mb), len(want)))
		default:
			rec.Count("diag_merge_cars_output_differs", 1)
		}
	} else {
		rec.Count("diag_merge_cars_no_output", 1)
	}
}
