//go:build verif

package main

// C09 (lock-discipline monitor) — with the instrumented copy of multiepoch.go the epoch-set mutex is a
// verifRWMutex: same method set, delegates to a real sync.RWMutex, and records per goroutine the holds and
// the acquisition sites.  Refuting event: a goroutine requests RLock/Lock on the epoch-set mutex while it
// already holds it (with Go's writer-preferring RWMutex that deadlocks as soon as a writer arrives in
// between, and writers are part of the quantified workload).

import (
	"bytes"
	"context"
	"fmt"
	"os"
	"path/filepath"
	"regexp"
	"runtime"
	"sort"
	"strconv"
	"sync"
	"testing"

	old_faithful_grpc "github.com/rpcpool/yellowstone-faithful/old-faithful-proto/old-faithful-grpc"
	"github.com/rpcpool/yellowstone-faithful/zzverif/cargen"
	"github.com/rpcpool/yellowstone-faithful/zzverif/ev"
)

type verifRWMutex struct {
	inner sync.RWMutex
}

type vlNested struct {
	Goroutine int64  `json:"goroutine"`
	Held      string `json:"held_at"`
	Requested string `json:"requested_at"`
	Kind      string `json:"kind"`
}

var vl struct {
	sync.Mutex
	holds  map[int64][]string // goroutine -> stack of acquisition sites currently held
	sites  map[string]int     // acquisition site -> count
	nested []vlNested
}

func vlGoID() int64 {
	var buf [64]byte
	n := runtime.Stack(buf[:], false)
	// "goroutine 123 ["
	b := buf[:n]
	b = bytes.TrimPrefix(b, []byte("goroutine "))
	if i := bytes.IndexByte(b, ' '); i > 0 {
		id, _ := strconv.ParseInt(string(b[:i]), 10, 64)
		return id
	}
	return -1
}

func vlSite() string {
	// caller of the (R)Lock method
	pc, file, line, ok := runtime.Caller(3)
	if !ok {
		return "?"
	}
	fn := "?"
	if f := runtime.FuncForPC(pc); f != nil {
		fn = f.Name()
	}
	return fmt.Sprintf("%s:%d %s", filepath.Base(file), line, fn)
}

func vlRequest(kind string) (int64, string) {
	g, site := vlGoID(), vlSite()
	vl.Lock()
	if vl.holds == nil {
		vl.holds = map[int64][]string{}
		vl.sites = map[string]int{}
	}
	vl.sites[kind+" "+site]++
	if h := vl.holds[g]; len(h) > 0 && len(vl.nested) < 50 {
		vl.nested = append(vl.nested, vlNested{Goroutine: g, Held: h[len(h)-1], Requested: site, Kind: kind})
	}
	vl.Unlock()
	return g, site
}

func vlAcquired(g int64, site string) {
	vl.Lock()
	vl.holds[g] = append(vl.holds[g], site)
	vl.Unlock()
}

func vlReleased() {
	g := vlGoID()
	vl.Lock()
	if h := vl.holds[g]; len(h) > 0 {
		vl.holds[g] = h[:len(h)-1]
		if len(vl.holds[g]) == 0 {
			delete(vl.holds, g)
		}
	}
	vl.Unlock()
}

func (m *verifRWMutex) RLock()   { g, s := vlRequest("RLock"); m.inner.RLock(); vlAcquired(g, s) }
func (m *verifRWMutex) Lock()    { g, s := vlRequest("Lock"); m.inner.Lock(); vlAcquired(g, s) }
func (m *verifRWMutex) RUnlock() { vlReleased(); m.inner.RUnlock() }
func (m *verifRWMutex) Unlock()  { vlReleased(); m.inner.Unlock() }

func TestVerifC09Lock(t *testing.T) {
	rec := ev.New("C09", "lock-discipline")
	defer rec.Flush()
	rec.Rule("every exported method of MultiEpoch and every JSON-RPC / REST / gRPC entry point executed on a 2-epoch server whose epoch-set mutex records holds per goroutine; refuting event = (R)Lock requested by a goroutine that already holds the mutex; distinct = distinct acquisition sites reached")
	multi := NewMultiEpoch(&Options{EpochSearchConcurrency: 2})
	if _, ok := any(&multi.mu).(*verifRWMutex); !ok {
		rec.Note("instrumentation", "degraded: MultiEpoch.mu is not the instrumented mutex ("+os.Getenv("VERIF_INSTRUMENTATION_DEGRADED")+")")
		return
	}
	seed := ev.Seed()
	root := filepath.Join(ev.Scratch(), "c09lock")
	os.MkdirAll(root, 0o755)
	defer os.RemoveAll(root)
	var fxs []*vfEpochFx
	for _, e := range []uint64{3, 4} {
		fx, ierr, err := vfMakeEpoch(filepath.Join(root, fmt.Sprintf("e%d", e)), cargen.Opts{Epoch: e, Seed: seed + int64(e), NSlots: 30, SkipOneIn: 4, MaxEntries: 2, MaxTx: 2, VoteOneIn: 4, FailOneIn: 4}, true)
		if err != nil || ierr != "" {
			t.Fatalf("fixture: %v %s", err, ierr)
		}
		fxs = append(fxs, fx)
	}
	cache := vfNewCache()
	var eps []*Epoch
	for _, fx := range fxs {
		ep, err := fx.vfLoad(cache)
		if err != nil {
			t.Fatal(err)
		}
		eps = append(eps, ep)
		multi.AddEpoch(fx.Model.Epoch, ep)
	}
	h := newMultiEpochHandler(multi, nil)
	ctx := context.Background()
	m0 := fxs[0].Model
	b := m0.Blocks[2]
	tx := m0.AllTxs()[1]
	addr := tx.Static[0].String()
	step := func(name string, f func()) {
		rec.Eval(1)
		func() {
			defer func() {
				if r := recover(); r != nil {
					rec.Inconclusive(fmt.Sprintf("%s panicked in the harness workload: %v", name, r))
				}
			}()
			f()
		}()
	}
	// ---- every exported method of MultiEpoch
	step("GetEpoch", func() { multi.GetEpoch(3) })
	step("HasEpoch", func() { multi.HasEpoch(3) })
	step("CountEpochs", func() { multi.CountEpochs() })
	step("GetEpochNumbers", func() { multi.GetEpochNumbers() })
	step("GetMostRecentAvailableEpoch", func() { multi.GetMostRecentAvailableEpoch() })
	step("GetOldestAvailableEpoch", func() { multi.GetOldestAvailableEpoch() })
	step("GetFirstAvailableBlock", func() { multi.GetFirstAvailableBlock(ctx) })
	step("GetMostRecentAvailableBlock", func() { multi.GetMostRecentAvailableBlock(ctx) })
	step("GetMostRecentAvailableEpochNumber", func() { multi.GetMostRecentAvailableEpochNumber() })
	step("HasEpochWithSameHashAsFile", func() { multi.HasEpochWithSameHashAsFile(fxs[0].CfgPath) })
	step("GetFaithfulVersionInfo", func() { multi.GetFaithfulVersionInfo() })
	step("AddEpoch(existing)", func() { multi.AddEpoch(3, eps[0]) })
	step("AddEpoch(new)", func() { multi.AddEpoch(77, c09FilelessEpoch(77, root, 1)) })
	step("ReplaceEpoch", func() { multi.ReplaceEpoch(77, c09FilelessEpoch(77, root, 2)) })
	step("ReplaceOrAddEpoch", func() { multi.ReplaceOrAddEpoch(77, c09FilelessEpoch(77, root, 3)) })
	step("RemoveEpochByConfigFilepath", func() {
		if e, err := multi.GetEpoch(77); err == nil {
			multi.RemoveEpochByConfigFilepath(e.config.ConfigFilepath())
		}
	})
	step("ReplaceOrAddEpoch(new)", func() { multi.ReplaceOrAddEpoch(78, c09FilelessEpoch(78, root, 1)) })
	step("RemoveEpoch", func() { multi.RemoveEpoch(78) })
	step("findEpochNumberFromSignature", func() { multi.findEpochNumberFromSignature(ctx, tx.Sig) })
	step("getAllBucketteers", func() { multi.getAllBucketteers() })
	// ---- JSON-RPC / REST
	for _, body := range []string{
		`{"jsonrpc":"2.0","id":1,"method":"getSlot"}`,
		`{"jsonrpc":"2.0","id":1,"method":"getFirstAvailableBlock"}`,
		`{"jsonrpc":"2.0","id":1,"method":"getVersion"}`,
		`{"jsonrpc":"2.0","id":1,"method":"getGenesisHash"}`,
		fmt.Sprintf(`{"jsonrpc":"2.0","id":1,"method":"getBlock","params":[%d,{"encoding":"base64"}]}`, b.Slot),
		fmt.Sprintf(`{"jsonrpc":"2.0","id":1,"method":"getBlockTime","params":[%d]}`, b.Slot),
		fmt.Sprintf(`{"jsonrpc":"2.0","id":1,"method":"getTransaction","params":["%s",{"encoding":"base64"}]}`, tx.Sig),
		fmt.Sprintf(`{"jsonrpc":"2.0","id":1,"method":"getSignaturesForAddress","params":["%s",{"limit":5}]}`, addr),
	} {
		body := body
		step("jsonrpc", func() { vfCall(h, body) })
	}
	step("api/slot-to-cid", func() { vfGet(h, fmt.Sprintf("/api/v1/slot-to-cid/%d", b.Slot)) })
	step("api/sig-to-cid", func() { vfGet(h, "/api/v1/sig-to-cid/"+tx.Sig.String()) })
	// ---- gRPC
	step("grpc.GetVersion", func() { multi.GetVersion(ctx, &old_faithful_grpc.VersionRequest{}) })
	step("grpc.GetBlock", func() { multi.GetBlock(ctx, &old_faithful_grpc.BlockRequest{Slot: b.Slot}) })
	step("grpc.GetBlockTime", func() { multi.GetBlockTime(ctx, &old_faithful_grpc.BlockTimeRequest{Slot: b.Slot}) })
	step("grpc.GetTransaction", func() {
		multi.GetTransaction(ctx, &old_faithful_grpc.TransactionRequest{Signature: tx.Sig[:]})
	})
	end := b.Slot + 5
	step("grpc.StreamBlocks", func() {
		multi.StreamBlocks(&old_faithful_grpc.StreamBlocksRequest{StartSlot: b.Slot, EndSlot: &end}, &c19BlockStream{ctx: ctx})
	})
	tr := true
	step("grpc.StreamTransactions(scan)", func() {
		multi.StreamTransactions(&old_faithful_grpc.StreamTransactionsRequest{StartSlot: b.Slot, EndSlot: &end}, &c19TxStream{ctx: ctx})
	})
	step("grpc.StreamTransactions(index)", func() {
		multi.StreamTransactions(&old_faithful_grpc.StreamTransactionsRequest{StartSlot: b.Slot, EndSlot: &end, Filter: &old_faithful_grpc.StreamTransactionsFilter{Vote: &tr, Failed: &tr, AccountInclude: []string{addr}}}, &c19TxStream{ctx: ctx})
	})
	step("grpc.Get", func() {
		multi.Get(&c02GetStream{ctx: ctx, reqs: []*old_faithful_grpc.GetRequest{
			{Id: 1, Request: &old_faithful_grpc.GetRequest_Block{Block: &old_faithful_grpc.BlockRequest{Slot: b.Slot}}},
			{Id: 2, Request: &old_faithful_grpc.GetRequest_Transaction{Transaction: &old_faithful_grpc.TransactionRequest{Signature: tx.Sig[:]}}},
			{Id: 3, Request: &old_faithful_grpc.GetRequest_BlockTime{BlockTime: &old_faithful_grpc.BlockTimeRequest{Slot: b.Slot}}},
			{Id: 4, Request: &old_faithful_grpc.GetRequest_Version{Version: &old_faithful_grpc.VersionRequest{}}},
		}})
	})
	step("Close", func() { multi.Close() })

	// ---- verdict
	vl.Lock()
	nested := append([]vlNested(nil), vl.nested...)
	var sites []string
	for s := range vl.sites {
		sites = append(sites, s)
	}
	vl.Unlock()
	sort.Strings(sites)
	seen := map[string]bool{}
	for _, n := range nested {
		key := n.Held + " -> " + n.Requested
		if seen[key] {
			continue
		}
		seen[key] = true
		rec.Violation("MultiEpoch/nested-acquisition-of-epoch-set-lock", fmt.Sprintf("goroutine %d requested %s at [%s] while already holding the lock acquired at [%s]; a writer queued in between deadlocks both", n.Goroutine, n.Kind, n.Requested, n.Held), n)
	}
	for _, s := range sites {
		rec.Distinct(s)
	}
	// how many acquisition sites does the source have?
	srcSites := 0
	re := regexp.MustCompile(`\b(m|multi|ser|me)\.mu\.R?Lock\(\)`)
	files, _ := filepath.Glob("*.go")
	for _, f := range files {
		if filepath.Base(f) != f || len(f) > 8 && f[:8] == "zz_verif" {
			continue
		}
		if src, err := os.ReadFile(f); err == nil && bytes.Contains(src, []byte("*MultiEpoch)")) {
			srcSites += len(re.FindAll(src, -1))
		}
	}
	rec.Note("acquisition_sites_reached", len(sites))
	rec.Note("acquisition_sites_in_source", srcSites)
	rec.Sample(map[string]any{"sites_reached": sites})
}
