//go:build verif

package main

// C07 — getSignaturesForAddress paging slices the newest-first history correctly.
// One 3-epoch fixture encodes all 5^3 = 125 per-epoch history shapes at once: address A_ijk appears in
// exactly i, j, k transactions of epochs e0 < e1 < e2.  Exhaustive over (address, limit, before, until)
// with before/until drawn from the history, at reader level and through JSON-RPC with 1, 2, 3 epochs
// loaded; slot-bounded variant on a grid of slot pairs.

import (
	"context"
	"encoding/json"
	"fmt"
	"math/rand"
	"os"
	"path/filepath"
	"sort"
	"strings"
	"sync"
	"testing"

	"github.com/gagliardetto/solana-go"
	"github.com/rpcpool/yellowstone-faithful/gsfa"
	"github.com/rpcpool/yellowstone-faithful/gsfa/linkedlog"
	"github.com/rpcpool/yellowstone-faithful/indexes"
	"github.com/rpcpool/yellowstone-faithful/ipld/ipldbindcode"
	"github.com/rpcpool/yellowstone-faithful/iplddecoders"
	"github.com/rpcpool/yellowstone-faithful/zzverif/cargen"
	"github.com/rpcpool/yellowstone-faithful/zzverif/ev"
)

type c07Case struct {
	Seed    int64    `json:"seed"`
	Level   string   `json:"level"` // reader | jsonrpc | slot
	Epochs  []uint64 `json:"epochs_loaded"`
	Address string   `json:"address"`
	Shape   [3]int   `json:"shape_ijk"`
	Limit   int      `json:"limit"`
	Before  string   `json:"before,omitempty"`
	Until   string   `json:"until,omitempty"`
	BeforeS uint64   `json:"before_slot,omitempty"`
	UntilS  uint64   `json:"until_slot,omitempty"`
	Want    []string `json:"want,omitempty"`
	Got     []string `json:"got,omitempty"`
}

func c07Addr(i, j, k int) solana.PublicKey {
	var a solana.PublicKey
	copy(a[:], []byte(fmt.Sprintf("C07-address-shape-%d%d%d-padpadpadpad", i, j, k)))
	return a
}

// c07Expected: the model slice of the newest-first history.
func c07Expected(hist []*cargen.Tx, limit int, before, until *solana.Signature) []string {
	var out []string
	reached := before == nil
	for _, tx := range hist {
		if !reached {
			if tx.Sig == *before {
				reached = true
			}
			continue
		}
		if limit > 0 && len(out) >= limit {
			break
		}
		out = append(out, tx.Sig.String())
		if until != nil && tx.Sig == *until {
			break
		}
	}
	return out
}

func TestVerifC07(t *testing.T) {
	rec := ev.New("C07", "paging")
	defer rec.Flush()
	rec.Rule("3 epochs x all 125 per-epoch history shapes (0..4 entries each); every (address, limit in {1,2,3,5,12,1000}, before in history+nil, until in history+nil) at reader level (GsfaReaderMultiepoch.GetBeforeUntil) and through JSON-RPC (default mode and --gsfa-only-signatures) with every non-empty subset of epochs loaded; slot-bounded variant on a slot grid, over all readers and over the readers the server selects for the range; distinct = (shape, limit, before, until, level, epochs) tuples with a non-empty expected slice")
	seed := ev.Seed()
	root := filepath.Join(ev.Scratch(), "c07")
	os.MkdirAll(root, 0o755)
	defer os.RemoveAll(root)
	epochNums := []uint64{11, 12, 14}
	fxs := make([]*vfEpochFx, 3)
	var wg sync.WaitGroup
	for ei, e := range epochNums {
		wg.Add(1)
		go func(ei int, e uint64) {
			defer wg.Done()
			// the n-th transaction of the epoch mentions plan[n]
			var plan []solana.PublicKey
			for i := 0; i < 5; i++ {
				for j := 0; j < 5; j++ {
					for k := 0; k < 5; k++ {
						c := [3]int{i, j, k}[ei]
						for x := 0; x < c; x++ {
							plan = append(plan, c07Addr(i, j, k))
						}
					}
				}
			}
			r := rand.New(rand.NewSource(seed*17 + int64(e)))
			r.Shuffle(len(plan), func(a, b int) { plan[a], plan[b] = plan[b], plan[a] })
			n := 0
			var mu sync.Mutex
			o := cargen.Opts{Epoch: e, Seed: seed + int64(e), NSlots: 170, SkipOneIn: 5, MaxEntries: 2, MaxTx: 2, ExactTx: len(plan)*3/2 + 20, VoteOneIn: 5, FailOneIn: 4, V0OneIn: 0, MultiFrameOneIn: 7,
				KeyHook: func(slot uint64, pos int) []solana.PublicKey {
					mu.Lock()
					defer mu.Unlock()
					// leave some transactions without a test address in between
					if n < len(plan) && r.Intn(8) != 0 {
						k := plan[n]
						n++
						return []solana.PublicKey{k}
					}
					return nil
				}}
			fx, ierr, err := vfMakeEpoch(filepath.Join(root, fmt.Sprintf("e%d", e)), o, true)
			if err != nil || ierr != "" {
				t.Errorf("fixture: %v %s", err, ierr)
				return
			}
			if n != len(plan) {
				t.Errorf("fixture epoch %d: only %d of %d planned addresses placed", e, n, len(plan))
			}
			fxs[ei] = fx
		}(ei, e)
	}
	wg.Wait()
	if t.Failed() {
		t.FailNow()
	}
	// per (epoch index, address): history newest first
	hist := func(ei int, a solana.PublicKey) []*cargen.Tx {
		var out []*cargen.Tx
		bl := fxs[ei].Model.Blocks
		for bi := len(bl) - 1; bi >= 0; bi-- {
			txs := bl[bi].Txs
			for ti := len(txs) - 1; ti >= 0; ti-- {
				if txs[ti].Mentions(a) {
					out = append(out, txs[ti])
				}
			}
		}
		return out
	}
	ctx := context.Background()
	limits := []int{1, 2, 3, 5, 12, 1000}
	var rc c07Case
	replay := ev.LoadReplay(&rc)

	for mask := 1; mask < 8; mask++ {
		if rec.Enough() {
			break
		}
		var loaded []int
		for ei := 0; ei < 3; ei++ {
			if mask&(1<<ei) != 0 {
				loaded = append(loaded, ei)
			}
		}
		cache := vfNewCache()
		multi := NewMultiEpoch(&Options{EpochSearchConcurrency: 2})
		var eps []*Epoch
		var loadedNums []uint64
		for _, ei := range loaded {
			ep, err := fxs[ei].vfLoad(cache)
			if err != nil {
				t.Fatal(err)
			}
			multi.AddEpoch(epochNums[ei], ep)
			eps = append(eps, ep)
			loadedNums = append(loadedNums, epochNums[ei])
		}
		h := newMultiEpochHandler(multi, nil)
		// the same epochs behind a server started with --gsfa-only-signatures (answers carry signatures only)
		multiSig := NewMultiEpoch(&Options{EpochSearchConcurrency: 2, GsfaOnlySignatures: true})
		for i, ep := range eps {
			multiSig.AddEpoch(loadedNums[i], ep)
		}
		hSig := newMultiEpochHandler(multiSig, nil)
		fetcher := func(epochNum uint64, oas linkedlog.OffsetAndSizeAndSlot) (*ipldbindcode.Transaction, error) {
			epoch, err := multi.GetEpoch(epochNum)
			if err != nil {
				return nil, err
			}
			raw, err := epoch.GetNodeByOffsetAndSize(ctx, nil, &indexes.OffsetAndSize{Offset: oas.Offset, Size: oas.Size})
			if err != nil {
				return nil, err
			}
			return iplddecoders.DecodeTransaction(raw)
		}
		readers, _ := multi.getGsfaReadersInEpochDescendingOrder()
		gm, err := gsfa.NewGsfaReaderMultiepoch(readers)
		if err != nil {
			t.Fatal(err)
		}
		flatten := func(m gsfa.EpochToTransactionObjects) ([]string, error) {
			var es []uint64
			for e := range m {
				es = append(es, e)
			}
			sort.Slice(es, func(i, j int) bool { return es[i] > es[j] })
			var out []string
			for _, e := range es {
				for _, tx := range m[e] {
					s, err := tx.Signature()
					if err != nil {
						return nil, err
					}
					out = append(out, s.String())
				}
			}
			return out, nil
		}
		for i := 0; i < 5; i++ {
			for j := 0; j < 5; j++ {
				for k := 0; k < 5; k++ {
					a := c07Addr(i, j, k)
					if replay && a.String() != rc.Address {
						continue
					}
					// complete history over the loaded epochs, newest epoch first
					var full []*cargen.Tx
					for x := len(loaded) - 1; x >= 0; x-- {
						full = append(full, hist(loaded[x], a)...)
					}
					marks := []*solana.Signature{nil}
					for _, tx := range full {
						s := tx.Sig
						marks = append(marks, &s)
					}
					for _, limit := range limits {
						for _, before := range marks {
							for _, until := range marks {
								want := c07Expected(full, limit, before, until)
								c := c07Case{Seed: seed, Epochs: loadedNums, Address: a.String(), Shape: [3]int{i, j, k}, Limit: limit}
								if before != nil {
									c.Before = before.String()
								}
								if until != nil {
									c.Until = until.String()
								}
								if replay && (c.Limit != rc.Limit || c.Before != rc.Before || c.Until != rc.Until || fmt.Sprint(c.Epochs) != fmt.Sprint(rc.Epochs)) {
									continue
								}
								// ---- reader level
								rec.Eval(1)
								if len(full) == 0 {
									// an address without history in the loaded epochs: must be an empty result, not an error
									got, err := gm.GetBeforeUntil(ctx, a, limit, before, until, fetcher)
									if err != nil || got.Count() != 0 {
										c.Level = "reader"
										rec.Violation("GsfaReaderMultiepoch.GetBeforeUntil/address-without-history", fmt.Sprintf("err=%v count=%d", err, got.Count()), c)
									}
								} else {
									gotM, err := gm.GetBeforeUntil(ctx, a, limit, before, until, fetcher)
									c.Level = "reader"
									if err != nil {
										rec.Violation("GsfaReaderMultiepoch.GetBeforeUntil/error", err.Error(), c)
									} else {
										got, ferr := flatten(gotM)
										if ferr != nil || strings.Join(got, ",") != strings.Join(want, ",") {
											c.Want, c.Got = want, got
											rec.Violation("GsfaReaderMultiepoch.GetBeforeUntil/wrong-slice", fmt.Sprintf("shape %v epochs %v limit %d: got %d entries, want %d (first difference matters: see replay)", c.Shape, loadedNums, limit, len(got), len(want)), c)
										}
									}
									if len(want) > 0 {
										rec.Distinct(fmt.Sprintf("reader/%v/%d%d%d/%d/%s/%s", loadedNums, i, j, k, limit, c.Before, c.Until))
									}
								}
								// ---- JSON-RPC level (sampled: before/until combinations on a sub-grid, all limits)
								if !replay && (len(marks) > 4 && (len(c.Before)+len(c.Until)+limit)%3 != 0) {
									continue
								}
								var opts []string
								opts = append(opts, fmt.Sprintf(`"limit":%d`, limit))
								if before != nil {
									opts = append(opts, fmt.Sprintf(`"before":"%s"`, before))
								}
								if until != nil {
									opts = append(opts, fmt.Sprintf(`"until":"%s"`, until))
								}
								body := fmt.Sprintf(`{"jsonrpc":"2.0","id":1,"method":"getSignaturesForAddress","params":["%s",{%s}]}`, a, strings.Join(opts, ","))
								reps := 1
								if len(loaded) > 1 {
									reps = ev.Pick(4, 24) // the cross-epoch order must not depend on map iteration
								}
								for rep := 0; rep < reps; rep++ {
									rec.Eval(1)
									_, resp := vfCall(h, body)
									var r struct {
										Result []struct {
											Signature string `json:"signature"`
											Slot      uint64 `json:"slot"`
										} `json:"result"`
										Error any `json:"error"`
									}
									c.Level = "jsonrpc"
									if err := json.Unmarshal(resp, &r); err != nil || r.Error != nil {
										rec.Violation("jsonrpc/getSignaturesForAddress/error", fmt.Sprintf("response %.200s", resp), c)
										break
									}
									var got []string
									for _, x := range r.Result {
										got = append(got, x.Signature)
									}
									if strings.Join(got, ",") != strings.Join(want, ",") {
										c.Want, c.Got = want, got
										key := "jsonrpc/getSignaturesForAddress/wrong-slice"
										gs, ws := append([]string{}, got...), append([]string{}, want...)
										sort.Strings(gs)
										sort.Strings(ws)
										if strings.Join(gs, ",") == strings.Join(ws, ",") {
											key = "jsonrpc/getSignaturesForAddress/wrong-order"
										}
										rec.Violation(key, fmt.Sprintf("shape %v epochs %v limit %d rep %d: got %d entries, want %d", c.Shape, loadedNums, limit, rep, len(got), len(want)), c)
										break
									}
								}
								{
									rec.Eval(1)
									_, resp := vfCall(hSig, body)
									var r struct {
										Result []struct {
											Signature string `json:"signature"`
										} `json:"result"`
										Error any `json:"error"`
									}
									c.Level = "jsonrpc/signatures-only"
									if err := json.Unmarshal(resp, &r); err != nil || r.Error != nil {
										rec.Violation("jsonrpc/getSignaturesForAddress/error(signatures-only)", fmt.Sprintf("response %.200s", resp), c)
									} else {
										var got []string
										for _, x := range r.Result {
											got = append(got, x.Signature)
										}
										if strings.Join(got, ",") != strings.Join(want, ",") {
											c.Want, c.Got = want, got
											rec.Violation("jsonrpc/getSignaturesForAddress/wrong-slice(signatures-only)", fmt.Sprintf("shape %v epochs %v limit %d: got %d entries, want %d", c.Shape, loadedNums, limit, len(got), len(want)), c)
										}
									}
								}
								if len(want) > 0 {
									rec.Distinct(fmt.Sprintf("jsonrpc/%v/%d%d%d/%d/%s/%s", loadedNums, i, j, k, limit, c.Before, c.Until))
								}
							}
						}
					}
				}
			}
		}
		// ---- slot-bounded variant (all three epochs loaded only, and each single epoch)
		if len(loaded) >= 1 {
			var grid []uint64
			for _, ei := range loaded {
				base := epochNums[ei] * cargen.SlotsPerEpoch
				grid = append(grid, base, base+1, base+40, base+85, base+169, base+170, base+431999)
			}
			grid = append(grid, 0, 13*cargen.SlotsPerEpoch+5, 15*cargen.SlotsPerEpoch)
			for i := 0; i < 5; i += 2 {
				for j := 0; j < 5; j += 2 {
					for k := 0; k < 5; k++ {
						a := c07Addr(i, j, k)
						var full []*cargen.Tx
						for x := len(loaded) - 1; x >= 0; x-- {
							full = append(full, hist(loaded[x], a)...)
						}
						for _, until := range grid {
							for _, before := range grid {
								if until > before {
									continue
								}
								rec.Eval(1)
								c := c07Case{Seed: seed, Level: "slot", Epochs: loadedNums, Address: a.String(), Shape: [3]int{i, j, k}, Limit: 1000, BeforeS: before, UntilS: until}
								// once over all loaded readers, and (as the streaming server does) over the readers the
								// server selects for the slot range - repeated, the selection walks a map
								passes := 1
								if before > until {
									passes += ev.Pick(2, 8)
								}
								for pass := 0; pass < passes; pass++ {
									rd := gm
									if pass > 0 {
										sel, _ := multi.getGsfaReadersInEpochDescendingOrderForSlotRange(ctx, until, before-1)
										if sel == nil {
											rec.Violation("MultiEpoch.getGsfaReadersInEpochDescendingOrderForSlotRange/no-reader", fmt.Sprintf("range [%d,%d]", until, before-1), c)
											break
										}
										rd = sel
										c.Level = "slot/server-selected-readers"
										rec.Eval(1)
									}
									gotM, err := rd.GetBeforeUntilSlot(ctx, a, 1000, before, until, fetcher)
									if err != nil {
										rec.Violation("GsfaReaderMultiepoch.GetBeforeUntilSlot/error", fmt.Sprintf("address present in %v: %v", c.Shape, err), c)
										break
									}
									nIn := 0
									for _, txs := range gotM {
										for _, tx := range txs {
											s := uint64(tx.Slot)
											if s < until || s >= before {
												sg, _ := tx.Signature()
												c.Got = []string{sg.String()}
												rec.Violation("GsfaReaderMultiepoch.GetBeforeUntilSlot/slot-outside-range", fmt.Sprintf("returned a transaction of slot %d for range [%d,%d)", s, until, before), c)
											}
											nIn++
										}
									}
									wantN := 0
									for _, tx := range full {
										if tx.Slot >= until && tx.Slot < before {
											wantN++
										}
									}
									if wantN != nIn && wantN <= 1000 {
										// "epochs in which the address never appears are skipped": the walk has to go on to the
										// older epochs, so every in-range transaction of the address must be there (limit 1000)
										rec.Violation("GsfaReaderMultiepoch.GetBeforeUntilSlot/in-range-transactions-missing", fmt.Sprintf("shape %v epochs %v range [%d,%d): %d transactions returned, %d archived in range", c.Shape, loadedNums, until, before, nIn, wantN), c)
									}
									if nIn > 0 {
										rec.Distinct(fmt.Sprintf("slot/%v/%d%d%d/%d/%d", loadedNums, i, j, k, until, before))
									}
								}
							}
						}
					}
				}
			}
		}
		for _, ep := range eps {
			ep.Close()
		}
	}
	rec.Sample(map[string]any{"epochs": epochNums, "shapes": 125, "limits": limits, "txs_per_epoch": []int{len(fxs[0].Model.BySig), len(fxs[1].Model.BySig), len(fxs[2].Model.BySig)}})
}
