//go:build verif

package tooling

// C14 (part "tooling") — multi-frame payloads reassemble to the original bytes or are rejected.
//
// Workload: generated chains (payload 0..200 KiB, 1..60 frames, the ledger.ipldsch layout for every
// fan-out 1..10, the same layout with the link-carrying frame first, random trees, `next` lists in
// ascending / descending / random order, CRC64-ISO and legacy FNV-1a checksums, even / writer-like /
// random split points, random / all-zero / periodic payloads), encoded with the reference encoder and
// served by a getter that is a map keyed by CID and decodes with the repository's DecodeDataFrame on
// every fetch (as Epoch.GetDataFrameByCid does).  The first frame reaches LoadDataFromDataFrames as a
// Go value, as a decoded DataFrame, or embedded in a decoded Rewards / Transaction node.
//
// Oracle (the statement itself): a well-formed chain => exactly the payload, no error; one fault
// (frame missing, duplicated, altered, or mixed with a frame of another payload) on a chain that
// carries hash and total => an error, or exactly the payload (fault masked); other bytes without an
// error is the violation.

import (
	"bytes"
	"fmt"
	"math/rand"
	"runtime"
	"sync"
	"testing"

	"github.com/rpcpool/yellowstone-faithful/ipld/ipldbindcode"
	"github.com/rpcpool/yellowstone-faithful/iplddecoders"
	"github.com/rpcpool/yellowstone-faithful/zzverif/c14chain"
	"github.com/rpcpool/yellowstone-faithful/zzverif/cargen"
	"github.com/rpcpool/yellowstone-faithful/zzverif/ev"
)

type c14Case struct {
	Part    string          `json:"part"`
	Spec    c14chain.Spec   `json:"spec"`
	Other   *c14chain.Spec  `json:"other,omitempty"` // second payload (swap-other)
	Fault   *c14chain.Fault `json:"fault,omitempty"`
	Carrier string          `json:"carrier"` // struct | decoded | rewards | tx-data | tx-meta
	Dense   bool            `json:"dense"`   // directed targets (first/last/link-carrying frame, first/last byte) in addition to the seeded one
}

const c14Site = "tooling.LoadDataFromDataFrames"

type c14Decoded = c14chain.Decoded

// c14Carry passes the first frame through the chosen carrier and returns the value handed to the code under test.
func c14Carry(first ipldbindcode.DataFrame, carrier string) (*ipldbindcode.DataFrame, error) {
	switch carrier {
	case "decoded":
		_, b := cargen.EncodeNode(&first, ipldbindcode.Prototypes.DataFrame)
		return iplddecoders.DecodeDataFrame(b)
	case "rewards":
		n := ipldbindcode.Rewards{Kind: cargen.KindRewards, Slot: 7, Data: first}
		_, b := cargen.EncodeNode(&n, ipldbindcode.Prototypes.Rewards)
		d, err := iplddecoders.DecodeRewards(b)
		if err != nil {
			return nil, err
		}
		return &d.Data, nil
	case "tx-data", "tx-meta":
		empty := ipldbindcode.List__Link{}
		pe := &empty
		filler := ipldbindcode.DataFrame{Kind: cargen.KindDataFrame, Data: []byte{1, 2, 3}, Next: &pe}
		n := ipldbindcode.Transaction{Kind: cargen.KindTransaction, Data: first, Metadata: filler, Slot: 9}
		if carrier == "tx-meta" {
			n.Data, n.Metadata = filler, first
		}
		_, b := cargen.EncodeNode(&n, ipldbindcode.Prototypes.Transaction)
		d, err := iplddecoders.DecodeTransaction(b)
		if err != nil {
			return nil, err
		}
		if carrier == "tx-meta" {
			return &d.Metadata, nil
		}
		return &d.Data, nil
	}
	return &first, nil
}

type c14Outcome struct {
	got      []byte
	err      error
	panicked any
	fetched  int
}

func c14Call(first *ipldbindcode.DataFrame, v *c14chain.View, cache c14Decoded) (o c14Outcome) {
	defer func() {
		if r := recover(); r != nil {
			o.panicked = r
		}
	}()
	o.got, o.err = LoadDataFromDataFrames(first, c14chain.Getter(cache, &o.fetched, v))
	return
}

func c14Short(b []byte) string {
	if len(b) > 24 {
		return fmt.Sprintf("%x..(%d bytes)", b[:24], len(b))
	}
	return fmt.Sprintf("%x", b)
}

func c14FirstDiff(a, b []byte) int {
	n := len(a)
	if len(b) < n {
		n = len(b)
	}
	for i := 0; i < n; i++ {
		if a[i] != b[i] {
			return i
		}
	}
	return n
}

// c14RunCase executes one case (clean when c.Fault == nil) and applies the oracle.
func c14RunCase(rec *ev.Recorder, c c14Case, chain, other *c14chain.Chain, cache c14Decoded) {
	var v c14chain.View
	fault := "none"
	if c.Fault != nil {
		v = chain.View(*c.Fault, other)
		if !v.Applied {
			rec.Count("fault_not_applicable", 1)
			return
		}
		fault = c.Fault.Kind
	} else {
		v = chain.Clean()
	}
	first, err := c14Carry(v.First, c.Carrier)
	if err != nil {
		// the carrier node could not be decoded: that is C11/C12 territory, not a reassembly result
		rec.Inconclusive(fmt.Sprintf("carrier %s could not be decoded: %v (spec %+v)", c.Carrier, err, c.Spec))
		return
	}
	o := c14Call(first, &v, cache)
	rec.Eval(1)
	rec.Count("calls_"+fault, 1)
	if chain.K >= 2 {
		rec.Distinct(chain.Signature(fault))
	}
	if o.panicked != nil {
		rec.Violationf(c14Site+"/panic", c, "panic %v (k=%d fault=%s)", o.panicked, chain.K, fault)
		return
	}
	want := chain.Payload
	if c.Fault == nil {
		if o.err != nil {
			rec.Violationf(c14Site+"/wellformed-rejected", c, "well-formed chain (k=%d layout=%s fan=%d shuffle=%d sum=%s len=%d) rejected: %v", chain.K, c.Spec.Layout, c.Spec.Fanout, c.Spec.Shuffle, c.Spec.Sum, len(want), o.err)
			return
		}
		if !bytes.Equal(o.got, want) {
			rec.Violationf(c14Site+"/wellformed-wrong-bytes", c, "well-formed chain (k=%d layout=%s fan=%d shuffle=%d sum=%s): got %d bytes, want %d, first difference at %d (got %s want %s)", chain.K, c.Spec.Layout, c.Spec.Fanout, c.Spec.Shuffle, c.Spec.Sum, len(o.got), len(want), c14FirstDiff(o.got, want), c14Short(o.got), c14Short(want))
			return
		}
		if o.fetched != chain.K-1 {
			rec.Count("clean_fetch_count_differs", 1)
		}
		rec.Count("clean_exact", 1)
		return
	}
	if o.err != nil {
		rec.Count("fault_rejected_"+fault, 1)
		return
	}
	if bytes.Equal(o.got, want) {
		rec.Count("fault_masked_"+fault, 1)
		return
	}
	rec.Violationf(c14Site+"/fault-"+fault+"-wrong-bytes", c, "fault %+v on a chain with hash and total (k=%d layout=%s fan=%d sum=%s len=%d): no error, %d bytes returned that differ from the payload at offset %d", *c.Fault, chain.K, c.Spec.Layout, c.Spec.Fanout, c.Spec.Sum, len(want), len(o.got), c14FirstDiff(o.got, want))
}

var c14Lens = []int{0, 1, 2, 3, 59, 60, 61, 127, 128, 129, 255, 256, 257, 1023, 1024, 1232, 4095, 4096, 16383, 16384, 16385, 65535, 65536, 65537, 131072, 204799, 204800}

func c14RandLen(rng *rand.Rand) int {
	switch r := rng.Intn(100); {
	case r < 35:
		return rng.Intn(1024)
	case r < 75:
		return 1024 + rng.Intn(31*1024)
	case r < 93:
		return 32*1024 + rng.Intn(32*1024)
	default:
		return 64*1024 + rng.Intn(136*1024+1)
	}
}

// c14Specs is the case list: a function of the seed and the tier only.
func c14Specs(seed int64) []c14Case {
	rng := rand.New(rand.NewSource(seed*0xC14 + 14))
	n := ev.Pick(1500, 100000)
	carriers := []string{"struct", "decoded", "rewards", "tx-data", "tx-meta"}
	splits := []string{"even", "fixed", "random"}
	var out []c14Case
	pickSum := func() string {
		if rng.Intn(4) == 0 {
			return "fnv"
		}
		return "crc"
	}
	pickFill := func() string {
		switch rng.Intn(10) {
		case 0:
			return "zero"
		case 1:
			return "period"
		}
		return "rand"
	}
	i := 0
	add := func(s c14chain.Spec) {
		s.Seed = seed*1_000_003 + int64(i)
		out = append(out, c14Case{Part: "tooling", Spec: s, Carrier: carriers[i%len(carriers)], Dense: i%3 == 0})
		i++
	}
	// (a) the schema-comment layout: every frame count 1..60 x every fan-out 1..10
	for k := 1; k <= 60; k++ {
		for fan := 1; fan <= 10; fan++ {
			l := c14RandLen(rng)
			if l < k {
				l = k + rng.Intn(64)
			}
			add(c14chain.Spec{Len: l, K: k, Layout: "schema", Fanout: fan, Shuffle: 0, Sum: pickSum(), Split: splits[rng.Intn(3)], Fill: pickFill()})
		}
	}
	// (b) directed payload lengths around varint / power-of-two / frame-count boundaries
	for _, l := range c14Lens {
		for _, k := range []int{1, 2, 3, 10, 11, 12, 60} {
			add(c14chain.Spec{Len: l, K: k, Layout: []string{"schema", "tree", "schema-head", "anytree"}[rng.Intn(4)], Fanout: 1 + rng.Intn(10), Shuffle: rng.Intn(3), Sum: pickSum(), Split: splits[rng.Intn(3)], Fill: "rand"})
		}
	}
	// payload length exactly k-1, k, k+1 (one byte per frame)
	for _, k := range []int{2, 3, 5, 11, 59, 60} {
		for _, l := range []int{k - 1, k, k + 1} {
			add(c14chain.Spec{Len: l, K: k, Layout: "schema", Fanout: 1 + rng.Intn(10), Shuffle: rng.Intn(3), Sum: pickSum(), Split: "even", Fill: "rand"})
		}
	}
	// (c) the rest: random shapes
	for len(out) < n {
		s := c14chain.Spec{Len: c14RandLen(rng), K: 1 + rng.Intn(60), Fanout: 1 + rng.Intn(10), Shuffle: rng.Intn(3), Sum: pickSum(), Split: splits[rng.Intn(3)], Fill: pickFill()}
		switch r := rng.Intn(10); {
		case r < 3:
			s.Layout = "tree"
		case r < 5:
			s.Layout = "anytree"
		case r < 7:
			s.Layout = "schema-head"
		default:
			s.Layout = "schema"
		}
		switch rng.Intn(25) {
		case 0:
			s.Sum = "none" // clean reassembly only
		case 1:
			s.NoTotal = true // clean reassembly only
		case 2:
			s.Empty = true // frames with empty data
			s.Len = rng.Intn(s.K + 1)
		}
		add(s)
	}
	return out
}

func c14Process(rec *ev.Recorder, c c14Case) {
	chain := c14chain.Build(c.Spec)
	cache := c14Decoded{}
	// clean reassembly: every frame is decoded on fetch (this fills the cache used by the fault runs)
	clean := c
	clean.Fault = nil
	c14RunCase(rec, clean, chain, nil, cache)
	if c.Spec.Sum == "none" || c.Spec.NoTotal {
		c14Diagnostic(rec, c, chain, cache)
		return
	}
	// a second payload with the same shape (frames of two payloads mixed)
	ospec := c.Spec
	ospec.Seed = c.Spec.Seed ^ 0x0f0f0f0f
	ospec.Payload = nil
	if ospec.Fill == "zero" {
		ospec.Fill = "rand"
	}
	if ospec.Len == 0 {
		// the empty payload (its CRC64 is 0): mixing in a frame of another *empty* payload changes nothing,
		// so the other payload must carry bytes
		ospec.Len = ospec.K + 3
		ospec.Empty = false
	}
	other := c14chain.Build(ospec)
	rng := rand.New(rand.NewSource(c.Spec.Seed ^ 0xfa17))
	for _, f := range chain.Faults(rng, c.Dense) {
		if rec.Enough() {
			return
		}
		f := f
		fc := c
		fc.Fault = &f
		fc.Other = &ospec
		c14RunCase(rec, fc, chain, other, cache)
	}
}

// c14Diagnostic: chains WITHOUT hash (or without total) are outside the fault clause of the property
// ("for payloads carrying the checksum and frame count the writer records"): outcomes are counted, never judged.
func c14Diagnostic(rec *ev.Recorder, c c14Case, chain *c14chain.Chain, cache c14Decoded) {
	if chain.K < 2 {
		return
	}
	rng := rand.New(rand.NewSource(c.Spec.Seed ^ 0xd1a6))
	for _, f := range chain.Faults(rng, false) {
		if f.Kind != "drop-link" && f.Kind != "dup-link" {
			continue
		}
		v := chain.View(f, nil)
		if !v.Applied {
			continue
		}
		o := c14Call(&v.First, &v, cache)
		which := "hashless"
		if c.Spec.NoTotal {
			which = "totalless"
		}
		switch {
		case o.panicked != nil:
			rec.Count("diag_"+which+"_"+f.Kind+"_panic", 1)
		case o.err != nil:
			rec.Count("diag_"+which+"_"+f.Kind+"_rejected", 1)
		case bytes.Equal(o.got, chain.Payload):
			rec.Count("diag_"+which+"_"+f.Kind+"_exact", 1)
		default:
			rec.Count("diag_"+which+"_"+f.Kind+"_other_bytes_no_error", 1)
		}
	}
}

func TestVerifC14Tooling(t *testing.T) {
	var rc c14Case
	if ev.LoadReplay(&rc) {
		if rc.Part != "tooling" {
			t.Skip("replay of another part")
		}
		rec := ev.New("C14", "tooling")
		defer rec.Flush()
		rec.Rule("replay of one case")
		rec.Distinct("replay")
		rec.Distinct("replay2")
		chain := c14chain.Build(rc.Spec)
		var other *c14chain.Chain
		if rc.Other != nil {
			other = c14chain.Build(*rc.Other)
		}
		c14RunCase(rec, rc, chain, other, nil)
		return
	}
	rec := ev.New("C14", "tooling")
	defer rec.Flush()
	rec.Rule("distinct = (frame count >= 2, layout + fan-out, checksum kind, fault kind or none); every chain is reassembled clean and under each single-frame fault at directed + seeded targets")
	specs := c14Specs(ev.Seed())
	rec.Note("chains", len(specs))
	for i := 0; i < len(specs) && i < 4; i++ {
		j := (i * 397) % len(specs)
		rec.Sample(map[string]any{"spec": specs[j].Spec, "carrier": specs[j].Carrier})
	}
	workers := runtime.GOMAXPROCS(0)
	if workers > 8 {
		workers = 8
	}
	ch := make(chan c14Case, 64)
	var wg sync.WaitGroup
	for w := 0; w < workers; w++ {
		wg.Add(1)
		go func() {
			defer wg.Done()
			for c := range ch {
				if rec.Enough() {
					continue
				}
				c14Process(rec, c)
			}
		}()
	}
	for _, c := range specs {
		ch <- c
	}
	close(ch)
	wg.Wait()
}
