//go:build verif

package main

// C07 (second part) — histories longer than one linked-log record, and queries in flight together.
// Fixture: a newer epoch in which one hot address occurs in ~3 300 transactions (its list is stored as
// several chained records of at most 1 000 entries) and an older epoch in which it occurs a few dozen times;
// fourteen further accounts occur all over both epochs.  Paging (limit / before / until placed around every
// record boundary and around the epoch boundary) at reader level and through JSON-RPC, then the same kind of
// query from 8 goroutines at once against one set of readers (also under the race detector).

import (
	"context"
	"encoding/json"
	"fmt"
	"math/rand"
	"os"
	"path/filepath"
	"sort"
	"strings"
	"sync"
	"sync/atomic"
	"testing"

	"github.com/gagliardetto/solana-go"
	"github.com/rpcpool/yellowstone-faithful/gsfa"
	"github.com/rpcpool/yellowstone-faithful/gsfa/linkedlog"
	"github.com/rpcpool/yellowstone-faithful/indexes"
	"github.com/rpcpool/yellowstone-faithful/ipld/ipldbindcode"
	"github.com/rpcpool/yellowstone-faithful/iplddecoders"
	"github.com/rpcpool/yellowstone-faithful/zzverif/cargen"
	"github.com/rpcpool/yellowstone-faithful/zzverif/ev"
)

func TestVerifC07Long(t *testing.T) {
	rec := ev.New("C07", "long-histories")
	defer rec.Flush()
	rec.Rule("one address with ~3 300 entries in the newer and a few dozen in the older of two epochs (several chained records per list); (limit in {1,999,1000,1001,2500,5000}) x (before at every record boundary +-1, at the epoch boundary +-1, at the ends) x (until in a subset of the same positions) at reader level, a sample through JSON-RPC; then 8 goroutines querying 7 accounts concurrently through the same readers; distinct = (level, limit, before position, until position) with a non-empty expected slice, plus (concurrent, account)")
	seed := ev.Seed()
	race := os.Getenv("VERIF_RACE") != ""
	root := filepath.Join(ev.Scratch(), "c07long")
	os.MkdirAll(root, 0o755)
	defer os.RemoveAll(root)
	var universe []solana.PublicKey
	// (14 accounts: none of them fills a 1 000-entry batch in the newer epoch, so that the hot address's full
	// batches are written one right after the other - records that touch - and everything else at the end)
	for i := 0; i < 14; i++ {
		var k solana.PublicKey
		copy(k[:], []byte(fmt.Sprintf("C07-long-universe-%d-padpadpadpadpad", i)))
		universe = append(universe, k)
	}
	var hot solana.PublicKey
	copy(hot[:], []byte("C07-long-hot-address-padpadpadpadpad"))
	epochNums := []uint64{21, 22}
	// >= 3 full batches: the program accounts every transaction names fill batches of their own, and the
	// background writer writes a parked batch only when the next one of the same address arrives, so with
	// three or more full batches at least two records of the hot address touch in the log
	nHot := ev.Pick(3300, 6400)
	if race {
		nHot = 3100
	}
	fxs := make([]*vfEpochFx, 2)
	var wg sync.WaitGroup
	for ei, e := range epochNums {
		wg.Add(1)
		go func(ei int, e uint64) {
			defer wg.Done()
			o := cargen.Opts{Epoch: e, Seed: seed*3 + int64(e), NSlots: 150, SkipOneIn: 6, MaxEntries: 2, MaxTx: 3, VoteOneIn: 6, FailOneIn: 5, MultiFrameOneIn: 9, Universe: universe}
			if ei == 1 {
				o.ExactTx = nHot + 57
				o.KeyHook = func(slot uint64, pos int) []solana.PublicKey {
					if (slot+uint64(pos))%48 == 5 {
						return nil
					}
					return []solana.PublicKey{hot}
				}
			} else {
				o.KeyHook = func(slot uint64, pos int) []solana.PublicKey {
					if (slot+uint64(pos))%7 == 0 {
						return []solana.PublicKey{hot}
					}
					return nil
				}
			}
			fx, ierr, err := vfMakeEpoch(filepath.Join(root, fmt.Sprintf("e%d", e)), o, true)
			if err != nil || ierr != "" {
				t.Errorf("fixture: %v %s", err, ierr)
				return
			}
			fxs[ei] = fx
		}(ei, e)
	}
	wg.Wait()
	if t.Failed() {
		t.FailNow()
	}
	hist := func(a solana.PublicKey) (full []*cargen.Tx, nNewer int) {
		for ei := 1; ei >= 0; ei-- {
			bl := fxs[ei].Model.Blocks
			for bi := len(bl) - 1; bi >= 0; bi-- {
				txs := bl[bi].Txs
				for ti := len(txs) - 1; ti >= 0; ti-- {
					if txs[ti].Mentions(a) {
						full = append(full, txs[ti])
					}
				}
			}
			if ei == 1 {
				nNewer = len(full)
			}
		}
		return
	}
	ctx := context.Background()
	cache := vfNewCache()
	multi := NewMultiEpoch(&Options{EpochSearchConcurrency: 2})
	for ei := range fxs {
		ep, err := fxs[ei].vfLoad(cache)
		if err != nil {
			t.Fatal(err)
		}
		multi.AddEpoch(epochNums[ei], ep)
	}
	h := newMultiEpochHandler(multi, nil)
	fetcher := func(epochNum uint64, oas linkedlog.OffsetAndSizeAndSlot) (*ipldbindcode.Transaction, error) {
		epoch, err := multi.GetEpoch(epochNum)
		if err != nil {
			return nil, err
		}
		raw, err := epoch.GetNodeByOffsetAndSize(ctx, nil, &indexes.OffsetAndSize{Offset: oas.Offset, Size: oas.Size})
		if err != nil {
			return nil, err
		}
		return iplddecoders.DecodeTransaction(raw)
	}
	readers, _ := multi.getGsfaReadersInEpochDescendingOrder()
	gm, err := gsfa.NewGsfaReaderMultiepoch(readers)
	if err != nil {
		t.Fatal(err)
	}
	flatten := func(m gsfa.EpochToTransactionObjects) ([]string, error) {
		var es []uint64
		for e := range m {
			es = append(es, e)
		}
		sort.Slice(es, func(i, j int) bool { return es[i] > es[j] })
		var out []string
		for _, e := range es {
			for _, tx := range m[e] {
				s, err := tx.Signature()
				if err != nil {
					return nil, err
				}
				out = append(out, s.String())
			}
		}
		return out, nil
	}
	full, nNewer := hist(hot)
	rec.Note("hot_address_entries_newer_epoch", nNewer)
	rec.Note("hot_address_entries_older_epoch", len(full)-nNewer)
	if nNewer < 2001 {
		rec.Inconclusive(fmt.Sprintf("fixture: the hot address has only %d entries in the newer epoch", nNewer))
		return
	}
	// positions (index into the newest-first history) around every record boundary of the newer epoch's list
	// (records hold 1 000 entries, the newest record the remainder), around the epoch boundary and at the ends
	posSet := map[int]bool{}
	addPos := func(p int) {
		for d := -1; d <= 1; d++ {
			if q := p + d; q >= 0 && q < len(full) {
				posSet[q] = true
			}
		}
	}
	r := nNewer % 1000
	for p := r; p <= nNewer; p += 1000 {
		addPos(p)
	}
	addPos(0)
	addPos(nNewer)
	addPos(len(full) - 1)
	addPos(nNewer / 2)
	var positions []int
	for p := range posSet {
		positions = append(positions, p)
	}
	sort.Ints(positions)
	rng := rand.New(rand.NewSource(seed ^ 0xC07B))
	untilPositions := []int{-1}
	for i := 0; i < ev.Pick(3, 8); i++ {
		untilPositions = append(untilPositions, positions[rng.Intn(len(positions))])
	}
	limits := []int{1, 999, 1000, 1001, 2500, 5000}
	if race {
		limits = []int{1000, 5000}
		untilPositions = untilPositions[:2]
	}
	sigAt := func(p int) *solana.Signature {
		if p < 0 {
			return nil
		}
		s := full[p].Sig
		return &s
	}
	var rc c07Case
	replay := ev.LoadReplay(&rc) && rc.Level != "" && strings.HasPrefix(rc.Level, "long")
	var rng2 = rand.New(rand.NewSource(seed ^ 0x7B))
	for _, limit := range limits {
		for _, bp := range append([]int{-1}, positions...) {
			for _, up := range untilPositions {
				if rec.Enough() {
					return
				}
				before, until := sigAt(bp), sigAt(up)
				want := c07Expected(full, limit, before, until)
				c := c07Case{Seed: seed, Level: "long/reader", Epochs: epochNums, Address: hot.String(), Limit: limit, BeforeS: uint64(bp + 1), UntilS: uint64(up + 1)}
				if before != nil {
					c.Before = before.String()
				}
				if until != nil {
					c.Until = until.String()
				}
				if replay && (c.Limit != rc.Limit || c.Before != rc.Before || c.Until != rc.Until) {
					continue
				}
				rec.Eval(1)
				gotM, err := gm.GetBeforeUntil(ctx, hot, limit, before, until, fetcher)
				if err != nil {
					rec.Violation("GsfaReaderMultiepoch.GetBeforeUntil/error", fmt.Sprintf("history of %d+%d entries, limit %d, before #%d, until #%d: %v", nNewer, len(full)-nNewer, limit, bp, up, err), c)
					continue
				}
				got, ferr := flatten(gotM)
				if ferr != nil || strings.Join(got, ",") != strings.Join(want, ",") {
					c.Want, c.Got = c07Short(want), c07Short(got)
					rec.Violation("GsfaReaderMultiepoch.GetBeforeUntil/wrong-slice", fmt.Sprintf("history of %d+%d entries, limit %d, before #%d, until #%d: got %d entries, want %d", nNewer, len(full)-nNewer, limit, bp, up, len(got), len(want)), c)
				}
				if len(want) > 0 {
					rec.Distinct(fmt.Sprintf("long/reader/%d/%d/%d", limit, bp, up))
				}
				// JSON-RPC on a sample (the server caps the limit at 1000)
				if limit <= 1000 && (replay || rng2.Intn(4) == 0) {
					var opts []string
					opts = append(opts, fmt.Sprintf(`"limit":%d`, limit))
					if before != nil {
						opts = append(opts, fmt.Sprintf(`"before":"%s"`, before))
					}
					if until != nil {
						opts = append(opts, fmt.Sprintf(`"until":"%s"`, until))
					}
					body := fmt.Sprintf(`{"jsonrpc":"2.0","id":1,"method":"getSignaturesForAddress","params":["%s",{%s}]}`, hot, strings.Join(opts, ","))
					rec.Eval(1)
					_, resp := vfCall(h, body)
					var rr struct {
						Result []struct {
							Signature string `json:"signature"`
						} `json:"result"`
						Error any `json:"error"`
					}
					c.Level = "long/jsonrpc"
					if err := json.Unmarshal(resp, &rr); err != nil || rr.Error != nil {
						rec.Violation("jsonrpc/getSignaturesForAddress/error", fmt.Sprintf("response %.200s", resp), c)
						continue
					}
					var gj []string
					for _, x := range rr.Result {
						gj = append(gj, x.Signature)
					}
					if strings.Join(gj, ",") != strings.Join(want, ",") {
						c.Want, c.Got = c07Short(want), c07Short(gj)
						rec.Violation("jsonrpc/getSignaturesForAddress/wrong-slice", fmt.Sprintf("history of %d+%d entries, limit %d, before #%d, until #%d: got %d entries, want %d", nNewer, len(full)-nNewer, limit, bp, up, len(gj), len(want)), c)
					}
					if len(want) > 0 {
						rec.Distinct(fmt.Sprintf("long/jsonrpc/%d/%d/%d", limit, bp, up))
					}
				}
			}
		}
	}
	if replay {
		return
	}

	// ---- queries in flight together: 8 goroutines, one set of readers
	accounts := append([]solana.PublicKey{hot}, universe[:6]...)
	wants := make([][]string, len(accounts))
	for i, a := range accounts {
		f, _ := hist(a)
		wants[i] = c07Expected(f, 1000, nil, nil)
	}
	rounds := ev.Pick(30, 300)
	if race {
		rounds = 12
	}
	var bad atomic.Int64
	var firstBad atomic.Value
	var cw sync.WaitGroup
	for g := 0; g < 8; g++ {
		cw.Add(1)
		go func(g int) {
			defer cw.Done()
			lr := rand.New(rand.NewSource(seed*31 + int64(g)))
			for i := 0; i < rounds; i++ {
				ai := lr.Intn(len(accounts))
				if ai == 0 && lr.Intn(3) != 0 {
					ai = 1 + lr.Intn(len(accounts)-1) // the hot address is the expensive one
				}
				var got []string
				var err error
				if lr.Intn(4) == 0 {
					body := fmt.Sprintf(`{"jsonrpc":"2.0","id":1,"method":"getSignaturesForAddress","params":["%s",{"limit":1000}]}`, accounts[ai])
					_, resp := vfCall(h, body)
					var rr struct {
						Result []struct {
							Signature string `json:"signature"`
						} `json:"result"`
						Error any `json:"error"`
					}
					if e := json.Unmarshal(resp, &rr); e != nil || rr.Error != nil {
						err = fmt.Errorf("response %.160s", resp)
					}
					for _, x := range rr.Result {
						got = append(got, x.Signature)
					}
				} else {
					var m gsfa.EpochToTransactionObjects
					m, err = gm.GetBeforeUntil(ctx, accounts[ai], 1000, nil, nil, fetcher)
					if err == nil {
						got, err = flatten(m)
					}
				}
				rec.Eval(1)
				if err != nil || strings.Join(got, ",") != strings.Join(wants[ai], ",") {
					if bad.Add(1) == 1 {
						firstBad.Store(fmt.Sprintf("account #%d: err=%v, %d entries returned, %d expected", ai, err, len(got), len(wants[ai])))
					}
				}
			}
		}(g)
	}
	cw.Wait()
	for i := range accounts {
		if len(wants[i]) > 0 {
			rec.Distinct(fmt.Sprintf("concurrent/account-%d", i))
		}
	}
	if n := bad.Load(); n > 0 {
		rec.Violation("getSignaturesForAddress/wrong-under-concurrent-queries", fmt.Sprintf("%d of %d queries issued from 8 goroutines at once were answered wrongly (each is answered correctly alone); first: %v", n, 8*rounds, firstBad.Load()), c07Case{Seed: seed, Level: "long/concurrent", Epochs: epochNums, Limit: 1000})
	}
	rec.Count("concurrent_queries", 8*rounds)
}

func c07Short(xs []string) []string {
	if len(xs) <= 12 {
		return xs
	}
	out := append([]string{}, xs[:6]...)
	out = append(out, fmt.Sprintf("... %d more ...", len(xs)-12))
	return append(out, xs[len(xs)-6:]...)
}
