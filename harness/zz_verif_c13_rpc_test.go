//go:build verif

package main

// C13, one layer up: the same fault (one file of an epoch cut short) observed at the JSON-RPC
// surface of a server that has a second, complete epoch loaded (so that getTransaction runs the
// epoch search). A request for an archived key must get the answer of the complete epoch or an
// error response - never "not found" (code -32009), null or an empty list.

import (
	"context"
	"crypto/sha256"
	"encoding/hex"
	"encoding/json"
	"fmt"
	"os"
	"path/filepath"
	"strings"
	"time"

	old_faithful_grpc "github.com/rpcpool/yellowstone-faithful/old-faithful-proto/old-faithful-grpc"
	"github.com/rpcpool/yellowstone-faithful/zzverif/ev"
	"google.golang.org/grpc/codes"
	"google.golang.org/grpc/status"
	"google.golang.org/protobuf/proto"
)

// c13GrpcAns classifies the outcome of a unary gRPC method.
func c13GrpcAns(m proto.Message, err error) c13Ans {
	if err != nil {
		if status.Code(err) == codes.NotFound {
			return c13Ans{c13NotFound, err.Error()}
		}
		return c13FromErr(err)
	}
	b, merr := proto.MarshalOptions{Deterministic: true}.Marshal(m)
	if merr != nil {
		return c13Ans{c13Err, "cannot marshal the response: " + merr.Error()}
	}
	if len(b) == 0 {
		return c13Ans{c13Empty, "empty response message"}
	}
	h := sha256.Sum256(b)
	return c13Ans{c13Val, fmt.Sprintf("%d bytes sha256=%s", len(b), hex.EncodeToString(h[:8]))}
}

func c13RpcAns(resp []byte) c13Ans {
	var r struct {
		Result json.RawMessage `json:"result"`
		Error  *struct {
			Code    int    `json:"code"`
			Message string `json:"message"`
		} `json:"error"`
	}
	if err := json.Unmarshal(resp, &r); err != nil {
		return c13Ans{c13Err, fmt.Sprintf("unparsable response: %.120s", resp)}
	}
	if r.Error != nil {
		if r.Error.Code == CodeNotFound {
			return c13Ans{c13NotFound, fmt.Sprintf("error %d %q", r.Error.Code, r.Error.Message)}
		}
		return c13Ans{c13Err, fmt.Sprintf("error %d %q", r.Error.Code, r.Error.Message)}
	}
	s := strings.TrimSpace(string(r.Result))
	if s == "" || s == "null" {
		return c13Ans{c13Empty, "result null"}
	}
	if s == "[]" || s == "{}" {
		return c13Ans{c13Empty, "result " + s}
	}
	// canonical form: decode and re-encode (sorted object keys)
	var v any
	if err := json.Unmarshal(r.Result, &v); err == nil {
		if b, err := json.Marshal(v); err == nil {
			s = string(b)
		}
	}
	h := sha256.Sum256([]byte(s))
	return c13Ans{c13Val, fmt.Sprintf("%d bytes sha256=%s", len(s), hex.EncodeToString(h[:8]))}
}

type c13RpcSpec struct {
	role   string // file cut: config role, or "gsfa:<file>"
	kind   string
	method string
}

func c13RpcTarget(f *c13Fixtures, e, companion *c13EpochFx, sp c13RpcSpec, twoEpochs bool, lim c13Limits) (*c13Target, error) {
	variant := "one-epoch"
	if twoEpochs {
		variant = "two-epochs"
	}
	surface := "jsonrpc/" + sp.method
	if strings.HasPrefix(sp.method, "grpc.") {
		surface = "grpc/" + strings.TrimPrefix(sp.method, "grpc.")
	}
	t := &c13Target{Part: "rpc", Fixture: e.Name, Site: surface + "/" + sp.kind + "-cut/" + variant}
	work := f.workDir()
	var src string
	gsfaFile := ""
	switch {
	case sp.role == "car":
		src = e.CarPath
	case sp.role == "cid_to_offset_and_size":
		src = e.Idx.CidToOffsetAndSize
	case sp.role == "slot_to_cid":
		src = e.Idx.SlotToCid
	case sp.role == "sig_to_cid":
		src = e.Idx.SigToCid
	case sp.role == "sig_exists":
		src = e.Idx.SigExists
	case sp.role == "slot_to_blocktime":
		src = e.Idx.SlotToBlocktime
	case strings.HasPrefix(sp.role, "gsfa:"):
		gsfaFile = strings.TrimPrefix(sp.role, "gsfa:")
		src = filepath.Join(e.Idx.GsfaDir, gsfaFile)
	}
	st, err := os.Stat(src)
	if err != nil {
		return nil, err
	}
	t.Size = st.Size()
	override := map[string]string{"gsfa": "", "__name": fmt.Sprintf("c13-%s.yml", filepath.Base(work))}
	var workFile string
	if gsfaFile != "" {
		gdir := filepath.Join(work, filepath.Base(e.Idx.GsfaDir))
		if err := c13CopyGsfaDir(e.Idx.GsfaDir, gdir); err != nil {
			return nil, err
		}
		workFile = filepath.Join(gdir, gsfaFile)
		override["gsfa"] = gdir
	} else {
		workFile = filepath.Join(work, filepath.Base(src))
		override[sp.role] = workFile
	}
	t.SetCut = c13Cutter(src, workFile)
	fxc := *e.vfEpochFx
	if err := fxc.writeConfig("", override); err != nil {
		return nil, err
	}
	cfgPath := fxc.CfgPath
	var comp *Epoch
	if twoEpochs {
		cfx := *companion.vfEpochFx
		if err := cfx.writeConfig("", map[string]string{"gsfa": "", "__name": fmt.Sprintf("c13-%s-companion.yml", filepath.Base(work))}); err != nil {
			return nil, err
		}
		comp, err = cfx.vfLoad(c13NewCache())
		os.Remove(cfx.CfgPath)
		if err != nil {
			return nil, fmt.Errorf("companion epoch: %w", err)
		}
	}
	t.Cleanup = func() {
		if comp != nil {
			time.Sleep(5 * time.Millisecond)
			comp.Close()
		}
		os.RemoveAll(work)
		os.Remove(cfgPath)
	}
	var bodies []string
	var grpcCall func(multi *MultiEpoch, k int) c13Ans
	switch sp.method {
	case "grpc.GetTransaction":
		for _, s := range e.Sigs {
			t.Keys = append(t.Keys, s.String())
		}
		grpcCall = func(multi *MultiEpoch, k int) c13Ans {
			res, err := multi.GetTransaction(context.Background(), &old_faithful_grpc.TransactionRequest{Signature: e.Sigs[k][:]})
			if err != nil {
				return c13GrpcAns(nil, err)
			}
			return c13GrpcAns(res, nil)
		}
	case "grpc.GetBlock":
		for _, s := range e.Slots {
			t.Keys = append(t.Keys, fmt.Sprint(s))
		}
		grpcCall = func(multi *MultiEpoch, k int) c13Ans {
			res, err := multi.GetBlock(context.Background(), &old_faithful_grpc.BlockRequest{Slot: e.Slots[k]})
			if err != nil {
				return c13GrpcAns(nil, err)
			}
			return c13GrpcAns(res, nil)
		}
	case "getTransaction":
		for _, s := range e.Sigs {
			t.Keys = append(t.Keys, s.String())
			bodies = append(bodies, fmt.Sprintf(`{"jsonrpc":"2.0","id":1,"method":"getTransaction","params":["%s",{"encoding":"base64","maxSupportedTransactionVersion":0}]}`, s))
		}
	case "getBlock":
		for _, s := range e.Slots {
			t.Keys = append(t.Keys, fmt.Sprint(s))
			bodies = append(bodies, fmt.Sprintf(`{"jsonrpc":"2.0","id":1,"method":"getBlock","params":[%d,{"encoding":"base64","maxSupportedTransactionVersion":0}]}`, s))
		}
	case "getBlockTime":
		for _, s := range e.Slots {
			t.Keys = append(t.Keys, fmt.Sprint(s))
			bodies = append(bodies, fmt.Sprintf(`{"jsonrpc":"2.0","id":1,"method":"getBlockTime","params":[%d]}`, s))
		}
	case "getSignaturesForAddress":
		stored := c13StoredPubkeys(e)
		t.MustKeys = c13HotIdx(e, stored)
		for _, p := range stored {
			t.Keys = append(t.Keys, p.String())
			bodies = append(bodies, fmt.Sprintf(`{"jsonrpc":"2.0","id":1,"method":"getSignaturesForAddress","params":["%s",{"limit":1000}]}`, p))
		}
	}
	// cut selection: reuse the layouts of the file kinds
	switch {
	case sp.role == "car":
		t.Region = c13CarRegion(e)
		t.Bounds = []int64{int64(e.Model.HeaderLen), t.Size}
		for _, b := range e.SecBound {
			t.Bounds = append(t.Bounds, b...)
		}
	case sp.role == "sig_exists":
		lay, err := c13ParseSigx(src)
		if err != nil {
			return nil, err
		}
		sigs := c13SigsOf(e)
		t.Region, t.Bounds = lay.region, lay.bounds()
		if strings.HasSuffix(sp.method, "etTransaction") {
			t.KeyBounds = func(k int) []int64 { return lay.keyBounds(sigs[k]) }
		}
	case sp.role == "slot_to_blocktime":
		start := e.Model.Epoch * 432000
		t.Region = c13BtRegion(t.Size)
		t.Bounds = []int64{14, 22, 30, 38, 46, t.Size}
		t.KeyBounds = func(k int) []int64 { p := 46 + 4*int64(e.Slots[k]-start); return []int64{p, p + 4} }
	case gsfaFile == "linked-log":
		pks := c13StoredPubkeys(e)
		t.Region = func(c int64) string { return "records" }
		t.Bounds = []int64{t.Size}
		t.KeyBounds = func(k int) []int64 { return c13LogBounds(e.Idx.GsfaDir, pks[k]) }
	default:
		lay, err := c13ParseCompact(src)
		if err != nil {
			return nil, err
		}
		t.Region, t.Bounds = lay.region, lay.bounds()
		for i, b := range lay.buckets { // a few entry boundaries per bucket
			if i > 8 {
				break
			}
			for j := int64(0); j < b.n; j += 1 + b.n/24 {
				t.Bounds = append(t.Bounds, b.off+j*lay.stride)
			}
		}
		pc := t.Cleanup
		t.Cleanup = func() { pc(); lay.close() }
	}
	t.Open = func() (c13Handle, error) {
		fx := fxc
		ep, err := fx.vfLoad(c13NewCache())
		if err != nil {
			return nil, err // the server refuses to serve this epoch: loud
		}
		multi := NewMultiEpoch(&Options{EpochSearchConcurrency: 2})
		if comp != nil {
			multi.AddEpoch(companion.Model.Epoch, comp)
		}
		multi.AddEpoch(e.Model.Epoch, ep)
		h := newMultiEpochHandler(multi, nil)
		return &c13FuncHandle{func(k int) c13Ans {
			if grpcCall != nil {
				return grpcCall(multi, k)
			}
			_, resp := vfCall(h, bodies[k])
			return c13RpcAns(resp)
		}, func() {
			// the multi-epoch signature search leaves its slower jobs running after the first answer; give them
			// a moment before the files are unmapped (closing under them is C09's close-under-query finding)
			time.Sleep(5 * time.Millisecond)
			ep.Close()
		}}, nil
	}
	return t.limits(lim), nil
}

func c13RpcTargets(f *c13Fixtures) []*c13Target {
	var out []*c13Target
	e, comp := f.epoch("small"), f.epoch("tiny")
	if e == nil || comp == nil || e.Model.Epoch == comp.Model.Epoch {
		f.setupErr("rpc", "needs the small and the tiny epoch with different epoch numbers")
		return nil
	}
	lim := c13Limits{nRandom: ev.Pick(30, 600), maxCuts: ev.Pick(110, 2500), maxKeys: ev.Pick(24, 200)}
	specs := []c13RpcSpec{
		{"sig_to_cid", "sig-to-cid", "getTransaction"},
		{"sig_exists", "sig-exists", "getTransaction"},
		{"cid_to_offset_and_size", "cid-to-offset-and-size", "getTransaction"},
		{"car", "car", "getTransaction"},
		{"slot_to_cid", "slot-to-cid", "getBlock"},
		{"cid_to_offset_and_size", "cid-to-offset-and-size", "getBlock"},
		{"car", "car", "getBlock"},
		{"slot_to_blocktime", "slot-to-blocktime", "getBlockTime"},
		{"gsfa:pubkey-to-offset-and-size.index", "gsfa-pubkey-to-offset-and-size", "getSignaturesForAddress"},
		{"gsfa:linked-log", "gsfa-linked-log", "getSignaturesForAddress"},
		{"sig_to_cid", "sig-to-cid", "grpc.GetTransaction"},
		{"cid_to_offset_and_size", "cid-to-offset-and-size", "grpc.GetBlock"},
	}
	for _, sp := range specs {
		t, err := c13RpcTarget(f, e, comp, sp, true, lim)
		if err != nil {
			f.setupErr("rpc", "target setup: %v", err)
			continue
		}
		out = append(out, t)
	}
	// the single-epoch server (no epoch search) for the signature index
	if t, err := c13RpcTarget(f, e, comp, specs[0], false, lim); err == nil {
		out = append(out, t)
	} else {
		f.setupErr("rpc", "target setup: %v", err)
	}
	return out
}
