//go:build verif && race

package accum

const c15RaceBuild = true
