//go:build verif

package accum

// C14 (part "accum") — the indexer-side reassembly: ObjectsToTransactionsAndMetadata collects the
// DataFrame objects that precede a transaction in the block's object list and reassembles the
// transaction's metadata from them.
//
// Workload: blocks of 1..6 real transactions (cargen model: legacy/v0, vote, failed, with and without
// metadata); the zstd-compressed metadata (no zstd content checksum) is split by c14chain into 1..60
// frames in every layout; the continuation frames are stored before their transaction in shuffled
// order, with orphan frames, Entry and Rewards objects in between, exactly one object list per block.
// The transaction payload itself stays in one frame (the function documents that it rejects split
// transaction data; that rejection is counted, not judged).
// Oracle: clean => every transaction comes back with exactly its bytes and its metadata, in order;
// one single-frame fault in one transaction's chain => the call fails, or that transaction carries an
// Error, or everything is exact; a transaction returned with other content and no error is the violation.

import (
	"bytes"
	"fmt"
	"math/rand"
	"os"
	"path/filepath"
	"testing"

	"github.com/ipfs/go-cid"
	"github.com/ipld/go-ipld-prime/datamodel"
	cidlink "github.com/ipld/go-ipld-prime/linking/cid"
	"github.com/rpcpool/yellowstone-faithful/ipld/ipldbindcode"
	"github.com/rpcpool/yellowstone-faithful/third_party/solana_proto/confirmed_block"
	"github.com/rpcpool/yellowstone-faithful/zzverif/c14chain"
	"github.com/rpcpool/yellowstone-faithful/zzverif/cargen"
	"github.com/rpcpool/yellowstone-faithful/zzverif/ev"
	"google.golang.org/protobuf/proto"
)

const c14Site = "accum.ObjectsToTransactionsAndMetadata"

type c14AccTx struct {
	Raw     []byte        `json:"raw"`
	MetaRaw []byte        `json:"meta_raw"`
	Data    c14chain.Spec `json:"data"` // single frame
	Meta    c14chain.Spec `json:"meta"`
}

type c14AccCase struct {
	Part    string          `json:"part"`
	Name    string          `json:"name"`
	Seed    int64           `json:"seed"` // storage order, junk
	Txs     []c14AccTx      `json:"txs"`
	FaultTx int             `json:"fault_tx"`
	Target  string          `json:"target"` // data | meta
	Fault   *c14chain.Fault `json:"fault,omitempty"`
	Other   *c14chain.Spec  `json:"other,omitempty"`
	SplitTx bool            `json:"split_tx_data"` // diagnostic: transaction payload in several frames
}

func c14Canon(metaRaw []byte) ([]byte, error) {
	var m confirmed_block.TransactionStatusMeta
	if err := proto.Unmarshal(metaRaw, &m); err != nil {
		return nil, err
	}
	return proto.MarshalOptions{Deterministic: true}.Marshal(&m)
}

func c14LinkOf(id cid.Cid) datamodel.Link { return cidlink.Link{Cid: id} }

type c14AccBuilt struct {
	dch, mch []*c14chain.Chain
}

func c14AccBuild(c *c14AccCase) c14AccBuilt {
	var b c14AccBuilt
	for i := range c.Txs {
		b.dch = append(b.dch, c14chain.Build(c.Txs[i].Data))
		b.mch = append(b.mch, c14chain.Build(c.Txs[i].Meta))
	}
	return b
}

// c14AccObjects lays the block out as the CAR writers do: [frames of tx0 ..., tx0, frames of tx1 ..., tx1, entry, ...].
func c14AccObjects(c *c14AccCase, b c14AccBuilt) (objs []ObjectWithMetadata, applied bool, txOffsets []uint64) {
	rng := rand.New(rand.NewSource(c.Seed))
	applied = true
	off := uint64(1000)
	push := func(id cid.Cid, data []byte) uint64 {
		o := ObjectWithMetadata{Cid: id, Offset: off, SectionLength: uint64(len(data) + 38), ObjectData: data}
		objs = append(objs, o)
		off += o.SectionLength
		return o.Offset
	}
	var txLinks ipldbindcode.List__Link
	for i := range c.Txs {
		dv, mv := b.dch[i].Clean(), b.mch[i].Clean()
		if c.Fault != nil && i == c.FaultTx {
			var other *c14chain.Chain
			if c.Other != nil && c.Fault.Kind == "swap-other" {
				other = c14chain.Build(*c.Other)
			}
			if c.Target == "data" {
				dv = b.dch[i].View(*c.Fault, other)
				applied = dv.Applied
			} else {
				mv = b.mch[i].View(*c.Fault, other)
				applied = mv.Applied
			}
		}
		// the stored continuation frames of both chains, in shuffled order, before the transaction
		type st struct {
			id cid.Cid
			b  []byte
		}
		var frames []st
		for _, v := range []*c14chain.View{&dv, &mv} {
			for k, bb := range v.Store {
				frames = append(frames, st{v.Cids[k], bb})
			}
		}
		// map iteration order is random: sort, then shuffle with the case's rng (deterministic)
		for a := 1; a < len(frames); a++ {
			for z := a; z > 0 && frames[z].id.KeyString() < frames[z-1].id.KeyString(); z-- {
				frames[z], frames[z-1] = frames[z-1], frames[z]
			}
		}
		rng.Shuffle(len(frames), func(a, z int) { frames[a], frames[z] = frames[z], frames[a] })
		if rng.Intn(3) == 0 {
			// an orphan frame (e.g. left over in the CAR): never linked
			junk := c14chain.Build(c14chain.Spec{Seed: c.Seed + int64(i), Len: 1 + rng.Intn(40), K: 1, Layout: "schema", Fanout: 1, Sum: "crc"})
			frames = append(frames, st{junk.Frames[0].Cid, junk.Frames[0].Bytes})
			rng.Shuffle(len(frames), func(a, z int) { frames[a], frames[z] = frames[z], frames[a] })
		}
		for _, f := range frames {
			push(f.id, f.b)
		}
		node := ipldbindcode.Transaction{Kind: cargen.KindTransaction, Data: dv.First, Metadata: mv.First, Slot: 432000*3 + 17}
		pos := i
		pp := &pos
		node.Index = &pp
		id, nb := cargen.EncodeNode(&node, ipldbindcode.Prototypes.Transaction)
		txOffsets = append(txOffsets, push(id, nb))
		txLinks = append(txLinks, c14LinkOf(id))
		if rng.Intn(2) == 0 || i == len(c.Txs)-1 {
			h := make([]byte, 32)
			rng.Read(h)
			e := ipldbindcode.Entry{Kind: cargen.KindEntry, NumHashes: 1 + rng.Intn(1000), Hash: h, Transactions: txLinks}
			eid, eb := cargen.EncodeNode(&e, ipldbindcode.Prototypes.Entry)
			push(eid, eb)
			txLinks = nil
		}
	}
	// a rewards payload with its own frames at the end of the block
	rw := make([]byte, 50+rng.Intn(400))
	rng.Read(rw)
	rch := c14chain.Build(c14chain.Spec{Seed: c.Seed ^ 0x4e, Payload: rw, K: 1 + rng.Intn(4), Layout: "schema", Fanout: 1 + rng.Intn(3), Sum: "crc", Split: "even"})
	for _, f := range rch.Frames[1:] {
		push(f.Cid, f.Bytes)
	}
	rn := ipldbindcode.Rewards{Kind: cargen.KindRewards, Slot: 432000*3 + 17, Data: *rch.Frames[0].Node}
	rid, rb := cargen.EncodeNode(&rn, ipldbindcode.Prototypes.Rewards)
	push(rid, rb)
	return
}

func c14AccCall(block *ipldbindcode.Block, objs []ObjectWithMetadata) (out []*TransactionWithSlot, err error, panicked any) {
	defer func() {
		if r := recover(); r != nil {
			panicked = r
		}
	}()
	out, err = ObjectsToTransactionsAndMetadata(block, objs)
	return
}

// c14AccTxExact compares one returned transaction with the model.
func c14AccTxExact(tws *TransactionWithSlot, want *c14AccTx) (exact bool, what string) {
	gb, err := tws.Transaction.MarshalBinary()
	if err != nil {
		return false, fmt.Sprintf("returned transaction cannot be serialised: %v", err)
	}
	if !bytes.Equal(gb, want.Raw) {
		return false, fmt.Sprintf("transaction bytes differ (%d vs %d bytes)", len(gb), len(want.Raw))
	}
	if len(want.MetaRaw) == 0 {
		if tws.Metadata != nil {
			return false, "metadata returned for a transaction that has none"
		}
		return true, ""
	}
	if tws.Metadata == nil {
		return false, "metadata missing"
	}
	pb := tws.Metadata.GetProtobuf()
	if pb == nil {
		return false, "metadata not parsed as protobuf"
	}
	g, _ := proto.MarshalOptions{Deterministic: true}.Marshal(pb)
	w, err := c14Canon(want.MetaRaw)
	if err != nil {
		return false, "model metadata does not parse: " + err.Error()
	}
	if !bytes.Equal(g, w) {
		return false, fmt.Sprintf("metadata differs (%d vs %d canonical bytes)", len(g), len(w))
	}
	return true, ""
}

func c14AccRun(rec *ev.Recorder, c c14AccCase) {
	b := c14AccBuild(&c)
	objs, applied, txOffsets := c14AccObjects(&c, b)
	if !applied {
		rec.Count("fault_not_applicable", 1)
		return
	}
	block := &ipldbindcode.Block{Kind: cargen.KindBlock, Slot: 432000*3 + 17}
	block.Meta.Blocktime = 1_700_000_123
	got, err, panicked := c14AccCall(block, objs)
	fault := "none"
	if c.Fault != nil {
		fault = c.Fault.Kind
	}
	if c.SplitTx {
		// documented limitation: "transaction data is split into multiple objects"
		switch {
		case panicked != nil:
			rec.Violationf(c14Site+"/panic", c, "%s: panic %v", c.Name, panicked)
		case err != nil:
			rec.Count("diag_split_tx_data_rejected", 1)
		default:
			rec.Count("diag_split_tx_data_accepted", 1)
		}
		return
	}
	rec.Eval(1)
	rec.Count("calls_"+fault, 1)
	var sig string
	if c.Fault != nil {
		ch := b.mch[c.FaultTx]
		if c.Target == "data" {
			ch = b.dch[c.FaultTx]
		}
		sig = c.Target + "/" + ch.Signature(fault)
		if ch.K >= 2 || c.Target == "data" {
			rec.Distinct(sig)
		}
	} else {
		for _, ch := range b.mch {
			if ch.K >= 2 {
				rec.Distinct("meta/" + ch.Signature(fault))
			}
		}
	}
	if panicked != nil {
		rec.Violationf(c14Site+"/panic", c, "%s: panic %v (fault=%s)", c.Name, panicked, fault)
		return
	}
	if c.Fault == nil {
		if err != nil {
			rec.Violationf(c14Site+"/wellformed-rejected", c, "%s: well-formed block of %d transactions rejected: %v", c.Name, len(c.Txs), err)
			return
		}
		if len(got) != len(c.Txs) {
			rec.Violationf(c14Site+"/wellformed-wrong-bytes", c, "%s: %d transactions returned, %d stored", c.Name, len(got), len(c.Txs))
			return
		}
		for i := range got {
			if got[i].Error != nil && len(c.Txs[i].MetaRaw) > 0 {
				rec.Violationf(c14Site+"/wellformed-rejected", c, "%s: transaction %d of a well-formed block (meta k=%d %s fan=%d) carries error: %v", c.Name, i, b.mch[i].K, c.Txs[i].Meta.Layout, c.Txs[i].Meta.Fanout, got[i].Error)
				return
			}
			if ok, what := c14AccTxExact(got[i], &c.Txs[i]); !ok {
				rec.Violationf(c14Site+"/wellformed-wrong-bytes", c, "%s: transaction %d of a well-formed block (meta k=%d %s fan=%d): %s", c.Name, i, b.mch[i].K, c.Txs[i].Meta.Layout, c.Txs[i].Meta.Fanout, what)
				return
			}
			if got[i].Offset != txOffsets[i] || got[i].Blocktime != 1_700_000_123 {
				rec.Count("offset_or_blocktime_differs", 1) // not part of C14
			}
		}
		rec.Count("clean_exact", 1)
		return
	}
	if err != nil {
		rec.Count("fault_rejected_"+fault, 1)
		return
	}
	if len(got) != len(c.Txs) {
		rec.Violationf(c14Site+"/fault-"+fault+"-wrong-bytes", c, "%s: fault %+v: no error, %d transactions returned, %d stored", c.Name, *c.Fault, len(got), len(c.Txs))
		return
	}
	masked := true
	for i := range got {
		if i == c.FaultTx && got[i].Error != nil && len(c.Txs[i].MetaRaw) > 0 {
			masked = false
			rec.Count("fault_rejected_per_tx_"+fault, 1)
			continue
		}
		if ok, what := c14AccTxExact(got[i], &c.Txs[i]); !ok {
			where := "the faulted transaction"
			if i != c.FaultTx {
				where = fmt.Sprintf("the intact transaction %d of the same block", i)
			}
			rec.Violationf(c14Site+"/fault-"+fault+"-wrong-bytes", c, "%s: fault %+v in the %s chain of transaction %d (%s): no error, but %s: %s", c.Name, *c.Fault, c.Target, c.FaultTx, sig, where, what)
			return
		}
	}
	if masked {
		rec.Count("fault_masked_"+fault, 1)
	}
}

func TestVerifC14Accum(t *testing.T) {
	var rc c14AccCase
	if ev.LoadReplay(&rc) {
		if rc.Part != "accum" {
			t.Skip("replay of another part")
		}
		rec := ev.New("C14", "accum")
		defer rec.Flush()
		rec.Rule("replay of one case")
		rec.Distinct("replay")
		rec.Distinct("replay2")
		c14AccRun(rec, rc)
		return
	}
	rec := ev.New("C14", "accum")
	defer rec.Flush()
	rec.Rule("distinct = (faulted chain, frame count >= 2 (metadata) or single-frame (transaction), layout + fan-out, checksum kind, fault kind or none)")
	seed := ev.Seed()
	rng := rand.New(rand.NewSource(seed*0xC14 + 3))
	dir := filepath.Join(ev.Scratch(), "c14acc")
	os.MkdirAll(dir, 0o755)
	defer os.RemoveAll(dir)
	m, err := cargen.Generate(filepath.Join(dir, "m.car"), cargen.Opts{Epoch: 3, Seed: seed*37 + 14, NSlots: ev.Pick(60, 1200), MaxEntries: 2, MaxTx: 4,
		BigOneIn: 6, TinyOneIn: 9, VoteOneIn: 4, FailOneIn: 4, V0OneIn: 3})
	if err != nil {
		t.Fatalf("c14: cargen: %v", err)
	}
	os.Remove(filepath.Join(dir, "m.car"))
	txs := m.AllTxs()
	nBlocks := ev.Pick(250, 4000)
	layouts := []string{"schema", "schema", "schema-head", "tree", "anytree"}
	pos := 0
	for bi := 0; bi < nBlocks && !rec.Enough(); bi++ {
		n := 1 + rng.Intn(6)
		if bi < 6 {
			n = bi + 1
		}
		c := c14AccCase{Part: "accum", Name: fmt.Sprintf("block-%d", bi), Seed: seed*1_000_003 + int64(bi)}
		for j := 0; j < n; j++ {
			tx := txs[pos%len(txs)]
			pos++
			var metaZ []byte
			metaRaw := tx.MetaRaw
			if pos%3 == 1 {
				metaRaw = c14chain.FattenMeta(rng, metaRaw, []int{300, 1000, 5000, 20000, 70000, 200000}[(pos/3)%6])
			}
			if len(metaRaw) > 0 {
				metaZ = c14chain.ZstdNoCRC(metaRaw)
			} else {
				metaZ = []byte{}
			}
			sum := "crc"
			if rng.Intn(4) == 0 {
				sum = "fnv"
			}
			k := 1 + rng.Intn(60)
			switch rng.Intn(6) {
			case 0:
				k = 1
			case 1:
				k = 2 + rng.Intn(3)
			case 2:
				k = 2
			}
			c.Txs = append(c.Txs, c14AccTx{Raw: tx.Raw, MetaRaw: metaRaw,
				Data: c14chain.Spec{Seed: c.Seed + int64(j)*7, Payload: tx.Raw, K: 1, Layout: "schema", Fanout: 1, Sum: sum, Split: "even"},
				Meta: c14chain.Spec{Seed: c.Seed + int64(j)*7 + 1, Payload: metaZ, K: k, Layout: layouts[rng.Intn(len(layouts))], Fanout: 1 + rng.Intn(10), Shuffle: rng.Intn(3), Sum: sum, Split: []string{"even", "fixed", "random"}[rng.Intn(3)]},
			})
		}
		if bi < 3 {
			var ks []int
			for _, x := range c.Txs {
				ks = append(ks, c14chain.Build(x.Meta).K)
			}
			rec.Sample(map[string]any{"block": c.Name, "transactions": n, "meta_frames": ks, "meta_layout": c.Txs[0].Meta.Layout, "fanout": c.Txs[0].Meta.Fanout})
		}
		c14AccRun(rec, c)
		// faults: one transaction of the block
		ft := rng.Intn(n)
		built := c14AccBuild(&c)
		for _, tg := range []string{"meta", "data"} {
			ch := built.mch[ft]
			if tg == "data" {
				ch = built.dch[ft]
			}
			os2 := ch.Spec
			os2.Payload = make([]byte, len(ch.Payload))
			rand.New(rand.NewSource(c.Seed ^ 0x77)).Read(os2.Payload)
			frng := rand.New(rand.NewSource(c.Seed ^ 0xfa17 ^ int64(len(tg))))
			for _, f := range ch.Faults(frng, bi%3 == 0) {
				if rec.Enough() {
					break
				}
				f := f
				fc := c
				fc.FaultTx, fc.Target, fc.Fault, fc.Other = ft, tg, &f, &os2
				c14AccRun(rec, fc)
			}
		}
		// diagnostic: split transaction payload (documented as unsupported here)
		if bi%10 == 0 && len(c.Txs[0].Raw) > 200 {
			dc := c
			dc.Txs = append([]c14AccTx(nil), c.Txs...)
			dc.Txs[0].Data.K = 3
			dc.SplitTx = true
			c14AccRun(rec, dc)
		}
	}
}
