//go:build verif

package accum

// C15 — block-by-block CAR traversal (accum.ObjectAccumulator.Run).
//
// Workload: CARs whose layout is owned by this file (directed boundary layouts + seeded random layouts,
// written with a 20-line writer) and realistic epochs from cargen; every ignore-set used in the repo plus
// the empty one and "everything but blocks"; SetSkip(k); consumer callbacks that are instantaneous,
// yielding, randomly delayed, or *steered*: the accumulator reads the CAR through a reader owned by the
// test that hands out bytes only up to the next block boundary, so that "the producer has sent group g"
// and "the consumer has finished group g" become observable events and the two goroutines can be put
// into chosen relative positions (consumer k groups behind, strict alternation, queue completely full)
// without touching the code under test.  GOMAXPROCS 1, 2, 4, 16.
//
// Oracle (decided on values only):
//   * the sequence of callbacks equals the model's groups: each block once, in file order, with exactly
//     the non-ignored sections stored since the previous block; a final parent-less group iff non-ignored
//     objects follow the last block;
//   * for every delivered object the file bytes [Offset, Offset+SectionLength) parse to exactly its CID
//     and its data;
//   * both checks run at callback entry and again at callback exit (after the consumer's delay);
//   * when Run returns, every expected group has been delivered.
// Diagnostics only: deliveries still intact after Run returned, empty parent-less callbacks.

import (
	"bytes"
	"context"
	"encoding/binary"
	"errors"
	"fmt"
	"io"
	"math/rand"
	"os"
	"path/filepath"
	"runtime"
	"runtime/debug"
	"sort"
	"strings"
	"sync"
	"sync/atomic"
	"testing"
	"time"

	"github.com/ipfs/go-cid"
	carv1 "github.com/ipld/go-car"
	"github.com/multiformats/go-multicodec"
	mh "github.com/multiformats/go-multihash"
	"github.com/rpcpool/yellowstone-faithful/carreader"
	"github.com/rpcpool/yellowstone-faithful/iplddecoders"
	"github.com/rpcpool/yellowstone-faithful/zzverif/cargen"
	"github.com/rpcpool/yellowstone-faithful/zzverif/ev"
)

// ---------------------------------------------------------------------------------------------
// CAR construction with ground truth

type c15Sec struct {
	Off  uint64
	Len  uint64
	Cid  cid.Cid
	Kind int
	Data []byte
}

type c15Car struct {
	Name      string
	Bytes     []byte
	Secs      []c15Sec
	HeaderLen uint64
	Model     *cargen.Model // only for cargen CARs
	blockEnds []uint64      // end offsets of all sections of kind Block (ascending)
	secEnds   []uint64      // end offsets of all sections
}

// c15Shape describes a CAR completely (it is the replayable input).
type c15Shape struct {
	Name string `json:"name"`
	Seed int64  `json:"seed"`
	// layout CARs ------------------------------------------------------
	// Groups: run-length list {count, children}: count blocks, each preceded by `children` non-block objects
	Groups   [][2]int `json:"groups,omitempty"`
	Trailing int      `json:"trailing,omitempty"` // non-block objects after the last block
	// ChildKinds / TrailKinds: kinds drawn (cyclically when Cycle, else at random) for non-block objects
	ChildKinds []int  `json:"child_kinds,omitempty"`
	TrailKinds []int  `json:"trail_kinds,omitempty"`
	Cycle      bool   `json:"cycle,omitempty"`
	Sizes      string `json:"sizes,omitempty"` // small | varint | mixed | big
	CidMix     bool   `json:"cid_mix,omitempty"`
	Roots      int    `json:"roots,omitempty"` // number of header roots (default 1)
	Root512    bool   `json:"root512,omitempty"`
	// cargen CARs ------------------------------------------------------
	Cargen *cargen.Opts `json:"cargen,omitempty"`
}

var c15DefaultChildKinds = []int{0, 0, 0, 6, 6, 1, 1, 5, 0, 6, 1, 3, 4}

const (
	c15KindBlock = int(iplddecoders.KindBlock)
)

func c15Cid(kind int, data []byte, idx int) cid.Cid {
	switch kind {
	case 1: // CIDv1 dag-cbor sha2-512 (68 bytes)
		bd := cid.V1Builder{MhLength: -1, MhType: uint64(multicodec.Sha2_512), Codec: uint64(multicodec.DagCbor)}
		c, err := bd.Sum(data)
		if err != nil {
			panic(err)
		}
		return c
	case 2: // CIDv0 (34 bytes)
		h, err := mh.Sum(data, mh.SHA2_256, -1)
		if err != nil {
			panic(err)
		}
		return cid.NewCidV0(h)
	case 3: // CIDv1 raw identity with a 0..3 byte digest (4..7 bytes)
		dg := []byte{byte(idx), byte(idx >> 8), byte(idx >> 16)}[:idx%4]
		h, err := mh.Encode(dg, mh.IDENTITY)
		if err != nil {
			panic(err)
		}
		return cid.NewCidV1(cid.Raw, h)
	}
	return cargen.CidOf(data)
}

func c15CidLen(kind, idx int) int {
	switch kind {
	case 1:
		return 68
	case 2:
		return 34
	case 3:
		return 4 + idx%4
	}
	return 36
}

var c15BoundaryBodies = []int{127, 128, 129, 16383, 16384, 16385, 4095, 4096, 4097, 255, 256}

func c15BuildLayout(sh c15Shape) (*c15Car, error) {
	rng := rand.New(rand.NewSource(sh.Seed*7919 + 13))
	var plan []int // kinds in file order
	ck := sh.ChildKinds
	if len(ck) == 0 {
		ck = c15DefaultChildKinds
	}
	tk := sh.TrailKinds
	if len(tk) == 0 {
		tk = ck
	}
	cyc := 0
	pick := func(set []int) int {
		if sh.Cycle {
			cyc++
			return set[(cyc-1)%len(set)]
		}
		return set[rng.Intn(len(set))]
	}
	for _, g := range sh.Groups {
		for b := 0; b < g[0]; b++ {
			for c := 0; c < g[1]; c++ {
				plan = append(plan, pick(ck))
			}
			plan = append(plan, c15KindBlock)
		}
	}
	cyc = 0
	for i := 0; i < sh.Trailing; i++ {
		plan = append(plan, pick(tk))
	}
	if len(plan) == 0 {
		return nil, fmt.Errorf("empty plan")
	}
	// positions of the very large sections in "big" mode
	bigAt := map[int]int{}
	if sh.Sizes == "big" {
		n := len(plan)
		bigAt[n/3] = 2097151
		bigAt[n/2] = 2097152
		bigAt[(2*n)/3] = 2097153
		// make sure a block is among them when there is one
		for i, k := range plan {
			if k == c15KindBlock {
				if _, ok := bigAt[i]; !ok {
					bigAt[i] = 2097152 + 77
				}
				break
			}
		}
	}
	nRoots := sh.Roots
	if nRoots <= 0 {
		nRoots = 1
	}
	var roots []cid.Cid
	for i := 0; i < nRoots; i++ {
		d := []byte(fmt.Sprintf("root-%d-%d", sh.Seed, i))
		if sh.Root512 && i == 0 {
			roots = append(roots, c15Cid(1, d, i))
		} else {
			roots = append(roots, cargen.CidOf(d))
		}
	}
	var buf bytes.Buffer
	if err := carv1.WriteHeader(&carv1.CarHeader{Roots: roots, Version: 1}, &buf); err != nil {
		return nil, err
	}
	car := &c15Car{Name: sh.Name, HeaderLen: uint64(buf.Len())}
	lb := make([]byte, binary.MaxVarintLen64)
	type pend struct {
		off, ln uint64
		c       cid.Cid
		kind    int
		dOff    int
		dLen    int
	}
	pends := make([]pend, 0, len(plan))
	for idx, kind := range plan {
		ct := 0
		if sh.CidMix {
			switch {
			case idx%5 == 3:
				ct = 1
			case idx%11 == 4:
				ct = 2
			case idx%7 == 5:
				ct = 3
			}
		}
		cl := c15CidLen(ct, idx)
		dl := 0
		small := func() int {
			if rng.Intn(25) == 0 {
				return 2 + rng.Intn(4)
			}
			return 6 + rng.Intn(60)
		}
		boundary := func() int {
			b := c15BoundaryBodies[rng.Intn(len(c15BoundaryBodies))]
			if b-cl < 2 {
				return small()
			}
			return b - cl
		}
		switch sh.Sizes {
		case "varint":
			if rng.Intn(3) == 0 {
				dl = small()
			} else {
				dl = boundary()
			}
		case "mixed":
			switch r := rng.Intn(100); {
			case r < 60:
				dl = small()
			case r < 78:
				dl = boundary()
			case r < 94:
				dl = 200 + rng.Intn(6000)
			default:
				dl = []int{65535, 65536, 65537, 60000 + rng.Intn(9000)}[rng.Intn(4)] - cl
			}
		default:
			dl = small()
		}
		if b, ok := bigAt[idx]; ok {
			dl = b - cl
		}
		data := make([]byte, dl)
		rng.Read(data)
		data[0] = 0x80 | byte(1+rng.Intn(7))
		data[1] = byte(kind)
		if dl >= 6 {
			binary.BigEndian.PutUint32(data[2:6], uint32(idx))
		}
		c := c15Cid(ct, data, idx)
		cb := c.Bytes()
		if len(cb) != cl {
			return nil, fmt.Errorf("cid length model wrong: %d vs %d", len(cb), cl)
		}
		n := binary.PutUvarint(lb, uint64(len(cb)+len(data)))
		off := uint64(buf.Len())
		buf.Write(lb[:n])
		buf.Write(cb)
		dOff := buf.Len()
		buf.Write(data)
		pends = append(pends, pend{off: off, ln: uint64(n + len(cb) + len(data)), c: c, kind: kind, dOff: dOff, dLen: len(data)})
	}
	car.Bytes = buf.Bytes()
	for _, p := range pends {
		car.Secs = append(car.Secs, c15Sec{Off: p.off, Len: p.ln, Cid: p.c, Kind: p.kind, Data: car.Bytes[p.dOff : p.dOff+p.dLen]})
	}
	return car, c15Finish(car)
}

// c15Finish cross-checks the ground truth with the independent CAR parser of cargen and derives boundaries.
func c15Finish(car *c15Car) error {
	_, hl, raw, err := cargen.ParseCar(car.Bytes)
	if err != nil {
		return fmt.Errorf("%s: independent parser rejects the generated CAR: %w", car.Name, err)
	}
	if hl != car.HeaderLen || len(raw) != len(car.Secs) {
		return fmt.Errorf("%s: generator and independent parser disagree (header %d/%d, sections %d/%d)", car.Name, hl, car.HeaderLen, len(raw), len(car.Secs))
	}
	for i, r := range raw {
		s := car.Secs[i]
		if r.Offset != s.Off || r.Len != s.Len || !r.Cid.Equals(s.Cid) || !bytes.Equal(r.Data, s.Data) {
			return fmt.Errorf("%s: generator and independent parser disagree on section %d", car.Name, i)
		}
		if len(s.Data) < 2 || int(s.Data[1]) != s.Kind {
			return fmt.Errorf("%s: section %d has no kind byte", car.Name, i)
		}
		end := s.Off + s.Len
		car.secEnds = append(car.secEnds, end)
		if s.Kind == c15KindBlock {
			car.blockEnds = append(car.blockEnds, end)
		}
	}
	if n := len(car.Secs); n > 0 && car.Secs[n-1].Off+car.Secs[n-1].Len != uint64(len(car.Bytes)) {
		return fmt.Errorf("%s: sections do not cover the file", car.Name)
	}
	return nil
}

func c15BuildCargen(sh c15Shape, dir string) (*c15Car, error) {
	p := filepath.Join(dir, fmt.Sprintf("c15-%s-%d.car", sh.Name, sh.Seed))
	defer os.Remove(p)
	m, err := cargen.Generate(p, *sh.Cargen)
	if err != nil {
		return nil, err
	}
	b, err := os.ReadFile(p)
	if err != nil {
		return nil, err
	}
	car := &c15Car{Name: sh.Name, Bytes: b, HeaderLen: m.HeaderLen, Model: m}
	for _, s := range m.Sections {
		car.Secs = append(car.Secs, c15Sec{Off: s.Offset, Len: s.Len, Cid: s.Cid, Kind: s.Kind, Data: s.Data})
	}
	return car, c15Finish(car)
}

func c15Build(sh c15Shape, dir string) (*c15Car, error) {
	if sh.Cargen != nil {
		return c15BuildCargen(sh, dir)
	}
	return c15BuildLayout(sh)
}

// ---------------------------------------------------------------------------------------------
// model

type c15Group struct {
	Parent   int   // section index, -1 for the final parent-less group
	Children []int // section indexes
}

func c15Expected(secs []c15Sec, ignore []int, skip uint64) []c15Group {
	ign := map[int]bool{}
	for _, k := range ignore {
		ign[k] = true
	}
	var out []c15Group
	var cur []int
	for i, s := range secs {
		if uint64(i) < skip {
			continue
		}
		if s.Kind == c15KindBlock {
			out = append(out, c15Group{Parent: i, Children: cur})
			cur = nil
			continue
		}
		if ign[s.Kind] {
			continue
		}
		cur = append(cur, i)
	}
	if len(cur) > 0 {
		out = append(out, c15Group{Parent: -1, Children: cur})
	}
	return out
}

// ---------------------------------------------------------------------------------------------
// case

type c15Case struct {
	Shape        c15Shape `json:"shape"`
	Ignore       []int    `json:"ignore"`
	Skip         uint64   `json:"skip"`
	Consumer     string   `json:"consumer"` // instant | yield | sleep | aheadN | lockstep | mixed
	Chunk        string   `json:"chunk"`    // whole | block | section | tiny
	AppendParent bool     `json:"append_parent"`
	Procs        int      `json:"procs"`
	Seed         int64    `json:"seed"`
	// FaultAfter > 0: the source fails with a non-EOF error exactly at the end of the FaultAfter-th section
	FaultAfter int `json:"fault_after,omitempty"`
}

func (c c15Case) String() string {
	if c.FaultAfter > 0 {
		return fmt.Sprintf("shape=%s ignore=%v consumer=%s chunk=%s procs=%d seed=%d read-fault-after-section=%d", c.Shape.Name, c.Ignore, c.Consumer, c.Chunk, c.Procs, c.Seed, c.FaultAfter)
	}
	return fmt.Sprintf("shape=%s ignore=%v skip=%d consumer=%s chunk=%s append=%v procs=%d seed=%d", c.Shape.Name, c.Ignore, c.Skip, c.Consumer, c.Chunk, c.AppendParent, c.Procs, c.Seed)
}

// ---------------------------------------------------------------------------------------------
// schedule steering: the reader the accumulator reads from + gates

const c15GateWatchdog = 8 * time.Second // expiry is never a violation by itself

type c15Sched struct {
	mu       sync.Mutex
	cond     *sync.Cond
	progress uint64 // the producer has consumed and processed every byte before this offset
	done     int    // callbacks completed
	aborted  bool
	timeouts int
}

func c15NewSched() *c15Sched {
	s := &c15Sched{}
	s.cond = sync.NewCond(&s.mu)
	return s
}

func (s *c15Sched) abort() {
	s.mu.Lock()
	s.aborted = true
	s.mu.Unlock()
	s.cond.Broadcast()
}

// waitFor blocks until pred() (evaluated under the lock) holds, the schedule is aborted or the watchdog fires.
func (s *c15Sched) waitFor(pred func() bool) {
	s.mu.Lock()
	if pred() || s.aborted {
		s.mu.Unlock()
		return
	}
	fired := false
	tm := time.AfterFunc(c15GateWatchdog, func() {
		s.mu.Lock()
		fired = true
		s.mu.Unlock()
		s.cond.Broadcast()
	})
	for !pred() && !s.aborted && !fired {
		s.cond.Wait()
	}
	if fired && !pred() && !s.aborted {
		// one expired gate opens every gate of this run: a broken tree must not turn each of thousands of
		// reads into a watchdog period
		s.timeouts++
		s.aborted = true
	}
	s.mu.Unlock()
	tm.Stop()
}

func (s *c15Sched) setProgress(p uint64) {
	s.mu.Lock()
	if p > s.progress {
		s.progress = p
	}
	s.mu.Unlock()
	s.cond.Broadcast()
}

func (s *c15Sched) callbackDone() {
	s.mu.Lock()
	s.done++
	s.mu.Unlock()
	s.cond.Broadcast()
}

type c15Reader struct {
	b        []byte
	pos      int
	chunk    string
	bounds   []uint64 // stop offsets (ascending) — a Read never crosses one
	sched    *c15Sched
	lockstep bool
	ends     []uint64 // lockstep: end offsets of the parents of the expected groups (ascending)
	rng      *rand.Rand
	reads    int
	closed   bool
	faultAt  int // > 0: Read fails with a non-EOF error once this offset is reached
}

var errC15Fault = errors.New("c15: injected read fault (input/output error)")

func (r *c15Reader) Close() error { r.closed = true; return nil }

func (r *c15Reader) Read(p []byte) (int, error) {
	pos := uint64(r.pos)
	eof := r.pos >= len(r.b)
	if eof {
		pos = uint64(len(r.b)) + 1
	}
	r.sched.setProgress(pos)
	if r.lockstep {
		// every group already handed to the flusher must have been consumed before the producer goes on
		need := sort.Search(len(r.ends), func(i int) bool { return r.ends[i] > uint64(r.pos) })
		r.sched.waitFor(func() bool { return r.sched.done >= need })
	}
	if r.faultAt > 0 && r.pos >= r.faultAt {
		return 0, errC15Fault
	}
	if eof {
		return 0, io.EOF
	}
	if len(p) == 0 {
		return 0, nil
	}
	r.reads++
	n := len(r.b) - r.pos
	if len(p) < n {
		n = len(p)
	}
	if r.faultAt > 0 && r.pos+n > r.faultAt {
		n = r.faultAt - r.pos
	}
	if r.chunk != "whole" {
		i := sort.Search(len(r.bounds), func(i int) bool { return r.bounds[i] > uint64(r.pos) })
		if i < len(r.bounds) {
			if d := int(r.bounds[i]) - r.pos; d < n {
				n = d
			}
		}
		if r.chunk == "tiny" {
			if t := 1 + r.rng.Intn(7); t < n {
				n = t
			}
		}
	}
	copy(p, r.b[r.pos:r.pos+n])
	r.pos += n
	return n, nil
}

// ---------------------------------------------------------------------------------------------
// one run

type c15Delivery struct {
	parent   *ObjectWithMetadata
	children []ObjectWithMetadata
}

type c15Mismatch struct {
	class  string
	detail string
}

type c15Run struct {
	c        c15Case
	car      *c15Car
	exp      []c15Group
	targets  []uint64 // per expected group: offset the producer has passed once the group was handed over
	sched    *c15Sched
	rng      *rand.Rand
	mu       sync.Mutex
	inCb     atomic.Int32
	returned atomic.Bool
	nDeliv   int
	late     int // callbacks that started after Run had returned
	lateExit int // callbacks that were still active when Run returned
	emptyCb  int
	sleeps   int
	objects  int64
	first    *c15Mismatch // first refuting observation of this run
	changed  *c15Mismatch
	concur   bool
	kept     []c15Delivery
	txErr    string
	txOK     int
	txBad    *c15Mismatch
}

// c15FileCheck: do the file bytes [Offset, Offset+SectionLength) parse to exactly this CID and data?
func c15FileCheck(file []byte, o *ObjectWithMetadata) string {
	if o.SectionLength == 0 || o.Offset > uint64(len(file)) || o.Offset+o.SectionLength > uint64(len(file)) || o.Offset+o.SectionLength < o.Offset {
		return fmt.Sprintf("range [%d,+%d) is outside the file (%d bytes)", o.Offset, o.SectionLength, len(file))
	}
	sec := file[o.Offset : o.Offset+o.SectionLength]
	body, n := binary.Uvarint(sec)
	if n <= 0 {
		return fmt.Sprintf("no length varint at offset %d", o.Offset)
	}
	if uint64(n)+body != o.SectionLength {
		return fmt.Sprintf("at offset %d the file holds a section of %d bytes, SectionLength says %d", o.Offset, uint64(n)+body, o.SectionLength)
	}
	cb := o.Cid.Bytes()
	rest := sec[n:]
	if len(rest) < len(cb) || !bytes.Equal(rest[:len(cb)], cb) {
		return fmt.Sprintf("at offset %d the file does not hold CID %s", o.Offset, o.Cid)
	}
	if !bytes.Equal(rest[len(cb):], o.ObjectData) {
		return fmt.Sprintf("at offset %d (cid %s) the file data (%d bytes) differs from ObjectData (%d bytes)", o.Offset, o.Cid, len(rest)-len(cb), len(o.ObjectData))
	}
	return ""
}

func (r *c15Run) describe(i int) string {
	if i < 0 {
		return "<none>"
	}
	s := r.car.Secs[i]
	return fmt.Sprintf("section#%d(kind=%d off=%d len=%d)", i, s.Kind, s.Off, s.Len)
}

// check compares delivery number d with the model and the file.
func (r *c15Run) check(d int, parent *ObjectWithMetadata, children []ObjectWithMetadata) *c15Mismatch {
	file := r.car.Bytes
	if parent != nil {
		if msg := c15FileCheck(file, parent); msg != "" {
			return &c15Mismatch{"object-offset", fmt.Sprintf("delivery %d parent: %s", d, msg)}
		}
	}
	for i := range children {
		if msg := c15FileCheck(file, &children[i]); msg != "" {
			return &c15Mismatch{"object-offset", fmt.Sprintf("delivery %d child %d of %d: %s", d, i, len(children), msg)}
		}
	}
	if d >= len(r.exp) {
		po := "nil"
		if parent != nil {
			po = fmt.Sprintf("object at offset %d", parent.Offset)
		}
		return &c15Mismatch{"extra-delivery", fmt.Sprintf("delivery %d (parent %s, %d children) but the model has only %d groups", d, po, len(children), len(r.exp))}
	}
	e := r.exp[d]
	switch {
	case parent == nil && e.Parent >= 0:
		return &c15Mismatch{"block-sequence", fmt.Sprintf("delivery %d has no parent (with %d children), expected block %s with %d children", d, len(children), r.describe(e.Parent), len(e.Children))}
	case parent != nil && e.Parent < 0:
		return &c15Mismatch{"block-sequence", fmt.Sprintf("delivery %d has parent at offset %d, expected the final parent-less group of %d objects", d, parent.Offset, len(e.Children))}
	case parent != nil && parent.Offset != r.car.Secs[e.Parent].Off:
		return &c15Mismatch{"block-sequence", fmt.Sprintf("delivery %d has parent at offset %d (kind byte %d), expected block %s", d, parent.Offset, parent.ObjectData[1], r.describe(e.Parent))}
	}
	if len(children) != len(e.Children) {
		// find first difference for the message
		k := 0
		for k < len(children) && k < len(e.Children) && children[k].Offset == r.car.Secs[e.Children[k]].Off {
			k++
		}
		got, want := "<end>", "<end>"
		if k < len(children) {
			got = fmt.Sprintf("object at offset %d kind %d", children[k].Offset, children[k].ObjectData[1])
		}
		if k < len(e.Children) {
			want = r.describe(e.Children[k])
		}
		return &c15Mismatch{"group-content", fmt.Sprintf("delivery %d (parent %s): %d children delivered, %d expected; first difference at child %d: got %s, expected %s", d, r.describe(e.Parent), len(children), len(e.Children), k, got, want)}
	}
	for k := range children {
		if children[k].Offset != r.car.Secs[e.Children[k]].Off {
			return &c15Mismatch{"group-content", fmt.Sprintf("delivery %d (parent %s): child %d is the object at offset %d (kind %d), expected %s", d, r.describe(e.Parent), k, children[k].Offset, children[k].ObjectData[1], r.describe(e.Children[k]))}
		}
	}
	return nil
}

func (r *c15Run) note(m *c15Mismatch) {
	r.mu.Lock()
	if r.first == nil {
		r.first = m
	}
	r.mu.Unlock()
}

func c15Ahead(consumer string) int {
	if strings.HasPrefix(consumer, "ahead") {
		n := 0
		fmt.Sscanf(consumer[len("ahead"):], "%d", &n)
		return n
	}
	return 0
}

// consume is the consumer's behaviour between the entry check and the exit check.
func (r *c15Run) consume(d int) {
	r.consume1(d)
	// the last group: stay inside the callback until the producer has seen the end of the file and a little
	// longer — if Run does not wait for its consumer this is where it returns too early (observed by state:
	// "Run has returned while a callback is active", never by the delay itself)
	if d == len(r.exp)-1 && r.c.Consumer != "instant" && r.c.Consumer != "lockstep" {
		eof := uint64(len(r.car.Bytes)) + 1
		r.sched.waitFor(func() bool { return r.sched.progress >= eof })
		for i := 0; i < 10; i++ {
			runtime.Gosched()
		}
		time.Sleep(300 * time.Microsecond)
	}
}

func (r *c15Run) consume1(d int) {
	mode := r.c.Consumer
	if mode == "mixed" {
		r.mu.Lock()
		mode = []string{"instant", "yield", "sleep", "ahead1", "ahead1", "ahead3"}[r.rng.Intn(6)]
		r.mu.Unlock()
	}
	switch {
	case mode == "yield":
		r.mu.Lock()
		k := 1 + r.rng.Intn(5)
		r.mu.Unlock()
		for i := 0; i < k; i++ {
			runtime.Gosched()
		}
	case mode == "sleep":
		r.mu.Lock()
		do := r.sleeps < 40 && r.rng.Intn(3) == 0
		us := 1 + r.rng.Intn(300)
		if do {
			r.sleeps++
		}
		r.mu.Unlock()
		if do {
			time.Sleep(time.Duration(us) * time.Microsecond)
		} else {
			runtime.Gosched()
		}
	case strings.HasPrefix(mode, "ahead"):
		// hold this group until the producer has handed over group d+L (or reached the end of the file)
		L := c15Ahead(mode)
		if len(r.targets) == 0 {
			return
		}
		g := d + L
		if g >= len(r.targets) {
			g = len(r.targets) - 1
		}
		if g < 0 || d >= len(r.targets) {
			return
		}
		t := r.targets[g]
		r.sched.waitFor(func() bool { return r.sched.progress >= t })
	}
}

func (r *c15Run) callback(parent *ObjectWithMetadata, children []ObjectWithMetadata) error {
	if r.inCb.Add(1) != 1 {
		r.mu.Lock()
		r.concur = true
		r.mu.Unlock()
	}
	defer r.inCb.Add(-1)
	if parent == nil && len(children) == 0 {
		// neither a block nor objects: the statement does not speak about it (diagnostic)
		r.mu.Lock()
		r.emptyCb++
		r.mu.Unlock()
		return nil
	}
	r.mu.Lock()
	d := r.nDeliv
	r.nDeliv++
	if r.returned.Load() {
		r.late++
	}
	r.mu.Unlock()
	e1 := r.check(d, parent, children)
	var family []ObjectWithMetadata
	if r.c.AppendParent && parent != nil {
		// what the CAR splitter does with a group
		family = append(children, *parent)
	}
	if e1 == nil && r.car.Model != nil && parent != nil && r.c.Skip == 0 && c15TxCheckable(r.c.Ignore) {
		r.txCheck(d, parent, children)
	}
	r.consume(d)
	e2 := r.check(d, parent, children)
	if e2 == nil && family != nil {
		if len(family) != len(children)+1 || family[len(family)-1].Offset != parent.Offset {
			e2 = &c15Mismatch{"group-content", fmt.Sprintf("delivery %d: append(children, *parent) no longer ends with the parent", d)}
		} else if m := r.check(d, parent, family[:len(children)]); m != nil {
			e2 = m
		}
	}
	switch {
	case e1 != nil:
		r.note(e1)
	case e2 != nil:
		r.mu.Lock()
		if r.changed == nil {
			r.changed = &c15Mismatch{"changed-under-consumer", "intact at callback entry, at callback exit: " + e2.detail}
		}
		r.mu.Unlock()
	}
	r.mu.Lock()
	n := int64(len(children))
	if parent != nil {
		n++
	}
	r.objects += n
	r.kept = append(r.kept, c15Delivery{parent, children})
	if r.returned.Load() {
		r.lateExit++
	}
	r.mu.Unlock()
	r.sched.callbackDone()
	return nil
}

func c15TxCheckable(ignore []int) bool {
	for _, k := range ignore {
		if k == int(iplddecoders.KindTransaction) || k == int(iplddecoders.KindDataFrame) {
			return false
		}
	}
	return true
}

// txCheck: what the address indexer does with a group — the (Offset, Length) it would push for every
// transaction must be those of the transaction's own section.
func (r *c15Run) txCheck(d int, parent *ObjectWithMetadata, children []ObjectWithMetadata) {
	var mb *cargen.Block
	for _, b := range r.car.Model.Blocks {
		if b.Offset == parent.Offset {
			mb = b
			break
		}
	}
	if mb == nil {
		return
	}
	block, err := iplddecoders.DecodeBlock(parent.ObjectData)
	if err != nil {
		r.mu.Lock()
		r.txErr = "DecodeBlock: " + err.Error()
		r.mu.Unlock()
		return
	}
	txs, err := ObjectsToTransactionsAndMetadata(block, children)
	if err != nil {
		r.mu.Lock()
		r.txErr = err.Error()
		r.mu.Unlock()
		return
	}
	defer PutTransactionWithSlotSlice(txs)
	bad := ""
	if len(txs) != len(mb.Txs) {
		bad = fmt.Sprintf("slot %d: %d transactions returned, the block has %d", mb.Slot, len(txs), len(mb.Txs))
	} else {
		for i, tw := range txs {
			w := mb.Txs[i]
			if len(tw.Transaction.Signatures) == 0 || tw.Transaction.Signatures[0] != w.Sig {
				bad = fmt.Sprintf("slot %d: transaction %d is not the block's transaction %d (%s)", mb.Slot, i, i, w.Sig)
				break
			}
			if tw.Offset != w.Offset || tw.Length != w.Len || tw.Slot != w.Slot {
				bad = fmt.Sprintf("slot %d tx %s: (offset,length,slot)=(%d,%d,%d), the transaction sits at (%d,%d) in slot %d", mb.Slot, w.Sig, tw.Offset, tw.Length, tw.Slot, w.Offset, w.Len, w.Slot)
				break
			}
		}
	}
	r.mu.Lock()
	if bad != "" {
		if r.txBad == nil {
			r.txBad = &c15Mismatch{"tx-offset", fmt.Sprintf("delivery %d: %s", d, bad)}
		}
	} else {
		r.txOK += len(txs)
	}
	r.mu.Unlock()
}

type c15Result struct {
	nontrivial bool
	groups     int
	objects    int64
	inconc     string
	reads      int
}

// c15StallTicks half-seconds without a byte read or a group delivered (longer than the gate watchdog) = stalled
const c15StallTicks = 20

func (r *c15Run) signature() [3]uint64 {
	r.mu.Lock()
	a := uint64(r.nDeliv)
	r.mu.Unlock()
	r.sched.mu.Lock()
	b, c := r.sched.progress, uint64(r.sched.done)
	r.sched.mu.Unlock()
	return [3]uint64{a, b, c}
}

var c15ParkedStates = []string{"chan send", "chan receive", "select", "semacquire", "sync.WaitGroup.Wait", "sync.Cond.Wait", "sync.Mutex.Lock"}

// c15AccumGoroutines classifies every goroutine that is inside a method of ObjectAccumulator.
func c15AccumGoroutines() (parked, running int, hdrs []string) {
	buf := make([]byte, 8<<20)
	buf = buf[:runtime.Stack(buf, true)]
	for _, g := range strings.Split(string(buf), "\n\n") {
		if !strings.Contains(g, "accum.(*ObjectAccumulator).") {
			continue
		}
		hdr := g
		if k := strings.Index(g, "\n"); k > 0 {
			hdr = g[:k]
		}
		where := "?"
		for _, fn := range []string{"startFlusher", "sendToFlusher", "Run"} {
			if strings.Contains(g, "accum.(*ObjectAccumulator)."+fn+"(") {
				where = fn
				break
			}
		}
		isParked := false
		for _, st := range c15ParkedStates {
			if strings.Contains(hdr, "["+st) {
				isParked = true
			}
		}
		if isParked {
			parked++
		} else {
			running++
		}
		if len(hdrs) < 6 {
			hdrs = append(hdrs, where+" "+hdr)
		}
	}
	return
}

func c15RunCase(rec *ev.Recorder, car *c15Car, c c15Case) c15Result {
	res := c15Result{}
	exp := c15Expected(car.Secs, c.Ignore, c.Skip)
	r := &c15Run{c: c, car: car, exp: exp, sched: c15NewSched(), rng: rand.New(rand.NewSource(c.Seed*31 + 7))}
	fileEOF := uint64(len(car.Bytes)) + 1
	var parentEnds []uint64
	for _, g := range exp {
		if g.Parent >= 0 {
			end := car.Secs[g.Parent].Off + car.Secs[g.Parent].Len
			r.targets = append(r.targets, end)
			parentEnds = append(parentEnds, end)
		} else {
			r.targets = append(r.targets, fileEOF)
		}
	}
	rd := &c15Reader{b: car.Bytes, chunk: c.Chunk, sched: r.sched, lockstep: c.Consumer == "lockstep", ends: parentEnds, rng: rand.New(rand.NewSource(c.Seed*17 + 3))}
	if c.FaultAfter > 0 && c.FaultAfter <= len(car.secEnds) {
		rd.faultAt = int(car.secEnds[c.FaultAfter-1])
	}
	switch c.Chunk {
	case "section":
		rd.bounds = car.secEnds
	case "block", "tiny":
		rd.bounds = car.blockEnds
	}
	violate := func(class, detail string) {
		rec.Violation("accum.Run/"+class, c.String()+": "+detail, c)
	}
	cr, err := carreader.New(rd)
	if err != nil {
		violate("open-error", fmt.Sprintf("carreader.New rejects a well-formed CAR: %v", err))
		return res
	}
	kinds := make([]iplddecoders.Kind, 0, len(c.Ignore))
	for _, k := range c.Ignore {
		kinds = append(kinds, iplddecoders.Kind(k))
	}
	oa := NewObjectAccumulator(cr, iplddecoders.KindBlock, r.callback, kinds...)
	if c.Skip > 0 {
		oa.SetSkip(c.Skip)
	}
	type ret struct {
		err error
		pan any
		stk string
	}
	doneCh := make(chan ret, 1)
	go func() {
		var out ret
		defer func() {
			if p := recover(); p != nil {
				out.pan = p
				out.stk = string(debug.Stack())
			}
			r.returned.Store(true)
			doneCh <- out
		}()
		out.err = oa.Run(context.Background())
	}()
	var out ret
	returned := false
	{
		// progress-based watchdog: as long as bytes are read or groups delivered the run is alive
		tick := time.NewTicker(500 * time.Millisecond)
		last := r.signature()
		idle := 0
	wait:
		for {
			select {
			case out = <-doneCh:
				returned = true
				break wait
			case <-tick.C:
				if sig := r.signature(); sig != last {
					last, idle = sig, 0
					continue
				}
				idle++
				if idle == c15StallTicks {
					r.sched.abort() // open every gate of the harness
				}
				if idle >= c15StallTicks+4 {
					break wait
				}
			}
		}
		tick.Stop()
	}
	if !returned {
		// decided by state, not by time: every gate of the harness is open, no callback is active; if every
		// goroutine of the accumulator is parked, nothing can ever deliver the remaining groups
		r.mu.Lock()
		nd := r.nDeliv
		r.mu.Unlock()
		parked, running, hdrs := c15AccumGoroutines()
		if parked > 0 && running == 0 && r.inCb.Load() == 0 && nd < len(exp) {
			miss := exp[nd]
			violate("missing-deliveries", fmt.Sprintf("deadlock: %d of %d expected groups delivered (next expected: parent %s with %d children), Run has not returned and every accumulator goroutine is parked: %s", nd, len(exp), r.describe(miss.Parent), len(miss.Children), strings.Join(hdrs, "; ")))
			return res
		}
		res.inconc = fmt.Sprintf("%s: Run did not return (delivered %d of %d groups; accumulator goroutines parked=%d running=%d: %s)", c.String(), nd, len(exp), parked, running, strings.Join(hdrs, "; "))
		return res
	}
	activeAtReturn := r.inCb.Load() > 0
	if out.pan != nil {
		violate("panic", fmt.Sprintf("Run panicked: %v\n%s", out.pan, out.stk))
		return res
	}
	if rd.faultAt > 0 {
		// the source failed in the middle of the CAR: Run has to say so; returning nil claims that the
		// traversal was complete
		rec.Count("runs_with_a_failing_source", 1)
		if out.err != nil {
			rec.Count("runs_with_a_failing_source_that_reported_it", 1)
			return res
		}
		r.mu.Lock()
		ndf := r.nDeliv
		r.mu.Unlock()
		violate("read-error-reported-as-end-of-file", fmt.Sprintf("the source failed with %q at offset %d of %d (end of section %d) and Run returned nil after delivering %d of %d groups", errC15Fault, rd.faultAt, len(car.Bytes), c.FaultAfter, ndf, len(exp)))
		return res
	}
	if out.err != nil {
		violate("run-error", fmt.Sprintf("Run returned an error on a well-formed CAR: %v", out.err))
	}
	r.mu.Lock()
	nd := r.nDeliv
	r.mu.Unlock()
	if nd < len(exp) && out.err == nil {
		// deliveries that only arrive after Run has returned are still missing at the moment that matters
		// (the splitter writes its trailer right after Run); the grace period only enriches the message
		time.Sleep(50 * time.Millisecond)
		r.mu.Lock()
		late := r.nDeliv - nd
		r.mu.Unlock()
		miss := r.exp[nd]
		what := "missing-deliveries"
		if nd == len(exp)-1 && miss.Parent < 0 {
			what = "final-group-missing"
		}
		violate(what, fmt.Sprintf("Run returned after %d of %d expected groups (next expected: parent %s with %d children; %d more arrived within 50ms after the return)", nd, len(exp), r.describe(miss.Parent), len(miss.Children), late))
	}
	r.mu.Lock()
	defer r.mu.Unlock()
	if r.first != nil {
		violate(r.first.class, r.first.detail)
	}
	if r.changed != nil {
		violate(r.changed.class, r.changed.detail)
	}
	if r.late > 0 || r.lateExit > 0 || activeAtReturn {
		violate("returned-before-drain", fmt.Sprintf("Run returned while its consumer was still at work: callback active at the moment of return=%v, %d callbacks started after the return, %d finished after it (of %d expected groups)", activeAtReturn, r.late, r.lateExit, len(exp)))
	}
	if r.concur {
		violate("concurrent-callbacks", "two callbacks were active at the same time")
	}
	if r.txBad != nil {
		rec.Violation("accum.ObjectsToTransactionsAndMetadata/"+r.txBad.class, c.String()+": "+r.txBad.detail, c)
	}
	if r.txErr != "" {
		rec.Count("diag_tx_conversion_errors", 1)
		rec.Note("diag_tx_conversion_error_sample", c.String()+": "+r.txErr)
	}
	rec.Count("tx_offsets_checked", r.txOK)
	if r.emptyCb > 0 {
		rec.Count("diag_empty_parentless_callbacks", r.emptyCb)
	}
	if r.sched.timeouts > 0 && r.first == nil && r.changed == nil && nd >= len(exp) {
		res.inconc = fmt.Sprintf("%s: %d schedule gates expired without any refuting observation", c.String(), r.sched.timeouts)
	}
	// diagnostic: are the deliveries still intact after Run returned (no consumer in the repo relies on it)
	if r.first == nil && r.changed == nil {
		chg := 0
		for d, k := range r.kept {
			if r.check(d, k.parent, k.children) != nil {
				chg++
			}
		}
		if chg > 0 {
			rec.Count("diag_deliveries_changed_after_return", chg)
		}
	}
	res.groups = nd
	res.objects = r.objects
	res.reads = rd.reads
	for _, g := range exp {
		if g.Parent >= 0 && len(g.Children) > 0 {
			res.nontrivial = r.first == nil && nd >= len(exp)
			break
		}
	}
	return res
}

// ---------------------------------------------------------------------------------------------
// workload

func c15DirectedShapes() []c15Shape {
	all := []int{0, 1, 3, 4, 5, 6}
	return []c15Shape{
		{Name: "only-blocks", Groups: [][2]int{{3, 0}}},
		{Name: "one-block", Groups: [][2]int{{1, 0}}},
		{Name: "no-block", Trailing: 5},
		{Name: "one-object-no-block", Trailing: 1},
		{Name: "block-then-one", Groups: [][2]int{{1, 0}}, Trailing: 1},
		{Name: "one-then-block", Groups: [][2]int{{1, 1}}},
		{Name: "two-then-block-then-two", Groups: [][2]int{{1, 2}}, Trailing: 2},
		{Name: "first-is-block", Groups: [][2]int{{1, 0}, {1, 3}, {1, 1}}, Trailing: 2},
		{Name: "small-mix", Groups: [][2]int{{1, 1}, {1, 2}, {1, 0}, {1, 7}, {2, 0}, {1, 3}}, Trailing: 1, CidMix: true},
		{Name: "all-kinds-cycle", Groups: [][2]int{{3, 6}, {1, 12}, {1, 1}}, Trailing: 6, ChildKinds: all, Cycle: true},
		{Name: "real-trailer", Groups: [][2]int{{4, 3}}, Trailing: 2, ChildKinds: []int{6, 0, 1}, Cycle: true, TrailKinds: []int{3, 4}},
		{Name: "trailing-ignored-by-gsfa", Groups: [][2]int{{2, 2}}, Trailing: 3, TrailKinds: []int{1, 5}},
		{Name: "children-all-ignored-by-gsfa", Groups: [][2]int{{3, 4}}, Trailing: 1, ChildKinds: []int{1, 5}},
		{Name: "prealloc-boundary", Groups: [][2]int{{1, 4999}, {1, 5000}, {1, 5001}, {1, 2}}, Trailing: 1},
		{Name: "prealloc-exact-then-trailing", Groups: [][2]int{{1, 5000}}, Trailing: 5001},
		{Name: "children-12000", Groups: [][2]int{{1, 3}, {1, 12000}, {1, 2}}, Trailing: 3},
		{Name: "queue-1000", Groups: [][2]int{{1000, 0}}},
		{Name: "queue-1001-trailing", Groups: [][2]int{{1001, 0}}, Trailing: 1},
		{Name: "queue-2500", Groups: [][2]int{{2500, 1}}, Trailing: 2},
		{Name: "varint-widths", Groups: [][2]int{{3, 6}, {1, 0}, {2, 5}}, Trailing: 3, Sizes: "varint"},
		{Name: "varint-widths-cidmix", Groups: [][2]int{{4, 5}}, Trailing: 2, Sizes: "varint", CidMix: true},
		{Name: "mixed-sizes", Groups: [][2]int{{6, 7}, {1, 0}, {3, 2}}, Trailing: 4, Sizes: "mixed", CidMix: true},
		{Name: "four-byte-varint", Groups: [][2]int{{2, 3}, {1, 1}}, Trailing: 2, Sizes: "big"},
		{Name: "root-sha512", Groups: [][2]int{{3, 2}}, Trailing: 1, Root512: true},
		{Name: "two-roots", Groups: [][2]int{{3, 2}}, Trailing: 1, Roots: 2},
		{Name: "three-roots-512", Groups: [][2]int{{2, 1}, {1, 0}}, Roots: 3, Root512: true, CidMix: true},
	}
}

func c15RandomShape(rng *rand.Rand, i int) c15Shape {
	sh := c15Shape{Name: fmt.Sprintf("random-%d", i)}
	ng := rng.Intn(30)
	for g := 0; g < ng; g++ {
		ch := 0
		switch rng.Intn(4) {
		case 0:
			ch = 0
		case 1:
			ch = 1 + rng.Intn(2)
		default:
			ch = rng.Intn(14)
		}
		sh.Groups = append(sh.Groups, [2]int{1 + rng.Intn(2), ch})
	}
	sh.Trailing = []int{0, 0, 1, 2, 3, 9}[rng.Intn(6)]
	if ng == 0 && sh.Trailing == 0 {
		sh.Trailing = 1 + rng.Intn(4)
	}
	sh.Sizes = []string{"small", "small", "varint", "mixed"}[rng.Intn(4)]
	sh.CidMix = rng.Intn(2) == 0
	sh.Roots = 1 + rng.Intn(6)/4
	sh.Root512 = rng.Intn(4) == 0
	if rng.Intn(3) == 0 {
		n := 1 + rng.Intn(5)
		all := []int{0, 1, 3, 4, 5, 6}
		rng.Shuffle(len(all), func(a, b int) { all[a], all[b] = all[b], all[a] })
		sh.ChildKinds = all[:n]
	}
	return sh
}

func c15CargenShapes(seed int64, n int) []c15Shape {
	var out []c15Shape
	for i := 0; i < n; i++ {
		o := &cargen.Opts{Epoch: uint64([]int{1, 7, 700, 0}[i%4]), Seed: seed*100 + int64(i), NSlots: 24 + 8*(i%3), SkipOneIn: 5,
			MaxEntries: 3, MaxTx: 4, EmptyBlockOneIn: 6, MultiFrameOneIn: 4, MaxFrames: 6, RewardsOneIn: 3, TinyOneIn: 9,
			VoteOneIn: 3, FailOneIn: 4, V0OneIn: 3, BigOneIn: 15}
		if o.Epoch == 0 {
			o.Epoch = 3 // epoch 0 needs the genesis fixture, which has nothing to do with this property
		}
		switch i % 3 {
		case 0:
			o.TrailingJunkFrames = 3
			o.SubsetEvery = 7
		case 1:
			o.RootSha512 = true
		case 2:
			o.SubsetEvery = 3
			o.TrailingJunkFrames = 1
		}
		out = append(out, c15Shape{Name: fmt.Sprintf("cargen-%d", i), Seed: o.Seed, Cargen: o})
	}
	return out
}

var c15IgnoreSets = [][]int{
	{},                 // nothing ignored
	{1, 5},             // index gsfa / find-missing-tx-meta: Entry, Rewards
	{4, 3},             // split-car: Epoch, Subset
	{0, 1, 3, 4, 5, 6}, // everything but blocks
	{6},                // DataFrame only
	{0, 6},
}

type c15Consumer struct {
	consumer string
	chunk    string
}

var c15Consumers = []c15Consumer{
	{"instant", "whole"},
	{"yield", "whole"},
	{"sleep", "whole"},
	{"instant", "section"},
	{"ahead1", "block"},
	{"ahead2", "block"},
	{"ahead50", "block"},
	{"ahead1000", "block"},
	{"lockstep", "block"},
	{"lockstep", "tiny"},
	{"ahead1", "tiny"},
	{"mixed", "block"},
	{"yield", "section"},
}

func c15FirstBlock(car *c15Car) int {
	for i, s := range car.Secs {
		if s.Kind == c15KindBlock {
			return i
		}
	}
	return -1
}

// c15Cases: the list of cases for one CAR — a function of the seed, the tier and the shape index only.
func c15Cases(car *c15Car, sh c15Shape, shapeIdx int, seed int64) []c15Case {
	var out []c15Case
	procs := []int{1, 2, 4, 16}
	ctr := shapeIdx
	rng := rand.New(rand.NewSource(seed*1009 + int64(shapeIdx)))
	ignoreSets := append([][]int{}, c15IgnoreSets...)
	{
		// one seeded random ignore-set
		all := []int{0, 1, 3, 4, 5, 6}
		rng.Shuffle(len(all), func(a, b int) { all[a], all[b] = all[b], all[a] })
		ignoreSets = append(ignoreSets, append([]int{}, all[:1+rng.Intn(4)]...))
	}
	big := len(car.Bytes) > 256<<10
	manyGroups := len(car.blockEnds) > 500
	thorough := ev.Thorough()
	add := func(c c15Case) {
		if big && c.Chunk == "tiny" {
			c.Chunk = "block"
		}
		if c15RaceBuild && !thorough && len(car.Secs) > 4000 && ctr%3 != 0 {
			ctr++
			return
		}
		if manyGroups {
			// every group costs the accumulator a 5000-element allocation: CARs with >500 blocks are there for
			// the queue-capacity schedules, not for the whole matrix
			keep := c.Skip == 0 && (len(c.Ignore) == 0 || (len(c.Ignore) == 2 && c.Ignore[0] == 1)) && (c.Consumer == "ahead1000" || c.Consumer == "ahead50" || c.Consumer == "lockstep" || c.Consumer == "sleep" || c.Consumer == "mixed" || (c.Consumer == "instant" && c.Chunk == "whole"))
			keep = keep || (c.Skip > 0 && c.Consumer == "ahead1" && len(c.Ignore) == 0 && ctr%2 == 0)
			if !keep {
				ctr++
				return
			}
		}
		c.Shape = sh
		c.Seed = seed*100003 + int64(len(out))
		if thorough {
			for _, p := range procs {
				c2 := c
				c2.Procs = p
				out = append(out, c2)
			}
		} else {
			c.Procs = procs[ctr%len(procs)]
			out = append(out, c)
		}
		ctr++
	}
	for ii, ig := range ignoreSets {
		for ci, cs := range c15Consumers {
			add(c15Case{Ignore: ig, Consumer: cs.consumer, Chunk: cs.chunk, AppendParent: (ii+ci)%2 == 0})
		}
	}
	// a source that fails (not EOF) exactly between two sections
	if !manyGroups && len(car.secEnds) > 3 {
		ns := len(car.secEnds)
		for fi, k := range []int{1, 2, ns / 2, ns - 2, ns - 1} {
			if k < 1 || k >= ns {
				continue
			}
			// (free-running consumers only: a steered consumer would wait for reader progress that cannot come)
			add(c15Case{Consumer: []string{"instant", "yield"}[fi%2], Chunk: []string{"whole", "section", "block"}[fi%3], FaultAfter: k})
		}
	}
	// SetSkip
	n := len(car.Secs)
	fb := c15FirstBlock(car)
	skips := map[uint64]bool{1: true, 2: true, uint64(n - 1): true, uint64(n): true, uint64(n + 5): true}
	if fb >= 0 {
		skips[uint64(fb)] = true
		skips[uint64(fb+1)] = true
		skips[uint64(fb+2)] = true
	}
	if n > 3 {
		skips[uint64(1+rng.Intn(n-1))] = true
	}
	var sk []uint64
	for k := range skips {
		if k > 0 {
			sk = append(sk, k)
		}
	}
	sort.Slice(sk, func(a, b int) bool { return sk[a] < sk[b] })
	for si, k := range sk {
		for _, ig := range [][]int{{}, {1, 5}} {
			cs := c15Consumers[(si*2+len(ig))%len(c15Consumers)]
			add(c15Case{Ignore: ig, Skip: k, Consumer: cs.consumer, Chunk: cs.chunk, AppendParent: si%2 == 1})
			add(c15Case{Ignore: ig, Skip: k, Consumer: "ahead1", Chunk: "block"})
		}
	}
	return out
}

func TestVerifC15(t *testing.T) {
	rec := ev.New("C15", "traversal")
	defer rec.Flush()
	rec.Rule("accum.Run over layout CARs (directed boundaries + seeded random) and cargen epochs x ignore-sets x SetSkip x consumer behaviour (instant/yield/sleep/steered k groups behind/strict alternation/queue full) x GOMAXPROCS; evaluations = Run calls; distinct = (CAR shape, ignore-set, skip, consumer, chunking, GOMAXPROCS) tuples with >= 1 block that has >= 1 child and whose deliveries were all checked")
	seed := ev.Seed()
	dir := filepath.Join(ev.Scratch(), "c15")
	os.MkdirAll(dir, 0o755)
	defer os.RemoveAll(dir)
	oldProcs := runtime.GOMAXPROCS(0)
	defer runtime.GOMAXPROCS(oldProcs)

	runOne := func(car *c15Car, c c15Case) {
		if c.Procs > 0 {
			runtime.GOMAXPROCS(c.Procs)
		}
		res := c15RunCase(rec, car, c)
		rec.Eval(1)
		rec.Count("groups_delivered", res.groups)
		rec.Count("objects_checked_entry_and_exit", int(res.objects))
		rec.Count("reader_reads", res.reads)
		if res.inconc != "" {
			rec.Inconclusive(res.inconc)
		}
		if res.nontrivial {
			rec.Distinct(fmt.Sprintf("%s|ign=%v|skip=%d|%s/%s|p%d", c.Shape.Name, c.Ignore, c.Skip, c.Consumer, c.Chunk, c.Procs))
		}
	}

	var rc c15Case
	if ev.LoadReplay(&rc) {
		car, err := c15Build(rc.Shape, dir)
		if err != nil {
			t.Fatalf("replay: cannot build the CAR: %v", err)
		}
		runOne(car, rc)
		return
	}

	shapes := c15DirectedShapes()
	for i := range shapes {
		shapes[i].Seed = seed*1000 + int64(i)
	}
	rng := rand.New(rand.NewSource(seed*65537 + 11))
	nRandom := ev.Pick(14, 60)
	nCargen := ev.Pick(2, 6)
	if c15RaceBuild {
		nRandom = ev.Pick(8, 30)
		nCargen = ev.Pick(1, 3)
	}
	for i := 0; i < nRandom; i++ {
		sh := c15RandomShape(rng, i)
		sh.Seed = seed*1000 + 500 + int64(i)
		shapes = append(shapes, sh)
	}
	shapes = append(shapes, c15CargenShapes(seed, nCargen)...)

	sampled := 0
	for si, sh := range shapes {
		if rec.Enough() {
			break
		}
		tShape := time.Now()
		car, err := c15Build(sh, dir)
		if err != nil {
			t.Errorf("cannot build CAR %s: %v", sh.Name, err)
			continue
		}
		cases := c15Cases(car, sh, si, seed)
		for ci, c := range cases {
			if rec.Enough() {
				break
			}
			runOne(car, c)
			if sampled < 6 && ci == (si*7)%len(cases) {
				sampled++
				rec.Sample(map[string]any{"case": c.String(), "car_bytes": len(car.Bytes), "sections": len(car.Secs), "expected_groups": len(c15Expected(car.Secs, c.Ignore, c.Skip))})
			}
		}
		rec.Count("cars", 1)
		rec.Count("car_sections", len(car.Secs))
		if os.Getenv("VERIF_C15_TIMING") != "" {
			fmt.Printf("c15-timing %-32s cases=%d secs=%d bytes=%d t=%v\n", sh.Name, len(cases), len(car.Secs), len(car.Bytes), time.Since(tShape))
		}
	}
}
