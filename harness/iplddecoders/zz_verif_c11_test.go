//go:build verif

package iplddecoders

// C11 — the hand-written ("fast") IPLD node decoders agree with the schema-driven reference decoder.
//
// Workload: typed values of all seven ledger kinds are generated (directed boundary sweeps over every
// integer field, every optional field mode, every list / byte-string length class, several CID flavours,
// plus a seeded random mass), encoded with the REFERENCE encoder (ipld-prime bindnode + dag-cbor), and
// then decoded (a) by the reference decoder built here from ipld.Unmarshal + the bindnode prototype of
// the embedded schema and (b) by the exported Decode* / DecodeAny / GetKind functions of this package.
// Further inputs: every node of /repo/fixtures/*.car, every node of cargen-generated epochs, and
// "foreign kind field" nodes (the structure of kind K carrying another value in its kind field).
//
// Oracle (purely differential, per (node, decoder J) pair):
//   reference J-decoder accepts  => Decode<J> must accept and agree on kind, every scalar, byte string,
//                                   list content, link CID and every Has*/Get* accessor;
//   reference J-decoder rejects  => Decode<J> must not accept (a node of one kind is never another kind).
// DecodeAny must return exactly the type the reference accepts, GetKind the same kind.
// Presence of optional fields is compared through the accessors only (nil and empty link lists are the
// same list; GetNext's flag is compared only where one of the lists is non-empty).
// A panic of a decoder on a node the reference REJECTS is C12's subject and only counted here.

import (
	"bytes"
	"encoding/hex"
	"fmt"
	"math"
	"math/rand"
	"os"
	"path/filepath"
	"runtime"
	"sort"
	"strings"
	"sync"
	"testing"

	"github.com/ipfs/go-cid"
	"github.com/ipld/go-ipld-prime"
	"github.com/ipld/go-ipld-prime/codec/dagcbor"
	"github.com/ipld/go-ipld-prime/datamodel"
	cidlink "github.com/ipld/go-ipld-prime/linking/cid"
	"github.com/ipld/go-ipld-prime/schema"
	mh "github.com/multiformats/go-multihash"
	"github.com/rpcpool/yellowstone-faithful/ipld/ipldbindcode"
	"github.com/rpcpool/yellowstone-faithful/zzverif/cargen"
	"github.com/rpcpool/yellowstone-faithful/zzverif/ev"
)

var c11KindNames = []string{"Transaction", "Entry", "Block", "Subset", "Epoch", "Rewards", "DataFrame"}

func c11KindName(k int) string {
	if k >= 0 && k < len(c11KindNames) {
		return c11KindNames[k]
	}
	return fmt.Sprintf("kind%d", k)
}

func c11Proto(kind int) schema.TypedPrototype {
	switch kind {
	case 0:
		return ipldbindcode.Prototypes.Transaction
	case 1:
		return ipldbindcode.Prototypes.Entry
	case 2:
		return ipldbindcode.Prototypes.Block
	case 3:
		return ipldbindcode.Prototypes.Subset
	case 4:
		return ipldbindcode.Prototypes.Epoch
	case 5:
		return ipldbindcode.Prototypes.Rewards
	default:
		return ipldbindcode.Prototypes.DataFrame
	}
}

// ---------------------------------------------------------------------------------------------
// cases

type c11Case struct {
	ID string `json:"id"`
	// Kind: the kind whose structure the node was generated with (or -1 for fixture nodes)
	Kind int `json:"kind"`
	// Foreign: the node carries a kind field different from Kind (never conforming to Kind)
	Foreign bool   `json:"foreign_kind_field,omitempty"`
	Seed    int64  `json:"seed"`
	Hex     string `json:"hex,omitempty"`
	Len     int    `json:"len"`
	Note    string `json:"note,omitempty"`
	raw     []byte
}

// ---------------------------------------------------------------------------------------------
// reference decoder (schema-driven): ipld.Unmarshal over the bindnode prototype + kind check

type c11RefPanic struct{ msg string }

func (e c11RefPanic) Error() string { return "reference decoder panicked: " + e.msg }

func c11RefDecode(kind int, raw []byte) (v any, err error) {
	defer func() {
		if r := recover(); r != nil {
			v, err = nil, c11RefPanic{fmt.Sprint(r)}
		}
	}()
	wrong := func(k int) error { return fmt.Errorf("kind field %d is not %d", k, kind) }
	switch kind {
	case 0:
		var x ipldbindcode.Transaction
		if _, err := ipld.Unmarshal(raw, dagcbor.Decode, &x, c11Proto(kind).Type()); err != nil {
			return nil, err
		}
		if x.Kind != kind {
			return nil, wrong(x.Kind)
		}
		return &x, nil
	case 1:
		var x ipldbindcode.Entry
		if _, err := ipld.Unmarshal(raw, dagcbor.Decode, &x, c11Proto(kind).Type()); err != nil {
			return nil, err
		}
		if x.Kind != kind {
			return nil, wrong(x.Kind)
		}
		return &x, nil
	case 2:
		var x ipldbindcode.Block
		if _, err := ipld.Unmarshal(raw, dagcbor.Decode, &x, c11Proto(kind).Type()); err != nil {
			return nil, err
		}
		if x.Kind != kind {
			return nil, wrong(x.Kind)
		}
		return &x, nil
	case 3:
		var x ipldbindcode.Subset
		if _, err := ipld.Unmarshal(raw, dagcbor.Decode, &x, c11Proto(kind).Type()); err != nil {
			return nil, err
		}
		if x.Kind != kind {
			return nil, wrong(x.Kind)
		}
		return &x, nil
	case 4:
		var x ipldbindcode.Epoch
		if _, err := ipld.Unmarshal(raw, dagcbor.Decode, &x, c11Proto(kind).Type()); err != nil {
			return nil, err
		}
		if x.Kind != kind {
			return nil, wrong(x.Kind)
		}
		return &x, nil
	case 5:
		var x ipldbindcode.Rewards
		if _, err := ipld.Unmarshal(raw, dagcbor.Decode, &x, c11Proto(kind).Type()); err != nil {
			return nil, err
		}
		if x.Kind != kind {
			return nil, wrong(x.Kind)
		}
		return &x, nil
	case 6:
		var x ipldbindcode.DataFrame
		if _, err := ipld.Unmarshal(raw, dagcbor.Decode, &x, c11Proto(kind).Type()); err != nil {
			return nil, err
		}
		if x.Kind != kind {
			return nil, wrong(x.Kind)
		}
		return &x, nil
	}
	return nil, fmt.Errorf("no such kind %d", kind)
}

// ---------------------------------------------------------------------------------------------
// the decoders under observation (exported entry points used by the server and the indexers)

func c11FastDecode(kind int, raw []byte) (v any, err error, panicked string) {
	defer func() {
		if r := recover(); r != nil {
			v, err, panicked = nil, nil, fmt.Sprint(r)
		}
	}()
	switch kind {
	case 0:
		x, err := DecodeTransaction(raw)
		if err != nil {
			return nil, err, ""
		}
		return x, nil, ""
	case 1:
		x, err := DecodeEntry(raw)
		if err != nil {
			return nil, err, ""
		}
		return x, nil, ""
	case 2:
		x, err := DecodeBlock(raw)
		if err != nil {
			return nil, err, ""
		}
		return x, nil, ""
	case 3:
		x, err := DecodeSubset(raw)
		if err != nil {
			return nil, err, ""
		}
		return x, nil, ""
	case 4:
		x, err := DecodeEpoch(raw)
		if err != nil {
			return nil, err, ""
		}
		return x, nil, ""
	case 5:
		x, err := DecodeRewards(raw)
		if err != nil {
			return nil, err, ""
		}
		return x, nil, ""
	default:
		x, err := DecodeDataFrame(raw)
		if err != nil {
			return nil, err, ""
		}
		return x, nil, ""
	}
}

func c11FastAny(raw []byte) (v any, err error, panicked string) {
	defer func() {
		if r := recover(); r != nil {
			v, err, panicked = nil, nil, fmt.Sprint(r)
		}
	}()
	v, err = DecodeAny(raw)
	return v, err, ""
}

// kind of a decoded value by its Go type (-1: none of the seven, or a nil pointer)
func c11TypeKind(v any) int {
	switch x := v.(type) {
	case *ipldbindcode.Transaction:
		if x != nil {
			return 0
		}
	case *ipldbindcode.Entry:
		if x != nil {
			return 1
		}
	case *ipldbindcode.Block:
		if x != nil {
			return 2
		}
	case *ipldbindcode.Subset:
		if x != nil {
			return 3
		}
	case *ipldbindcode.Epoch:
		if x != nil {
			return 4
		}
	case *ipldbindcode.Rewards:
		if x != nil {
			return 5
		}
	case *ipldbindcode.DataFrame:
		if x != nil {
			return 6
		}
	}
	return -1
}

// ---------------------------------------------------------------------------------------------
// comparison (fast vs reference), through exported fields and Has*/Get* accessors

type c11D struct {
	Path string // field path without list positions (stable key component)
	Fast string
	Ref  string
}

type c11Diffs struct{ d []c11D }

func (o *c11Diffs) add(path string, fast, ref any) {
	if len(o.d) < 64 {
		o.d = append(o.d, c11D{path, c11Short(fast), c11Short(ref)})
	}
}

func c11Short(v any) string {
	s := fmt.Sprint(v)
	if len(s) > 120 {
		s = s[:120] + "..."
	}
	return s
}

func (o *c11Diffs) int(path string, f, r int) {
	if f != r {
		o.add(path, f, r)
	}
}

func (o *c11Diffs) u64(path string, f, r uint64) {
	if f != r {
		o.add(path, f, r)
	}
}

func (o *c11Diffs) flag(path string, f, r bool) {
	if f != r {
		o.add(path, f, r)
	}
}

func (o *c11Diffs) bytes(path string, f, r []byte) {
	if len(f) != len(r) {
		o.add(path+".len", len(f), len(r))
		return
	}
	if !bytes.Equal(f, r) {
		i := 0
		for i < len(f) && f[i] == r[i] {
			i++
		}
		o.add(path, fmt.Sprintf("differs at byte %d: %#x", i, f[i]), fmt.Sprintf("%#x", r[i]))
	}
}

func c11LinkKey(l datamodel.Link) string {
	if l == nil {
		return "<nil link>"
	}
	switch x := l.(type) {
	case cidlink.Link:
		return "cid:" + hex.EncodeToString(x.Cid.Bytes())
	case *cidlink.Link:
		if x == nil {
			return "<nil *link>"
		}
		return "cid:" + hex.EncodeToString(x.Cid.Bytes())
	}
	return fmt.Sprintf("%T:%s", l, hex.EncodeToString([]byte(l.Binary())))
}

func (o *c11Diffs) link(path string, f, r datamodel.Link) {
	if a, b := c11LinkKey(f), c11LinkKey(r); a != b {
		o.add(path, a, b)
	}
}

func (o *c11Diffs) links(path string, f, r ipldbindcode.List__Link) {
	if len(f) != len(r) {
		o.add(path+".len", len(f), len(r))
		return
	}
	for i := range f {
		if a, b := c11LinkKey(f[i]), c11LinkKey(r[i]); a != b {
			o.add(path+"[]", fmt.Sprintf("[%d]=%s", i, a), b)
			return
		}
	}
}

func (o *c11Diffs) dataFrame(p string, f, r *ipldbindcode.DataFrame) {
	o.int(p+"Kind", f.Kind, r.Kind)
	o.flag(p+"HasHash()", f.HasHash(), r.HasHash())
	fh, fok := f.GetHash()
	rh, rok := r.GetHash()
	o.flag(p+"GetHash().ok", fok, rok)
	o.u64(p+"GetHash()", fh, rh)
	o.flag(p+"HasIndex()", f.HasIndex(), r.HasIndex())
	fi, fok := f.GetIndex()
	ri, rok := r.GetIndex()
	o.flag(p+"GetIndex().ok", fok, rok)
	o.int(p+"GetIndex()", fi, ri)
	o.flag(p+"HasTotal()", f.HasTotal(), r.HasTotal())
	ft, fok := f.GetTotal()
	rt, rok := r.GetTotal()
	o.flag(p+"GetTotal().ok", fok, rok)
	o.int(p+"GetTotal()", ft, rt)
	o.bytes(p+"Data", f.Data, r.Data)
	o.bytes(p+"Bytes()", f.Bytes(), r.Bytes())
	o.flag(p+"HasNext()", f.HasNext(), r.HasNext())
	fn, fok := f.GetNext()
	rn, rok := r.GetNext()
	o.links(p+"GetNext()", fn, rn)
	if len(fn) > 0 || len(rn) > 0 {
		o.flag(p+"GetNext().ok", fok, rok)
	}
	// the list behind the pointers (nil pointer == empty list)
	var fl, rl ipldbindcode.List__Link
	if f.Next != nil && *f.Next != nil {
		fl = **f.Next
	}
	if r.Next != nil && *r.Next != nil {
		rl = **r.Next
	}
	o.links(p+"Next", fl, rl)
}

// c11Compare returns the differences between what the fast decoder and the reference decoder yielded.
func c11Compare(kind int, fast, ref any) []c11D {
	o := &c11Diffs{}
	if c11TypeKind(fast) != kind {
		o.add("result-type", fmt.Sprintf("%T (nil=%v)", fast, c11TypeKind(fast) < 0), c11KindName(kind))
		return o.d
	}
	switch kind {
	case 0:
		f, r := fast.(*ipldbindcode.Transaction), ref.(*ipldbindcode.Transaction)
		o.int("Kind", f.Kind, r.Kind)
		o.dataFrame("Data.", &f.Data, &r.Data)
		o.dataFrame("Metadata.", &f.Metadata, &r.Metadata)
		o.int("Slot", f.Slot, r.Slot)
		o.flag("HasIndex()", f.HasIndex(), r.HasIndex())
		fi, fok := f.GetPositionIndex()
		ri, rok := r.GetPositionIndex()
		o.flag("GetPositionIndex().ok", fok, rok)
		o.int("GetPositionIndex()", fi, ri)
	case 1:
		f, r := fast.(*ipldbindcode.Entry), ref.(*ipldbindcode.Entry)
		o.int("Kind", f.Kind, r.Kind)
		o.int("NumHashes", f.NumHashes, r.NumHashes)
		o.bytes("Hash", f.Hash, r.Hash)
		o.links("Transactions", f.Transactions, r.Transactions)
	case 2:
		f, r := fast.(*ipldbindcode.Block), ref.(*ipldbindcode.Block)
		o.int("Kind", f.Kind, r.Kind)
		o.int("Slot", f.Slot, r.Slot)
		if len(f.Shredding) != len(r.Shredding) {
			o.add("Shredding.len", len(f.Shredding), len(r.Shredding))
		} else {
			for i := range f.Shredding {
				if f.Shredding[i] != r.Shredding[i] {
					if f.Shredding[i].EntryEndIdx != r.Shredding[i].EntryEndIdx {
						o.add("Shredding[].EntryEndIdx", fmt.Sprintf("[%d]=%d", i, f.Shredding[i].EntryEndIdx), r.Shredding[i].EntryEndIdx)
					}
					if f.Shredding[i].ShredEndIdx != r.Shredding[i].ShredEndIdx {
						o.add("Shredding[].ShredEndIdx", fmt.Sprintf("[%d]=%d", i, f.Shredding[i].ShredEndIdx), r.Shredding[i].ShredEndIdx)
					}
					break
				}
			}
		}
		o.links("Entries", f.Entries, r.Entries)
		o.int("Meta.Parent_slot", f.Meta.Parent_slot, r.Meta.Parent_slot)
		o.int("Meta.Blocktime", f.Meta.Blocktime, r.Meta.Blocktime)
		o.flag("Meta.HasBlockHeight()", f.Meta.HasBlockHeight(), r.Meta.HasBlockHeight())
		fh, fok := f.Meta.GetBlockHeight()
		rh, rok := r.Meta.GetBlockHeight()
		o.flag("Meta.GetBlockHeight().ok", fok, rok)
		o.u64("Meta.GetBlockHeight()", fh, rh)
		fh, fok = f.GetBlockHeight()
		rh, rok = r.GetBlockHeight()
		o.flag("GetBlockHeight().ok", fok, rok)
		o.u64("GetBlockHeight()", fh, rh)
		o.flag("Meta.Equivalent(ref)", f.Meta.Equivalent(r.Meta), true)
		o.link("Rewards", f.Rewards, r.Rewards)
	case 3:
		f, r := fast.(*ipldbindcode.Subset), ref.(*ipldbindcode.Subset)
		o.int("Kind", f.Kind, r.Kind)
		o.int("First", f.First, r.First)
		o.int("Last", f.Last, r.Last)
		o.links("Blocks", f.Blocks, r.Blocks)
	case 4:
		f, r := fast.(*ipldbindcode.Epoch), ref.(*ipldbindcode.Epoch)
		o.int("Kind", f.Kind, r.Kind)
		o.int("Epoch", f.Epoch, r.Epoch)
		o.links("Subsets", f.Subsets, r.Subsets)
	case 5:
		f, r := fast.(*ipldbindcode.Rewards), ref.(*ipldbindcode.Rewards)
		o.int("Kind", f.Kind, r.Kind)
		o.int("Slot", f.Slot, r.Slot)
		o.dataFrame("Data.", &f.Data, &r.Data)
	case 6:
		f, r := fast.(*ipldbindcode.DataFrame), ref.(*ipldbindcode.DataFrame)
		o.dataFrame("", f, r)
	}
	return o.d
}

// ---------------------------------------------------------------------------------------------
// classification of a (reference-decoded) node: (kind, optional-presence mask, length class, sign class)

type c11Class struct {
	opt     []byte
	maxLen  int // longest list or byte string
	maxList int // longest list
	neg     bool
	big     bool
}

func (c *c11Class) ll(n int) {
	c.l(n)
	if n > c.maxList {
		c.maxList = n
	}
}

func (c *c11Class) i(v int) {
	if v < 0 {
		c.neg = true
	}
	if v >= 1<<31 || v < -(1<<31) {
		c.big = true
	}
}

func (c *c11Class) l(n int) {
	if n > c.maxLen {
		c.maxLen = n
	}
}

func (c *c11Class) optInt(p **int) {
	switch {
	case p == nil:
		c.opt = append(c.opt, 'a')
	case *p == nil:
		c.opt = append(c.opt, 'n')
	default:
		c.opt = append(c.opt, 'p')
		c.i(**p)
	}
}

func (c *c11Class) df(d *ipldbindcode.DataFrame) {
	c.optInt(d.Hash)
	c.optInt(d.Index)
	c.optInt(d.Total)
	c.l(len(d.Data))
	switch {
	case d.Next == nil:
		c.opt = append(c.opt, 'a')
	case *d.Next == nil:
		c.opt = append(c.opt, 'n')
	case len(**d.Next) == 0:
		c.opt = append(c.opt, 'e')
	default:
		c.opt = append(c.opt, 'p')
		c.ll(len(**d.Next))
	}
}

func c11LenClass(n int) string {
	switch {
	case n <= 2:
		return fmt.Sprint(n)
	case n <= 23:
		return "le23"
	case n <= 255:
		return "le255"
	case n <= 65535:
		return "le65535"
	}
	return "gt65535"
}

func c11Classify(kind int, v any) string {
	return c11ClassOf(v).key(kind)
}

func c11ClassOf(v any) *c11Class {
	c := &c11Class{}
	switch x := v.(type) {
	case *ipldbindcode.Transaction:
		c.df(&x.Data)
		c.df(&x.Metadata)
		c.i(x.Slot)
		c.optInt(x.Index)
	case *ipldbindcode.Entry:
		c.i(x.NumHashes)
		c.l(len(x.Hash))
		c.ll(len(x.Transactions))
	case *ipldbindcode.Block:
		c.i(x.Slot)
		c.ll(len(x.Shredding))
		for _, s := range x.Shredding {
			c.i(s.EntryEndIdx)
			c.i(s.ShredEndIdx)
		}
		c.ll(len(x.Entries))
		c.i(x.Meta.Parent_slot)
		c.i(x.Meta.Blocktime)
		c.optInt(x.Meta.Block_height)
	case *ipldbindcode.Subset:
		c.i(x.First)
		c.i(x.Last)
		c.ll(len(x.Blocks))
	case *ipldbindcode.Epoch:
		c.i(x.Epoch)
		c.ll(len(x.Subsets))
	case *ipldbindcode.Rewards:
		c.i(x.Slot)
		c.df(&x.Data)
	case *ipldbindcode.DataFrame:
		c.df(x)
	}
	return c
}

func (c *c11Class) key(kind int) string {
	sign := "small"
	switch {
	case c.neg && c.big:
		sign = "neg+big"
	case c.neg:
		sign = "neg"
	case c.big:
		sign = "big"
	}
	return fmt.Sprintf("%s|opt=%s|len=%s|int=%s", c11KindName(kind), c.opt, c11LenClass(c.maxLen), sign)
}

// ---------------------------------------------------------------------------------------------
// the monitor: judge one node against all seven decoders + DecodeAny + GetKind

type c11Monitor struct {
	rec *ev.Recorder
}

func (m *c11Monitor) replayOf(c *c11Case) c11Case {
	r := *c
	if len(c.raw) <= 1<<20 {
		r.Hex = hex.EncodeToString(c.raw)
	} else {
		r.Note += " (node > 1 MiB: regenerate it from id+seed)"
	}
	r.Len = len(c.raw)
	return r
}

func (m *c11Monitor) judge(c *c11Case) {
	rec := m.rec
	raw := c.raw
	// which decoders does the reference accept this node with?
	var refV [7]any
	var refE [7]error
	accepted := -1
	for j := 0; j < 7; j++ {
		refV[j], refE[j] = c11RefDecode(j, raw)
		if refE[j] == nil {
			accepted = j
		}
	}
	if c.Kind >= 0 && !c.Foreign && refE[c.Kind] != nil {
		// the reference decoder does not read back what the reference encoder wrote: no ground truth
		rec.Count("diag_reference_rejects_own_encoding", 1)
		rec.Note("diag_reference_rejects_own_encoding_sample", fmt.Sprintf("%s: %v", c.ID, refE[c.Kind]))
		return
	}
	if c.Kind < 0 && accepted < 0 {
		rec.Count("diag_fixture_node_not_schema_conforming", 1)
		return
	}
	rec.Eval(1)
	label := "nonconforming-node"
	if accepted >= 0 {
		label = c11KindName(accepted) + "-node"
		rec.Distinct(c11Classify(accepted, refV[accepted]))
		rec.Count("nodes_"+c11KindName(accepted), 1)
	} else if c.Foreign {
		label = "foreign-kind-field"
		rec.Distinct(fmt.Sprintf("foreign|%s-structure", c11KindName(c.Kind)))
		rec.Count("nodes_foreign_kind_field", 1)
	}
	// failure class of a refused conforming node, by a feature of the input (keeps known causes apart)
	refusal := ""
	if accepted >= 0 && c11ClassOf(refV[accepted]).maxList > c11FxamackerDefaultMaxArrayElements {
		refusal = "/list-over-131072-elements"
	}
	for j := 0; j < 7; j++ {
		name := "Decode" + c11KindName(j)
		if _, isPanic := refE[j].(c11RefPanic); isPanic {
			rec.Count("diag_reference_panic", 1)
			continue
		}
		fv, ferr, pan := c11FastDecode(j, raw)
		rec.Count("decoder_pairs", 1)
		if refE[j] == nil {
			switch {
			case pan != "":
				rec.Violation(name+"/panics-on-conforming-node"+refusal, fmt.Sprintf("case %s (%d bytes): the reference decoder accepts the node as %s, %s panics: %s", c.ID, len(raw), c11KindName(j), name, pan), m.replayOf(c))
			case ferr != nil:
				rec.Violation(name+"/rejects-conforming-node"+refusal, fmt.Sprintf("case %s (%d bytes): the reference decoder accepts the node as %s, %s returns: %v", c.ID, len(raw), c11KindName(j), name, ferr), m.replayOf(c))
			default:
				m.report(name, c, c11Compare(j, fv, refV[j]))
			}
			continue
		}
		switch {
		case pan != "":
			rec.Count("diag_panic_on_node_the_reference_rejects/"+name, 1)
		case ferr == nil && c.Foreign && j != c.Kind:
			// a structure that conforms to no kind at all, offered to a decoder of yet another kind: outside the
			// property's domain (the fast decoders are more lenient than the schema, e.g. null for a required list)
			rec.Count("diag_lenient_accept_of_nonconforming_node/"+name, 1)
		case ferr == nil:
			rec.Violation(name+"/accepts-"+label, fmt.Sprintf("case %s (%d bytes, kind byte %#x): the reference %s decoder rejects the node (%v) but %s accepts it", c.ID, len(raw), c11KindByte(raw), c11KindName(j), refE[j], name), m.replayOf(c))
		default:
			rec.Count("rejections_agreed", 1)
		}
	}
	// DecodeAny and GetKind
	av, aerr, apan := c11FastAny(raw)
	rec.Count("decoder_pairs", 1)
	if accepted >= 0 {
		switch {
		case apan != "":
			rec.Violation("DecodeAny/panics-on-conforming-node"+refusal, fmt.Sprintf("case %s: %s node: DecodeAny panics: %s", c.ID, c11KindName(accepted), apan), m.replayOf(c))
		case aerr != nil:
			rec.Violation("DecodeAny/rejects-conforming-node"+refusal, fmt.Sprintf("case %s: %s node: DecodeAny returns: %v", c.ID, c11KindName(accepted), aerr), m.replayOf(c))
		case c11TypeKind(av) != accepted:
			rec.Violation("DecodeAny/wrong-type", fmt.Sprintf("case %s: %s node decoded as %T", c.ID, c11KindName(accepted), av), m.replayOf(c))
		default:
			m.report("DecodeAny", c, c11Compare(accepted, av, refV[accepted]))
		}
		if k, err := GetKind(raw); err != nil || int(k) != accepted {
			rec.Violation("GetKind/wrong-kind", fmt.Sprintf("case %s: %s node: GetKind = %d, %v", c.ID, c11KindName(accepted), int(k), err), m.replayOf(c))
		}
	} else {
		switch {
		case apan != "":
			rec.Count("diag_panic_on_node_the_reference_rejects/DecodeAny", 1)
		case aerr == nil && c.Foreign && c11TypeKind(av) != c.Kind:
			rec.Count("diag_lenient_accept_of_nonconforming_node/DecodeAny", 1)
		case aerr == nil:
			rec.Violation("DecodeAny/accepts-"+label, fmt.Sprintf("case %s (kind byte %#x): no reference decoder accepts the node but DecodeAny returns %T", c.ID, c11KindByte(raw), av), m.replayOf(c))
		default:
			rec.Count("rejections_agreed", 1)
		}
	}
}

// the default element limit of github.com/fxamacker/cbor/v2 decoders (DecOptions.MaxArrayElements)
const c11FxamackerDefaultMaxArrayElements = 131072

func c11KindByte(raw []byte) int {
	if len(raw) > 1 {
		return int(raw[1])
	}
	return -1
}

func (m *c11Monitor) report(name string, c *c11Case, diffs []c11D) {
	if len(diffs) == 0 {
		m.rec.Count("agreements", 1)
		return
	}
	seen := map[string]bool{}
	for _, d := range diffs {
		if seen[d.Path] {
			continue
		}
		seen[d.Path] = true
		m.rec.Violation(name+"/mismatch/"+d.Path, fmt.Sprintf("case %s (%d bytes): %s: fast decoder yields %s, reference decoder yields %s", c.ID, len(c.raw), d.Path, d.Fast, d.Ref), m.replayOf(c))
	}
}

// ---------------------------------------------------------------------------------------------
// generator of typed values

type c11Gen struct {
	rng *rand.Rand
}

var c11BoundaryInts = []int{
	0, 1, -1, 2, 23, 24, 25, -24, -25, -26, 127, 128, 255, 256, -255, -256, -257, 65535, 65536, -65536, -65537,
	1<<31 - 1, 1 << 31, 1<<31 + 1, -(1 << 31), -(1 << 31) - 1, 1<<32 - 1, 1 << 32, 1<<32 + 1, -(1 << 32), -(1 << 32) - 1,
	1 << 53, 1 << 62, math.MaxInt64 - 1, math.MaxInt64, math.MinInt64, math.MinInt64 + 1,
}

func (g *c11Gen) int() int {
	switch g.rng.Intn(10) {
	case 0, 1, 2:
		return c11BoundaryInts[g.rng.Intn(len(c11BoundaryInts))]
	case 3, 4, 5:
		return g.rng.Intn(1000)
	case 6:
		return -1 - g.rng.Intn(1000)
	}
	bits := 1 + g.rng.Intn(63)
	v := int(g.rng.Uint64() >> uint(64-bits))
	if g.rng.Intn(2) == 0 {
		v = -v - 1
	}
	return v
}

// posInt: mostly plausible ledger values (slots, counters), sometimes anything
func (g *c11Gen) posInt() int {
	if g.rng.Intn(4) == 0 {
		return g.int()
	}
	return g.rng.Intn(400_000_000)
}

const c11CidFlavours = 7

func (g *c11Gen) cidFlavour(f int) cid.Cid {
	digest := func(n int) []byte {
		b := make([]byte, n)
		g.rng.Read(b)
		return b
	}
	mk := func(code uint64, d []byte) mh.Multihash {
		m, err := mh.Encode(d, code)
		if err != nil {
			panic(err)
		}
		return m
	}
	switch f {
	case 0: // what the ledger uses: CIDv1 dag-cbor sha2-256
		return cid.NewCidV1(cid.DagCBOR, mk(mh.SHA2_256, digest(32)))
	case 1: // CIDv1 raw sha2-256
		return cid.NewCidV1(cid.Raw, mk(mh.SHA2_256, digest(32)))
	case 2: // CIDv1 dag-cbor sha2-512 (64-byte digest)
		return cid.NewCidV1(cid.DagCBOR, mk(mh.SHA2_512, digest(64)))
	case 3: // identity multihash with a short digest (the "no rewards" dummy CID is raw+identity+empty)
		return cid.NewCidV1(cid.Raw, mk(mh.IDENTITY, digest(g.rng.Intn(6))))
	case 4: // CIDv0
		return cid.NewCidV0(mk(mh.SHA2_256, digest(32)))
	case 5: // the dummy CID of the real writers
		return cargen.DummyCID
	default: // a codec whose varint needs several bytes (dag-json 0x0129) and blake2b-256 (0xb220)
		return cid.NewCidV1(0x0129, mk(0xb220, digest(32)))
	}
}

func (g *c11Gen) cid() cid.Cid {
	if g.rng.Intn(4) != 0 {
		return g.cidFlavour(0)
	}
	return g.cidFlavour(g.rng.Intn(c11CidFlavours))
}

func (g *c11Gen) links(n int) ipldbindcode.List__Link {
	l := make(ipldbindcode.List__Link, n)
	for i := range l {
		l[i] = cidlink.Link{Cid: g.cid()}
	}
	return l
}

func (g *c11Gen) bytes(n int) []byte {
	b := make([]byte, n)
	g.rng.Read(b)
	return b
}

func (g *c11Gen) listLen() int {
	switch r := g.rng.Intn(100); {
	case r < 12:
		return 0
	case r < 27:
		return 1
	case r < 37:
		return 2
	case r < 75:
		return 3 + g.rng.Intn(28)
	case r < 85:
		return 22 + g.rng.Intn(4) // 22..25: one-byte / two-byte list header
	case r < 95:
		return 100 + g.rng.Intn(200)
	case r < 99:
		return 254 + g.rng.Intn(4)
	}
	return 1000 + g.rng.Intn(2000)
}

func (g *c11Gen) bytesLen() int {
	switch r := g.rng.Intn(100); {
	case r < 10:
		return 0
	case r < 18:
		return 1
	case r < 50:
		return 2 + g.rng.Intn(120)
	case r < 60:
		return 22 + g.rng.Intn(4)
	case r < 70:
		return 254 + g.rng.Intn(4)
	case r < 97:
		return 200 + g.rng.Intn(1300)
	case r < 99:
		return 65534 + g.rng.Intn(4)
	}
	return 1 + g.rng.Intn(70000)
}

const (
	c11Absent  = 0
	c11Null    = 1
	c11Present = 2
)

func c11OptInt(mode int, v int) **int {
	switch mode {
	case c11Absent:
		return nil
	case c11Null:
		var p *int
		return &p
	}
	p := &v
	return &p
}

// next modes: 0 absent, 1 null, 2 present-empty(non-nil), 3 present-nonempty, 4 present-nil-slice
func c11OptLinks(mode int, l ipldbindcode.List__Link) **ipldbindcode.List__Link {
	switch mode {
	case 0:
		return nil
	case 1:
		var p *ipldbindcode.List__Link
		return &p
	case 2:
		e := ipldbindcode.List__Link{}
		p := &e
		return &p
	case 4:
		var e ipldbindcode.List__Link
		p := &e
		return &p
	}
	p := &l
	return &p
}

type c11DFShape struct {
	Hash, Index, Total int // c11Absent/c11Null/c11Present
	Next               int // 0..4
	NextLen            int
	DataLen            int
}

func (g *c11Gen) dfShape() c11DFShape {
	m := func() int {
		// absent in the middle of a tuple is not encodable: mostly null/present
		switch r := g.rng.Intn(20); {
		case r == 0:
			return c11Absent
		case r < 8:
			return c11Null
		}
		return c11Present
	}
	s := c11DFShape{Hash: m(), Index: m(), Total: m(), Next: g.rng.Intn(5), DataLen: g.bytesLen()}
	if s.Next == 3 {
		s.NextLen = 1 + g.rng.Intn(12)
		if g.rng.Intn(20) == 0 {
			s.NextLen = g.listLen() + 1
		}
	}
	return s
}

func (g *c11Gen) df(s c11DFShape) ipldbindcode.DataFrame {
	d := ipldbindcode.DataFrame{Kind: 6}
	d.Hash = c11OptInt(s.Hash, g.int())
	d.Index = c11OptInt(s.Index, g.posIntSmall())
	d.Total = c11OptInt(s.Total, g.posIntSmall())
	d.Data = g.bytes(s.DataLen)
	d.Next = c11OptLinks(s.Next, g.links(s.NextLen))
	return d
}

func (g *c11Gen) posIntSmall() int {
	if g.rng.Intn(3) == 0 {
		return g.int()
	}
	return g.rng.Intn(70)
}

// value builds a random typed value of the given kind.
func (g *c11Gen) value(kind int) any {
	switch kind {
	case 0:
		x := &ipldbindcode.Transaction{Kind: 0, Data: g.df(g.dfShape()), Metadata: g.df(g.dfShape()), Slot: g.posInt()}
		x.Index = c11OptInt(g.rng.Intn(3), g.posIntSmall())
		return x
	case 1:
		hl := 32
		if g.rng.Intn(4) == 0 {
			hl = g.bytesLen()
		}
		return &ipldbindcode.Entry{Kind: 1, NumHashes: g.posInt(), Hash: g.bytes(hl), Transactions: g.links(g.listLen())}
	case 2:
		x := &ipldbindcode.Block{Kind: 2, Slot: g.posInt(), Entries: g.links(g.listLen()), Rewards: cidlink.Link{Cid: g.cid()}}
		n := g.listLen()
		x.Shredding = make(ipldbindcode.List__Shredding, n)
		for i := range x.Shredding {
			x.Shredding[i] = ipldbindcode.Shredding{EntryEndIdx: g.posIntSmall(), ShredEndIdx: g.posIntSmall()}
			if g.rng.Intn(3) == 0 {
				x.Shredding[i].ShredEndIdx = -1 // what the real writers store for "no shred boundary"
			}
		}
		x.Meta = ipldbindcode.SlotMeta{Parent_slot: g.posInt(), Blocktime: g.posInt(), Block_height: c11OptInt(g.rng.Intn(3), g.posInt())}
		return x
	case 3:
		return &ipldbindcode.Subset{Kind: 3, First: g.posInt(), Last: g.posInt(), Blocks: g.links(g.listLen())}
	case 4:
		return &ipldbindcode.Epoch{Kind: 4, Epoch: g.posIntSmall(), Subsets: g.links(g.listLen())}
	case 5:
		return &ipldbindcode.Rewards{Kind: 5, Slot: g.posInt(), Data: g.df(g.dfShape())}
	default:
		d := g.df(g.dfShape())
		return &d
	}
}

// c11Encode: the reference encoder. ok=false: the reference encoder does not accept the value (it is
// outside the property's domain).
func c11Encode(kind int, v any) (raw []byte, err error) {
	defer func() {
		if r := recover(); r != nil {
			raw, err = nil, fmt.Errorf("reference encoder panicked: %v", r)
		}
	}()
	return ipld.Marshal(dagcbor.Encode, v, c11Proto(kind).Type())
}

func c11SetKind(v any, k int) {
	switch x := v.(type) {
	case *ipldbindcode.Transaction:
		x.Kind = k
	case *ipldbindcode.Entry:
		x.Kind = k
	case *ipldbindcode.Block:
		x.Kind = k
	case *ipldbindcode.Subset:
		x.Kind = k
	case *ipldbindcode.Epoch:
		x.Kind = k
	case *ipldbindcode.Rewards:
		x.Kind = k
	case *ipldbindcode.DataFrame:
		x.Kind = k
	}
}

// every DataFrame inside a value of the given kind (name, accessor)
type c11DFSlot struct {
	name string
	get  func(v any) *ipldbindcode.DataFrame
}

func c11DFSlots(kind int) []c11DFSlot {
	switch kind {
	case 0:
		return []c11DFSlot{
			{"Data", func(v any) *ipldbindcode.DataFrame { return &v.(*ipldbindcode.Transaction).Data }},
			{"Metadata", func(v any) *ipldbindcode.DataFrame { return &v.(*ipldbindcode.Transaction).Metadata }},
		}
	case 5:
		return []c11DFSlot{{"Data", func(v any) *ipldbindcode.DataFrame { return &v.(*ipldbindcode.Rewards).Data }}}
	case 6:
		return []c11DFSlot{{"", func(v any) *ipldbindcode.DataFrame { return v.(*ipldbindcode.DataFrame) }}}
	}
	return nil
}

// every integer field of a value of the given kind (the setter makes optional fields present and gives
// lists at least the needed length)
type c11IntSlot struct {
	name string
	set  func(v any, x int)
}

func c11IntSlots(kind int) []c11IntSlot {
	var out []c11IntSlot
	for _, s := range c11DFSlots(kind) {
		s := s
		pfx := s.name
		if pfx != "" {
			pfx += "."
		}
		out = append(out,
			c11IntSlot{pfx + "Hash", func(v any, x int) { s.get(v).Hash = c11OptInt(c11Present, x) }},
			c11IntSlot{pfx + "Index", func(v any, x int) { s.get(v).Index = c11OptInt(c11Present, x) }},
			c11IntSlot{pfx + "Total", func(v any, x int) { s.get(v).Total = c11OptInt(c11Present, x) }},
		)
	}
	switch kind {
	case 0:
		out = append(out,
			c11IntSlot{"Slot", func(v any, x int) { v.(*ipldbindcode.Transaction).Slot = x }},
			c11IntSlot{"Index", func(v any, x int) { v.(*ipldbindcode.Transaction).Index = c11OptInt(c11Present, x) }})
	case 1:
		out = append(out, c11IntSlot{"NumHashes", func(v any, x int) { v.(*ipldbindcode.Entry).NumHashes = x }})
	case 2:
		need := func(v any) *ipldbindcode.Block {
			b := v.(*ipldbindcode.Block)
			for len(b.Shredding) < 3 {
				b.Shredding = append(b.Shredding, ipldbindcode.Shredding{EntryEndIdx: len(b.Shredding), ShredEndIdx: -1})
			}
			return b
		}
		out = append(out,
			c11IntSlot{"Slot", func(v any, x int) { v.(*ipldbindcode.Block).Slot = x }},
			c11IntSlot{"Shredding[first].EntryEndIdx", func(v any, x int) { need(v).Shredding[0].EntryEndIdx = x }},
			c11IntSlot{"Shredding[first].ShredEndIdx", func(v any, x int) { need(v).Shredding[0].ShredEndIdx = x }},
			c11IntSlot{"Shredding[mid].EntryEndIdx", func(v any, x int) { need(v).Shredding[1].EntryEndIdx = x }},
			c11IntSlot{"Shredding[mid].ShredEndIdx", func(v any, x int) { need(v).Shredding[1].ShredEndIdx = x }},
			c11IntSlot{"Shredding[last].EntryEndIdx", func(v any, x int) { b := need(v); b.Shredding[len(b.Shredding)-1].EntryEndIdx = x }},
			c11IntSlot{"Shredding[last].ShredEndIdx", func(v any, x int) { b := need(v); b.Shredding[len(b.Shredding)-1].ShredEndIdx = x }},
			c11IntSlot{"Meta.Parent_slot", func(v any, x int) { v.(*ipldbindcode.Block).Meta.Parent_slot = x }},
			c11IntSlot{"Meta.Blocktime", func(v any, x int) { v.(*ipldbindcode.Block).Meta.Blocktime = x }},
			c11IntSlot{"Meta.Block_height", func(v any, x int) { v.(*ipldbindcode.Block).Meta.Block_height = c11OptInt(c11Present, x) }})
	case 3:
		out = append(out,
			c11IntSlot{"First", func(v any, x int) { v.(*ipldbindcode.Subset).First = x }},
			c11IntSlot{"Last", func(v any, x int) { v.(*ipldbindcode.Subset).Last = x }})
	case 4:
		out = append(out, c11IntSlot{"Epoch", func(v any, x int) { v.(*ipldbindcode.Epoch).Epoch = x }})
	case 5:
		out = append(out, c11IntSlot{"Slot", func(v any, x int) { v.(*ipldbindcode.Rewards).Slot = x }})
	}
	return out
}

// every link-list / list field
type c11ListSlot struct {
	name string
	set  func(g *c11Gen, v any, n int)
	// setLinks is nil for non-link lists
	setLinks func(v any, l ipldbindcode.List__Link)
}

func c11ListSlots(kind int) []c11ListSlot {
	var out []c11ListSlot
	for _, s := range c11DFSlots(kind) {
		s := s
		pfx := s.name
		if pfx != "" {
			pfx += "."
		}
		set := func(v any, l ipldbindcode.List__Link) { s.get(v).Next = c11OptLinks(3, l) }
		out = append(out, c11ListSlot{pfx + "Next", func(g *c11Gen, v any, n int) { set(v, g.links(n)) }, set})
	}
	switch kind {
	case 1:
		set := func(v any, l ipldbindcode.List__Link) { v.(*ipldbindcode.Entry).Transactions = l }
		out = append(out, c11ListSlot{"Transactions", func(g *c11Gen, v any, n int) { set(v, g.links(n)) }, set})
	case 2:
		set := func(v any, l ipldbindcode.List__Link) { v.(*ipldbindcode.Block).Entries = l }
		out = append(out, c11ListSlot{"Entries", func(g *c11Gen, v any, n int) { set(v, g.links(n)) }, set})
		out = append(out, c11ListSlot{"Shredding", func(g *c11Gen, v any, n int) {
			b := v.(*ipldbindcode.Block)
			b.Shredding = make(ipldbindcode.List__Shredding, n)
			for i := range b.Shredding {
				b.Shredding[i] = ipldbindcode.Shredding{EntryEndIdx: i, ShredEndIdx: g.posIntSmall()}
			}
		}, nil})
	case 3:
		set := func(v any, l ipldbindcode.List__Link) { v.(*ipldbindcode.Subset).Blocks = l }
		out = append(out, c11ListSlot{"Blocks", func(g *c11Gen, v any, n int) { set(v, g.links(n)) }, set})
	case 4:
		set := func(v any, l ipldbindcode.List__Link) { v.(*ipldbindcode.Epoch).Subsets = l }
		out = append(out, c11ListSlot{"Subsets", func(g *c11Gen, v any, n int) { set(v, g.links(n)) }, set})
	}
	return out
}

// every byte-string field
type c11BytesSlot struct {
	name string
	set  func(v any, b []byte)
}

func c11BytesSlots(kind int) []c11BytesSlot {
	var out []c11BytesSlot
	for _, s := range c11DFSlots(kind) {
		s := s
		pfx := s.name
		if pfx != "" {
			pfx += "."
		}
		out = append(out, c11BytesSlot{pfx + "Data", func(v any, b []byte) { s.get(v).Data = b }})
	}
	if kind == 1 {
		out = append(out, c11BytesSlot{"Hash", func(v any, b []byte) { v.(*ipldbindcode.Entry).Hash = b }})
	}
	return out
}

// ---------------------------------------------------------------------------------------------
// case enumeration (a function of seed and tier only)

type c11Emit func(id string, kind int, foreign bool, v any)

func c11Rng(seed int64, salt string, i int) *rand.Rand {
	h := uint64(seed)*0x9E3779B97F4A7C15 + uint64(i)*0xBF58476D1CE4E5B9
	for _, c := range []byte(salt) {
		h = (h ^ uint64(c)) * 0x100000001B3
	}
	return rand.New(rand.NewSource(int64(h >> 1)))
}

// c11Directed emits the directed boundary sweeps.
func c11Directed(seed int64, emit c11Emit) {
	reps := ev.Pick(1, 4)
	for kind := 0; kind < 7; kind++ {
		kn := c11KindName(kind)
		// A. every integer field x every boundary integer
		for _, s := range c11IntSlots(kind) {
			for bi, x := range c11BoundaryInts {
				for rep := 0; rep < reps; rep++ {
					g := &c11Gen{c11Rng(seed, "int/"+kn+"/"+s.name, bi*16+rep)}
					v := g.value(kind)
					s.set(v, x)
					emit(fmt.Sprintf("int/%s/%s/%d/r%d", kn, s.name, x, rep), kind, false, v)
				}
			}
		}
		// B. optional fields: every mode combination of every DataFrame position ...
		for _, s := range c11DFSlots(kind) {
			n := 0
			for hm := 0; hm < 3; hm++ {
				for im := 0; im < 3; im++ {
					for tm := 0; tm < 3; tm++ {
						for nm := 0; nm < 5; nm++ {
							for vi, val := range []int{0, -1, 1 << 40} {
								if vi > 0 && hm != c11Present && im != c11Present && tm != c11Present {
									continue
								}
								n++
								g := &c11Gen{c11Rng(seed, "opt/"+kn+"/"+s.name, n)}
								v := g.value(kind)
								d := s.get(v)
								d.Hash, d.Index, d.Total = c11OptInt(hm, val), c11OptInt(im, val), c11OptInt(tm, val)
								d.Next = c11OptLinks(nm, g.links(1+g.rng.Intn(3)))
								emit(fmt.Sprintf("opt/%s/%s/h%d-i%d-t%d-n%d-v%d", kn, s.name, hm, im, tm, nm, val), kind, false, v)
							}
						}
					}
				}
			}
		}
		// ... and the two stand-alone optional integers
		if kind == 0 || kind == 2 {
			for mode := 0; mode < 3; mode++ {
				for _, val := range []int{0, 1, -1, 1 << 31, math.MaxInt64, math.MinInt64} {
					for rep := 0; rep < 3*reps; rep++ {
						g := &c11Gen{c11Rng(seed, "optint/"+kn, mode*100+rep)}
						v := g.value(kind)
						if kind == 0 {
							t := v.(*ipldbindcode.Transaction)
							t.Index = c11OptInt(mode, val)
							if rep%3 == 1 { // the field before the optional one ends with absent / null optionals itself
								t.Metadata.Next = nil
							} else if rep%3 == 2 {
								t.Metadata.Next = c11OptLinks(1, nil)
							}
						} else {
							v.(*ipldbindcode.Block).Meta.Block_height = c11OptInt(mode, val)
						}
						emit(fmt.Sprintf("optint/%s/m%d/%d/r%d", kn, mode, val, rep), kind, false, v)
						if mode != c11Present {
							break
						}
					}
				}
			}
		}
		// C. list lengths (content compared element by element), D. CID flavours at first/middle/last position
		lens := []int{0, 1, 2, 3, 22, 23, 24, 25, 26, 255, 256, 257, 1000}
		if ev.Thorough() {
			lens = append(lens, 4, 5, 127, 128, 1023, 1024, 65535, 65536, 65537)
		}
		for _, s := range c11ListSlots(kind) {
			for _, n := range lens {
				g := &c11Gen{c11Rng(seed, "list/"+kn+"/"+s.name, n)}
				v := g.value(kind)
				s.set(g, v, n)
				emit(fmt.Sprintf("list/%s/%s/%d", kn, s.name, n), kind, false, v)
			}
			if s.setLinks == nil {
				continue
			}
			for f := 0; f < c11CidFlavours; f++ {
				for pos := 0; pos < 3; pos++ {
					g := &c11Gen{c11Rng(seed, "cid/"+kn+"/"+s.name, f*3+pos)}
					v := g.value(kind)
					l := g.links(3)
					l[pos] = cidlink.Link{Cid: g.cidFlavour(f)}
					s.setLinks(v, l)
					emit(fmt.Sprintf("cid/%s/%s/flavour%d/pos%d", kn, s.name, f, pos), kind, false, v)
				}
			}
		}
		if kind == 2 {
			for f := 0; f < c11CidFlavours; f++ {
				g := &c11Gen{c11Rng(seed, "cid/Block/Rewards", f)}
				v := g.value(kind)
				v.(*ipldbindcode.Block).Rewards = cidlink.Link{Cid: g.cidFlavour(f)}
				emit(fmt.Sprintf("cid/Block/Rewards/flavour%d", f), kind, false, v)
			}
		}
		// E. byte-string lengths
		blens := []int{0, 1, 2, 22, 23, 24, 25, 31, 32, 33, 255, 256, 257, 65535, 65536}
		if ev.Thorough() {
			blens = append(blens, 65537, 1<<20, 1<<20+1)
		}
		for _, s := range c11BytesSlots(kind) {
			for _, n := range blens {
				g := &c11Gen{c11Rng(seed, "bytes/"+kn+"/"+s.name, n)}
				v := g.value(kind)
				s.set(v, g.bytes(n))
				emit(fmt.Sprintf("bytes/%s/%s/%d", kn, s.name, n), kind, false, v)
			}
			// nil instead of empty
			g := &c11Gen{c11Rng(seed, "bytes/"+kn+"/"+s.name, -1)}
			v := g.value(kind)
			s.set(v, nil)
			emit(fmt.Sprintf("bytes/%s/%s/nil", kn, s.name), kind, false, v)
		}
		// F. the structure of this kind under every other kind field
		for _, kf := range []int{0, 1, 2, 3, 4, 5, 6, 7, 8, -1, -2, -7, 23, 24, 255, 256, 1 << 31, math.MaxInt64, math.MinInt64} {
			if kf == kind {
				continue
			}
			for rep := 0; rep < ev.Pick(4, 16); rep++ {
				g := &c11Gen{c11Rng(seed, "foreign/"+kn, kf*32+rep)}
				v := g.value(kind)
				c11SetKind(v, kf)
				emit(fmt.Sprintf("foreign/%s/kindfield%d/r%d", kn, kf, rep), kind, true, v)
			}
		}
	}
	// G. minimal and maximal nodes of each kind
	for kind := 0; kind < 7; kind++ {
		g := &c11Gen{c11Rng(seed, "minimal", kind)}
		var v any
		emptyDF := ipldbindcode.DataFrame{Kind: 6}
		switch kind {
		case 0:
			v = &ipldbindcode.Transaction{Kind: 0, Data: emptyDF, Metadata: emptyDF}
		case 1:
			v = &ipldbindcode.Entry{Kind: 1}
		case 2:
			v = &ipldbindcode.Block{Kind: 2, Rewards: cidlink.Link{Cid: cargen.DummyCID}}
		case 3:
			v = &ipldbindcode.Subset{Kind: 3}
		case 4:
			v = &ipldbindcode.Epoch{Kind: 4}
		case 5:
			v = &ipldbindcode.Rewards{Kind: 5, Data: emptyDF}
		case 6:
			v = &emptyDF
		}
		emit("minimal/"+c11KindName(kind), kind, false, v)
		// everything at once: long lists, long byte strings, extreme integers
		big := g.value(kind)
		for _, s := range c11ListSlots(kind) {
			s.set(g, big, 65537)
		}
		for _, s := range c11BytesSlots(kind) {
			s.set(big, g.bytes(65536))
		}
		for i, s := range c11IntSlots(kind) {
			if !strings.HasPrefix(s.name, "Shredding") {
				s.set(big, []int{math.MinInt64, math.MaxInt64, -1}[i%3])
			}
		}
		emit("maximal/"+c11KindName(kind), kind, false, big)
	}
}

// c11Huge emits nodes whose lists are longer than anything a block needs but still legal for the schema
// (a Subset may list all 432 000 slots of an epoch). Run last: 131 072 is the default element limit of
// the CBOR library under the fast decoders.
func c11Huge(seed int64, emit c11Emit) {
	for _, kind := range []int{3, 4, 1, 2, 0, 5, 6} { // Subset first: the one list that can get this long in a real epoch
		for _, s := range c11ListSlots(kind) {
			lens := []int{131072, 131073}
			if ev.Thorough() {
				lens = append(lens, 131071, 200000)
				if kind == 3 {
					lens = append(lens, 432000)
				}
			}
			for _, n := range lens {
				g := &c11Gen{c11Rng(seed, "huge/"+c11KindName(kind)+"/"+s.name, n)}
				v := g.value(kind)
				s.set(g, v, n)
				emit(fmt.Sprintf("huge/%s/%s/%d", c11KindName(kind), s.name, n), kind, false, v)
			}
		}
	}
}

// c11Random emits the i-th case of the random mass.
func c11Random(seed int64, i int, emit c11Emit) {
	g := &c11Gen{c11Rng(seed, "rand", i)}
	kind := i % 7
	v := g.value(kind)
	if g.rng.Intn(25) == 0 {
		kf := []int{0, 1, 2, 3, 4, 5, 6, 7, -1}[g.rng.Intn(9)]
		if kf != kind {
			c11SetKind(v, kf)
			emit(fmt.Sprintf("rand/%d", i), kind, true, v)
			return
		}
	}
	emit(fmt.Sprintf("rand/%d", i), kind, false, v)
}

// ---------------------------------------------------------------------------------------------
// entry points

const c11Rule = "distinct = (kind, optional-field mask a/n/p[/e] per optional field in schema order, max list/bytes length class {0,1,2,<=23,<=255,<=65535,>65535}, integer class {small,neg,big,neg+big}) of nodes the reference decoder accepts, + foreign-kind-field structures; evaluations = nodes judged (each against 7 Decode* + DecodeAny + GetKind)"

func TestVerifC11(t *testing.T) {
	rec := ev.New("C11", "differential")
	defer rec.Flush()
	rec.Rule(c11Rule)
	m := &c11Monitor{rec: rec}
	seed := ev.Seed()

	var rc c11Case
	replay := ev.LoadReplay(&rc)
	if replay && rc.Hex != "" {
		raw, err := hex.DecodeString(rc.Hex)
		if err != nil {
			t.Fatalf("replay: %v", err)
		}
		rc.raw = raw
		m.judge(&rc)
		return
	}
	if replay {
		// re-enumerate the named case (tier-independent: the thorough list is a superset of the quick one)
		seed = rc.Seed
		os.Setenv("VERIF_TIER", "thorough")
	}

	var encRejected, encRejectedForeign int
	var mu sync.Mutex
	samples := map[string]bool{}
	emit := func(id string, kind int, foreign bool, v any) {
		if replay && id != rc.ID {
			return
		}
		raw, err := c11Encode(kind, v)
		if err != nil {
			mu.Lock()
			if foreign {
				encRejectedForeign++
			} else {
				encRejected++
			}
			mu.Unlock()
			rec.Count("reference_encoder_rejected_value/"+strings.SplitN(id, "/", 2)[0], 1)
			if strings.HasPrefix(id, "opt") || strings.HasPrefix(id, "rand") {
				return // absent-before-present combinations are expected to be unencodable
			}
			rec.Note("reference_encoder_rejected_sample", fmt.Sprintf("%s: %v", id, err))
			return
		}
		c := &c11Case{ID: id, Kind: kind, Foreign: foreign, Seed: seed, raw: raw, Len: len(raw)}
		cls := strings.SplitN(id, "/", 2)[0]
		mu.Lock()
		first := !samples[cls+c11KindName(kind)]
		samples[cls+c11KindName(kind)] = true
		mu.Unlock()
		if first && len(raw) <= 200 {
			rec.Sample(map[string]any{"id": id, "kind": c11KindName(kind), "foreign_kind_field": foreign, "hex": hex.EncodeToString(raw)})
		}
		m.judge(c)
	}

	c11Directed(seed, func(id string, kind int, foreign bool, v any) {
		if rec.Enough() {
			return
		}
		emit(id, kind, foreign, v)
	})

	// random mass, in parallel (the case list depends on seed and index only)
	nRandom := ev.Pick(20000, 1000000)
	if replay {
		nRandom = 0
		var i int
		if _, err := fmt.Sscanf(rc.ID, "rand/%d", &i); err == nil {
			c11Random(seed, i, emit)
		}
	}
	workers := runtime.GOMAXPROCS(0)
	if workers > 8 {
		workers = 8
	}
	var wg sync.WaitGroup
	next := make(chan int, 256)
	for w := 0; w < workers; w++ {
		wg.Add(1)
		go func() {
			defer wg.Done()
			for i := range next {
				if rec.Enough() {
					continue
				}
				c11Random(seed, i, emit)
			}
		}()
	}
	for i := 0; i < nRandom; i++ {
		next <- i
	}
	close(next)
	wg.Wait()
	c11Huge(seed, func(id string, kind int, foreign bool, v any) {
		if rec.Enough() {
			return
		}
		emit(id, kind, foreign, v)
	})
	rec.Count("reference_encoder_rejected_values", encRejected+encRejectedForeign)
}

// TestVerifC11Fixtures: every node of the fixture CARs and of cargen-generated epochs.
func TestVerifC11Fixtures(t *testing.T) {
	rec := ev.New("C11", "car-nodes")
	defer rec.Flush()
	rec.Rule(c11Rule + "; inputs: every section of /repo/fixtures/*.car and of cargen epochs (real transactions, multi-frame payloads)")
	m := &c11Monitor{rec: rec}
	if os.Getenv("VERIF_REPLAY") != "" {
		return // replays are handled by TestVerifC11 (the replay carries the node bytes)
	}
	seed := ev.Seed()
	var cars []string
	fx, _ := filepath.Glob(filepath.Join("..", "fixtures", "*.car"))
	sort.Strings(fx)
	cars = append(cars, fx...)
	rec.Count("fixture_cars", len(fx))
	if len(fx) == 0 {
		rec.Note("fixtures", "no ../fixtures/*.car found; only generated epochs are used")
	}
	dir := filepath.Join(ev.Scratch(), "c11")
	os.MkdirAll(dir, 0o755)
	defer os.RemoveAll(dir)
	nGen := ev.Pick(3, 12)
	for i := 0; i < nGen; i++ {
		rng := c11Rng(seed, "cargen", i)
		o := cargen.Opts{
			Epoch: []uint64{0, 1, 7, 700}[rng.Intn(4)], Seed: seed*7919 + int64(i),
			NSlots: 20 + rng.Intn(ev.Pick(60, 200)), SkipOneIn: []int{0, 3}[rng.Intn(2)],
			MaxEntries: 1 + rng.Intn(5), MaxTx: 1 + rng.Intn(6),
			MultiFrameOneIn: 2, MaxFrames: []int{3, 8, 60}[i%3], SplitTxData: i%2 == 0,
			BigOneIn: 7, RewardsOneIn: 2, EmptyBlockOneIn: 4, TinyOneIn: 6, LegacyFnvOneIn: 3,
			VoteOneIn: 4, FailOneIn: 5, V0OneIn: 4, SubsetEvery: []int{0, 7}[rng.Intn(2)],
			TrailingJunkFrames: 2, BlocktimeEdgeOneIn: 4, NoPosIndexOneIn: 5,
			HeightStart: []int64{0, -1, 1 << 40}[rng.Intn(3)],
		}
		p := filepath.Join(dir, fmt.Sprintf("gen-%d.car", i))
		if _, err := cargen.Generate(p, o); err != nil {
			rec.Inconclusive(fmt.Sprintf("cargen epoch %d: %v", i, err))
			continue
		}
		cars = append(cars, p)
	}
	for _, p := range cars {
		if rec.Enough() {
			break
		}
		b, err := os.ReadFile(p)
		if err != nil {
			rec.Inconclusive(fmt.Sprintf("%s: %v", p, err))
			continue
		}
		_, _, secs, err := cargen.ParseCar(b)
		if err != nil {
			rec.Inconclusive(fmt.Sprintf("%s: %v", p, err))
			continue
		}
		rec.Count("cars", 1)
		name := filepath.Base(p)
		sampled := map[int]bool{}
		for i, s := range secs {
			if rec.Enough() {
				break
			}
			c := &c11Case{ID: fmt.Sprintf("car/%s#%d@%d", name, i, s.Offset), Kind: -1, Seed: seed, raw: s.Data, Len: len(s.Data), Note: "section " + s.Cid.String()}
			m.judge(c)
			if k := c11KindByte(s.Data); !sampled[k] && len(s.Data) <= 160 && strings.HasPrefix(name, "epoch-") {
				sampled[k] = true
				rec.Sample(map[string]any{"id": c.ID, "hex": hex.EncodeToString(s.Data)})
			}
		}
	}
}
