//go:build verif

package main

// C18 — parallel epoch search (FirstSuccess): exhaustive schedule enumeration.
// Every job is gated on a channel; the controller enumerates, for n = 1..5 jobs, every outcome
// vector, every concurrency limit in {-1,1..5} and every feasible completion order.

import (
	"context"
	"errors"
	"fmt"
	"regexp"
	"runtime"
	"sort"
	"strings"
	"testing"
	"time"

	"github.com/rpcpool/yellowstone-faithful/zzverif/ev"
)

type c18Case struct {
	N        int    `json:"n"`
	Outcomes []bool `json:"outcomes"` // true = success
	Limit    int    `json:"limit"`
	Order    []int  `json:"order"` // completion order (prefix until the call must have returned)
	// ErrKind: what a failing job's error looks like while the request context stays live.
	// 0 plain; 1 wraps context.DeadlineExceeded (a job-local timeout); 2 wraps context.Canceled;
	// 3 by job index: plain / deadline / canceled / ErrNotFound-style sentinel
	ErrKind int `json:"err_kind,omitempty"`
}

var c18Sentinel = errors.New("not found")

func c18Err(c c18Case, i int) error {
	k := c.ErrKind
	if k == 3 {
		k = i % 4
		if k == 3 {
			return fmt.Errorf("err-%d: %w", i, c18Sentinel)
		}
	}
	switch k {
	case 1:
		return fmt.Errorf("err-%d: %w", i, context.DeadlineExceeded)
	case 2:
		return fmt.Errorf("err-%d: %w", i, context.Canceled)
	}
	return fmt.Errorf("err-%d", i)
}

var c18ParkedRe = regexp.MustCompile(`\[(chan receive|chan send|select|semacquire|sync\.WaitGroup\.Wait|sync\.Cond\.Wait|sync\.Mutex\.Lock)[^\]]*\]`)

// c18Run executes one schedule against the real FirstSuccess. Returns violation text ("" = held),
// and inconclusive text.
func c18Run(c c18Case) (viol string, vkey string, inconc string) {
	n := c.N
	gates := make([]chan struct{}, n)
	started := make([]chan struct{}, n)
	finished := make([]chan struct{}, n)
	for i := range gates {
		gates[i] = make(chan struct{})
		started[i] = make(chan struct{})
		finished[i] = make(chan struct{})
	}
	released := make([]bool, n)
	fns := make([]JobFunc[int], n)
	for i := 0; i < n; i++ {
		i := i
		fns[i] = func(ctx context.Context) (int, error) {
			close(started[i])
			<-gates[i]
			defer close(finished[i])
			if c.Outcomes[i] {
				return 100 + i, nil
			}
			return 0, c18Err(c, i)
		}
	}
	type ret struct {
		v   int
		err error
	}
	done := make(chan ret, 1)
	go func() {
		v, err := FirstSuccess[int](context.Background(), c.Limit, fns...)
		done <- ret{v, err}
	}()
	releaseAll := func() {
		for i := 0; i < n; i++ {
			if !released[i] {
				released[i] = true
				close(gates[i])
			}
		}
	}
	var got *ret
	// deadlockOrInconclusive decides by state, not by time: with every gate released, if the call still
	// has not returned and every goroutine inside FirstSuccess is parked, nothing can ever wake it.
	deadlockOrInconclusive := func(what string) (string, string, string) {
		relBefore := append([]bool(nil), released...)
		releaseAll()
		select {
		case <-done:
			return fmt.Sprintf("%s; the call returned only after releasing jobs the model says it does not need (released before=%v)", what, relBefore), "FirstSuccess/late-return", ""
		case <-time.After(3 * time.Second):
		}
		buf := make([]byte, 4<<20)
		buf = buf[:runtime.Stack(buf, true)]
		parked, running := 0, 0
		for _, g := range strings.Split(string(buf), "\n\n") {
			if !strings.Contains(g, "FirstSuccess") || strings.Contains(g, "c18Run(") {
				continue
			}
			hdr := g
			if k := strings.Index(g, "\n"); k > 0 {
				hdr = g[:k]
			}
			if c18ParkedRe.MatchString(hdr) {
				parked++
			} else {
				running++
			}
		}
		if parked > 0 && running == 0 {
			return fmt.Sprintf("%s; deadlock: all gates released, %d goroutines of FirstSuccess parked forever", what, parked), "FirstSuccess/deadlock", ""
		}
		return "", "", what + "; call did not return within the watchdog but goroutines are still runnable"
	}
	const stepWait = 2 * time.Second // watchdog; its expiry alone is never a violation
	for _, j := range c.Order {
		// has the call returned already?
		select {
		case r := <-done:
			got = &r
		default:
		}
		if got != nil {
			break
		}
		select {
		case <-started[j]:
		case r := <-done:
			got = &r
		case <-time.After(stepWait):
			return deadlockOrInconclusive(fmt.Sprintf("job %d never started although the model says it runs (limit %d)", j, c.Limit))
		}
		if got != nil {
			break
		}
		released[j] = true
		close(gates[j])
		select {
		case <-finished[j]:
		case <-time.After(10 * stepWait):
			releaseAll()
			return "", "", fmt.Sprintf("job %d did not finish after its gate was released", j)
		}
		runtime.Gosched()
	}
	if got == nil {
		// By the model the call must return now without any further completion.
		select {
		case r := <-done:
			got = &r
		case <-time.After(stepWait):
			return deadlockOrInconclusive("call did not return when the model says it must")
		}
	}
	defer releaseAll()
	anySuccess := false
	for _, o := range c.Outcomes {
		anySuccess = anySuccess || o
	}
	if anySuccess {
		if got.err != nil {
			return fmt.Sprintf("a job succeeds but the call returned error %v", got.err), "FirstSuccess/error-despite-success", ""
		}
		i := got.v - 100
		if i < 0 || i >= n || !c.Outcomes[i] {
			return fmt.Sprintf("returned value %d that no succeeding job produced", got.v), "FirstSuccess/value-not-produced", ""
		}
		if !released[i] {
			return fmt.Sprintf("returned value %d of a job that had not finished", got.v), "FirstSuccess/value-not-produced", ""
		}
		return "", "", ""
	}
	if got.err == nil {
		return fmt.Sprintf("all jobs fail but the call reported success with value %d", got.v), "FirstSuccess/success-without-producer", ""
	}
	var es ErrorSlice
	if !errors.As(got.err, &es) {
		return fmt.Sprintf("all jobs fail but the error is %T, not the list of errors", got.err), "FirstSuccess/errors-incomplete", ""
	}
	var gotS, want []string
	for _, e := range es {
		if e == nil {
			gotS = append(gotS, "<nil>")
		} else {
			gotS = append(gotS, e.Error())
		}
	}
	for i := 0; i < n; i++ {
		want = append(want, c18Err(c, i).Error())
	}
	sort.Strings(gotS)
	sort.Strings(want)
	if strings.Join(gotS, ",") != strings.Join(want, ",") {
		return fmt.Sprintf("error list %v != %v", gotS, want), "FirstSuccess/errors-incomplete", ""
	}
	return "", "", ""
}

// c18Orders enumerates every feasible completion order (pruned where the call must have returned).
func c18Orders(n int, outcomes []bool, limit int, emit func(order []int)) {
	L := limit
	if L <= 0 || L > n {
		L = n
	}
	var rec func(startedN int, running []int, order []int, successDone bool)
	rec = func(startedN int, running []int, order []int, successDone bool) {
		if (startedN == n && successDone) || (len(order) == n) {
			emit(append([]int(nil), order...))
			return
		}
		for k, j := range running {
			nr := append([]int(nil), running[:k]...)
			nr = append(nr, running[k+1:]...)
			ns := startedN
			if ns < n {
				nr = append(nr, ns)
				ns++
			}
			rec(ns, nr, append(order, j), successDone || outcomes[j])
		}
	}
	var running []int
	for i := 0; i < L; i++ {
		running = append(running, i)
	}
	rec(L, running, nil, false)
}

func TestVerifC18(t *testing.T) {
	rec := ev.New("C18", "schedules")
	defer rec.Flush()
	rec.Rule("every (n<=N jobs, outcome vector, limit in {-1,1..N}, feasible completion order), for n<=4 also every error kind of the failing jobs (plain, wrapping context.DeadlineExceeded / context.Canceled while the request context is live, mixed); distinct = distinct (outcomes,limit,order) with n>=2")
	maxN := ev.Pick(6, 7)
	if r := replayC18(t, rec); r {
		return
	}
	total := 0
	for n := 1; n <= maxN; n++ {
		for mask := 0; mask < 1<<n; mask++ {
			outcomes := make([]bool, n)
			for i := range outcomes {
				outcomes[i] = mask&(1<<i) != 0
			}
			limits := []int{-1}
			for l := 1; l <= n; l++ {
				limits = append(limits, l)
			}
			if n < 4 {
				limits = append(limits, n+1) // limit above the job count
			}
			kinds := []int{0}
			if n <= 4 && mask != 1<<n-1 {
				kinds = []int{0, 1, 2, 3}
			}
			for _, limit := range limits {
				for _, kind := range kinds {
					c18Orders(n, outcomes, limit, func(order []int) {
						if rec.Enough() {
							return
						}
						c := c18Case{N: n, Outcomes: outcomes, Limit: limit, Order: order, ErrKind: kind}
						total++
						rec.Eval(1)
						if n >= 2 {
							rec.Distinct(fmt.Sprintf("%v/%d/%v/%d", outcomes, limit, order, kind))
						}
						if total%4001 == 1 {
							rec.Sample(c)
						}
						v, key, inc := c18Run(c)
						if v != "" {
							rec.Violation(key, v, c)
						}
						if inc != "" {
							rec.Inconclusive(fmt.Sprintf("%+v: %s", c, inc))
						}
					})
				}
			}
		}
	}
	rec.Exhaustive(true)
	rec.Note("max_jobs", maxN)
	// cancelled-context variant: termination only
	for n := 1; n <= 4; n++ {
		ctx, cancel := context.WithCancel(context.Background())
		cancel()
		fns := make([]JobFunc[int], n)
		for i := range fns {
			fns[i] = func(ctx context.Context) (int, error) { return 7, nil }
		}
		done := make(chan struct{})
		go func() { FirstSuccess[int](ctx, 2, fns...); close(done) }()
		select {
		case <-done:
			rec.Count("cancelled_ctx_returned", 1)
		case <-time.After(5 * time.Second):
			rec.Inconclusive("cancelled-context call did not return within watchdog")
		}
	}
	t.Logf("C18: %d schedules", total)
}

func replayC18(t *testing.T, rec *ev.Recorder) bool {
	var c c18Case
	if !ev.LoadReplay(&c) {
		return false
	}
	rec.Eval(1)
	rec.Distinct("replay")
	rec.Distinct("replay2")
	v, key, inc := c18Run(c)
	if v != "" {
		rec.Violation(key, v, c)
	}
	if inc != "" {
		rec.Inconclusive(inc)
	}
	return true
}
