//go:build verif

package main

// C09 (monitor 6) — queries on an epoch while it is being replaced / removed.
// ReplaceOrAddEpoch and RemoveEpochByConfigFilepath call Epoch.Close (munmap of the index files, close of
// the CAR) under the write lock while a reader that fetched the *Epoch earlier may still be inside a read.
// Runs in a child process: the refuting event for "every operation completes" is the death of the server
// process (SIGSEGV / unexpected fault address / panic); an error answer is fine.

import (
	"context"
	"encoding/json"
	"fmt"
	"math/rand"
	"os"
	"path/filepath"
	"strings"
	"sync"
	"sync/atomic"
	"testing"
	"time"

	old_faithful_grpc "github.com/rpcpool/yellowstone-faithful/old-faithful-proto/old-faithful-grpc"
	"github.com/rpcpool/yellowstone-faithful/zzverif/cargen"
	"github.com/rpcpool/yellowstone-faithful/zzverif/ev"
)

type c09CloseArgs struct {
	Configs []string `json:"configs"` // [stable, churn]
	Slots   []uint64 `json:"slots"`   // archived slots of the churn epoch
	Sigs    []string `json:"sigs"`
	Addrs   []string `json:"addrs"`
	Ops     int64    `json:"ops"`
	Seed    int64    `json:"seed"`
}

type c09CloseResult struct {
	Ops      int64    `json:"ops"`
	Reloads  int64    `json:"reloads"`
	OkAnswer int64    `json:"answers_with_result"`
	ErrAns   int64    `json:"answers_with_error"`
	Panics   []string `json:"recovered_panics"`
}

func init() {
	vfChildRoles["c09close"] = func(raw json.RawMessage) (any, error) {
		var a c09CloseArgs
		if err := json.Unmarshal(raw, &a); err != nil {
			return nil, err
		}
		cache := vfNewCache()
		multi := NewMultiEpoch(&Options{EpochSearchConcurrency: 2})
		load := func(cfgPath string) (*Epoch, error) {
			cfg, err := LoadConfig(cfgPath)
			if err != nil {
				return nil, err
			}
			return NewEpochFromConfig(cfg, vfCliContext(), cache, nil)
		}
		stable, err := load(a.Configs[0])
		if err != nil {
			return nil, err
		}
		multi.AddEpoch(stable.Epoch(), stable)
		churn, err := load(a.Configs[1])
		if err != nil {
			return nil, err
		}
		churnNum := churn.Epoch()
		multi.AddEpoch(churnNum, churn)
		h := newMultiEpochHandler(multi, nil)
		res := &c09CloseResult{}
		var ops, reloads, okA, errA atomic.Int64
		var pmu sync.Mutex
		var wg sync.WaitGroup
		ctx := context.Background()
		for g := 0; g < 10; g++ {
			wg.Add(1)
			go func(g int) {
				defer wg.Done()
				r := rand.New(rand.NewSource(a.Seed*31 + int64(g)))
				for ops.Load() < a.Ops {
					func() {
						defer func() {
							if x := recover(); x != nil {
								pmu.Lock()
								if len(res.Panics) < 10 {
									res.Panics = append(res.Panics, fmt.Sprint(x))
								}
								pmu.Unlock()
							}
						}()
						var body []byte
						switch r.Intn(5) {
						case 0:
							_, body = vfCall(h, fmt.Sprintf(`{"jsonrpc":"2.0","id":1,"method":"getBlock","params":[%d,{"encoding":"base64"}]}`, a.Slots[r.Intn(len(a.Slots))]))
						case 1:
							_, body = vfCall(h, fmt.Sprintf(`{"jsonrpc":"2.0","id":1,"method":"getTransaction","params":["%s",{"encoding":"base64"}]}`, a.Sigs[r.Intn(len(a.Sigs))]))
						case 2:
							_, body = vfCall(h, fmt.Sprintf(`{"jsonrpc":"2.0","id":1,"method":"getSignaturesForAddress","params":["%s",{"limit":10}]}`, a.Addrs[r.Intn(len(a.Addrs))]))
						case 3:
							_, body = vfCall(h, fmt.Sprintf(`{"jsonrpc":"2.0","id":1,"method":"getBlockTime","params":[%d]}`, a.Slots[r.Intn(len(a.Slots))]))
						default:
							if _, err := multi.GetBlock(ctx, &old_faithful_grpc.BlockRequest{Slot: a.Slots[r.Intn(len(a.Slots))]}); err != nil {
								body = []byte(`"error"`)
							} else {
								body = []byte(`"result"`)
							}
						}
						if strings.Contains(string(body), `"error"`) {
							errA.Add(1)
						} else {
							okA.Add(1)
						}
					}()
					ops.Add(1)
				}
			}(g)
		}
		// the reloader: what --watch does when a config file changes / disappears
		wg.Add(1)
		go func() {
			defer wg.Done()
			r := rand.New(rand.NewSource(a.Seed))
			for ops.Load() < a.Ops {
				ep, err := load(a.Configs[1])
				if err != nil {
					continue
				}
				if r.Intn(3) == 0 {
					multi.RemoveEpochByConfigFilepath(a.Configs[1])
					multi.AddEpoch(churnNum, ep)
				} else {
					multi.ReplaceOrAddEpoch(churnNum, ep)
				}
				reloads.Add(1)
				time.Sleep(time.Duration(r.Intn(300)) * time.Microsecond)
			}
		}()
		wg.Wait()
		res.Ops, res.Reloads, res.OkAnswer, res.ErrAns = ops.Load(), reloads.Load(), okA.Load(), errA.Load()
		return res, nil
	}
}

func TestVerifC09Close(t *testing.T) {
	rec := ev.New("C09", "close-under-query")
	defer rec.Flush()
	rec.Rule("a child server with one stable and one churn epoch (real index files, mmap); 10 clients query the CHURN epoch (getBlock, getTransaction, getSignaturesForAddress, getBlockTime, gRPC GetBlock) while a reloader keeps replacing / removing+adding it (each closes the old epoch's files); refuting event = the process dies or a handler panics; distinct = (query kind) x (reload kind) observed in a child that executed >= 1 reload")
	seed := ev.Seed()
	root := filepath.Join(ev.Scratch(), "c09close")
	os.MkdirAll(root, 0o755)
	defer os.RemoveAll(root)
	var fxs []*vfEpochFx
	for _, e := range []uint64{2, 5} {
		fx, ierr, err := vfMakeEpoch(filepath.Join(root, fmt.Sprintf("e%d", e)), cargen.Opts{Epoch: e, Seed: seed + int64(e), NSlots: 60, SkipOneIn: 4, MaxEntries: 2, MaxTx: 3, MultiFrameOneIn: 5, VoteOneIn: 4, FailOneIn: 4, RewardsOneIn: 4}, true)
		if err != nil || ierr != "" {
			t.Fatalf("fixture: %v %s", err, ierr)
		}
		fxs = append(fxs, fx)
	}
	m := fxs[1].Model
	a := c09CloseArgs{Configs: []string{fxs[0].CfgPath, fxs[1].CfgPath}, Ops: int64(ev.Pick(60_000, 1_500_000)), Seed: seed}
	for _, b := range m.Blocks {
		a.Slots = append(a.Slots, b.Slot)
		for _, tx := range b.Txs {
			if len(a.Sigs) < 200 {
				a.Sigs = append(a.Sigs, tx.Sig.String())
				a.Addrs = append(a.Addrs, tx.Static[0].String())
			}
		}
	}
	rounds := ev.Pick(3, 12)
	for round := 0; round < rounds; round++ {
		a.Seed = seed*100 + int64(round)
		r := vfRunChild("c09close", a, 15*time.Minute)
		rec.Eval(1)
		if r.Result != nil && r.Err == "" {
			var res c09CloseResult
			json.Unmarshal(r.Result, &res)
			rec.Count("operations", int(res.Ops))
			rec.Count("reloads", int(res.Reloads))
			rec.Count("answers_with_result", int(res.OkAnswer))
			rec.Count("answers_with_error", int(res.ErrAns))
			for _, p := range res.Panics {
				rec.Violation("close-under-query/crash-while-epoch-is-being-closed", fmt.Sprintf("a handler panicked while the epoch it was reading was being closed: %s", p), a)
			}
			if res.Reloads > 0 {
				rec.Distinct(fmt.Sprintf("round-%d", round))
			}
			if round == 0 {
				rec.Sample(res)
			}
			continue
		}
		if r.TimedOut {
			rec.Inconclusive("child watchdog fired: " + r.Output[:min(len(r.Output), 600)])
			continue
		}
		if r.Err != "" {
			rec.Inconclusive("child set-up failed: " + r.Err)
			continue
		}
		rec.Violation("close-under-query/crash-while-epoch-is-being-closed", fmt.Sprintf("the server process died while an epoch was being replaced under running queries:\n%.3000s", r.Output), a)
	}
}
