//go:build verif

package main

// C09 — queries and epoch reloads never deadlock and see a consistent epoch set.
//   TestVerifC09Stress : readers (JSON-RPC + gRPC, every query kind) against two stable epochs while
//                        writers add / replace / remove churn epochs; progress monitor decides deadlock
//                        by goroutine state; every response for a stable epoch must equal the response
//                        recorded on the idle server; every epoch listing must be duplicate-free,
//                        descending, ⊇ stable, ⊆ stable ∪ churn.
//   TestVerifC09Lin    : many short concurrent histories of the epoch-set API checked by porcupine
//                        against a sequential set model.
//   (lock-discipline monitor: zz_verif_c09_lock_test.go, needs the instrumented mutex)

import (
	"bytes"
	"context"
	"encoding/json"
	"fmt"
	"math/rand"
	"os"
	"path/filepath"
	"regexp"
	"runtime"
	"sort"
	"strings"
	"sync"
	"sync/atomic"
	"testing"
	"time"

	"github.com/anishathalye/porcupine"
	"github.com/gagliardetto/solana-go"
	old_faithful_grpc "github.com/rpcpool/yellowstone-faithful/old-faithful-proto/old-faithful-grpc"
	"github.com/rpcpool/yellowstone-faithful/zzverif/cargen"
	"github.com/rpcpool/yellowstone-faithful/zzverif/ev"
	"github.com/valyala/fasthttp"
	"google.golang.org/protobuf/proto"
)

type c09Req struct {
	Name string `json:"name"`
	Body string `json:"body,omitempty"` // JSON-RPC body
	Kind string `json:"kind"`           // jsonrpc | grpc-block | grpc-tx | grpc-blocktime | api
	Slot uint64 `json:"slot,omitempty"`
	Sig  string `json:"sig,omitempty"`
	sig  solana.Signature
}

var c09BlockedRe = regexp.MustCompile(`\[(chan receive|chan send|select|semacquire|sync\.WaitGroup\.Wait|sync\.Cond\.Wait|sync\.Mutex\.Lock|sync\.RWMutex\.R?Lock)[^\]]*\]`)

func c09Do(h func(*fasthttp.RequestCtx), multi *MultiEpoch, r *c09Req) (out []byte, err error) {
	ctx := context.Background()
	switch r.Kind {
	case "jsonrpc":
		_, resp := vfCall(h, r.Body)
		return resp, nil
	case "api":
		st, resp := vfGet(h, r.Body)
		return append([]byte(fmt.Sprintf("%d:", st)), resp...), nil
	case "grpc-block":
		res, err := multi.GetBlock(ctx, &old_faithful_grpc.BlockRequest{Slot: r.Slot})
		if err != nil {
			return []byte("ERR:" + err.Error()), nil
		}
		return proto.MarshalOptions{Deterministic: true}.Marshal(res)
	case "grpc-tx":
		res, err := multi.GetTransaction(ctx, &old_faithful_grpc.TransactionRequest{Signature: r.sig[:]})
		if err != nil {
			return []byte("ERR:" + err.Error()), nil
		}
		return proto.MarshalOptions{Deterministic: true}.Marshal(res)
	case "grpc-blocktime":
		res, err := multi.GetBlockTime(ctx, &old_faithful_grpc.BlockTimeRequest{Slot: r.Slot})
		if err != nil {
			return []byte("ERR:" + err.Error()), nil
		}
		return proto.MarshalOptions{Deterministic: true}.Marshal(res)
	}
	return nil, fmt.Errorf("unknown kind")
}

func c09FilelessEpoch(n uint64, dir string, gen int) *Epoch {
	return &Epoch{epoch: n, config: &Config{originalFilepath: filepath.Join(dir, fmt.Sprintf("churn-%d-%d.yml", n, gen))}, onClose: []func() error{}}
}

type c09State struct {
	Seed    int64    `json:"seed"`
	Readers int      `json:"readers"`
	Writers int      `json:"writers"`
	Ops     int64    `json:"ops_when_detected"`
	Stable  []uint64 `json:"stable_epochs"`
	Churn   []uint64 `json:"churn_epochs"`
}

func TestVerifC09Stress(t *testing.T) {
	// two stable epochs (2 and 9) with the churn epochs in between: the oldest / newest epoch never change
	c09Stress(t, "stress", []uint64{2, 9}, []uint64{4, 5, 6}, 3)
}

// TestVerifC09StressSingle: ONE stable epoch; the churn epochs make the set flap between one and
// several loaded epochs (the single-epoch fast paths are entered and left under the readers' feet).
func TestVerifC09StressSingle(t *testing.T) {
	c09Stress(t, "stress-single", []uint64{2}, []uint64{4, 5}, 3)
}

// TestVerifC09StressNarrow: three stable epochs with address indexes, many more loaded epochs (up to 8) than the epoch search may run at once (1):
// the search has to queue its per-epoch jobs and still complete.
func TestVerifC09StressNarrow(t *testing.T) {
	c09Stress(t, "stress-narrow", []uint64{2, 8, 9}, []uint64{3, 4, 5, 6, 7}, 1)
}

func c09Stress(t *testing.T, part string, stableNums, churnNums []uint64, searchConc int) {
	rec := ev.New("C09", part)
	defer rec.Flush()
	// is the newest / oldest loaded epoch always a stable one?
	newestStable, oldestStable := true, true
	for _, c := range churnNums {
		if c > stableNums[len(stableNums)-1] {
			newestStable = false
		}
		if c < stableNums[0] {
			oldestStable = false
		}
	}
	rec.Rule("readers issuing every query kind (JSON-RPC getSlot/getFirstAvailableBlock/getBlock/getTransaction/getSignaturesForAddress/getBlockTime/getVersion, /api/v1, gRPC GetBlock/GetTransaction/GetBlockTime, epoch listing) against stable epochs while writers AddEpoch/ReplaceOrAddEpoch/RemoveEpoch/RemoveEpochByConfigFilepath churn epochs; distinct = (query kind, writer kind) pairs observed overlapping in time")
	seed := ev.Seed()
	root := filepath.Join(ev.Scratch(), "c09-"+part)
	os.MkdirAll(root, 0o755)
	defer os.RemoveAll(root)
	var fxs []*vfEpochFx
	{
		var wg sync.WaitGroup
		fxs = make([]*vfEpochFx, len(stableNums))
		for i, e := range stableNums {
			wg.Add(1)
			go func(i int, e uint64) {
				defer wg.Done()
				fx, ierr, err := vfMakeEpoch(filepath.Join(root, fmt.Sprintf("e%d", e)), cargen.Opts{Epoch: e, Seed: seed + int64(e), NSlots: 60, SkipOneIn: 4, MaxEntries: 2, MaxTx: 3, MultiFrameOneIn: 5, VoteOneIn: 4, FailOneIn: 4, V0OneIn: 4, RewardsOneIn: 4}, true)
				if err != nil || ierr != "" {
					t.Errorf("fixture: %v %s", err, ierr)
					return
				}
				fxs[i] = fx
			}(i, e)
		}
		wg.Wait()
		if t.Failed() {
			t.FailNow()
		}
	}
	cache := vfNewCache()
	multi := NewMultiEpoch(&Options{EpochSearchConcurrency: searchConc})
	// (not in ascending order: the server loads its epochs concurrently, so the epoch map is filled in an
	// arbitrary order - and the iteration order of a small Go map is a rotation of its insertion order)
	loadOrder := append([]*vfEpochFx{}, fxs...)
	if len(loadOrder) > 1 {
		loadOrder[0], loadOrder[1] = loadOrder[1], loadOrder[0]
	}
	for _, fx := range loadOrder {
		ep, err := fx.vfLoad(cache)
		if err != nil {
			t.Fatal(err)
		}
		multi.AddEpoch(fx.Model.Epoch, ep)
	}
	h := newMultiEpochHandler(multi, nil)

	// ---- the request set (all addressed to the stable epochs) and the idle-server answers
	rng := rand.New(rand.NewSource(seed))
	var reqs []*c09Req
	add := func(r *c09Req) { reqs = append(reqs, r) }
	if newestStable {
		add(&c09Req{Name: "getSlot", Kind: "jsonrpc", Body: `{"jsonrpc":"2.0","id":1,"method":"getSlot"}`})
	}
	if oldestStable {
		// (otherwise the oldest loaded epoch may be a file-less churn epoch)
		add(&c09Req{Name: "getFirstAvailableBlock", Kind: "jsonrpc", Body: `{"jsonrpc":"2.0","id":1,"method":"getFirstAvailableBlock"}`})
	}
	for _, fx := range fxs {
		m := fx.Model
		for i := 0; i < 6; i++ {
			b := m.Blocks[rng.Intn(len(m.Blocks))]
			add(&c09Req{Name: "getBlock", Kind: "jsonrpc", Body: fmt.Sprintf(`{"jsonrpc":"2.0","id":1,"method":"getBlock","params":[%d,{"encoding":"base64"}]}`, b.Slot)})
			add(&c09Req{Name: "getBlockTime", Kind: "jsonrpc", Body: fmt.Sprintf(`{"jsonrpc":"2.0","id":1,"method":"getBlockTime","params":[%d]}`, b.Slot)})
			add(&c09Req{Name: "grpc.GetBlock", Kind: "grpc-block", Slot: b.Slot})
			add(&c09Req{Name: "grpc.GetBlockTime", Kind: "grpc-blocktime", Slot: b.Slot})
			add(&c09Req{Name: "api.slot-to-cid", Kind: "api", Body: fmt.Sprintf("/api/v1/slot-to-cid/%d", b.Slot)})
		}
		txs := m.AllTxs()
		for i := 0; i < 8; i++ {
			tx := txs[rng.Intn(len(txs))]
			add(&c09Req{Name: "getTransaction", Kind: "jsonrpc", Body: fmt.Sprintf(`{"jsonrpc":"2.0","id":1,"method":"getTransaction","params":["%s",{"encoding":"base64"}]}`, tx.Sig)})
			add(&c09Req{Name: "grpc.GetTransaction", Kind: "grpc-tx", sig: tx.Sig, Sig: tx.Sig.String()})
			add(&c09Req{Name: "api.sig-to-cid", Kind: "api", Body: "/api/v1/sig-to-cid/" + tx.Sig.String()})
			// an address of this epoch only (random keys are unique per epoch)
			add(&c09Req{Name: "getSignaturesForAddress", Kind: "jsonrpc", Body: fmt.Sprintf(`{"jsonrpc":"2.0","id":1,"method":"getSignaturesForAddress","params":["%s",{"limit":20}]}`, tx.Static[0])})
		}
	}
	idle := make([][]byte, len(reqs))
	for i, r := range reqs {
		// (also on the idle server an operation has to complete: watched, and a hang decided by state)
		type ires struct {
			out []byte
			err error
		}
		ich := make(chan ires, 1)
		go func() {
			out, err := c09Do(h, multi, r)
			ich <- ires{out, err}
		}()
		var ir ires
		select {
		case ir = <-ich:
		case <-time.After(30 * time.Second):
			buf := make([]byte, 8<<20)
			buf = buf[:runtime.Stack(buf, true)]
			blocked, other := 0, 0
			sample := ""
			for _, gtxt := range strings.Split(string(buf), "\n\n") {
				if !(strings.Contains(gtxt, "yellowstone-faithful.(*MultiEpoch)") || strings.Contains(gtxt, "yellowstone-faithful.FirstSuccess") || strings.Contains(gtxt, "yellowstone-faithful.c09Do")) || strings.Contains(gtxt, "yellowstone-faithful.c09Stress(") {
					continue
				}
				hdr := gtxt
				if k := strings.Index(gtxt, "\n"); k > 0 {
					hdr = gtxt[:k]
				}
				if c09BlockedRe.MatchString(hdr) || strings.Contains(gtxt, "sync.(*RWMutex)") {
					blocked++
					if sample == "" && strings.Contains(gtxt, "FirstSuccess") {
						sample = gtxt
					}
				} else {
					other++
				}
			}
			if len(sample) > 2500 {
				sample = sample[:2500]
			}
			if blocked > 0 && other == 0 {
				rec.Violation("MultiEpoch/operations-never-complete", fmt.Sprintf("on the idle server (%d epochs loaded, epoch-search concurrency %d) request %s did not complete; all %d goroutines working on it wait on each other and none is runnable. One of them:\n%s", len(fxs), searchConc, r.Name, blocked, sample), r)
			} else {
				rec.Inconclusive(fmt.Sprintf("idle request %s did not return within the watchdog (%d goroutines blocked, %d runnable)", r.Name, blocked, other))
			}
			return
		}
		if ir.err != nil {
			t.Fatalf("idle %s: %v", r.Name, ir.err)
		}
		idle[i] = ir.out
	}
	// the idle answers must be repeatable on the idle server, otherwise they are no oracle
	for i, r := range reqs {
		out, _ := c09Do(h, multi, r)
		if !bytes.Equal(out, idle[i]) {
			rec.Inconclusive(fmt.Sprintf("request %s is not deterministic on the idle server; excluded", r.Name))
			idle[i] = nil
		}
	}

	totalOps := int64(ev.Pick(120_000, 3_000_000))
	if os.Getenv("VERIF_RACE") != "" {
		totalOps /= 6
	}
	if part == "stress-narrow" {
		totalOps /= 3
	}
	nReaders, nWriters := 12, 3
	var ops atomic.Int64
	var stop atomic.Bool
	var wg sync.WaitGroup
	stableSet := map[uint64]bool{}
	for _, e := range stableNums {
		stableSet[e] = true
	}
	allowed := map[uint64]bool{}
	for _, e := range append(append([]uint64{}, stableNums...), churnNums...) {
		allowed[e] = true
	}
	var writerKind atomic.Value // last writer operation kind in flight (for the overlap evidence)
	writerKind.Store("")
	state := c09State{Seed: seed, Readers: nReaders, Writers: nWriters, Stable: stableNums, Churn: churnNums}

	for g := 0; g < nReaders; g++ {
		wg.Add(1)
		go func(g int) {
			defer wg.Done()
			r := rand.New(rand.NewSource(seed*100 + int64(g)))
			for !stop.Load() && ops.Load() < totalOps {
				if r.Intn(5) == 0 {
					// epoch listing / direct API
					nums := multi.GetEpochNumbers()
					ops.Add(1)
					rec.Eval(1)
					seen := map[uint64]bool{}
					okList := true
					for i, n := range nums {
						if seen[n] || !allowed[n] || (i > 0 && nums[i-1] <= n) {
							okList = false
						}
						seen[n] = true
					}
					for e := range stableSet {
						if !seen[e] {
							okList = false
						}
					}
					if !okList {
						rec.Violation("MultiEpoch.GetEpochNumbers/inconsistent-listing", fmt.Sprintf("listing %v (stable %v, churn %v)", nums, stableNums, churnNums), state)
					}
					if wk := writerKind.Load().(string); wk != "" {
						rec.Distinct("GetEpochNumbers|" + wk)
					}
					switch r.Intn(6) {
					case 0:
						multi.HasEpoch(uint64(r.Intn(11)))
					case 1:
						multi.CountEpochs()
					case 2:
						e, err := multi.GetMostRecentAvailableEpoch()
						if !newestStable {
							// the newest epoch flaps, but some epoch is loaded at every moment: an answer, and one
							// that is not older than the newest stable epoch
							if err != nil || !allowed[e.Epoch()] || e.Epoch() < stableNums[len(stableNums)-1] {
								rec.Violation("MultiEpoch.GetMostRecentAvailableEpoch/wrong", fmt.Sprintf("got %v err %v although epoch %d is loaded throughout", e, err, stableNums[len(stableNums)-1]), state)
							}
							// (getSlot itself is not issued here: the flapping newest epoch is a file-less one)
							break
						}
						if err != nil || e.Epoch() != stableNums[len(stableNums)-1] {
							rec.Violation("MultiEpoch.GetMostRecentAvailableEpoch/wrong", fmt.Sprintf("got %v err %v, the newest loaded epoch is %d", e, err, stableNums[len(stableNums)-1]), state)
						}
					case 3:
						e, err := multi.GetOldestAvailableEpoch()
						if !oldestStable {
							if err != nil || !allowed[e.Epoch()] || e.Epoch() > stableNums[0] {
								rec.Violation("MultiEpoch.GetOldestAvailableEpoch/wrong", fmt.Sprintf("got %v err %v although epoch %d is loaded throughout", e, err, stableNums[0]), state)
							}
							break
						}
						if err != nil || e.Epoch() != stableNums[0] {
							rec.Violation("MultiEpoch.GetOldestAvailableEpoch/wrong", fmt.Sprintf("got %v err %v, the oldest loaded epoch is %d", e, err, stableNums[0]), state)
						}
						// the address-index readers the multi-epoch queries walk: newest first, reader i serves epoch i
						rds, nums := multi.getGsfaReadersInEpochDescendingOrder()
						okR := len(rds) == len(nums)
						seenG := map[uint64]bool{}
						for i := range nums {
							if i > 0 && nums[i-1] <= nums[i] {
								okR = false
							}
							seenG[nums[i]] = true
							if okR {
								if ge, ok := rds[i].GetEpoch(); !ok || ge != nums[i] {
									okR = false
								}
							}
						}
						for e := range stableSet {
							if !seenG[e] {
								okR = false
							}
						}
						if !okR {
							var ges []uint64
							for _, rd := range rds {
								ge, _ := rd.GetEpoch()
								ges = append(ges, ge)
							}
							rec.Violation("MultiEpoch.getGsfaReadersInEpochDescendingOrder/inconsistent", fmt.Sprintf("epoch numbers %v, readers serve %v (stable epochs with an address index: %v)", nums, ges, stableNums), state)
						}
					case 4:
						multi.GetMostRecentAvailableEpochNumber()
					case 5:
						_, resp := vfCall(h, `{"jsonrpc":"2.0","id":1,"method":"getVersion"}`)
						var v struct {
							Result struct {
								Faithful struct {
									Epochs []uint64 `json:"epochs"`
								} `json:"faithful"`
							} `json:"result"`
						}
						if json.Unmarshal(resp, &v) == nil {
							e := v.Result.Faithful.Epochs
							if !sort.SliceIsSorted(e, func(i, j int) bool { return e[i] > e[j] }) {
								rec.Violation("jsonrpc/getVersion/epochs-not-sorted", fmt.Sprintf("epochs %v", e), state)
							}
						}
					}
					continue
				}
				i := r.Intn(len(reqs))
				if idle[i] == nil {
					continue
				}
				out, err := c09Do(h, multi, reqs[i])
				ops.Add(1)
				rec.Eval(1)
				if err != nil {
					rec.Inconclusive("request failed in the harness: " + err.Error())
					continue
				}
				if !bytes.Equal(out, idle[i]) {
					rec.Violation("stable-epoch-answer-differs-under-churn/"+reqs[i].Name, fmt.Sprintf("request %+v answered %.300q, on the idle server %.300q", reqs[i], out, idle[i]), reqs[i])
				}
				if wk := writerKind.Load().(string); wk != "" {
					rec.Distinct(reqs[i].Name + "|" + wk)
				}
			}
		}(g)
	}
	for g := 0; g < nWriters; g++ {
		wg.Add(1)
		go func(g int) {
			defer wg.Done()
			r := rand.New(rand.NewSource(seed*1000 + int64(g)))
			gen := 0
			for !stop.Load() && ops.Load() < totalOps {
				e := churnNums[r.Intn(len(churnNums))]
				gen++
				switch r.Intn(5) {
				case 0:
					writerKind.Store("AddEpoch")
					multi.AddEpoch(e, c09FilelessEpoch(e, root, gen))
				case 1, 2:
					writerKind.Store("ReplaceOrAddEpoch")
					multi.ReplaceOrAddEpoch(e, c09FilelessEpoch(e, root, gen))
				case 3:
					writerKind.Store("RemoveEpoch")
					multi.RemoveEpoch(e)
				case 4:
					writerKind.Store("RemoveEpochByConfigFilepath")
					if ep, err := multi.GetEpoch(e); err == nil {
						multi.RemoveEpochByConfigFilepath(ep.config.ConfigFilepath())
					}
				}
				writerKind.Store("")
				ops.Add(1)
				rec.Eval(1)
				if r.Intn(3) == 0 {
					runtime.Gosched()
				}
			}
		}(g)
	}
	// ---- progress monitor: decides by state, not by time
	done := make(chan struct{})
	go func() { wg.Wait(); close(done) }()
	last := int64(-1)
	frozen := 0
	verdict := ""
	deadline := time.Now().Add(25 * time.Minute) // generous watchdog => inconclusive
loop:
	for {
		select {
		case <-done:
			break loop
		case <-time.After(250 * time.Millisecond):
		}
		cur := ops.Load()
		if cur == last {
			frozen++
		} else {
			frozen = 0
		}
		last = cur
		if frozen >= 12 {
			parked, other, blocked := 0, 0, 0
			var sample, blockedSample, otherSample string
			classify := func() {
				parked, other, blocked = 0, 0, 0
				buf := make([]byte, 8<<20)
				buf = buf[:runtime.Stack(buf, true)]
				for _, gtxt := range strings.Split(string(buf), "\n\n") {
					relevant := strings.Contains(gtxt, "c09Stress.func") || strings.Contains(gtxt, "yellowstone-faithful.(*MultiEpoch)") || strings.Contains(gtxt, "yellowstone-faithful.FirstSuccess")
					if !relevant || strings.Contains(gtxt, "runtime.Stack(") || strings.Contains(gtxt, "yellowstone-faithful.c09Stress(") {
						// (the second: this monitor's own goroutine)
						continue
					}
					hdr := gtxt
					if k := strings.Index(gtxt, "\n"); k > 0 {
						hdr = gtxt[:k]
					}
					if strings.Contains(gtxt, "sync.(*RWMutex).RLock") || strings.Contains(gtxt, "sync.(*RWMutex).Lock") {
						parked++
						if sample == "" && strings.Contains(gtxt, "RLock") {
							sample = gtxt
						}
						continue
					}
					// blocked on other goroutines (channel, wait group, semaphore, select) = not able to make progress by itself
					if c09BlockedRe.MatchString(hdr) {
						blocked++
						if blockedSample == "" && strings.Contains(gtxt, "yellowstone-faithful.FirstSuccess") {
							blockedSample = gtxt
						}
						continue
					}
					other++ // running, runnable, syscall, IO wait, sleep ...
					otherSample = gtxt
				}
			}
			classify()
			state.Ops = cur
			if parked < 2 && other == 0 && blocked >= 2 {
				// nobody waits for the epoch-set lock, yet every goroutine of the workload and of the requests it
				// issued waits for another goroutine.  Look again after a further 5 s: same state and still no
				// completed operation => no goroutine is left that could wake them.
				time.Sleep(5 * time.Second)
				b0 := blocked
				classify()
				if ops.Load() == cur && other == 0 && blocked == b0 && parked < 2 {
					verdict = "blocked"
					if blockedSample == "" {
						blockedSample = "(no goroutine inside FirstSuccess)"
					}
					if len(blockedSample) > 2500 {
						blockedSample = blockedSample[:2500]
					}
					rec.Violation("MultiEpoch/operations-never-complete", fmt.Sprintf("no operation completed over 32 samples after %d operations; all %d goroutines of the workload and of its requests wait on channels / wait groups / semaphores and none is runnable. One of them:\n%s", cur, blocked, blockedSample), state)
					stop.Store(true)
					break loop
				}
			}
			if parked >= 2 && other == 0 {
				verdict = "deadlock"
				if len(sample) > 2500 {
					sample = sample[:2500]
				}
				rec.Violation("MultiEpoch/deadlock-on-epoch-set-lock", fmt.Sprintf("no operation completed over 12 samples after %d operations; %d worker goroutines are parked in sync.RWMutex (R)Lock and none is runnable. One of them:\n%s", cur, parked, sample), state)
			} else {
				verdict = "stalled"
				if len(otherSample) > 1200 {
					otherSample = otherSample[:1200]
				}
				rec.Inconclusive(fmt.Sprintf("progress stalled after %d operations but %d workers are not parked on the epoch-set lock (%d are, %d wait on other goroutines); one of the others: %s", cur, other, parked, blocked, otherSample))
			}
			stop.Store(true)
			break loop
		}
		if time.Now().After(deadline) {
			rec.Inconclusive("wall-clock watchdog fired before the operation budget was used")
			stop.Store(true)
			break loop
		}
	}
	if verdict == "" {
		<-done
	}
	rec.Note("operations", ops.Load())
	rec.Sample(map[string]any{"operations": ops.Load(), "readers": nReaders, "writers": nWriters, "requests": len(reqs), "verdict": verdict})
}

// ------------------------------------------------------------------ linearizability

type c09Op struct {
	Kind  int    `json:"kind"` // 0 Add 1 Remove 2 ReplaceOrAdd 3 Has 4 Count 5 GetEpochNumbers 6 GetEpoch 7 Replace
	Epoch uint64 `json:"epoch"`
}
type c09Out struct {
	Ok   bool     `json:"ok"`   // no error / true
	N    int      `json:"n"`    // Count
	List []uint64 `json:"list"` // GetEpochNumbers
}

func c09ModelStep(state, in, out any) (bool, any) {
	st := state.(uint8)
	op := in.(c09Op)
	o := out.(c09Out)
	bit := uint8(1) << op.Epoch
	switch op.Kind {
	case 0: // Add
		if st&bit != 0 {
			return !o.Ok, st
		}
		return o.Ok, st | bit
	case 1: // Remove
		if st&bit == 0 {
			return !o.Ok, st
		}
		return o.Ok, st &^ bit
	case 2: // ReplaceOrAdd
		return o.Ok, st | bit
	case 7: // Replace
		if st&bit == 0 {
			return !o.Ok, st
		}
		return o.Ok, st
	case 3, 6: // Has, GetEpoch
		return o.Ok == (st&bit != 0), st
	case 4:
		n := 0
		for b := uint8(1); b != 0; b <<= 1 {
			if st&b != 0 {
				n++
			}
		}
		return o.N == n, st
	case 5:
		var want []uint64
		for e := 7; e >= 0; e-- {
			if st&(1<<uint(e)) != 0 {
				want = append(want, uint64(e))
			}
		}
		if len(want) != len(o.List) {
			return false, st
		}
		for i := range want {
			if want[i] != o.List[i] {
				return false, st
			}
		}
		return true, st
	}
	return false, st
}

func TestVerifC09Lin(t *testing.T) {
	rec := ev.New("C09", "linearizability")
	defer rec.Flush()
	rec.Rule("short concurrent histories (3 clients x <= 6 operations over epochs {1,2,3}) of AddEpoch/RemoveEpoch/ReplaceOrAddEpoch/ReplaceEpoch/HasEpoch/CountEpochs/GetEpochNumbers/GetEpoch recorded at the API boundary (one atomic logical clock) and checked by porcupine against a sequential set model; distinct = histories containing a writer overlapping another operation")
	seed := ev.Seed()
	n := ev.Pick(2500, 60000)
	if os.Getenv("VERIF_RACE") != "" {
		n /= 4
	}
	model := porcupine.Model{
		Init: func() any { return uint8(0) },
		Step: c09ModelStep,
		DescribeOperation: func(in, out any) string {
			return fmt.Sprintf("%+v -> %+v", in, out)
		},
	}
	dir := ev.Scratch()
	for hI := 0; hI < n; hI++ {
		if rec.Enough() {
			break
		}
		rng := rand.New(rand.NewSource(seed*1_000_003 + int64(hI)))
		multi := NewMultiEpoch(&Options{})
		var clock atomic.Int64
		const clients = 3
		opsPer := 2 + rng.Intn(5)
		plans := make([][]c09Op, clients)
		for c := range plans {
			for i := 0; i < opsPer; i++ {
				plans[c] = append(plans[c], c09Op{Kind: []int{0, 1, 2, 3, 4, 5, 6, 7, 0, 1, 2}[rng.Intn(11)], Epoch: uint64(1 + rng.Intn(3))})
			}
		}
		var mu sync.Mutex
		var history []porcupine.Operation
		var wg sync.WaitGroup
		start := make(chan struct{})
		for c := 0; c < clients; c++ {
			wg.Add(1)
			go func(c int) {
				defer wg.Done()
				<-start
				for _, op := range plans[c] {
					var out c09Out
					call := clock.Add(1)
					switch op.Kind {
					case 0:
						out.Ok = multi.AddEpoch(op.Epoch, c09FilelessEpoch(op.Epoch, dir, c)) == nil
					case 1:
						out.Ok = multi.RemoveEpoch(op.Epoch) == nil
					case 2:
						out.Ok = multi.ReplaceOrAddEpoch(op.Epoch, c09FilelessEpoch(op.Epoch, dir, c)) == nil
					case 7:
						out.Ok = multi.ReplaceEpoch(op.Epoch, c09FilelessEpoch(op.Epoch, dir, c)) == nil
					case 3:
						out.Ok = multi.HasEpoch(op.Epoch)
					case 4:
						out.N = multi.CountEpochs()
					case 5:
						out.List = multi.GetEpochNumbers()
					case 6:
						_, err := multi.GetEpoch(op.Epoch)
						out.Ok = err == nil
					}
					ret := clock.Add(1)
					mu.Lock()
					history = append(history, porcupine.Operation{ClientId: c, Input: op, Call: call, Output: out, Return: ret})
					mu.Unlock()
					if op.Kind%2 == 0 {
						runtime.Gosched()
					}
				}
			}(c)
		}
		close(start)
		wg.Wait()
		rec.Eval(1)
		res, info := porcupine.CheckOperationsVerbose(model, history, 30*time.Second)
		switch res {
		case porcupine.Ok:
			overlap := false
			for i := range history {
				for j := range history {
					if i != j && history[i].Input.(c09Op).Kind <= 2 && history[i].Call < history[j].Return && history[j].Call < history[i].Return {
						overlap = true
					}
				}
			}
			if overlap {
				rec.Distinct(fmt.Sprint(hI))
			}
			if hI%997 == 0 {
				rec.Sample(map[string]any{"history": history})
			}
		case porcupine.Illegal:
			_ = info
			rec.Violation("MultiEpoch/epoch-set-history-not-linearizable", fmt.Sprintf("history %d (seed %d) has no linearization against the set model", hI, seed), map[string]any{"history_index": hI, "seed": seed, "history": history})
		default:
			rec.Inconclusive(fmt.Sprintf("porcupine timed out on history %d", hI))
		}
	}
}
