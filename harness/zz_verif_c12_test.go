//go:build verif

package main

// C12 (package main part) — CAR sections and whole hostile epochs.
//
//   group "section": parseNodeFromSection / readNodeWithKnownSize / readNodeSizeFromReaderAtWithOffset /
//                    readNodeFromReaderAtWithOffsetAndSize / readSectionFromReaderAt on mutated sections.
//   group "epoch":   a valid epoch (cargen CAR + the repository's own indexes incl. gsfa) in which ONE file
//                    is replaced by a structure-aware mutant; NewEpochFromConfig loads it and, when that
//                    succeeds, every archived slot / signature / address is queried through Epoch methods
//                    and through the JSON-RPC handler. Hostile CAR content is produced by same-length
//                    in-place edits of node bytes (items re-typed, arguments set to boundary values), so
//                    that the trusted indexes still point at the edited nodes.
//
// Children are run with vfRunChild (role "c12"); monitors and verdicts are those of zzverif/c12kit.

import (
	"bufio"
	"bytes"
	"context"
	"encoding/binary"
	"encoding/json"
	"errors"
	"fmt"
	"math/rand"
	"os"
	"path/filepath"
	"sort"
	"strconv"
	"strings"
	"sync"
	"testing"
	"time"

	"github.com/allegro/bigcache/v3"
	"github.com/ipfs/go-cid"
	hugecache "github.com/rpcpool/yellowstone-faithful/huge-cache"
	"github.com/rpcpool/yellowstone-faithful/zzverif/c12kit"
	"github.com/rpcpool/yellowstone-faithful/zzverif/cargen"
	"github.com/rpcpool/yellowstone-faithful/zzverif/ev"
)

type c12Queries struct {
	Epoch  uint64            `json:"epoch"`
	Slots  []uint64          `json:"slots"`
	Sigs   []string          `json:"sigs"`
	Addrs  []string          `json:"addrs"`
	Files  map[string]string `json:"files"` // role -> path of the valid file
	Gsfa   string            `json:"gsfa"`
	Car    string            `json:"car"`
	Cfg    string            `json:"cfg"`
	Nodes  []c12NodeRef      `json:"nodes"`
	Wanted string            `json:"wanted_cid"`
}

type c12NodeRef struct {
	Kind   int    `json:"kind"`
	Offset uint64 `json:"offset"` // of the section
	Len    uint64 `json:"len"`
	Data   uint64 `json:"data"` // offset of the node bytes in the file
	DLen   int    `json:"dlen"`
}

func init() {
	vfChildRoles["c12"] = func(raw json.RawMessage) (any, error) {
		var spec c12kit.ChildSpec
		if err := json.Unmarshal(raw, &spec); err != nil {
			return nil, err
		}
		return nil, c12kit.ChildLoop(spec)
	}
	c12kit.Groups["section"] = &c12kit.Group{Name: "section", Gen: c12GenSection}
	c12kit.Groups["epoch"] = &c12kit.Group{Name: "epoch", Gen: c12GenEpoch}
	c12kit.Drivers["section"] = c12DriveSection
	c12kit.Drivers["epoch"] = c12DriveEpoch
}

func c12MainSpawn(spec c12kit.ChildSpec, timeout time.Duration) (string, error, bool) {
	r := vfRunChild("c12", spec, timeout, "GOTRACEBACK=all")
	err := r.ExitErr
	if err == nil && r.Err != "" {
		err = errors.New(r.Err)
	}
	return r.Output, err, r.TimedOut
}

func TestVerifC12Main(t *testing.T) {
	fix := filepath.Join(ev.Scratch(), "c12mainfix")
	os.RemoveAll(fix)
	if err := c12BuildEpochFixture(fix); err != nil {
		t.Fatalf("fixture set-up failed: %v", err)
	}
	var wg sync.WaitGroup
	for _, g := range []string{"section", "epoch"} {
		g := g
		if only := os.Getenv("C12_GROUPS"); only != "" && !strings.Contains(","+only+",", ","+g+",") {
			continue
		}
		wg.Add(1)
		go func() {
			defer wg.Done()
			rec := ev.New("C12", g)
			defer rec.Flush()
			rec.Rule("distinct (entry point, mutated file/field, value class) triples executed; an epoch case = one hostile file loaded by NewEpochFromConfig and queried through Epoch methods and the JSON-RPC handler")
			r := &c12kit.Runner{Rec: rec, Group: g, FixDir: fix, Spawn: c12MainSpawn,
				ChildTimeout: time.Duration(ev.Pick(15, 60)) * time.Minute, HangSecs: ev.Pick(90, 240), ReadLimit: 500_000}
			r.Run()
			rec.Note("steps_returned_ok", r.OKSteps)
			rec.Note("steps_returned_error", r.ErrStep)
			if r.OKSteps == 0 && os.Getenv("VERIF_REPLAY") == "" {
				rec.Inconclusive(g + ": no step ever succeeded — the valid fixture is not accepted by the code under test (harness or tree problem)")
			}
		}()
	}
	wg.Wait()
	os.RemoveAll(fix)
}

// ---------------------------------------------------------------- fixture

func c12BuildEpochFixture(dir string) error {
	fx, indexErr, err := vfMakeEpoch(filepath.Join(dir, "epoch"), cargen.Opts{Epoch: 7, Seed: 77, NSlots: 5, MaxEntries: 2, MaxTx: 2, MultiFrameOneIn: 2, MaxFrames: 3,
		RewardsOneIn: 1, V0OneIn: 2, FailOneIn: 3, VoteOneIn: 4}, true)
	if err != nil {
		return err
	}
	if indexErr != "" {
		return fmt.Errorf("index generation failed on the valid CAR: %s", indexErr)
	}
	q := c12Queries{Epoch: 7, Files: map[string]string{
		"cid_to_offset_and_size": fx.Idx.CidToOffsetAndSize, "slot_to_cid": fx.Idx.SlotToCid, "sig_to_cid": fx.Idx.SigToCid,
		"sig_exists": fx.Idx.SigExists, "slot_to_blocktime": fx.Idx.SlotToBlocktime}, Gsfa: fx.Idx.GsfaDir, Car: fx.CarPath, Cfg: fx.CfgPath}
	for _, b := range fx.Model.Blocks {
		q.Slots = append(q.Slots, b.Slot)
	}
	addrSeen := map[string]bool{}
	for _, tx := range fx.Model.AllTxs() {
		if len(q.Sigs) < 10 {
			q.Sigs = append(q.Sigs, tx.Sig.String())
		}
		for _, k := range tx.Static {
			if len(q.Addrs) < 3 && !addrSeen[k.String()] {
				addrSeen[k.String()] = true
				q.Addrs = append(q.Addrs, k.String())
			}
		}
	}
	// nodes whose bytes are edited in place: per kind the smallest and the largest (<= 1500 bytes)
	byKind := map[int][]cargen.Section{}
	for _, s := range fx.Model.Sections {
		byKind[s.Kind] = append(byKind[s.Kind], s)
	}
	for kind := 0; kind <= 6; kind++ {
		ss := byKind[kind]
		sort.SliceStable(ss, func(i, j int) bool { return len(ss[i].Data) < len(ss[j].Data) })
		var pick []cargen.Section
		if len(ss) > 0 {
			pick = append(pick, ss[0])
		}
		if len(ss) > 1 && len(ss[len(ss)-1].Data) <= 1500 {
			pick = append(pick, ss[len(ss)-1])
		}
		for _, s := range pick {
			q.Nodes = append(q.Nodes, c12NodeRef{Kind: kind, Offset: s.Offset, Len: s.Len, Data: s.Offset + s.Len - uint64(len(s.Data)), DLen: len(s.Data)})
		}
	}
	if len(fx.Model.Sections) > 0 {
		q.Wanted = fx.Model.Sections[0].Cid.String()
	}
	b, _ := json.Marshal(q)
	return os.WriteFile(filepath.Join(dir, "queries.json"), b, 0o644)
}

func c12LoadQueries(fixdir string) (*c12Queries, error) {
	b, err := os.ReadFile(filepath.Join(fixdir, "queries.json"))
	if err != nil {
		return nil, err
	}
	var q c12Queries
	return &q, json.Unmarshal(b, &q)
}

func c12MainRng(group string) *rand.Rand {
	h := int64(0)
	for _, c := range group {
		h = h*131 + int64(c)
	}
	return rand.New(rand.NewSource(ev.Seed()*1_000_003 + h))
}

// c12Thin keeps every k-th mutant in the quick tier (rotated by the seed), all of them in the thorough tier.
func c12Thin(muts []c12kit.Mut, quickKeep int) []c12kit.Mut {
	if ev.Thorough() {
		quickKeep *= 20 // an epoch case costs ~50 ms (index load + 40 queries): keep the thorough tier within ~10 minutes
	}
	if len(muts) <= quickKeep {
		return muts
	}
	stride := (len(muts) + quickKeep - 1) / quickKeep
	var out []c12kit.Mut
	for i := range muts {
		if i%stride == int(ev.Seed())%stride {
			out = append(out, muts[i])
		}
	}
	return out
}

// ---------------------------------------------------------------- sections

func c12GenSection(fixdir string) []c12kit.Case {
	q, err := c12LoadQueries(fixdir)
	if err != nil {
		return nil
	}
	car, err := os.ReadFile(q.Car)
	if err != nil {
		return nil
	}
	rng := c12MainRng("section")
	var out []c12kit.Case
	aux := map[string]string{"wanted": q.Wanted}
	for i, n := range q.Nodes {
		if n.Len > 2000 {
			continue
		}
		sec := car[n.Offset : n.Offset+n.Len]
		name := fmt.Sprintf("section/kind%d-%d", n.Kind, i)
		fields := c12kit.CarFields(sec, nil)
		_, vn := binary.Uvarint(sec)
		fields[0] = c12kit.Field{Name: "section.length", Off: 0, W: vn, Varint: true}
		fields = append(fields,
			c12kit.Field{Name: "cid.version", Off: vn, W: 1, Varint: true}, c12kit.Field{Name: "cid.codec", Off: vn + 1, W: 1, Varint: true},
			c12kit.Field{Name: "cid.mhCode", Off: vn + 2, W: 1, Varint: true}, c12kit.Field{Name: "cid.mhLength", Off: vn + 3, W: 1, Varint: true})
		muts := []c12kit.Mut{{Label: name + "/valid", Class: "valid|unchanged", Data: sec}}
		muts = append(muts, c12kit.FieldMutants(name, sec, fields)...)
		muts = append(muts, c12kit.Truncations(name, sec, fields, rng, ev.Pick(10, 200))...)
		muts = append(muts, c12kit.HeaderSweep(name, sec, 0, 44)...)
		muts = append(muts, c12kit.BitFlips(name, sec, rng, ev.Pick(40, 2000))...)
		// length prefixes that are not a valid uvarint at all: overflowing (10th byte > 1), 11 bytes long, unterminated
		for vi, v := range [][]byte{
			{0xff, 0xff, 0xff, 0xff, 0xff, 0xff, 0xff, 0xff, 0xff, 0x7f},
			{0x80, 0x80, 0x80, 0x80, 0x80, 0x80, 0x80, 0x80, 0x80, 0x02},
			{0xff, 0xff, 0xff, 0xff, 0xff, 0xff, 0xff, 0xff, 0xff, 0xff, 0x01},
			{0x80, 0x80, 0x80, 0x80, 0x80, 0x80, 0x80, 0x80, 0x80, 0x80, 0x80, 0x80},
			{0x80, 0x00}, {0xff, 0x00},
		} {
			d := append(append([]byte{}, v...), sec[vn:]...)
			muts = append(muts, c12kit.Mut{Label: fmt.Sprintf("%s/section.length=varint-variant-%d", name, vi), Class: fmt.Sprintf("section.length|malformed-varint-%d", vi), Data: d})
		}
		for _, m := range muts {
			out = append(out, c12kit.Case{Entry: "section", Label: m.Label, Class: m.Class, In: m.Data, Aux: aux})
		}
	}
	for _, m := range c12kit.RandomBlobs("section", []byte{0x30, 0x01, 0x71, 0x12, 0x20}, rng, ev.Pick(3, 60)) {
		out = append(out, c12kit.Case{Entry: "section", Label: m.Label, Class: m.Class, In: m.Data, Aux: aux})
	}
	return out
}

type c12RA struct{ *bytes.Reader }

func (c12RA) Close() error { return nil }

func c12DriveSection(c *c12kit.Case, s *c12kit.Stepper) {
	in := c.In
	var wanted *cid.Cid
	if w, err := cid.Parse(c.AuxGet("wanted")); err == nil {
		wanted = &w
	}
	s.Do("main.parseNodeFromSection", func() error { _, err := parseNodeFromSection(in, nil); return err })
	s.Do("main.parseNodeFromSection", func() error { _, err := parseNodeFromSection(in, wanted); return err })
	for _, l := range []uint64{uint64(len(in)), uint64(len(in)) + 1, 0, 1} {
		l := l
		s.Do("main.readNodeWithKnownSize", func() error {
			_, err := readNodeWithKnownSize(bufio.NewReader(bytes.NewReader(in)), wanted, l)
			return err
		})
		s.Do("main.readNodeFromReaderAtWithOffsetAndSize", func() error {
			_, err := readNodeFromReaderAtWithOffsetAndSize(c12RA{bytes.NewReader(in)}, nil, 0, l)
			return err
		})
	}
	// the path of an epoch that runs on the legacy offset-only CID index: the section size is read from the
	// CAR itself and handed to the readers
	{
		var size uint64
		if s.Do("main.readNodeSizeFromReaderAtWithOffset", func() (err error) {
			// (the CAR continues after the section: pad so that the 10-byte read of the prefix succeeds)
			size, err = readNodeSizeFromReaderAtWithOffset(bytes.NewReader(append(append([]byte{}, in...), make([]byte, 16)...)), 0)
			return
		}) {
			s.Do("main.readNodeWithKnownSize(size read from the CAR)", func() error {
				_, err := readNodeWithKnownSize(bufio.NewReader(bytes.NewReader(in)), wanted, size)
				return err
			})
			s.Do("main.readNodeFromReaderAtWithOffsetAndSize(size read from the CAR)", func() error {
				_, err := readNodeFromReaderAtWithOffsetAndSize(c12RA{bytes.NewReader(in)}, nil, 0, size)
				return err
			})
		}
	}
	for _, off := range []uint64{0, 1, uint64(len(in)), 1 << 62, ^uint64(0)} {
		off := off
		s.Do("main.readNodeSizeFromReaderAtWithOffset", func() error { _, err := readNodeSizeFromReaderAtWithOffset(bytes.NewReader(in), off); return err })
		s.Do("main.readSectionFromReaderAt", func() error { _, err := readSectionFromReaderAt(c12RA{bytes.NewReader(in)}, off, 16); return err })
	}
}

// ---------------------------------------------------------------- hostile epochs

var c12EpochValues = map[string]bool{"0": true, "1": true, "2": true, "9": true, "12": true, "13": true, "24": true, "25": true, "36": true, "255": true, "252": true, "253": true, "256": true,
	"2^16": true, "2^24-1": true, "2^24": true, "2^31": true, "2^32-13": true, "2^32-1": true, "2^40": true, "2^63": true, "2^64-1": true, "max": true, "max-1": true, "filesize": true,
	"filesize+1": true, "rest+1": true, "orig-1": true, "orig+1": true, "orig*2": true}

func c12FilterValues(muts []c12kit.Mut) []c12kit.Mut {
	if ev.Thorough() {
		return muts
	}
	var out []c12kit.Mut
	for _, m := range muts {
		k := strings.LastIndex(m.Class, "|")
		if k < 0 || c12EpochValues[m.Class[k+1:]] || !strings.Contains(m.Label, "=") {
			out = append(out, m)
		}
	}
	return out
}

// c12InPlaceNodeMutants edits the node bytes [data, data+dlen) of the CAR without changing any length.
func c12InPlaceNodeMutants(name string, node []byte) []c12kit.Mut {
	var out []c12kit.Mut
	items := c12kit.CborItems(node)
	majors := []string{"uint", "negint", "bytes", "text", "array", "map", "tag", "simple"}
	for _, it := range items {
		if it.Depth > 3 {
			continue
		}
		for m := 0; m < 8; m++ {
			if m == it.Major {
				continue
			}
			d := append([]byte(nil), node...)
			d[it.Off] = byte(m<<5) | (d[it.Off] & 0x1f)
			out = append(out, c12kit.Mut{Label: fmt.Sprintf("%s/item[%s](%s)retype->%s", name, it.Path, majors[it.Major], majors[m]), Class: fmt.Sprintf("node-d%d-%s|retype:%s", it.Depth, majors[it.Major], majors[m]), Data: d})
		}
		// argument bytes: all zero / all ones / +1 / -1 (same width)
		if it.HeadEnd-it.Off > 1 {
			for _, v := range []struct {
				name string
				f    func(b []byte)
			}{
				{"zero", func(b []byte) {
					for i := range b {
						b[i] = 0
					}
				}},
				{"ones", func(b []byte) {
					for i := range b {
						b[i] = 0xff
					}
				}},
				{"+1", func(b []byte) { b[len(b)-1]++ }},
				{"-1", func(b []byte) { b[len(b)-1]-- }},
				{"top", func(b []byte) { b[0] ^= 0x80 }},
			} {
				d := append([]byte(nil), node...)
				v.f(d[it.Off+1 : it.HeadEnd])
				out = append(out, c12kit.Mut{Label: fmt.Sprintf("%s/item[%s](%s)arg-%s", name, it.Path, majors[it.Major], v.name), Class: fmt.Sprintf("node-d%d-%s|arg:%s", it.Depth, majors[it.Major], v.name), Data: d})
			}
		} else {
			for _, ai := range []byte{0, 1, 23, 24, 27, 31} {
				if ai == node[it.Off]&0x1f {
					continue
				}
				d := append([]byte(nil), node...)
				d[it.Off] = (d[it.Off] & 0xe0) | ai
				out = append(out, c12kit.Mut{Label: fmt.Sprintf("%s/item[%s](%s)ai=%d", name, it.Path, majors[it.Major], ai), Class: fmt.Sprintf("node-d%d-%s|ai:%d", it.Depth, majors[it.Major], ai), Data: d})
			}
		}
	}
	return out
}

func c12GenEpoch(fixdir string) []c12kit.Case {
	q, err := c12LoadQueries(fixdir)
	if err != nil {
		return nil
	}
	rng := c12MainRng("epoch")
	var out []c12kit.Case
	add := func(role, file string, muts []c12kit.Mut) {
		for _, m := range muts {
			out = append(out, c12kit.Case{Entry: "epoch", Label: m.Label, Class: role + ":" + m.Class, In: m.Data, Aux: map[string]string{"role": role, "file": file}})
		}
	}
	// the unchanged epoch
	if b, err := os.ReadFile(q.Files["slot_to_cid"]); err == nil {
		add("slot_to_cid", "", []c12kit.Mut{{Label: "epoch/valid", Class: "valid|unchanged", Data: b}})
	}
	for _, role := range []string{"cid_to_offset_and_size", "slot_to_cid", "sig_to_cid"} {
		b, err := os.ReadFile(q.Files[role])
		if err != nil {
			continue
		}
		name := "epoch/" + role
		fields := c12kit.CompactIndexSizedFields(b)
		muts := c12FilterValues(c12kit.FieldMutants(name, b, fields))
		muts = append(muts, c12kit.Truncations(name, b, fields, rng, 4)...)
		muts = append(muts, c12kit.BitFlips(name, b, rng, ev.Pick(30, 1500))...)
		// stored values of the first bucket set to boundary values (hostile offsets / sizes / CIDs)
		hs := 12 + int(binary.LittleEndian.Uint32(b[8:12]))
		vs := int(binary.LittleEndian.Uint64(b[12:20]))
		fo := int(binary.LittleEndian.Uint64(append(append([]byte(nil), b[hs+10:hs+16]...), 0, 0)))
		for e := 0; e < 3; e++ {
			vo := fo + e*(3+vs) + 3
			var fs []c12kit.Field
			if vs == 9 {
				fs = []c12kit.Field{{Name: fmt.Sprintf("entry%d.value.offset", e), Off: vo, W: 6}, {Name: fmt.Sprintf("entry%d.value.size", e), Off: vo + 6, W: 3}}
			} else {
				fs = []c12kit.Field{{Name: fmt.Sprintf("entry%d.value.cid.version", e), Off: vo, W: 1}, {Name: fmt.Sprintf("entry%d.value.cid.codec", e), Off: vo + 1, W: 1},
					{Name: fmt.Sprintf("entry%d.value.cid.mhCode", e), Off: vo + 2, W: 1}, {Name: fmt.Sprintf("entry%d.value.cid.mhLength", e), Off: vo + 3, W: 1}}
			}
			muts = append(muts, c12FilterValues(c12kit.FieldMutants(name, b, fs))...)
		}
		add(role, "", c12Thin(muts, 110))
	}
	if b, err := os.ReadFile(q.Files["sig_exists"]); err == nil {
		name := "epoch/sig_exists"
		fields := c12kit.BucketteerFields(b)
		muts := c12FilterValues(c12kit.FieldMutants(name, b, fields))
		muts = append(muts, c12kit.Truncations(name, b, fields, rng, 4)...)
		muts = append(muts, c12kit.BitFlips(name, b, rng, ev.Pick(20, 1000))...)
		add("sig_exists", "", c12Thin(muts, 80))
	}
	if b, err := os.ReadFile(q.Files["slot_to_blocktime"]); err == nil {
		var muts []c12kit.Mut
		for _, f := range c12kit.BlocktimeFields(b) {
			for _, v := range []uint64{0, 1, 431999, 432001, 1 << 32, 1 << 40, ^uint64(0)} {
				d := append([]byte(nil), b...)
				binary.LittleEndian.PutUint64(d[f.Off:], v)
				muts = append(muts, c12kit.Mut{Label: fmt.Sprintf("epoch/slot_to_blocktime/%s=%d", f.Name, v), Class: f.Name + "|" + strconv.FormatUint(v, 10), Data: d})
			}
		}
		for _, cut := range []int{0, 13, 46, len(b) - 1} {
			muts = append(muts, c12kit.Mut{Label: fmt.Sprintf("epoch/slot_to_blocktime/truncate@%d", cut), Class: "truncate|cut", Data: append([]byte(nil), b[:cut]...)})
		}
		add("slot_to_blocktime", "", c12Thin(muts, 10))
	}
	// gsfa directory: one of its three files replaced
	for _, f := range []string{"pubkey-to-offset-and-size.index", "linked-log", "manifest"} {
		b, err := os.ReadFile(filepath.Join(q.Gsfa, f))
		if err != nil {
			continue
		}
		name := "epoch/gsfa/" + f
		var fields []c12kit.Field
		switch f {
		case "manifest":
			fields = c12kit.ManifestFields(b)
		case "linked-log":
			fields = c12kit.LinkedLogRecordFields(b, 0, "record0")
		default:
			for _, fl := range c12kit.CompactIndexSizedFields(b) {
				if strings.HasPrefix(fl.Name, "header.") {
					fields = append(fields, fl)
				}
			}
		}
		muts := c12FilterValues(c12kit.FieldMutants(name, b, fields))
		muts = append(muts, c12kit.BitFlips(name, b, rng, ev.Pick(10, 600))...)
		add("gsfa", f, c12Thin(muts, 40))
	}
	// the CAR: header / section-length fields, and node bytes edited in place
	if car, err := os.ReadFile(q.Car); err == nil {
		var offs []int
		for _, n := range q.Nodes {
			offs = append(offs, int(n.Offset))
		}
		fields := c12kit.CarFields(car, offs)
		muts := c12FilterValues(c12kit.FieldMutants("epoch/car", car, fields))
		muts = append(muts, c12kit.Truncations("epoch/car", car, nil, rng, 4)...)
		add("car", "", c12Thin(muts, 80))
		var nm []c12kit.Mut
		for i, n := range q.Nodes {
			node := car[n.Data : n.Data+uint64(n.DLen)]
			for _, m := range c12InPlaceNodeMutants(fmt.Sprintf("epoch/car/node%d-kind%d", i, n.Kind), node) {
				d := append([]byte(nil), car...)
				copy(d[n.Data:], m.Data)
				nm = append(nm, c12kit.Mut{Label: m.Label, Class: m.Class, Data: d})
			}
		}
		add("car", "", c12Thin(nm, 500))
	}
	return out
}

func c12SmallCache() *hugecache.Cache {
	cache, err := hugecache.NewWithConfig(context.Background(), bigcache.Config{Shards: 16, LifeWindow: time.Minute, MaxEntriesInWindow: 64, MaxEntrySize: 512, HardMaxCacheSize: 8})
	if err != nil {
		panic(err)
	}
	return cache
}

func c12DriveEpoch(c *c12kit.Case, s *c12kit.Stepper) {
	q, err := c12LoadQueries(c12kit.FixDir)
	if err != nil {
		return
	}
	work := filepath.Join(evScratch(), "c12epoch", strconv.Itoa(os.Getpid()))
	os.RemoveAll(work)
	os.MkdirAll(work, 0o755)
	defer os.RemoveAll(work)
	role := c.AuxGet("role")
	// config: the valid files, with the role under test replaced by the mutant
	paths := map[string]string{"car": q.Car, "gsfa": q.Gsfa}
	for k, v := range q.Files {
		paths[k] = v
	}
	switch role {
	case "gsfa":
		gd := filepath.Join(work, "gsfa")
		os.MkdirAll(gd, 0o755)
		for _, f := range []string{"pubkey-to-offset-and-size.index", "linked-log", "manifest"} {
			b := c.In
			if f != c.AuxGet("file") {
				b, _ = os.ReadFile(filepath.Join(q.Gsfa, f))
			}
			os.WriteFile(filepath.Join(gd, f), b, 0o644)
		}
		paths["gsfa"] = gd
	case "car":
		p := filepath.Join(work, "epoch-7.car")
		os.WriteFile(p, c.In, 0o644)
		paths["car"] = p
	default:
		p := filepath.Join(work, filepath.Base(q.Files[role]))
		os.WriteFile(p, c.In, 0o644)
		paths[role] = p
	}
	var sb strings.Builder
	fmt.Fprintf(&sb, "epoch: %d\nversion: 1\ndata:\n  car:\n    uri: '%s'\nindexes:\n", q.Epoch, paths["car"])
	for _, k := range []string{"cid_to_offset_and_size", "slot_to_cid", "sig_to_cid", "sig_exists", "slot_to_blocktime", "gsfa"} {
		fmt.Fprintf(&sb, "  %s:\n    uri: '%s'\n", k, paths[k])
	}
	cfgPath := filepath.Join(work, "epoch.yml")
	os.WriteFile(cfgPath, []byte(sb.String()), 0o644)

	var ep *Epoch
	cache := c12SmallCache()
	if !s.Do("main.NewEpochFromConfig", func() error {
		cfg, err := LoadConfig(cfgPath)
		if err != nil {
			return err
		}
		if err := cfg.Validate(); err != nil {
			return err
		}
		ep, err = NewEpochFromConfig(cfg, vfCliContext(), cache, nil)
		return err
	}) {
		return
	}
	defer ep.Close()
	ctx := context.Background()
	for _, slot := range q.Slots {
		slot := slot
		s.Do("main.Epoch.GetBlock", func() error { _, _, err := ep.GetBlock(ctx, slot); return err })
		s.Do("main.Epoch.GetBlocktime", func() error { _, err := ep.GetBlocktime(slot); return err })
	}
	s.Do("main.Epoch.GetMostRecentAvailableBlock", func() error { _, err := ep.GetMostRecentAvailableBlock(ctx); return err })
	s.Do("main.Epoch.GetFirstAvailableBlock", func() error { _, err := ep.GetFirstAvailableBlock(ctx); return err })
	multi := NewMultiEpoch(&Options{EpochSearchConcurrency: 1})
	multi.AddEpoch(ep.Epoch(), ep)
	h := newMultiEpochHandler(multi, nil)
	call := func(step, body string) {
		s.Do(step, func() error {
			status, resp := vfCall(h, body)
			if status != 200 || bytes.Contains(resp, []byte(`"error"`)) {
				return errors.New("error response")
			}
			return nil
		})
	}
	for _, slot := range q.Slots {
		call("jsonrpc.getBlock", fmt.Sprintf(`{"jsonrpc":"2.0","id":1,"method":"getBlock","params":[%d,{"encoding":"base64","transactionDetails":"full","rewards":true,"maxSupportedTransactionVersion":0}]}`, slot))
		call("jsonrpc.getBlockTime", fmt.Sprintf(`{"jsonrpc":"2.0","id":1,"method":"getBlockTime","params":[%d]}`, slot))
	}
	if len(q.Slots) > 0 {
		call("jsonrpc.getBlock(json)", fmt.Sprintf(`{"jsonrpc":"2.0","id":1,"method":"getBlock","params":[%d,{"encoding":"json","transactionDetails":"full","rewards":true,"maxSupportedTransactionVersion":0}]}`, q.Slots[0]))
		call("jsonrpc.getBlock(signatures)", fmt.Sprintf(`{"jsonrpc":"2.0","id":1,"method":"getBlock","params":[%d,{"transactionDetails":"signatures","rewards":false}]}`, q.Slots[len(q.Slots)-1]))
	}
	for _, sig := range q.Sigs {
		call("jsonrpc.getTransaction", fmt.Sprintf(`{"jsonrpc":"2.0","id":1,"method":"getTransaction","params":["%s",{"encoding":"base64","maxSupportedTransactionVersion":0}]}`, sig))
	}
	if len(q.Sigs) > 0 {
		call("jsonrpc.getTransaction(json)", fmt.Sprintf(`{"jsonrpc":"2.0","id":1,"method":"getTransaction","params":["%s",{"encoding":"json","maxSupportedTransactionVersion":0}]}`, q.Sigs[0]))
	}
	for _, a := range q.Addrs {
		call("jsonrpc.getSignaturesForAddress", fmt.Sprintf(`{"jsonrpc":"2.0","id":1,"method":"getSignaturesForAddress","params":["%s",{"limit":1000}]}`, a))
	}
	call("jsonrpc.getSlot", `{"jsonrpc":"2.0","id":1,"method":"getSlot"}`)
	call("jsonrpc.getFirstAvailableBlock", `{"jsonrpc":"2.0","id":1,"method":"getFirstAvailableBlock"}`)
}
