//go:build verif

package main

// C18 (second part) — the epoch search built on FirstSuccess: findEpochNumberFromSignature over
// epochs whose signature-existence index is a scripted stub and whose sig-to-cid index is a real
// index file that does / does not contain the signature.

import (
	"context"
	"errors"
	"fmt"
	"math/rand"
	"os"
	"path/filepath"
	"runtime"
	"strings"
	"testing"
	"time"

	"github.com/gagliardetto/solana-go"
	"github.com/rpcpool/yellowstone-faithful/indexes"
	"github.com/rpcpool/yellowstone-faithful/zzverif/cargen"
	"github.com/rpcpool/yellowstone-faithful/zzverif/ev"
)

type c18Stub struct {
	kind  int // 0 found, 1 not-has, 2 error, 3 has-but-not-indexed
	delay time.Duration
	yield int
}

func (s *c18Stub) Has(sig [64]byte) (bool, error) {
	for i := 0; i < s.yield; i++ {
		runtime.Gosched()
	}
	if s.delay > 0 {
		time.Sleep(s.delay)
	}
	switch s.kind {
	case 0, 3:
		return true, nil
	case 1:
		return false, nil
	default:
		return false, fmt.Errorf("stub: sig-exists index unreadable")
	}
}

type c18SearchCase struct {
	Kinds []int `json:"kinds_newest_first"` // per epoch: 0 found, 1 not-has, 2 error, 3 has-but-not-indexed
	Conc  int   `json:"concurrency"`
	Rep   int   `json:"rep"`
}

func TestVerifC18Search(t *testing.T) {
	rec := ev.New("C18", "epoch-search")
	defer rec.Flush()
	rec.Rule("findEpochNumberFromSignature over 2..4 epochs x every per-epoch behaviour vector {found, not-present, index-error, present-but-not-indexed} x concurrency {-1,1,2,3,NumCPU} x seeded stub latencies; plus seeded histories on one long-lived MultiEpoch (add / remove / replace in place / swap keeping the count, searches in between) judged against the epoch set loaded at each search; distinct = (vector, concurrency) and (last operation, loaded kinds)")
	dir := filepath.Join(ev.Scratch(), "c18s")
	os.MkdirAll(dir, 0o755)
	defer os.RemoveAll(dir)
	rng := rand.New(rand.NewSource(ev.Seed()))
	var sig, other solana.Signature
	rng.Read(sig[:])
	rng.Read(other[:])
	someCid := cargen.CidOf([]byte("x"))
	mkIndex := func(epoch uint64, with bool) *indexes.SigToCid_Reader {
		sub := filepath.Join(dir, fmt.Sprintf("e%d-%v", epoch, with))
		os.MkdirAll(sub, 0o755)
		tmp := filepath.Join(sub, "tmp")
		os.MkdirAll(tmp, 0o755)
		w, err := indexes.NewWriter_SigToCid(epoch, someCid, indexes.NetworkMainnet, tmp, 2)
		if err != nil {
			t.Fatal(err)
		}
		if with {
			w.Put(sig, someCid)
		}
		w.Put(other, someCid)
		if err := w.Seal(context.Background(), sub); err != nil {
			t.Fatal(err)
		}
		p := w.GetFilepath()
		w.Close()
		r, err := indexes.Open_SigToCid(p)
		if err != nil {
			t.Fatal(err)
		}
		return r
	}
	const maxE = 4
	var withIdx, withoutIdx [maxE]*indexes.SigToCid_Reader
	for e := 0; e < maxE; e++ {
		withIdx[e] = mkIndex(uint64(10+e), true)
		withoutIdx[e] = mkIndex(uint64(10+e), false)
	}
	c18SearchHistories(rec, rng, sig, withIdx[:], withoutIdx[:])
	concs := []int{-1, 1, 2, 3, runtime.NumCPU()}
	reps := ev.Pick(3, 20)
	for k := 2; k <= maxE; k++ {
		total := 1
		for i := 0; i < k; i++ {
			total *= 4
		}
		for v := 0; v < total; v++ {
			kinds := make([]int, k)
			x := v
			for i := range kinds {
				kinds[i] = x % 4
				x /= 4
			}
			for _, conc := range concs {
				for rep := 0; rep < reps; rep++ {
					if rec.Enough() {
						return
					}
					c := c18SearchCase{Kinds: kinds, Conc: conc, Rep: rep}
					multi := NewMultiEpoch(&Options{EpochSearchConcurrency: conc})
					anyFound, anyErr := false, false
					for i, kd := range kinds {
						en := uint64(10 + i)
						st := &c18Stub{kind: kd, yield: rng.Intn(4)}
						if rng.Intn(3) == 0 {
							st.delay = time.Duration(rng.Intn(300)) * time.Microsecond
						}
						idx := withoutIdx[i]
						if kd == 0 {
							idx = withIdx[i]
							anyFound = true
						}
						if kd == 2 {
							anyErr = true
						}
						multi.AddEpoch(en, &Epoch{epoch: en, sigExists: st, sigToCidIndex: idx})
					}
					type sres struct {
						got uint64
						err error
					}
					sch := make(chan sres, 1)
					go func() {
						g, e := multi.findEpochNumberFromSignature(context.Background(), sig)
						sch <- sres{g, e}
					}()
					var got uint64
					var err error
					select {
					case r := <-sch:
						got, err = r.got, r.err
					case <-time.After(10 * time.Second):
						// decide by state: every goroutine inside the search parked => it can never return
						buf := make([]byte, 4<<20)
						buf = buf[:runtime.Stack(buf, true)]
						parked, running := 0, 0
						for _, g := range strings.Split(string(buf), "\n\n") {
							if !strings.Contains(g, "findEpochNumberFromSignature") && !strings.Contains(g, "FirstSuccess") {
								continue
							}
							hdr := g
							if k := strings.Index(g, "\n"); k > 0 {
								hdr = g[:k]
							}
							if c18ParkedRe.MatchString(hdr) {
								parked++
							} else {
								running++
							}
						}
						if parked > 0 && running == 0 {
							rec.Violation("findEpochNumberFromSignature/deadlock", fmt.Sprintf("the search did not return and its %d goroutines are all parked", parked), c)
						} else {
							rec.Inconclusive(fmt.Sprintf("the search did not return within the watchdog (%d parked, %d runnable goroutines)", parked, running))
						}
						return // the leaked goroutines would distort every later case
					}
					rec.Eval(1)
					rec.Distinct(fmt.Sprintf("%v/%d", kinds, conc))
					if v%97 == 0 && rep == 0 && conc == 2 {
						rec.Sample(c)
					}
					switch {
					case anyFound:
						if err != nil {
							rec.Violation("findEpochNumberFromSignature/miss-despite-hit", fmt.Sprintf("an epoch holds the signature but the search returned %v", err), c)
						} else if got < 10 || int(got-10) >= k || kinds[got-10] != 0 {
							rec.Violation("findEpochNumberFromSignature/wrong-epoch", fmt.Sprintf("returned epoch %d which does not hold the signature", got), c)
						}
					case anyErr:
						if err == nil {
							rec.Violation("findEpochNumberFromSignature/success-without-hit", fmt.Sprintf("returned epoch %d although no epoch holds the signature", got), c)
						} else if errors.Is(err, ErrNotFound) {
							rec.Violation("findEpochNumberFromSignature/error-reported-as-not-found", fmt.Sprintf("an epoch's index failed but the search answered not-found: %v", err), c)
						}
					default:
						if err == nil {
							rec.Violation("findEpochNumberFromSignature/success-without-hit", fmt.Sprintf("returned epoch %d although no epoch holds the signature", got), c)
						} else if !errors.Is(err, ErrNotFound) {
							rec.Violation("findEpochNumberFromSignature/not-found-reported-as-error", fmt.Sprintf("every epoch says not found but the search returned %v", err), c)
						}
					}
				}
			}
		}
	}
}

type c18HistOp struct {
	Op    string `json:"op"` // add | remove | replace | swap (remove X + add Y) | search
	Epoch int    `json:"epoch,omitempty"`
	To    int    `json:"to,omitempty"`
	Kind  int    `json:"kind,omitempty"`
}

type c18HistCase struct {
	Ops  []c18HistOp `json:"ops"`
	Conc int         `json:"concurrency"`
}

// c18SearchHistories: one long-lived MultiEpoch whose epoch set changes between searches (epochs added,
// removed, replaced in place, swapped without changing the count).  Every search is judged against the
// epoch set loaded at that moment.
func c18SearchHistories(rec *ev.Recorder, rng *rand.Rand, sig solana.Signature, withIdx, withoutIdx []*indexes.SigToCid_Reader) {
	nHist := ev.Pick(300, 6000)
	searches, mutations := 0, 0
	for h := 0; h < nHist && !rec.Enough(); h++ {
		conc := []int{-1, 1, 2, runtime.NumCPU()}[rng.Intn(4)]
		multi := NewMultiEpoch(&Options{EpochSearchConcurrency: conc})
		state := map[int]int{} // slot 0..3 -> kind
		mk := func(slot, kind int) *Epoch {
			idx := withoutIdx[slot]
			if kind == 0 {
				idx = withIdx[slot]
			}
			return &Epoch{epoch: uint64(10 + slot), sigExists: &c18Stub{kind: kind, yield: rng.Intn(3)}, sigToCidIndex: idx}
		}
		c := c18HistCase{Conc: conc}
		// kinds biased to not-present so that a single holder of the signature moves around
		kindOf := func() int {
			if rng.Intn(3) == 0 {
				return 0
			}
			return []int{1, 1, 3, 2}[rng.Intn(4)]
		}
		for step := 0; step < 14; step++ {
			var op c18HistOp
			var loaded, free []int
			for sl := 0; sl < 4; sl++ {
				if _, ok := state[sl]; ok {
					loaded = append(loaded, sl)
				} else {
					free = append(free, sl)
				}
			}
			r := rng.Intn(10)
			switch {
			case len(loaded) < 2 || (r < 2 && len(free) > 0):
				op = c18HistOp{Op: "add", Epoch: free[rng.Intn(len(free))], Kind: kindOf()}
				if err := multi.AddEpoch(uint64(10+op.Epoch), mk(op.Epoch, op.Kind)); err != nil {
					rec.Violation("MultiEpoch.AddEpoch/error", err.Error(), c)
					return
				}
				state[op.Epoch] = op.Kind
				mutations++
			case r < 3 && len(loaded) > 2:
				op = c18HistOp{Op: "remove", Epoch: loaded[rng.Intn(len(loaded))]}
				multi.RemoveEpoch(uint64(10 + op.Epoch))
				delete(state, op.Epoch)
				mutations++
			case r < 5:
				op = c18HistOp{Op: "replace", Epoch: loaded[rng.Intn(len(loaded))], Kind: kindOf()}
				if err := multi.ReplaceEpoch(uint64(10+op.Epoch), mk(op.Epoch, op.Kind)); err != nil {
					rec.Violation("MultiEpoch.ReplaceEpoch/error", err.Error(), c)
					return
				}
				state[op.Epoch] = op.Kind
				mutations++
			case r < 7 && len(free) > 0:
				op = c18HistOp{Op: "swap", Epoch: loaded[rng.Intn(len(loaded))], To: free[rng.Intn(len(free))], Kind: kindOf()}
				multi.RemoveEpoch(uint64(10 + op.Epoch))
				delete(state, op.Epoch)
				if err := multi.AddEpoch(uint64(10+op.To), mk(op.To, op.Kind)); err != nil {
					rec.Violation("MultiEpoch.AddEpoch/error", err.Error(), c)
					return
				}
				state[op.To] = op.Kind
				mutations++
			default:
				op = c18HistOp{Op: "search"}
			}
			c.Ops = append(c.Ops, op)
			if op.Op != "search" && rng.Intn(2) == 0 {
				continue
			}
			if op.Op != "search" {
				c.Ops = append(c.Ops, c18HistOp{Op: "search"})
			}
			type sres struct {
				got uint64
				err error
			}
			sch := make(chan sres, 1)
			go func() {
				g, e := multi.findEpochNumberFromSignature(context.Background(), sig)
				sch <- sres{g, e}
			}()
			var got uint64
			var err error
			select {
			case r := <-sch:
				got, err = r.got, r.err
			case <-time.After(20 * time.Second):
				rec.Inconclusive("history search did not return within the watchdog")
				return
			}
			searches++
			rec.Eval(1)
			anyFound, anyErr := false, false
			sk := ""
			for sl := 0; sl < 4; sl++ {
				k, ok := state[sl]
				if !ok {
					sk += "-"
					continue
				}
				sk += fmt.Sprint(k)
				anyFound = anyFound || k == 0
				anyErr = anyErr || k == 2
			}
			rec.Distinct("hist/" + op.Op + "/" + sk)
			cc := c18HistCase{Conc: conc, Ops: append([]c18HistOp(nil), c.Ops...)}
			switch {
			case len(state) == 1:
				// documented short cut: with one epoch loaded the search answers that epoch
			case anyFound:
				if err != nil {
					rec.Violation("findEpochNumberFromSignature/history/miss-despite-hit", fmt.Sprintf("loaded epochs (kinds by slot) %s: an epoch holds the signature but the search returned %v", sk, err), cc)
				} else if k, ok := state[int(got)-10]; !ok || k != 0 {
					rec.Violation("findEpochNumberFromSignature/history/wrong-epoch", fmt.Sprintf("loaded epochs %s: returned epoch %d which does not hold the signature / is not loaded", sk, got), cc)
				}
			case anyErr:
				if err == nil {
					rec.Violation("findEpochNumberFromSignature/history/success-without-hit", fmt.Sprintf("loaded epochs %s: returned epoch %d although no loaded epoch holds the signature", sk, got), cc)
				} else if errors.Is(err, ErrNotFound) {
					rec.Violation("findEpochNumberFromSignature/history/error-reported-as-not-found", fmt.Sprintf("loaded epochs %s: %v", sk, err), cc)
				}
			default:
				if err == nil {
					rec.Violation("findEpochNumberFromSignature/history/success-without-hit", fmt.Sprintf("loaded epochs %s: returned epoch %d although no loaded epoch holds the signature", sk, got), cc)
				} else if !errors.Is(err, ErrNotFound) {
					rec.Violation("findEpochNumberFromSignature/history/not-found-reported-as-error", fmt.Sprintf("loaded epochs %s: %v", sk, err), cc)
				}
			}
		}
		if h%211 == 0 {
			rec.Sample(c)
		}
	}
	rec.Count("history_searches", searches)
	rec.Count("history_epoch_set_changes", mutations)
}
