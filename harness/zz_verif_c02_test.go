//go:build verif

package main

// C02 — RPC answers for archived slots and signatures reproduce the archive exactly.
// Fixtures for several epochs (incl. epoch 0 + genesis) are loaded into one MultiEpoch in every
// non-empty combination, with every epoch-search concurrency; every archived slot/signature is
// requested through JSON-RPC (4 encodings) and gRPC (unary + bidirectional Get) from 16
// goroutines; the oracle is the generator's model.

import (
	"bytes"
	"context"
	"encoding/base64"
	"encoding/json"
	"fmt"
	"io"
	"os"
	"path/filepath"
	"runtime"
	"sort"
	"strings"
	"sync"
	"testing"

	"github.com/gagliardetto/solana-go"
	"github.com/klauspost/compress/zstd"
	"github.com/mr-tron/base58"
	old_faithful_grpc "github.com/rpcpool/yellowstone-faithful/old-faithful-proto/old-faithful-grpc"
	"github.com/rpcpool/yellowstone-faithful/zzverif/cargen"
	"github.com/rpcpool/yellowstone-faithful/zzverif/ev"
	"github.com/valyala/fasthttp"
	"google.golang.org/grpc"
)

type c02Witness struct {
	Seed     int64    `json:"seed"`
	Epochs   []uint64 `json:"epochs_loaded"`
	Conc     int      `json:"epoch_search_concurrency"`
	Surface  string   `json:"surface"`
	Encoding string   `json:"encoding,omitempty"`
	Slot     uint64   `json:"slot,omitempty"`
	Sig      string   `json:"signature,omitempty"`
}

var c02Zdec, _ = zstd.NewReader(nil)

type c02GetStream struct {
	grpc.ServerStream
	ctx  context.Context
	reqs []*old_faithful_grpc.GetRequest
	i    int
	sent []*old_faithful_grpc.GetResponse
}

func (s *c02GetStream) Context() context.Context { return s.ctx }
func (s *c02GetStream) Recv() (*old_faithful_grpc.GetRequest, error) {
	if s.i >= len(s.reqs) {
		return nil, io.EOF
	}
	r := s.reqs[s.i]
	s.i++
	return r, nil
}
func (s *c02GetStream) Send(r *old_faithful_grpc.GetResponse) error {
	s.sent = append(s.sent, r)
	return nil
}

type c02World struct {
	rec    *ev.Recorder
	models map[uint64]*cargen.Model
}

func (w *c02World) decodeTxField(enc string, v any) ([]byte, error) {
	arr, ok := v.([]any)
	if !ok || len(arr) != 2 {
		return nil, fmt.Errorf("transaction field is %T, want [data, encoding]", v)
	}
	s, _ := arr[0].(string)
	switch enc {
	case "base58":
		return base58.Decode(s)
	case "base64":
		return base64.StdEncoding.DecodeString(s)
	case "base64+zstd":
		z, err := base64.StdEncoding.DecodeString(s)
		if err != nil {
			return nil, err
		}
		return c02Zdec.DecodeAll(z, nil)
	}
	return nil, fmt.Errorf("unknown encoding")
}

// checkJSONTx compares one JSON transaction object ({transaction, meta, ...}) with the model.
func (w *c02World) checkJSONTx(enc string, obj map[string]any, tx *cargen.Tx) string {
	if enc == "json" {
		tobj, ok := obj["transaction"].(map[string]any)
		if !ok {
			return fmt.Sprintf("transaction is %T", obj["transaction"])
		}
		sigs, _ := tobj["signatures"].([]any)
		if len(sigs) != len(tx.Sigs) {
			return fmt.Sprintf("%d signatures, want %d", len(sigs), len(tx.Sigs))
		}
		for i := range sigs {
			if sigs[i] != tx.Sigs[i].String() {
				return fmt.Sprintf("signature[%d]=%v want %s", i, sigs[i], tx.Sigs[i])
			}
		}
		msg, _ := tobj["message"].(map[string]any)
		keys, _ := msg["accountKeys"].([]any)
		if len(keys) != len(tx.Static) {
			return fmt.Sprintf("%d account keys, want %d", len(keys), len(tx.Static))
		}
		for i := range keys {
			if keys[i] != tx.Static[i].String() {
				return fmt.Sprintf("accountKeys[%d]=%v want %s", i, keys[i], tx.Static[i])
			}
		}
	} else {
		raw, err := w.decodeTxField(enc, obj["transaction"])
		if err != nil {
			return "cannot decode transaction: " + err.Error()
		}
		if !bytes.Equal(raw, tx.Raw) {
			return fmt.Sprintf("transaction bytes differ (%d vs %d bytes)", len(raw), len(tx.Raw))
		}
	}
	if tx.MetaRaw == nil {
		if obj["meta"] != nil {
			return fmt.Sprintf("meta=%v for a transaction without metadata", obj["meta"])
		}
		return ""
	}
	meta, ok := obj["meta"].(map[string]any)
	if !ok {
		return fmt.Sprintf("meta is %T, want object", obj["meta"])
	}
	fee, _ := meta["fee"].(float64)
	if uint64(fee) != tx.Fee {
		return fmt.Sprintf("meta.fee=%v want %d", meta["fee"], tx.Fee)
	}
	if (meta["err"] != nil) != tx.Failed {
		return fmt.Sprintf("meta.err=%v but failed=%v", meta["err"], tx.Failed)
	}
	return ""
}

func (w *c02World) jsonGetBlock(h func(*fasthttp.RequestCtx), wit c02Witness, b *cargen.Block, m *cargen.Model) {
	rec := w.rec
	wit.Surface, wit.Slot = "jsonrpc/getBlock", b.Slot
	body := fmt.Sprintf(`{"jsonrpc":"2.0","id":1,"method":"getBlock","params":[%d,{"encoding":"%s","maxSupportedTransactionVersion":0}]}`, b.Slot, wit.Encoding)
	_, resp := vfCall(h, body)
	rec.Eval(1)
	var r struct {
		Result *struct {
			BlockHeight       *uint64          `json:"blockHeight"`
			BlockTime         *int64           `json:"blockTime"`
			Blockhash         string           `json:"blockhash"`
			ParentSlot        uint64           `json:"parentSlot"`
			PreviousBlockhash *string          `json:"previousBlockhash"`
			Transactions      []map[string]any `json:"transactions"`
		} `json:"result"`
		Error any `json:"error"`
	}
	if err := json.Unmarshal(resp, &r); err != nil {
		rec.Violation("jsonrpc/getBlock/bad-response", fmt.Sprintf("unparsable response: %v: %.200s", err, resp), wit)
		return
	}
	if r.Result == nil {
		rec.Violation("jsonrpc/getBlock/fails-for-archived-slot", fmt.Sprintf("slot %d: error %v", b.Slot, r.Error), wit)
		return
	}
	res := r.Result
	fail := func(key, f string, a ...any) {
		rec.Violation("jsonrpc/getBlock/"+key, fmt.Sprintf("slot %d: ", b.Slot)+fmt.Sprintf(f, a...), wit)
	}
	if b.Slot != 0 {
		if res.BlockHeight == nil || *res.BlockHeight != b.Height {
			fail("block-height", "blockHeight=%v want %d", res.BlockHeight, b.Height)
		}
		if res.BlockTime == nil || *res.BlockTime != b.Blocktime {
			fail("block-time", "blockTime=%v want %d", res.BlockTime, b.Blocktime)
		}
		if res.ParentSlot != b.Parent {
			fail("parent-slot", "parentSlot=%d want %d", res.ParentSlot, b.Parent)
		}
	}
	if b.LastHash != nil && res.Blockhash != base58.Encode(b.LastHash) {
		fail("blockhash", "blockhash=%s want %s", res.Blockhash, base58.Encode(b.LastHash))
	}
	if p, ok := m.BySlot[b.Parent]; ok && b.Slot != 0 && p.LastHash != nil && p.Slot/cargen.SlotsPerEpoch == b.Slot/cargen.SlotsPerEpoch {
		want := base58.Encode(p.LastHash)
		if res.PreviousBlockhash == nil || *res.PreviousBlockhash != want {
			k := "previous-blockhash"
			if b.Parent == 0 && b.Slot > 1 {
				k = "previous-blockhash-parent-slot-0"
			}
			got := "<nil>"
			if res.PreviousBlockhash != nil {
				got = *res.PreviousBlockhash
			}
			fail(k, "previousBlockhash=%s want %s (parent %d)", got, want, b.Parent)
		}
	}
	if len(res.Transactions) != len(b.Txs) {
		fail("transaction-count", "%d transactions, want %d", len(res.Transactions), len(b.Txs))
		return
	}
	for i, tx := range b.Txs {
		if msg := w.checkJSONTx(wit.Encoding, res.Transactions[i], tx); msg != "" {
			fail("transaction-content-or-order", "transactions[%d] (sig %s): %s", i, tx.Sig, msg)
			return
		}
	}
}

func (w *c02World) jsonGetTransaction(h func(*fasthttp.RequestCtx), wit c02Witness, tx *cargen.Tx, b *cargen.Block) {
	rec := w.rec
	wit.Surface, wit.Sig = "jsonrpc/getTransaction", tx.Sig.String()
	body := fmt.Sprintf(`{"jsonrpc":"2.0","id":1,"method":"getTransaction","params":["%s",{"encoding":"%s","maxSupportedTransactionVersion":0}]}`, tx.Sig, wit.Encoding)
	_, resp := vfCall(h, body)
	rec.Eval(1)
	var r struct {
		Result map[string]any `json:"result"`
		Error  any            `json:"error"`
	}
	if err := json.Unmarshal(resp, &r); err != nil {
		rec.Violation("jsonrpc/getTransaction/bad-response", fmt.Sprintf("unparsable response: %v: %.200s", err, resp), wit)
		return
	}
	if r.Result == nil {
		rec.Violation("jsonrpc/getTransaction/fails-for-archived-signature", fmt.Sprintf("sig %s (slot %d): error %v", tx.Sig, tx.Slot, r.Error), wit)
		return
	}
	if s, _ := r.Result["slot"].(float64); uint64(s) != tx.Slot {
		rec.Violation("jsonrpc/getTransaction/slot", fmt.Sprintf("sig %s: slot=%v want %d", tx.Sig, r.Result["slot"], tx.Slot), wit)
	}
	if bt, _ := r.Result["blockTime"].(float64); int64(bt) != b.Blocktime {
		rec.Violation("jsonrpc/getTransaction/block-time", fmt.Sprintf("sig %s: blockTime=%v want %d", tx.Sig, r.Result["blockTime"], b.Blocktime), wit)
	}
	if msg := w.checkJSONTx(wit.Encoding, r.Result, tx); msg != "" {
		rec.Violation("jsonrpc/getTransaction/content", fmt.Sprintf("sig %s: %s", tx.Sig, msg), wit)
	}
}

func (w *c02World) checkGrpcBlock(wit c02Witness, res *old_faithful_grpc.BlockResponse, b *cargen.Block, m *cargen.Model) {
	rec := w.rec
	fail := func(key, f string, a ...any) {
		rec.Violation(wit.Surface+"/"+key, fmt.Sprintf("slot %d: ", b.Slot)+fmt.Sprintf(f, a...), wit)
	}
	if res.Slot != b.Slot {
		fail("slot", "Slot=%d", res.Slot)
	}
	if b.Slot != 0 {
		if res.ParentSlot != b.Parent {
			fail("parent-slot", "ParentSlot=%d want %d", res.ParentSlot, b.Parent)
		}
		if res.BlockTime != b.Blocktime {
			fail("block-time", "BlockTime=%d want %d", res.BlockTime, b.Blocktime)
		}
		if res.BlockHeight != b.Height {
			fail("block-height", "BlockHeight=%d want %d", res.BlockHeight, b.Height)
		}
	}
	if b.LastHash != nil && !bytes.Equal(res.Blockhash, b.LastHash) {
		fail("blockhash", "Blockhash=%x want %x", res.Blockhash, b.LastHash)
	}
	if p, ok := m.BySlot[b.Parent]; ok && b.Slot != 0 && p.LastHash != nil && p.Slot/cargen.SlotsPerEpoch == b.Slot/cargen.SlotsPerEpoch {
		if !bytes.Equal(res.PreviousBlockhash, p.LastHash) {
			k := "previous-blockhash"
			if b.Parent == 0 && b.Slot > 1 {
				k = "previous-blockhash-parent-slot-0"
			}
			fail(k, "PreviousBlockhash=%x want %x (parent %d)", res.PreviousBlockhash, p.LastHash, b.Parent)
		}
	}
	if b.RewardsRaw != nil && !bytes.Equal(res.Rewards, b.RewardsRaw) {
		rec.Count("diag_rewards_differ", 1)
	}
	if len(res.Transactions) != len(b.Txs) {
		fail("transaction-count", "%d transactions, want %d", len(res.Transactions), len(b.Txs))
		return
	}
	for i, tx := range b.Txs {
		g := res.Transactions[i]
		if !bytes.Equal(g.Transaction, tx.Raw) {
			fail("transaction-content-or-order", "transactions[%d]: payload differs from the archived transaction %s", i, tx.Sig)
			return
		}
		if !bytes.Equal(g.Meta, tx.MetaRaw) {
			fail("metadata-content", "transactions[%d] (%s): metadata differs (%d vs %d bytes)", i, tx.Sig, len(g.Meta), len(tx.MetaRaw))
			return
		}
		// (a transaction archived without the optional position index has none to report; if one is reported
		// it must be the true one)
		if (g.Index == nil && !tx.NoPos) || (g.Index != nil && *g.Index != uint64(tx.Pos)) {
			fail("position", "transactions[%d] (%s): index=%v want %d", i, tx.Sig, g.Index, tx.Pos)
			return
		}
	}
}

func (w *c02World) checkGrpcTx(wit c02Witness, res *old_faithful_grpc.TransactionResponse, tx *cargen.Tx, b *cargen.Block) {
	rec := w.rec
	fail := func(key, f string, a ...any) {
		rec.Violation(wit.Surface+"/"+key, fmt.Sprintf("sig %s: ", tx.Sig)+fmt.Sprintf(f, a...), wit)
	}
	if res.Slot != tx.Slot {
		fail("slot", "Slot=%d want %d", res.Slot, tx.Slot)
	}
	if res.BlockTime != b.Blocktime {
		fail("block-time", "BlockTime=%d want %d", res.BlockTime, b.Blocktime)
	}
	if (res.Index == nil && !tx.NoPos) || (res.Index != nil && *res.Index != uint64(tx.Pos)) {
		fail("position", "Index=%v want %d", res.Index, tx.Pos)
	}
	if res.Transaction == nil || !bytes.Equal(res.Transaction.Transaction, tx.Raw) {
		fail("content", "transaction payload differs")
	} else if !bytes.Equal(res.Transaction.Meta, tx.MetaRaw) {
		fail("metadata-content", "metadata differs (%d vs %d bytes)", len(res.Transaction.Meta), len(tx.MetaRaw))
	}
}

type c02Job func()

func TestVerifC02(t *testing.T) {
	rec := ev.New("C02", "rpc-answers")
	defer rec.Flush()
	rec.Rule("every archived slot and signature of every generated epoch, requested through JSON-RPC getBlock/getTransaction/getBlockTime (base58, base64, base64+zstd, json) and gRPC GetBlock/GetTransaction/GetBlockTime/Get for every non-empty subset of loaded epochs and concurrency in {1,2,NumCPU}; epochs arriving one by one on a server that is already answering; distinct = (epoch set, concurrency, encoding, surface) cells with >= 1 non-empty block")
	seed := ev.Seed()
	root := filepath.Join(ev.Scratch(), "c02")
	os.MkdirAll(root, 0o755)
	defer os.RemoveAll(root)

	type espec struct {
		o cargen.Opts
	}
	nsl := ev.Pick(150, 500)
	specs := []cargen.Opts{
		{Epoch: 0, Seed: seed, NSlots: nsl, SkipOneIn: 4, MaxEntries: 3, MaxTx: 4, MultiFrameOneIn: 4, MaxFrames: 12, RewardsOneIn: 3, VoteOneIn: 4, FailOneIn: 4, V0OneIn: 4, TinyOneIn: 9, SigEdgeOneIn: 6, EmptyBlockOneIn: 6},
		{Epoch: 1, Seed: seed + 1, NSlots: nsl, SkipOneIn: 3, MaxEntries: 4, MaxTx: 3, MultiFrameOneIn: 3, MaxFrames: 40, FanOut: 0, SplitTxData: true, RewardsOneIn: 2, VoteOneIn: 3, FailOneIn: 5, V0OneIn: 3, BigOneIn: 15, LegacyFnvOneIn: 3, BlocktimeEdgeOneIn: 5, LastSlot: true},
		{Epoch: 2, Seed: seed + 2, NSlots: nsl, SkipOneIn: 0, MaxEntries: 2, MaxTx: 5, MultiFrameOneIn: 6, MaxFrames: 5, RewardsOneIn: 0, VoteOneIn: 2, FailOneIn: 3, V0OneIn: 5, SigEdgeOneIn: 4, SubsetEvery: 9},
	}
	// an epoch in the first format generation: transactions without the optional position index (their
	// order is the order of the entries)
	specs = append(specs, cargen.Opts{Epoch: 3, Seed: seed + 3, NSlots: 40, SkipOneIn: 4, MaxEntries: 3, MaxTx: 6, MultiFrameOneIn: 5, VoteOneIn: 4, FailOneIn: 4, NoPosIndex: true})
	if ev.Thorough() {
		specs = append(specs, cargen.Opts{Epoch: 5, Seed: seed + 5, NSlots: nsl, SkipOneIn: 2, MaxEntries: 5, MaxTx: 6, MultiFrameOneIn: 2, MaxFrames: 60, SplitTxData: true, RewardsOneIn: 1, VoteOneIn: 4, FailOneIn: 4, V0OneIn: 2, RootSha512: true})
	}
	// corner: epoch 0 with slot 1 skipped (a block > 1 whose parent is slot 0)
	corner := cargen.Opts{Epoch: 0, Seed: seed + 77, Slots: []uint64{0, 2, 3, 4, 7}, MaxEntries: 2, MaxTx: 3}

	fxs := map[uint64]*vfEpochFx{}
	var mu sync.Mutex
	var wg sync.WaitGroup
	var fxCorner *vfEpochFx
	build := func(o cargen.Opts, name string, dst **vfEpochFx) {
		defer wg.Done()
		fx, ierr, err := vfMakeEpoch(filepath.Join(root, name), o, false)
		if err != nil || ierr != "" {
			t.Errorf("fixture %s: %v %s", name, err, ierr)
			return
		}
		mu.Lock()
		*dst = fx
		mu.Unlock()
	}
	holders := make([]*vfEpochFx, len(specs))
	for i, o := range specs {
		wg.Add(1)
		go build(o, fmt.Sprintf("e%d", o.Epoch), &holders[i])
	}
	wg.Add(1)
	go build(corner, "corner", &fxCorner)
	wg.Wait()
	if t.Failed() {
		t.FailNow()
	}
	var epochs []uint64
	models := map[uint64]*cargen.Model{}
	for _, fx := range holders {
		fxs[fx.Model.Epoch] = fx
		epochs = append(epochs, fx.Model.Epoch)
		models[fx.Model.Epoch] = fx.Model
	}
	sort.Slice(epochs, func(i, j int) bool { return epochs[i] < epochs[j] })
	w := &c02World{rec: rec, models: models}

	encodings := []string{"base58", "base64", "base64+zstd", "json"}
	concs := []int{1, 2, runtime.NumCPU()}
	nSub := 1 << len(epochs)
	for mask := 1; mask < nSub; mask++ {
		var loaded []uint64
		for i, e := range epochs {
			if mask&(1<<i) != 0 {
				loaded = append(loaded, e)
			}
		}
		for ci, conc := range concs {
			if rec.Enough() {
				break
			}
			// one cache shared by all epochs, as in cmd-rpc.go
			cache := vfNewCache()
			multi := NewMultiEpoch(&Options{EpochSearchConcurrency: conc})
			var eps []*Epoch
			for _, e := range loaded {
				ep, err := fxs[e].vfLoad(cache)
				if err != nil {
					t.Fatalf("load epoch %d: %v", e, err)
				}
				eps = append(eps, ep)
				if err := multi.AddEpoch(e, ep); err != nil {
					t.Fatal(err)
				}
			}
			h := newMultiEpochHandler(multi, nil)
			wit := c02Witness{Seed: seed, Epochs: loaded, Conc: conc}
			var jobs []c02Job
			for _, e := range loaded {
				m := models[e]
				for _, b := range m.Blocks {
					b := b
					// block-level requests do not depend on the search concurrency: run them for the first setting only
					if ci == 0 {
						for _, enc := range encodings {
							enc := enc
							jobs = append(jobs, func() {
								wi := wit
								wi.Encoding = enc
								w.jsonGetBlock(h, wi, b, m)
								if len(b.Txs) > 0 {
									rec.Distinct(fmt.Sprintf("%v/c%d/%s/jsonrpc-getBlock", loaded, conc, enc))
								}
							})
						}
						jobs = append(jobs, func() {
							wi := wit
							wi.Surface, wi.Slot = "grpc/GetBlock", b.Slot
							rec.Eval(1)
							res, err := multi.GetBlock(context.Background(), &old_faithful_grpc.BlockRequest{Slot: b.Slot})
							if err != nil {
								rec.Violation("grpc/GetBlock/fails-for-archived-slot", fmt.Sprintf("slot %d: %v", b.Slot, err), wi)
							} else {
								w.checkGrpcBlock(wi, res, b, m)
								if len(b.Txs) > 0 {
									rec.Distinct(fmt.Sprintf("%v/c%d/grpc-GetBlock", loaded, conc))
								}
							}
							// getBlockTime (JSON + gRPC)
							rec.Eval(2)
							if b.Slot != 0 {
								_, resp := vfCall(h, fmt.Sprintf(`{"jsonrpc":"2.0","id":1,"method":"getBlockTime","params":[%d]}`, b.Slot))
								var r struct {
									Result *int64 `json:"result"`
								}
								wi.Surface = "jsonrpc/getBlockTime"
								if json.Unmarshal(resp, &r) != nil || r.Result == nil || *r.Result != b.Blocktime {
									rec.Violation("jsonrpc/getBlockTime/wrong", fmt.Sprintf("slot %d: response %.200s want %d", b.Slot, resp, b.Blocktime), wi)
								}
								wi.Surface = "grpc/GetBlockTime"
								bt, err := multi.GetBlockTime(context.Background(), &old_faithful_grpc.BlockTimeRequest{Slot: b.Slot})
								if err != nil || bt.BlockTime != b.Blocktime {
									rec.Violation("grpc/GetBlockTime/wrong", fmt.Sprintf("slot %d: %v err %v want %d", b.Slot, bt, err, b.Blocktime), wi)
								}
							}
						})
					}
					for _, tx := range b.Txs {
						tx := tx
						enc := encodings[(tx.Pos+ci)%len(encodings)]
						jobs = append(jobs, func() {
							wi := wit
							wi.Encoding = enc
							w.jsonGetTransaction(h, wi, tx, b)
							rec.Distinct(fmt.Sprintf("%v/c%d/%s/jsonrpc-getTransaction", loaded, conc, enc))
							wi.Encoding = ""
							wi.Surface, wi.Sig = "grpc/GetTransaction", tx.Sig.String()
							rec.Eval(1)
							res, err := multi.GetTransaction(context.Background(), &old_faithful_grpc.TransactionRequest{Signature: tx.Sig[:]})
							if err != nil {
								rec.Violation("grpc/GetTransaction/fails-for-archived-signature", fmt.Sprintf("sig %s: %v", tx.Sig, err), wi)
							} else {
								w.checkGrpcTx(wi, res, tx, b)
								rec.Distinct(fmt.Sprintf("%v/c%d/grpc-GetTransaction", loaded, conc))
							}
						})
					}
				}
				// bidirectional Get: one scripted stream per epoch mixing all request kinds
				jobs = append(jobs, func() {
					var reqs []*old_faithful_grpc.GetRequest
					type exp struct {
						b  *cargen.Block
						tx *cargen.Tx
						bt bool
					}
					var exps []exp
					id := uint64(1)
					for bi, b := range m.Blocks {
						if bi%5 != 0 {
							continue
						}
						reqs = append(reqs, &old_faithful_grpc.GetRequest{Id: id, Request: &old_faithful_grpc.GetRequest_Block{Block: &old_faithful_grpc.BlockRequest{Slot: b.Slot}}})
						exps = append(exps, exp{b: b})
						id++
						if b.Slot != 0 {
							reqs = append(reqs, &old_faithful_grpc.GetRequest{Id: id, Request: &old_faithful_grpc.GetRequest_BlockTime{BlockTime: &old_faithful_grpc.BlockTimeRequest{Slot: b.Slot}}})
							exps = append(exps, exp{b: b, bt: true})
							id++
						}
						for _, tx := range b.Txs {
							reqs = append(reqs, &old_faithful_grpc.GetRequest{Id: id, Request: &old_faithful_grpc.GetRequest_Transaction{Transaction: &old_faithful_grpc.TransactionRequest{Signature: tx.Sig[:]}}})
							exps = append(exps, exp{b: b, tx: tx})
							id++
						}
					}
					st := &c02GetStream{ctx: context.Background(), reqs: reqs}
					wi := wit
					wi.Surface = "grpc/Get"
					err := multi.Get(st)
					rec.Eval(len(reqs))
					if err != nil || len(st.sent) != len(reqs) {
						rec.Violation("grpc/Get/stream-broken", fmt.Sprintf("err=%v, %d responses for %d requests", err, len(st.sent), len(reqs)), wi)
						return
					}
					for i, r := range st.sent {
						x := exps[i]
						if r.Id != reqs[i].Id {
							rec.Violation("grpc/Get/id-mismatch", fmt.Sprintf("response %d has id %d want %d", i, r.Id, reqs[i].Id), wi)
							return
						}
						switch {
						case x.tx != nil:
							wi.Sig = x.tx.Sig.String()
							if r.GetTransaction() == nil {
								rec.Violation("grpc/Get/fails-for-archived-signature", fmt.Sprintf("sig %s: %v", x.tx.Sig, r.GetError()), wi)
							} else {
								w.checkGrpcTx(wi, r.GetTransaction(), x.tx, x.b)
							}
						case x.bt:
							if r.GetBlockTime() == nil || r.GetBlockTime().BlockTime != x.b.Blocktime {
								rec.Violation("grpc/Get/block-time", fmt.Sprintf("slot %d: %v", x.b.Slot, r), wi)
							}
						default:
							wi.Slot = x.b.Slot
							if r.GetBlock() == nil {
								rec.Violation("grpc/Get/fails-for-archived-slot", fmt.Sprintf("slot %d: %v", x.b.Slot, r.GetError()), wi)
							} else {
								w.checkGrpcBlock(wi, r.GetBlock(), x.b, m)
							}
						}
					}
					rec.Distinct(fmt.Sprintf("%v/c%d/grpc-Get", loaded, conc))
				})
			}
			// 16 client goroutines
			ch := make(chan c02Job, 256)
			var cw sync.WaitGroup
			for g := 0; g < 16; g++ {
				cw.Add(1)
				go func() {
					defer cw.Done()
					for j := range ch {
						j()
					}
				}()
			}
			for _, j := range jobs {
				ch <- j
			}
			close(ch)
			cw.Wait()
			// The epochs are deliberately NOT closed: the epoch search leaves its slower jobs running after the
			// first hit ("the other goroutines will still run until they finish"), and closing the mmap'ed
			// index files under them is the use-after-close of C09's close-under-query finding, not C02's subject.
			_ = eps
			cache = nil
			rec.Count("multiepoch_configurations", 1)
		}
	}
	rec.Sample(map[string]any{"epochs": epochs, "blocks_per_epoch": func() map[string]int {
		o := map[string]int{}
		for e, m := range models {
			o[fmt.Sprint(e)] = len(m.Blocks)
		}
		return o
	}(), "txs_per_epoch": func() map[string]int {
		o := map[string]int{}
		for e, m := range models {
			o[fmt.Sprint(e)] = len(m.BySig)
		}
		return o
	}(), "layouts": func() []string {
		var o []string
		for _, m := range models {
			o = append(o, m.LayoutSignature())
		}
		sort.Strings(o)
		return o
	}()})

	// ---- corner: epoch 0 with slot 1 skipped
	if fxCorner != nil {
		cache := vfNewCache()
		multi := NewMultiEpoch(&Options{EpochSearchConcurrency: 2})
		ep, err := fxCorner.vfLoad(cache)
		if err != nil {
			t.Fatalf("corner: %v", err)
		}
		multi.AddEpoch(0, ep)
		h := newMultiEpochHandler(multi, nil)
		w2 := &c02World{rec: rec, models: map[uint64]*cargen.Model{0: fxCorner.Model}}
		wit := c02Witness{Seed: seed + 77, Epochs: []uint64{0}, Conc: 2, Encoding: "base64"}
		for _, b := range fxCorner.Model.Blocks {
			w2.jsonGetBlock(h, wit, b, fxCorner.Model)
			wi := wit
			wi.Surface, wi.Slot = "grpc/GetBlock", b.Slot
			res, err := multi.GetBlock(context.Background(), &old_faithful_grpc.BlockRequest{Slot: b.Slot})
			rec.Eval(1)
			if err != nil {
				rec.Violation("grpc/GetBlock/fails-for-archived-slot", fmt.Sprintf("slot %d: %v", b.Slot, err), wi)
			} else {
				w2.checkGrpcBlock(wi, res, b, fxCorner.Model)
			}
		}
		rec.Distinct("corner/epoch0-slot1-skipped")
	}
	// ---- epochs that arrive while the server is already answering (asynchronous start-up, --watch): after
	// every arrival each signature of every loaded epoch must be answered, for each concurrency setting
	for _, conc := range concs {
		if rec.Enough() || len(epochs) < 3 {
			break
		}
		cache := vfNewCache()
		multi := NewMultiEpoch(&Options{EpochSearchConcurrency: conc})
		h := newMultiEpochHandler(multi, nil)
		// (arrival order not ascending)
		order := []uint64{epochs[1], epochs[0]}
		order = append(order, epochs[2:]...)
		var loaded []uint64
		for _, e := range order {
			ep, err := fxs[e].vfLoad(cache)
			if err != nil {
				t.Fatalf("load epoch %d: %v", e, err)
			}
			if err := multi.AddEpoch(e, ep); err != nil {
				t.Fatal(err)
			}
			loaded = append(loaded, e)
			wit := c02Witness{Seed: seed, Epochs: append([]uint64{}, loaded...), Conc: conc, Encoding: "base64"}
			for _, le := range loaded {
				m := models[le]
				n := 0
				for _, b := range m.Blocks {
					for _, tx := range b.Txs {
						if n%5 == 0 || le == e {
							w.jsonGetTransaction(h, wit, tx, b)
						}
						n++
					}
				}
			}
			rec.Distinct(fmt.Sprintf("arrivals/c%d/%v", conc, loaded))
		}
	}
	_ = strings.Join
	_ = solana.Signature{}
}
