//go:build verif

package main

// C08 — no request can crash the server.
// Child-per-batch crash monitor: the parent generates HTTP and gRPC inputs from a grammar (seeded),
// a child process loads 0, 1 or 3 epochs and executes the batch, journaling each input index (write +
// fsync) before executing it under recover().  A recovered panic is reported by the child with its
// stack; a death that recover cannot see (panic in a goroutine spawned by a handler, fatal error) is
// attributed by the parent to the last journaled input, and the batch continues in a fresh child.
// After every batch a canary (getVersion + one known getBlock) must still answer.

import (
	"context"
	"encoding/base64"
	"encoding/json"
	"fmt"
	"io"
	"math"
	"math/rand"
	"os"
	"path/filepath"
	"runtime/debug"
	"strings"
	"sync"
	"testing"
	"time"

	"github.com/gagliardetto/solana-go"
	old_faithful_grpc "github.com/rpcpool/yellowstone-faithful/old-faithful-proto/old-faithful-grpc"
	"github.com/rpcpool/yellowstone-faithful/zzverif/cargen"
	"github.com/rpcpool/yellowstone-faithful/zzverif/ev"
	"github.com/valyala/fasthttp"
	"google.golang.org/grpc"
	"google.golang.org/protobuf/proto"
)

type c08Input struct {
	Kind   string   `json:"kind"` // http | grpc
	Method string   `json:"method,omitempty"`
	Path   string   `json:"path,omitempty"`
	Body   string   `json:"body_b64,omitempty"`
	RPC    string   `json:"rpc,omitempty"`
	Msgs   []string `json:"msgs_b64,omitempty"` // proto-encoded request message(s)
	Class  string   `json:"class"`              // (surface, method, params-shape class) for the evidence
}

type c08BatchArgs struct {
	Configs    []string `json:"configs"`
	InputFile  string   `json:"input_file"`
	Journal    string   `json:"journal"`
	From       int      `json:"from"`
	To         int      `json:"to"` // exclusive; 0 = all
	CanarySlot uint64   `json:"canary_slot"`
	HasCanary  bool     `json:"has_canary"`
}

type c08Panic struct {
	Index int    `json:"index"`
	Msg   string `json:"msg"`
	Stack string `json:"stack"`
}

type c08BatchResult struct {
	Done      int        `json:"done"`
	Panics    []c08Panic `json:"panics"`
	CanaryOK  bool       `json:"canary_ok"`
	CanaryMsg string     `json:"canary_msg"`
}

type c08Stream[T any] struct {
	grpc.ServerStream
	ctx context.Context
	n   int
}

func (s *c08Stream[T]) Context() context.Context { return s.ctx }
func (s *c08Stream[T]) Send(m T) error           { s.n++; return nil }

type c08GetStream struct {
	grpc.ServerStream
	ctx  context.Context
	reqs []*old_faithful_grpc.GetRequest
	i    int
}

func (s *c08GetStream) Context() context.Context { return s.ctx }
func (s *c08GetStream) Recv() (*old_faithful_grpc.GetRequest, error) {
	if s.i >= len(s.reqs) {
		return nil, io.EOF
	}
	r := s.reqs[s.i]
	s.i++
	return r, nil
}
func (s *c08GetStream) Send(*old_faithful_grpc.GetResponse) error { return nil }

func c08Exec(h func(*fasthttp.RequestCtx), multi *MultiEpoch, in *c08Input) {
	switch in.Kind {
	case "http":
		body, _ := base64.StdEncoding.DecodeString(in.Body)
		var ctx fasthttp.RequestCtx
		var req fasthttp.Request
		req.Header.SetMethod(in.Method)
		req.SetRequestURI(in.Path)
		req.Header.SetContentType("application/json")
		if len(body) > 0 || in.Method == "POST" {
			req.SetBody(body)
		}
		ctx.Init(&req, nil, nil)
		h(&ctx)
		_ = ctx.Response.StatusCode()
	case "grpc":
		ctx, cancel := context.WithTimeout(context.Background(), 300*time.Millisecond) // bound for unbounded ranges, not a verdict
		defer cancel()
		raw := func(i int) []byte {
			if i >= len(in.Msgs) {
				return nil
			}
			b, _ := base64.StdEncoding.DecodeString(in.Msgs[i])
			return b
		}
		switch in.RPC {
		case "GetVersion":
			m := &old_faithful_grpc.VersionRequest{}
			proto.Unmarshal(raw(0), m)
			multi.GetVersion(ctx, m)
		case "GetBlock":
			m := &old_faithful_grpc.BlockRequest{}
			proto.Unmarshal(raw(0), m)
			multi.GetBlock(ctx, m)
		case "GetBlockTime":
			m := &old_faithful_grpc.BlockTimeRequest{}
			proto.Unmarshal(raw(0), m)
			multi.GetBlockTime(ctx, m)
		case "GetTransaction":
			m := &old_faithful_grpc.TransactionRequest{}
			proto.Unmarshal(raw(0), m)
			multi.GetTransaction(ctx, m)
		case "StreamBlocks":
			m := &old_faithful_grpc.StreamBlocksRequest{}
			proto.Unmarshal(raw(0), m)
			multi.StreamBlocks(m, &c08Stream[*old_faithful_grpc.BlockResponse]{ctx: ctx})
		case "StreamTransactions":
			m := &old_faithful_grpc.StreamTransactionsRequest{}
			proto.Unmarshal(raw(0), m)
			multi.StreamTransactions(m, &c08Stream[*old_faithful_grpc.TransactionResponse]{ctx: ctx})
		case "Get":
			st := &c08GetStream{ctx: ctx}
			for i := range in.Msgs {
				m := &old_faithful_grpc.GetRequest{}
				proto.Unmarshal(raw(i), m)
				st.reqs = append(st.reqs, m)
			}
			multi.Get(st)
		}
	}
}

func init() {
	vfChildRoles["c08"] = func(rawArgs json.RawMessage) (any, error) {
		var a c08BatchArgs
		if err := json.Unmarshal(rawArgs, &a); err != nil {
			return nil, err
		}
		b, err := os.ReadFile(a.InputFile)
		if err != nil {
			return nil, err
		}
		var inputs []c08Input
		if err := json.Unmarshal(b, &inputs); err != nil {
			return nil, err
		}
		cache := vfNewCache()
		multi := NewMultiEpoch(&Options{EpochSearchConcurrency: 2})
		for _, cfgPath := range a.Configs {
			cfg, err := LoadConfig(cfgPath)
			if err != nil {
				return nil, err
			}
			ep, err := NewEpochFromConfig(cfg, vfCliContext(), cache, nil)
			if err != nil {
				return nil, err
			}
			multi.AddEpoch(ep.Epoch(), ep)
		}
		h := newMultiEpochHandler(multi, nil)
		j, err := os.OpenFile(a.Journal, os.O_CREATE|os.O_WRONLY|os.O_APPEND, 0o644)
		if err != nil {
			return nil, err
		}
		defer j.Close()
		res := &c08BatchResult{}
		end := len(inputs)
		if a.To > 0 && a.To < end {
			end = a.To
		}
		for i := a.From; i < end; i++ {
			fmt.Fprintf(j, "%d\n", i)
			j.Sync()
			func() {
				defer func() {
					if r := recover(); r != nil {
						st := string(debug.Stack())
						if len(st) > 3000 {
							st = st[:3000]
						}
						res.Panics = append(res.Panics, c08Panic{Index: i, Msg: fmt.Sprint(r), Stack: st})
					}
				}()
				c08Exec(h, multi, &inputs[i])
			}()
			res.Done = i + 1
			if len(res.Panics) >= 40 {
				break
			}
		}
		// give goroutines spawned by handlers a moment to finish (a late panic still kills the child
		// before the result is written, and is then attributed to the journal's last entry)
		time.Sleep(50 * time.Millisecond)
		// canary: keeps serving
		res.CanaryOK = true
		func() {
			defer func() {
				if r := recover(); r != nil {
					res.CanaryOK, res.CanaryMsg = false, fmt.Sprint("canary panicked: ", r)
				}
			}()
			st, body := vfCall(h, `{"jsonrpc":"2.0","id":7,"method":"getVersion"}`)
			if st != 200 || !strings.Contains(string(body), `"faithful"`) {
				res.CanaryOK, res.CanaryMsg = false, fmt.Sprintf("getVersion: status %d body %.100s", st, body)
			}
			if a.HasCanary {
				_, body := vfCall(h, fmt.Sprintf(`{"jsonrpc":"2.0","id":7,"method":"getBlock","params":[%d,{"encoding":"base64"}]}`, a.CanarySlot))
				if !strings.Contains(string(body), `"blockhash"`) {
					res.CanaryOK, res.CanaryMsg = false, fmt.Sprintf("getBlock(%d): %.150s", a.CanarySlot, body)
				}
			}
		}()
		return res, nil
	}
}

// ------------------------------------------------------------------ input grammar

type c08Gen struct {
	rng    *rand.Rand
	slots  []uint64 // archived
	skip   []uint64 // skipped slots inside loaded epochs
	sigs   []string
	addrs  []string
	unload []uint64 // slots of epochs that are not loaded
}

func (g *c08Gen) pick(xs []string) string { return xs[g.rng.Intn(len(xs))] }

func (g *c08Gen) slotValue() string {
	switch g.rng.Intn(12) {
	case 0, 1, 2:
		return fmt.Sprint(g.slots[g.rng.Intn(len(g.slots))])
	case 3:
		return fmt.Sprint(g.skip[g.rng.Intn(len(g.skip))])
	case 4:
		return fmt.Sprint(g.unload[g.rng.Intn(len(g.unload))])
	default:
		return g.pick([]string{"null", "-1", "1.5", "1e308", "18446744073709551616", "18446744073709551615", `""`, `"abc"`, `{}`, `[]`, "true", "0", "9223372036854775807", "1e19", "-0", "4e5"})
	}
}

func (g *c08Gen) strValue(valid []string) string {
	switch g.rng.Intn(10) {
	case 0, 1, 2:
		return `"` + g.pick(valid) + `"`
	default:
		return g.pick([]string{"null", "5", `""`, `"0"`, `"l0OI"`, `"` + strings.Repeat("1", 90) + `"`, `"` + strings.Repeat("z", 700) + `"`, `{}`, `[]`, "true", `"11111111111111111111111111111111"`, `"1111111111111111111111111111111111111111111111111111111111111111"`, `"\u0000"`, `"ÿ"`})
	}
}

func (g *c08Gen) optValue() string {
	switch g.rng.Intn(8) {
	case 0:
		return "null"
	case 1:
		return g.pick([]string{"7", `"x"`, "[]", "true"})
	}
	var mem []string
	addm := func(k string, vals ...string) {
		if g.rng.Intn(2) == 0 {
			mem = append(mem, fmt.Sprintf("%q:%s", k, vals[g.rng.Intn(len(vals))]))
		}
	}
	addm("encoding", `"base64"`, `"base58"`, `"json"`, `"base64+zstd"`, `"jsonParsed"`, `"bogus"`, "5", "null", "{}", "[]")
	addm("commitment", `"finalized"`, `"x"`, "1", "null", "[]")
	addm("maxSupportedTransactionVersion", "0", "1", `"0"`, "null", "-1", "1e40", "{}")
	addm("transactionDetails", `"full"`, `"none"`, `"signatures"`, `"accounts"`, "7", "null")
	addm("rewards", "true", "false", `"true"`, "null", "0")
	addm("limit", "1", "0", "-5", "1000", "1001", "1e9", `"3"`, "null", "2.5", "{}")
	addm("before", `"`+g.pick(g.sigs)+`"`, `"zz"`, "null", "5", `""`, "{}")
	addm("until", `"`+g.pick(g.sigs)+`"`, `"zz"`, "null", "5", `""`, "[]")
	return "{" + strings.Join(mem, ",") + "}"
}

func (g *c08Gen) jsonrpcBody() (string, string) {
	methods := []string{"getBlock", "getTransaction", "getSignaturesForAddress", "getBlockTime", "getGenesisHash", "getFirstAvailableBlock", "getSlot", "getVersion", "getFoo", ""}
	m := methods[g.rng.Intn(len(methods))]
	var params, shape string
	switch g.rng.Intn(9) {
	case 0:
		params, shape = "", "absent"
	case 1:
		params, shape = "null", "null"
	case 2:
		params, shape = "[]", "empty-array"
	case 3:
		params, shape = "{}", "object"
	case 4:
		params, shape = g.pick([]string{"5", `"x"`, "true", "1.5"}), "scalar"
	default:
		var first string
		switch m {
		case "getBlock", "getBlockTime":
			first = g.slotValue()
		case "getTransaction":
			first = g.strValue(g.sigs)
		case "getSignaturesForAddress":
			first = g.strValue(g.addrs)
		default:
			first = g.pick([]string{"1", `"a"`, "null", "{}"})
		}
		switch g.rng.Intn(4) {
		case 0:
			params, shape = "["+first+"]", "array1"
		case 1, 2:
			params, shape = "["+first+","+g.optValue()+"]", "array2"
		default:
			params, shape = "["+first+","+g.optValue()+","+g.optValue()+"]", "array3"
		}
	}
	id := g.pick([]string{"1", `"abc"`, "null", "1.5", "{}", "[]", "true", "-1", "18446744073709551616"})
	var sb strings.Builder
	sb.WriteString(`{"jsonrpc":"2.0"`)
	if g.rng.Intn(12) != 0 {
		sb.WriteString(`,"id":` + id)
	}
	switch g.rng.Intn(14) {
	case 0:
		sb.WriteString(`,"method":5`)
	case 1:
		// no method member
	default:
		sb.WriteString(fmt.Sprintf(`,"method":%q`, m))
	}
	if shape != "absent" {
		sb.WriteString(`,"params":` + params)
	}
	sb.WriteString("}")
	return sb.String(), "jsonrpc/" + m + "/" + shape
}

func (g *c08Gen) httpInput() c08Input {
	r := g.rng.Intn(100)
	switch {
	case r < 70:
		body, class := g.jsonrpcBody()
		b := []byte(body)
		switch g.rng.Intn(12) {
		case 0: // truncate
			b = b[:g.rng.Intn(len(b)+1)]
			class += "/truncated"
		case 1: // bit flip
			if len(b) > 0 {
				b[g.rng.Intn(len(b))] ^= 1 << uint(g.rng.Intn(8))
			}
			class += "/bitflip"
		case 2: // splice
			other, _ := g.jsonrpcBody()
			k := g.rng.Intn(len(b) + 1)
			b = append(append([]byte{}, b[:k]...), []byte(other)[g.rng.Intn(len(other)):]...)
			class += "/splice"
		case 3: // oversize
			b = append(b, []byte(strings.Repeat(" ", 1100))...)
			class += "/oversize"
		}
		method := "POST"
		if g.rng.Intn(15) == 0 {
			method = g.pick([]string{"GET", "PUT", "HEAD", "DELETE", "OPTIONS"})
			class += "/" + method
		}
		return c08Input{Kind: "http", Method: method, Path: g.pick([]string{"/", "/", "/", "/rpc", "/x/y"}), Body: base64.StdEncoding.EncodeToString(b), Class: class}
	case r < 85:
		var p, class string
		switch g.rng.Intn(4) {
		case 0:
			p, class = "/api/v1/slot-to-cid/"+strings.Trim(g.slotValue(), `"`), "api/slot-to-cid"
		case 1:
			p, class = "/api/v1/sig-to-cid/"+strings.Trim(g.strValue(g.sigs), `"`), "api/sig-to-cid"
		case 2:
			p, class = g.pick([]string{"/metrics", "/health", "/api/v1/", "/api/v1", "/api", "/api/v1/foo/1", "/api/v1/slot-to-cid/", "/api/v1/sig-to-cid/", "/api/v1/slot-to-cid", "/api/v1/sig-to-cid", "/api/v1/slot-to-ci", "/api/v1/sig-to-cid//", "/api/v1/slot-to-cid/1/2", "//api/v1/slot-to-cid/1", "/api/v1/slot-to-cid/?x=1"}), "api/other"
		default:
			p, class = "/"+strings.Repeat("a", g.rng.Intn(300)), "path/junk"
		}
		p = strings.Map(func(r rune) rune {
			if r < 33 || r > 126 || r == '"' || r == '{' || r == '}' || r == '\\' {
				return 'x'
			}
			return r
		}, p)
		return c08Input{Kind: "http", Method: g.pick([]string{"GET", "GET", "GET", "POST", "PUT", "HEAD"}), Path: p, Class: class}
	default:
		b := make([]byte, g.rng.Intn(200))
		g.rng.Read(b)
		return c08Input{Kind: "http", Method: "POST", Path: "/", Body: base64.StdEncoding.EncodeToString(b), Class: "body/random-bytes"}
	}
}

func (g *c08Gen) slotU() uint64 {
	switch g.rng.Intn(8) {
	case 0, 1, 2:
		return g.slots[g.rng.Intn(len(g.slots))]
	case 3:
		return g.skip[g.rng.Intn(len(g.skip))]
	case 4:
		return g.unload[g.rng.Intn(len(g.unload))]
	case 5:
		return 0
	case 6:
		return math.MaxUint64
	default:
		return uint64(g.rng.Int63())
	}
}

func (g *c08Gen) accountStr() string {
	return g.pick(append([]string{"", "l0OI", "abc", strings.Repeat("1", 31), strings.Repeat("1", 33), strings.Repeat("z", 44), "\x00\xff", "11111111111111111111111111111111"}, g.addrs[:3]...))
}

func (g *c08Gen) accounts() []string {
	n := g.rng.Intn(3)
	var out []string
	for i := 0; i < n; i++ {
		out = append(out, g.accountStr())
	}
	return out
}

func (g *c08Gen) grpcInput() c08Input {
	enc := func(m proto.Message) string {
		b, _ := proto.Marshal(m)
		return base64.StdEncoding.EncodeToString(b)
	}
	sigBytes := func() []byte {
		switch g.rng.Intn(6) {
		case 0:
			return nil
		case 1:
			return make([]byte, 63)
		case 2:
			return make([]byte, 65)
		case 3:
			b := make([]byte, 64)
			g.rng.Read(b)
			return b
		default:
			s, _ := solana.SignatureFromBase58(g.pick(g.sigs))
			return s[:]
		}
	}
	optU := func() *uint64 {
		if g.rng.Intn(3) == 0 {
			return nil
		}
		v := g.slotU()
		return &v
	}
	optB := func() *bool {
		switch g.rng.Intn(3) {
		case 0:
			return nil
		case 1:
			v := true
			return &v
		}
		v := false
		return &v
	}
	endFor := func(start uint64) *uint64 {
		switch g.rng.Intn(5) {
		case 0:
			return nil
		case 1:
			v := start - uint64(g.rng.Intn(5))
			return &v
		case 2:
			v := uint64(math.MaxUint64)
			return &v
		default:
			v := start + uint64(g.rng.Intn(2000))
			return &v
		}
	}
	switch g.rng.Intn(8) {
	case 0:
		return c08Input{Kind: "grpc", RPC: "GetVersion", Msgs: []string{enc(&old_faithful_grpc.VersionRequest{})}, Class: "grpc/GetVersion"}
	case 1:
		return c08Input{Kind: "grpc", RPC: "GetBlock", Msgs: []string{enc(&old_faithful_grpc.BlockRequest{Slot: g.slotU()})}, Class: "grpc/GetBlock"}
	case 2:
		return c08Input{Kind: "grpc", RPC: "GetBlockTime", Msgs: []string{enc(&old_faithful_grpc.BlockTimeRequest{Slot: g.slotU()})}, Class: "grpc/GetBlockTime"}
	case 3:
		sb := sigBytes()
		return c08Input{Kind: "grpc", RPC: "GetTransaction", Msgs: []string{enc(&old_faithful_grpc.TransactionRequest{Signature: sb})}, Class: fmt.Sprintf("grpc/GetTransaction/siglen%d", len(sb))}
	case 4:
		start := g.slotU()
		m := &old_faithful_grpc.StreamBlocksRequest{StartSlot: start, EndSlot: endFor(start)}
		class := "grpc/StreamBlocks/nofilter"
		if g.rng.Intn(2) == 0 {
			m.Filter = &old_faithful_grpc.StreamBlocksFilter{AccountInclude: g.accounts()}
			class = fmt.Sprintf("grpc/StreamBlocks/filter%d", len(m.Filter.AccountInclude))
		}
		return c08Input{Kind: "grpc", RPC: "StreamBlocks", Msgs: []string{enc(m)}, Class: class}
	case 5, 6:
		start := g.slotU()
		m := &old_faithful_grpc.StreamTransactionsRequest{StartSlot: start, EndSlot: endFor(start)}
		class := "grpc/StreamTransactions/nofilter"
		if g.rng.Intn(4) != 0 {
			f := &old_faithful_grpc.StreamTransactionsFilter{Vote: optB(), Failed: optB(), AccountInclude: g.accounts(), AccountExclude: g.accounts(), AccountRequired: g.accounts()}
			m.Filter = f
			class = fmt.Sprintf("grpc/StreamTransactions/vote%v-failed%v-inc%d-exc%d-req%d", f.Vote != nil, f.Failed != nil, len(f.AccountInclude), len(f.AccountExclude), len(f.AccountRequired))
		}
		return c08Input{Kind: "grpc", RPC: "StreamTransactions", Msgs: []string{enc(m)}, Class: class}
	default:
		n := 1 + g.rng.Intn(5)
		var msgs []string
		for i := 0; i < n; i++ {
			r := &old_faithful_grpc.GetRequest{Id: uint64(i)}
			switch g.rng.Intn(6) {
			case 0:
				r.Request = &old_faithful_grpc.GetRequest_Version{Version: &old_faithful_grpc.VersionRequest{}}
			case 1:
				r.Request = &old_faithful_grpc.GetRequest_Block{Block: &old_faithful_grpc.BlockRequest{Slot: g.slotU()}}
			case 2:
				r.Request = &old_faithful_grpc.GetRequest_BlockTime{BlockTime: &old_faithful_grpc.BlockTimeRequest{Slot: g.slotU()}}
			case 3:
				r.Request = &old_faithful_grpc.GetRequest_Transaction{Transaction: &old_faithful_grpc.TransactionRequest{Signature: sigBytes()}}
			case 4:
				// oneof left unset
			case 5:
				r.Request = &old_faithful_grpc.GetRequest_Block{} // oneof set, inner message nil
			}
			msgs = append(msgs, enc(r))
		}
		_ = optU
		return c08Input{Kind: "grpc", RPC: "Get", Msgs: msgs, Class: fmt.Sprintf("grpc/Get/%d", n)}
	}
}

func TestVerifC08(t *testing.T) {
	rec := ev.New("C08", "crash-monitor")
	defer rec.Flush()
	rec.Rule("HTTP requests from a JSON-RPC grammar (methods x params shapes x ill-typed values x options x ids, truncation, bit flips, splices, oversize, other verbs/paths, /api/v1, random bytes) and gRPC messages over all RPCs (zero values, absent optionals, malformed accounts/signatures, reversed/huge ranges, Get streams incl. unset oneof; well-formed streams over many accounts that share slots) against archives that include metadata-less and instruction-less transactions, executed in child processes with 0, 1 and 3 epochs loaded; distinct = distinct (epochs loaded, surface/method/params-shape class)")
	seed := ev.Seed()
	root := filepath.Join(ev.Scratch(), "c08")
	os.MkdirAll(root, 0o755)
	defer os.RemoveAll(root)
	epochs := []uint64{3, 4, 6}
	fxs := make([]*vfEpochFx, len(epochs))
	// a small account universe: the same accounts meet in many transactions and slots
	var universe []solana.PublicKey
	for i := 0; i < 10; i++ {
		var k solana.PublicKey
		copy(k[:], []byte(fmt.Sprintf("C08-universe-account-%d-padpadpadpad", i)))
		universe = append(universe, k)
	}
	var wg sync.WaitGroup
	for i, e := range epochs {
		wg.Add(1)
		go func(i int, e uint64) {
			defer wg.Done()
			// instruction-less transactions only in the epoch that gets no address index (the address indexer
			// classifies votes itself: a fault there would end the set-up instead of being observed on a request)
			noInstr := 0
			if i == 2 {
				noInstr = 4
			}
			fx, ierr, err := vfMakeEpoch(filepath.Join(root, fmt.Sprintf("e%d", e)), cargen.Opts{Epoch: e, Seed: seed + int64(e), NSlots: 120, SkipOneIn: 3, MaxEntries: 2, MaxTx: 3, MultiFrameOneIn: 6, VoteOneIn: 3, FailOneIn: 3, V0OneIn: 3, RewardsOneIn: 3, TinyOneIn: 9, NoInstrOneIn: noInstr, Universe: universe}, i != 2)
			if err != nil || ierr != "" {
				t.Errorf("fixture: %v %s", err, ierr)
				return
			}
			fxs[i] = fx
		}(i, e)
	}
	wg.Wait()
	if t.Failed() {
		t.FailNow()
	}
	g := &c08Gen{rng: rand.New(rand.NewSource(seed ^ 0xC08))}
	for _, fx := range fxs {
		m := fx.Model
		base := m.Epoch * cargen.SlotsPerEpoch
		for s := base; s < base+120; s++ {
			if _, ok := m.BySlot[s]; !ok {
				g.skip = append(g.skip, s)
			}
		}
		for _, b := range m.Blocks {
			g.slots = append(g.slots, b.Slot)
			for _, tx := range b.Txs {
				if len(g.sigs) < 300 {
					g.sigs = append(g.sigs, tx.Sig.String())
					g.addrs = append(g.addrs, tx.Static[len(tx.Static)-2].String())
				}
			}
		}
	}
	g.unload = []uint64{0, 1, 5 * cargen.SlotsPerEpoch, 5*cargen.SlotsPerEpoch + 7, 900 * cargen.SlotsPerEpoch}
	nHTTP, nGRPC := ev.Pick(12000, 150000), ev.Pick(4000, 50000)
	var inputs []c08Input
	for i := 0; i < nHTTP; i++ {
		inputs = append(inputs, g.httpInput())
	}
	for i := 0; i < nGRPC; i++ {
		inputs = append(inputs, g.grpcInput())
	}
	// directed: every method with params absent / null and every stream with absent filter members
	for _, m := range []string{"getBlock", "getTransaction", "getSignaturesForAddress", "getBlockTime", "getGenesisHash", "getFirstAvailableBlock", "getSlot", "getVersion"} {
		for _, p := range []string{"", `,"params":null`, `,"params":[]`, `,"params":[null]`, `,"params":{}`} {
			inputs = append(inputs, c08Input{Kind: "http", Method: "POST", Path: "/", Body: base64.StdEncoding.EncodeToString([]byte(fmt.Sprintf(`{"jsonrpc":"2.0","id":1,"method":%q%s}`, m, p))), Class: "jsonrpc/" + m + "/directed"})
		}
	}
	// directed: otherwise valid requests on archived keys with exactly ONE option member hostile
	{
		hostile := []string{"null", "true", "false", "0", "1", "-1", "1.5", "1e40", `""`, `"x"`, `"base64"`, `"full"`, `"none"`, `"finalized"`, "[]", "{}", `[null]`, `{"a":null}`}
		members := []string{"encoding", "commitment", "maxSupportedTransactionVersion", "transactionDetails", "rewards", "limit", "before", "until", "minContextSlot", "unknownMember"}
		firsts := map[string][]string{
			"getBlock":                {fmt.Sprint(g.slots[0]), fmt.Sprint(g.slots[len(g.slots)/2]), fmt.Sprint(g.slots[len(g.slots)-1])},
			"getTransaction":          {`"` + g.sigs[0] + `"`, `"` + g.sigs[len(g.sigs)/2] + `"`},
			"getSignaturesForAddress": {`"` + g.addrs[0] + `"`, `"` + g.addrs[len(g.addrs)/2] + `"`},
			"getBlockTime":            {fmt.Sprint(g.slots[1])},
		}
		for m, fs := range firsts {
			for _, first := range fs {
				for _, mem := range members {
					for _, hv := range hostile {
						for _, base := range []string{"", `"encoding":"base64",`} {
							if base != "" && mem == "encoding" {
								continue
							}
							body := fmt.Sprintf(`{"jsonrpc":"2.0","id":1,"method":%q,"params":[%s,{%s%q:%s}]}`, m, first, base, mem, hv)
							inputs = append(inputs, c08Input{Kind: "http", Method: "POST", Path: "/", Body: base64.StdEncoding.EncodeToString([]byte(body)), Class: "jsonrpc/" + m + "/one-hostile-option/" + mem})
						}
					}
				}
				// options position holding a non-object, and extra positional params
				for _, hv := range hostile {
					body := fmt.Sprintf(`{"jsonrpc":"2.0","id":1,"method":%q,"params":[%s,%s]}`, m, first, hv)
					inputs = append(inputs, c08Input{Kind: "http", Method: "POST", Path: "/", Body: base64.StdEncoding.EncodeToString([]byte(body)), Class: "jsonrpc/" + m + "/options-not-object"})
				}
			}
		}
	}
	// directed: the REST paths with nothing, or nothing usable, after the endpoint name
	for _, pth := range []string{"/api/v1", "/api/v1/", "/api/v1/slot-to-cid", "/api/v1/sig-to-cid", "/api/v1/slot-to-cid/", "/api/v1/sig-to-cid/", "/api/v1/slot-to-ci", "/api/v1/sig-to-ci", "/api/v1/slot-to-cid//", "/api/v1/sig-to-cid/%", "/api/v1/slot-to-cid/-1", "/api/v1/slot-to-cid/18446744073709551616"} {
		for _, meth := range []string{"GET", "POST", "HEAD"} {
			inputs = append(inputs, c08Input{Kind: "http", Method: meth, Path: pth, Class: "api/bare-endpoint"})
		}
	}
	// directed: well-formed StreamTransactions requests naming many accounts that occur together in the same
	// slots (with an address index loaded the server works on them in parallel), every vote / failed setting
	{
		var all []string
		for _, k := range universe {
			all = append(all, k.String())
		}
		tr, fa := true, false
		bools := []*bool{nil, &tr, &fa}
		nRep := ev.Pick(10, 60)
		for rep := 0; rep < nRep; rep++ {
			for fi, fx := range fxs {
				base := fx.Model.Epoch * cargen.SlotsPerEpoch
				end := base + 119
				for vi, v := range bools {
					m := &old_faithful_grpc.StreamTransactionsRequest{StartSlot: base, EndSlot: &end}
					m.Filter = &old_faithful_grpc.StreamTransactionsFilter{Vote: v, Failed: bools[(vi+rep)%3], AccountInclude: all[:4+(rep+fi+vi)%7]}
					b, _ := proto.Marshal(m)
					inputs = append(inputs, c08Input{Kind: "grpc", RPC: "StreamTransactions", Msgs: []string{base64.StdEncoding.EncodeToString(b)}, Class: "grpc/StreamTransactions/many-valid-accounts"})
				}
			}
		}
	}
	rng := rand.New(rand.NewSource(seed))
	rng.Shuffle(len(inputs), func(i, j int) { inputs[i], inputs[j] = inputs[j], inputs[i] })
	var rin []c08Input
	if ev.LoadReplay(&rin) && len(rin) > 0 {
		inputs = rin
	}

	configs := [][]string{{}, {fxs[0].CfgPath}, {fxs[0].CfgPath, fxs[1].CfgPath, fxs[2].CfgPath}}
	batch := 1500
	type job struct {
		ci       int
		from, to int
	}
	var jobs []job
	for ci := range configs {
		for from := 0; from < len(inputs); from += batch {
			to := from + batch
			if to > len(inputs) {
				to = len(inputs)
			}
			jobs = append(jobs, job{ci, from, to})
		}
	}
	sem := make(chan struct{}, 6)
	var jw sync.WaitGroup
	for ji, jb := range jobs {
		if rec.Enough() {
			break
		}
		jw.Add(1)
		sem <- struct{}{}
		go func(ji int, jb job) {
			defer func() { <-sem; jw.Done() }()
			part := inputs[jb.from:jb.to]
			inFile := filepath.Join(root, fmt.Sprintf("inputs-%d.json", ji))
			pb, _ := json.Marshal(part)
			os.WriteFile(inFile, pb, 0o644)
			from := 0
			for attempt := 0; from < len(part) && attempt < 25; attempt++ {
				journal := filepath.Join(root, fmt.Sprintf("journal-%d-%d", ji, attempt))
				args := c08BatchArgs{Configs: configs[jb.ci], InputFile: inFile, Journal: journal, From: from}
				if len(configs[jb.ci]) > 0 {
					args.HasCanary, args.CanarySlot = true, fxs[0].Model.Blocks[1].Slot
				}
				r := vfRunChild("c08", args, 4*time.Minute)
				var res c08BatchResult
				if r.Result != nil {
					json.Unmarshal(r.Result, &res)
				}
				for _, p := range res.Panics {
					in := part[p.Index]
					key := "handler-panic/" + c08Frame(p.Stack)
					rec.Violation(key, fmt.Sprintf("epochs loaded=%d input class %s: panic: %s\n%s", len(configs[jb.ci]), in.Class, p.Msg, p.Stack), []c08Input{in})
				}
				if r.Result != nil && r.Err == "" {
					for i := from; i < res.Done; i++ {
						rec.Eval(1)
						rec.Distinct(fmt.Sprintf("%d|%s", len(configs[jb.ci]), part[i].Class))
					}
					if !res.CanaryOK {
						rec.Violation("server-stops-serving-after-batch", fmt.Sprintf("epochs loaded=%d: canary failed after inputs %d..%d: %s", len(configs[jb.ci]), from, res.Done, res.CanaryMsg), part[from:min(res.Done, from+50)])
					}
					if res.Done >= len(part) {
						break
					}
					from = res.Done
					continue
				}
				if r.TimedOut {
					jb3, _ := os.ReadFile(journal)
					l3 := strings.Fields(string(jb3))
					lastIn := "?"
					if len(l3) > 0 {
						var li int
						fmt.Sscan(l3[len(l3)-1], &li)
						if li < len(part) {
							ib, _ := json.Marshal(part[li])
							lastIn = string(ib)
						}
					}
					rec.Inconclusive(fmt.Sprintf("batch %d: child watchdog fired (inputs %d..); last journaled input: %.600s; output: %.1500s", ji, from, lastIn, r.Output))
					break
				}
				if r.Err != "" {
					rec.Inconclusive(fmt.Sprintf("batch %d: child set-up failed: %s", ji, r.Err))
					break
				}
				// the child died: attribute to the last journaled input
				jb2, _ := os.ReadFile(journal)
				lines := strings.Fields(string(jb2))
				if len(lines) == 0 {
					rec.Inconclusive(fmt.Sprintf("batch %d: child died before the first input: %.400s", ji, r.Output))
					break
				}
				var last int
				fmt.Sscan(lines[len(lines)-1], &last)
				for i := from; i < last; i++ {
					rec.Eval(1)
				}
				// A panic in a goroutine spawned by a handler does not stop the main goroutine at once:
				// a few more inputs may have been journaled before the process went down.  Re-run the
				// last journaled inputs one per child to find the one that kills the process on its own.
				culprits := 0
				for cand := last; cand >= from && cand > last-4; cand-- {
					j2 := filepath.Join(root, fmt.Sprintf("journal-%d-%d-c%d", ji, attempt, cand))
					a2 := c08BatchArgs{Configs: configs[jb.ci], InputFile: inFile, Journal: j2, From: cand, To: cand + 1}
					r2 := vfRunChild("c08", a2, 5*time.Minute)
					if r2.Result == nil && r2.Err == "" && !r2.TimedOut {
						culprits++
						in := part[cand]
						rec.Violation("process-death/"+c08Frame(r2.Output), fmt.Sprintf("epochs loaded=%d input class %s: the server process died handling this input (re-run alone in a fresh process):\n%.3000s", len(configs[jb.ci]), in.Class, r2.Output), []c08Input{in})
					}
				}
				if culprits == 0 {
					lo := max(from, last-3)
					rec.Violation("process-death/"+c08Frame(r.Output), fmt.Sprintf("epochs loaded=%d: the server process died while handling inputs %d..%d of a batch (none of them kills a fresh process on its own):\n%.3000s", len(configs[jb.ci]), lo, last, r.Output), part[lo:last+1])
				}
				from = last + 1
			}
		}(ji, jb)
	}
	jw.Wait()
	rec.Sample(inputs[0])
	rec.Sample(inputs[len(inputs)/2])
	rec.Sample(inputs[len(inputs)-1])
	rec.Note("inputs", len(inputs))
}

// c08Frame extracts the innermost repository frame of a stack dump (stable violation key).
func c08Frame(stack string) string {
	lines := strings.Split(stack, "\n")
	for i, ln := range lines {
		ln = strings.TrimSpace(ln)
		if !strings.HasPrefix(ln, "github.com/rpcpool/yellowstone-faithful") {
			continue
		}
		// the line after a function line names its file: skip the harness's own frames
		if i+1 < len(lines) && (strings.Contains(lines[i+1], "zz_verif") || strings.Contains(lines[i+1], "/zzverif/")) {
			continue
		}
		fn := ln
		if j := strings.LastIndex(fn, "("); j > 0 {
			fn = fn[:j]
		}
		fn = strings.TrimPrefix(fn, "github.com/rpcpool/yellowstone-faithful")
		return strings.Trim(fn, "./")
	}
	return "unknown-frame"
}
