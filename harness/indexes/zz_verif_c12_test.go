//go:build verif

package indexes_test

// C12 — parsers of external data return errors, never crash, on arbitrary bytes.
//
// This file: the drivers (which exported entry points are called on each input, as named steps) and
// the test entry points.  Every case runs in a child process (zzverif/c12kit): each step under
// recover() with an allocation meter, RLIMIT_AS (2 GiB above the footprint of the child), journal-based attribution of deaths, a
// read-syscall budget and a wall-clock watchdog (inconclusive only).
//
// Oracle, per step: no panic, no process death, heap allocation during the step <= 256 MiB for an
// input <= 1 MiB (288 MiB for the linked log, whose reader has a deliberate 256 MiB record cap),
// no more iterations / read system calls than the stated budgets.  An error return is always fine.

import (
	"bytes"
	"context"
	"encoding/binary"
	"errors"
	"fmt"
	"io"
	"os"
	"path/filepath"
	"sort"
	"strconv"
	"strings"
	"sync"
	"testing"
	"time"

	"github.com/gagliardetto/solana-go"
	"github.com/ipfs/go-cid"
	"github.com/rpcpool/yellowstone-faithful/blocktimeindex"
	"github.com/rpcpool/yellowstone-faithful/bucketteer"
	"github.com/rpcpool/yellowstone-faithful/carreader"
	"github.com/rpcpool/yellowstone-faithful/compactindexsized"
	oldbucketteer "github.com/rpcpool/yellowstone-faithful/deprecated/bucketteer"
	"github.com/rpcpool/yellowstone-faithful/deprecated/compactindex"
	"github.com/rpcpool/yellowstone-faithful/deprecated/compactindex36"
	"github.com/rpcpool/yellowstone-faithful/gsfa"
	"github.com/rpcpool/yellowstone-faithful/gsfa/linkedlog"
	"github.com/rpcpool/yellowstone-faithful/gsfa/manifest"
	"github.com/rpcpool/yellowstone-faithful/indexes"
	"github.com/rpcpool/yellowstone-faithful/indexmeta"
	"github.com/rpcpool/yellowstone-faithful/ipld/ipldbindcode"
	"github.com/rpcpool/yellowstone-faithful/iplddecoders"
	solanatxmetaparsers "github.com/rpcpool/yellowstone-faithful/solana-tx-meta-parsers"
	"github.com/rpcpool/yellowstone-faithful/tooling"
	"github.com/rpcpool/yellowstone-faithful/zzverif/c12kit"
	"github.com/rpcpool/yellowstone-faithful/zzverif/ev"
)

const c12ChildTest = "TestVerifC12Child"

var c12GroupOrder = []string{"ipld", "car", "compact", "meta", "sigexists", "blocktime", "linkedlog", "manifest", "gsfa", "txmeta"}

func init() {
	llLimit := func(step string, n int) uint64 { return c12kit.DefaultAllocLimit(step, n) + 32<<20 }
	c12kit.Groups["ipld"] = &c12kit.Group{Name: "ipld", Gen: c12GenIpld}
	c12kit.Groups["car"] = &c12kit.Group{Name: "car", Gen: c12GenCar}
	c12kit.Groups["compact"] = &c12kit.Group{Name: "compact", Gen: c12GenCompact}
	c12kit.Groups["meta"] = &c12kit.Group{Name: "meta", Gen: c12GenMeta}
	c12kit.Groups["sigexists"] = &c12kit.Group{Name: "sigexists", Gen: c12GenSigExists}
	c12kit.Groups["blocktime"] = &c12kit.Group{Name: "blocktime", Gen: c12GenBlocktime}
	c12kit.Groups["linkedlog"] = &c12kit.Group{Name: "linkedlog", Gen: c12GenLinkedLog, AllocLimit: llLimit}
	c12kit.Groups["manifest"] = &c12kit.Group{Name: "manifest", Gen: c12GenManifest}
	c12kit.Groups["gsfa"] = &c12kit.Group{Name: "gsfa", Gen: c12GenGsfa, AllocLimit: llLimit}
	c12kit.Groups["txmeta"] = &c12kit.Group{Name: "txmeta", Gen: c12GenTxMeta}

	c12kit.Drivers["ipld"] = c12DriveIpld
	c12kit.Drivers["car"] = c12DriveCar
	c12kit.Drivers["cis"] = c12DriveCis
	c12kit.Drivers["dci"] = c12DriveDci
	c12kit.Drivers["dci36"] = c12DriveDci36
	c12kit.Drivers["meta"] = c12DriveMeta
	c12kit.Drivers["sigexists"] = c12DriveSigExists
	c12kit.Drivers["sigexists-old"] = c12DriveSigExistsOld
	c12kit.Drivers["blocktime"] = c12DriveBlocktime
	c12kit.Drivers["linkedlog"] = c12DriveLinkedLog
	c12kit.Drivers["llbytes"] = c12DriveLLBytes
	c12kit.Drivers["manifest"] = c12DriveManifest
	c12kit.Drivers["gsfa"] = c12DriveGsfa
	c12kit.Drivers["txmeta"] = c12DriveTxMeta
	c12kit.Drivers["zstd"] = c12DriveZstd
}

// ---------------------------------------------------------------- entry points of the test binary

func TestVerifC12Child(t *testing.T) {
	is, err := c12kit.ChildMain()
	if !is {
		t.Skip("not a child")
	}
	if err != nil {
		t.Fatalf("child: %v", err)
	}
}

func TestVerifC12(t *testing.T) {
	fix := filepath.Join(ev.Scratch(), "c12fix")
	os.RemoveAll(fix)
	func() {
		defer func() {
			if r := recover(); r != nil {
				t.Fatalf("fixture set-up failed: %v", r)
			}
		}()
		c12BuildFixtures(fix)
	}()
	c12FixDir = fix
	var wg sync.WaitGroup
	sem := make(chan struct{}, 6)
	for _, g := range c12GroupOrder {
		g := g
		if only := os.Getenv("C12_GROUPS"); only != "" && !strings.Contains(","+only+",", ","+g+",") {
			continue
		}
		wg.Add(1)
		go func() {
			defer wg.Done()
			sem <- struct{}{}
			defer func() { <-sem }()
			rec := ev.New("C12", g)
			defer rec.Flush()
			rec.Rule("distinct (entry point, mutated field, value class) triples executed; every case = one input driven through all steps of its entry point in a child process")
			r := &c12kit.Runner{Rec: rec, Group: g, FixDir: fix, Spawn: c12kit.SelfSpawn(c12ChildTest),
				ChildTimeout: time.Duration(ev.Pick(10, 40)) * time.Minute, HangSecs: ev.Pick(60, 180), ReadLimit: 500_000}
			r.Run()
			rec.Note("steps_returned_ok", r.OKSteps)
			rec.Note("steps_returned_error", r.ErrStep)
			if r.OKSteps == 0 && os.Getenv("VERIF_REPLAY") == "" {
				rec.Inconclusive(g + ": no step ever succeeded — the valid seed files are not accepted by the code under test (harness or tree problem)")
			}
		}()
	}
	wg.Wait()
	os.RemoveAll(fix)
}

var c12FixDir string

func c12Scratch() string {
	d := filepath.Join(ev.Scratch(), "c12work", strconv.Itoa(os.Getpid()))
	os.MkdirAll(d, 0o755)
	return d
}

// ---------------------------------------------------------------- ipld

var c12KindName = []string{"Transaction", "Entry", "Block", "Subset", "Epoch", "Rewards", "DataFrame"}

func c12DriveIpld(c *c12kit.Case, s *c12kit.Stepper) {
	in := c.In
	var tx *ipldbindcode.Transaction
	var df *ipldbindcode.DataFrame
	var bl *ipldbindcode.Block
	s.Do("iplddecoders.DecodeTransaction", func() (err error) { tx, err = iplddecoders.DecodeTransaction(in); return })
	s.Do("iplddecoders.DecodeEntry", func() error { _, err := iplddecoders.DecodeEntry(in); return err })
	s.Do("iplddecoders.DecodeBlock", func() (err error) { bl, err = iplddecoders.DecodeBlock(in); return })
	s.Do("iplddecoders.DecodeSubset", func() error { _, err := iplddecoders.DecodeSubset(in); return err })
	s.Do("iplddecoders.DecodeEpoch", func() error { _, err := iplddecoders.DecodeEpoch(in); return err })
	s.Do("iplddecoders.DecodeRewards", func() error { _, err := iplddecoders.DecodeRewards(in); return err })
	s.Do("iplddecoders.DecodeDataFrame", func() (err error) { df, err = iplddecoders.DecodeDataFrame(in); return })
	s.Do("iplddecoders.DecodeAny", func() error { _, err := iplddecoders.DecodeAny(in); return err })
	s.Do("iplddecoders.GetKind", func() error { _, err := iplddecoders.GetKind(in); return err })
	if tx != nil {
		s.Do("ipldbindcode.Transaction.GetSolanaTransaction", func() error { _, err := tx.GetSolanaTransaction(); return err })
		s.Do("ipldbindcode.Transaction.Signatures", func() error { _, err := tx.Signatures(); return err })
		s.Do("ipldbindcode.Transaction.Signature", func() error { _, err := tx.Signature(); return err })
		s.Do("ipldbindcode.Transaction.accessors", func() error {
			tx.GetPositionIndex()
			tx.HasIndex()
			for _, d := range []ipldbindcode.DataFrame{tx.Data, tx.Metadata} {
				d.GetHash()
				d.GetIndex()
				d.GetTotal()
				d.GetNext()
				d.Bytes()
			}
			return nil
		})
	}
	if df != nil {
		s.Do("ipldbindcode.DataFrame.accessors", func() error {
			df.GetHash()
			df.GetIndex()
			df.GetTotal()
			df.GetNext()
			df.Bytes()
			_, err := df.MarshalJSON()
			return err
		})
	}
	if bl != nil {
		s.Do("ipldbindcode.Block.accessors", func() error { bl.GetBlockHeight(); bl.Meta.GetBlockHeight(); return nil })
	}
}

// ---------------------------------------------------------------- car

func c12DriveCar(c *c12kit.Case, s *c12kit.Stepper) {
	in := c.In
	budget := len(in) + 8
	s.Do("carreader.ReadHeader", func() error { _, err := carreader.ReadHeader(bytes.NewReader(in)); return err })
	var hdrOK bool
	var cr0 *carreader.CarReader
	if s.Do("carreader.New", func() (err error) {
		cr0, err = carreader.New(io.NopCloser(bytes.NewReader(in)))
		hdrOK = err == nil
		return
	}) {
		s.Do("carreader.CarReader.HeaderSize", func() error { _, err := cr0.HeaderSize(); return err })
	}
	if !hdrOK {
		return
	}
	// every loop step opens its own reader, so that a step can be executed again (allocation attribution)
	loop := func(name string, next func(cr *carreader.CarReader) error) {
		iters := 0
		s.Do(name, func() error {
			iters = 0
			cr, err := carreader.New(io.NopCloser(bytes.NewReader(in)))
			if err != nil {
				return err
			}
			for {
				if err := next(cr); err != nil {
					return nil // error or EOF ends the loop: fine
				}
				iters++
				if iters > budget {
					return nil
				}
			}
		})
		if iters > budget {
			s.Budget(name, "no-progress-loop", fmt.Sprintf("%d sections returned from an input of %d bytes (every section consumes at least one byte)", iters, len(in)))
		}
	}
	loop("carreader.CarReader.NextNode", func(cr *carreader.CarReader) error { _, _, _, err := cr.NextNode(); return err })
	loop("carreader.CarReader.NextInfo", func(cr *carreader.CarReader) error { _, _, err := cr.NextInfo(); return err })
	loop("carreader.CarReader.NextNodeBytes", func(cr *carreader.CarReader) error { _, _, _, err := cr.NextNodeBytes(); return err })
}

// ---------------------------------------------------------------- compact indexes

func c12LookupKeys(c *c12kit.Case, keyLen int) [][]byte {
	keys := c12Keys(c12ChildFixDir(), c.AuxGet("seed"))
	absent := make([]byte, keyLen)
	for i := range absent {
		absent[i] = byte(0xa0 + i)
	}
	keys = append(keys, absent, []byte{}, []byte{0})
	return keys
}

func c12ChildFixDir() string {
	if c12kit.FixDir != "" {
		return c12kit.FixDir
	}
	return c12FixDir
}

func c12DriveCis(c *c12kit.Case, s *c12kit.Stepper) {
	in := c.In
	s.Do("compactindexsized.Header.Load", func() error { var h compactindexsized.Header; return h.Load(in) })
	keys := c12LookupKeys(c, 36)
	for _, prefetch := range []bool{false, true} {
		var db *compactindexsized.DB
		if !s.Do("compactindexsized.Open", func() (err error) { db, err = compactindexsized.Open(bytes.NewReader(in)); return }) {
			if s.Violated {
				return // the typed openers below call Open first: same observation, nothing new
			}
			break
		}
		db.Prefetch(prefetch)
		sfx := ""
		if prefetch {
			sfx = "+prefetch"
		}
		s.Do("compactindexsized.DB.GetKind", func() error { db.GetKind(); db.KindIs([]byte("x")); db.GetValueSize(); return nil })
		for _, k := range keys {
			k := k
			s.Do("compactindexsized.DB.Lookup"+sfx, func() error { _, err := db.Lookup(k); return err })
		}
		nb := uint(db.Header.NumBuckets)
		for _, i := range []uint{0, 1, nb / 2, nb - 1, nb} {
			var b *compactindexsized.Bucket
			if s.Do("compactindexsized.DB.GetBucket"+sfx, func() (err error) { b, err = db.GetBucket(i); return }) && !prefetch {
				s.Do("compactindexsized.Bucket.Load", func() error { _, err := b.Load(0); return err })
				s.Do("compactindexsized.Bucket.Load", func() error { _, err := b.Load(1); return err })
				s.Do("compactindexsized.Bucket.Lookup", func() error { _, err := b.Lookup(keys[0]); return err })
			}
		}
	}
	// the typed openers
	var r1 *indexes.CidToOffsetAndSize_Reader
	if s.Do("indexes.OpenWithReader_CidToOffsetAndSize", func() (err error) { r1, err = indexes.OpenWithReader_CidToOffsetAndSize(c12Bytes(in)); return }) {
		for _, k := range keys {
			if _, cc, err := cid.CidFromBytes(k); err == nil {
				s.Do("indexes.CidToOffsetAndSize_Reader.Get", func() error { _, err := r1.Get(cc); return err })
			}
		}
		s.Do("indexes.CidToOffsetAndSize_Reader.Meta", func() error { r1.Meta(); return nil })
	}
	var r2 *indexes.SlotToCid_Reader
	if s.Do("indexes.OpenWithReader_SlotToCid", func() (err error) { r2, err = indexes.OpenWithReader_SlotToCid(c12Bytes(in)); return }) {
		for _, k := range keys {
			if len(k) == 8 {
				s.Do("indexes.SlotToCid_Reader.Get", func() error { _, err := r2.Get(binary.LittleEndian.Uint64(k)); return err })
			}
		}
		s.Do("indexes.SlotToCid_Reader.Get", func() error { _, err := r2.Get(0); return err })
		s.Do("indexes.SlotToCid_Reader.Meta", func() error { r2.Meta(); r2.IsDeprecatedOldVersion(); return nil })
	}
	var r3 *indexes.SigToCid_Reader
	if s.Do("indexes.OpenWithReader_SigToCid", func() (err error) { r3, err = indexes.OpenWithReader_SigToCid(c12Bytes(in)); return }) {
		for _, k := range keys {
			if len(k) == 64 {
				var sg solana.Signature
				copy(sg[:], k)
				s.Do("indexes.SigToCid_Reader.Get", func() error { _, err := r3.Get(sg); return err })
			}
		}
		s.Do("indexes.SigToCid_Reader.Get", func() error { _, err := r3.Get(solana.Signature{1}); return err })
	}
	var r4 *indexes.PubkeyToOffsetAndSize_Reader
	if s.Do("indexes.OpenWithReader_PubkeyToOffsetAndSize", func() (err error) {
		r4, err = indexes.OpenWithReader_PubkeyToOffsetAndSize(c12Bytes(in))
		return
	}) {
		s.Do("indexes.PubkeyToOffsetAndSize_Reader.Get", func() error { _, err := r4.Get(solana.PublicKey{1, 2, 3}); return err })
	}
}

func c12DriveDci(c *c12kit.Case, s *c12kit.Stepper) {
	in := c.In
	keys := c12LookupKeys(c, 36)
	for _, prefetch := range []bool{false, true} {
		var db *compactindex.DB
		if !s.Do("deprecated/compactindex.Open", func() (err error) { db, err = compactindex.Open(bytes.NewReader(in)); return }) {
			break
		}
		db.Prefetch(prefetch)
		for _, k := range keys {
			k := k
			s.Do("deprecated/compactindex.DB.Lookup", func() error { _, err := db.Lookup(k); return err })
		}
		nb := uint(db.Header.NumBuckets)
		for _, i := range []uint{0, 1, nb - 1, nb} {
			var b *compactindex.Bucket
			if s.Do("deprecated/compactindex.DB.GetBucket", func() (err error) { b, err = db.GetBucket(i); return }) && !prefetch {
				s.Do("deprecated/compactindex.Bucket.Load", func() error { _, err := b.Load(0); return err })
			}
		}
	}
	var r *indexes.Deprecated_CidToOffset_Reader
	if s.Do("indexes.Deprecated_OpenWithReader_CidToOffset", func() (err error) { r, err = indexes.Deprecated_OpenWithReader_CidToOffset(c12Bytes(in)); return }) {
		for _, k := range keys {
			if _, cc, err := cid.CidFromBytes(k); err == nil {
				s.Do("indexes.Deprecated_CidToOffset_Reader.Get", func() error { _, err := r.Get(cc); return err })
			}
		}
	}
}

func c12DriveDci36(c *c12kit.Case, s *c12kit.Stepper) {
	in := c.In
	keys := c12LookupKeys(c, 64)
	for _, prefetch := range []bool{false, true} {
		var db *compactindex36.DB
		if !s.Do("deprecated/compactindex36.Open", func() (err error) { db, err = compactindex36.Open(bytes.NewReader(in)); return }) {
			break
		}
		db.Prefetch(prefetch)
		for _, k := range keys {
			k := k
			s.Do("deprecated/compactindex36.DB.Lookup", func() error { _, err := db.Lookup(k); return err })
		}
		nb := uint(db.Header.NumBuckets)
		for _, i := range []uint{0, 1, nb - 1, nb} {
			var b *compactindex36.Bucket
			if s.Do("deprecated/compactindex36.DB.GetBucket", func() (err error) { b, err = db.GetBucket(i); return }) && !prefetch {
				s.Do("deprecated/compactindex36.Bucket.Load", func() error { _, err := b.Load(0); return err })
			}
		}
	}
	// the typed openers fall back to the deprecated format when they see the old magic
	var r2 *indexes.SlotToCid_Reader
	if s.Do("indexes.OpenWithReader_SlotToCid(old-format)", func() (err error) { r2, err = indexes.OpenWithReader_SlotToCid(c12Bytes(in)); return }) {
		for _, k := range keys {
			if len(k) == 8 {
				s.Do("indexes.SlotToCid_Reader.Get(old-format)", func() error { _, err := r2.Get(binary.LittleEndian.Uint64(k)); return err })
			}
		}
		s.Do("indexes.SlotToCid_Reader.Get(old-format)", func() error { _, err := r2.Get(3024001); return err })
	}
	var r3 *indexes.SigToCid_Reader
	if s.Do("indexes.OpenWithReader_SigToCid(old-format)", func() (err error) { r3, err = indexes.OpenWithReader_SigToCid(c12Bytes(in)); return }) {
		for _, k := range keys {
			if len(k) == 64 {
				var sg solana.Signature
				copy(sg[:], k)
				s.Do("indexes.SigToCid_Reader.Get(old-format)", func() error { _, err := r3.Get(sg); return err })
			}
		}
	}
}

// ---------------------------------------------------------------- metadata

func c12UseMeta(s *c12kit.Stepper, prefix string, m indexmeta.Meta) {
	keys := [][]byte{indexmeta.MetadataKey_Epoch, indexmeta.MetadataKey_RootCid, indexmeta.MetadataKey_Network, indexmeta.MetadataKey_Kind, {}}
	for _, kv := range m.KeyVals {
		keys = append(keys, kv.Key)
	}
	if len(keys) > 16 {
		keys = keys[:16]
	}
	for _, k := range keys {
		k := k
		s.Do(prefix+".GetUint64", func() error { m.GetUint64(k); return nil })
		s.Do(prefix+".GetCid", func() error { m.GetCid(k); return nil })
		s.Do(prefix+".GetString", func() error { m.GetString(k); m.Get(k); m.GetAll(k); m.Count(k); return nil })
	}
	s.Do(prefix+".MarshalBinary", func() error { _, err := m.MarshalBinary(); m.HasDuplicateKeys(); return err })
}

func c12DriveMeta(c *c12kit.Case, s *c12kit.Stepper) {
	var m indexmeta.Meta
	if s.Do("indexmeta.Meta.UnmarshalBinary", func() error { return m.UnmarshalBinary(c.In) }) {
		c12UseMeta(s, "indexmeta.Meta", m)
	}
}

// ---------------------------------------------------------------- sig-exists

func c12Sigs(c *c12kit.Case) [][64]byte {
	var out [][64]byte
	for _, k := range c12Keys(c12ChildFixDir(), c.AuxGet("seed")) {
		if len(k) == 64 {
			var s [64]byte
			copy(s[:], k)
			out = append(out, s)
		}
	}
	for _, p := range [][2]byte{{0, 0}, {0xff, 0xff}, {0x34, 0x12}, {0x12, 0x34}, {1, 0}} {
		var s [64]byte
		s[0], s[1], s[2] = p[0], p[1], 0x77
		out = append(out, s)
	}
	return out
}

func c12DriveSigExists(c *c12kit.Case, s *c12kit.Stepper) {
	var r *bucketteer.Reader
	if !s.Do("bucketteer.NewReader", func() (err error) { r, err = bucketteer.NewReader(bytes.NewReader(c.In)); return }) {
		return
	}
	for _, sg := range c12Sigs(c) {
		sg := sg
		s.Do("bucketteer.Reader.Has", func() error { _, err := r.Has(sg); return err })
	}
	if m := r.Meta(); m != nil {
		c12UseMeta(s, "bucketteer.Reader.Meta", *m)
	}
}

func c12DriveSigExistsOld(c *c12kit.Case, s *c12kit.Stepper) {
	var r *oldbucketteer.Reader
	if !s.Do("deprecated/bucketteer.NewReader", func() (err error) { r, err = oldbucketteer.NewReader(bytes.NewReader(c.In)); return }) {
		return
	}
	for _, sg := range c12Sigs(c) {
		sg := sg
		s.Do("deprecated/bucketteer.Reader.Has", func() error { _, err := r.Has(sg); return err })
	}
	s.Do("deprecated/bucketteer.Reader.GetMeta", func() error { r.Meta(); r.GetMeta("epoch"); return nil })
}

// ---------------------------------------------------------------- block time

func c12DriveBlocktime(c *c12kit.Case, s *c12kit.Stepper) {
	in := c.In
	var ix *blocktimeindex.Index
	if !s.Do("blocktimeindex.FromBytes", func() (err error) { ix, err = blocktimeindex.FromBytes(in); return }) {
		return
	}
	var start, end, capacity uint64
	if len(in) >= 46 {
		start, end, capacity = binary.LittleEndian.Uint64(in[14:]), binary.LittleEndian.Uint64(in[22:]), binary.LittleEndian.Uint64(in[38:])
	}
	slots := []uint64{0, start, start + 1, end, end - 1, end + 1, (start + end) / 2, start + capacity - 1, start + capacity, start + capacity + 1, ^uint64(0)}
	for _, sl := range slots {
		sl := sl
		s.Do("blocktimeindex.Index.Get", func() error { _, err := ix.Get(sl); return err })
	}
	s.Do("blocktimeindex.Index.Epoch", func() error { ix.Epoch(); return nil })
	s.Do("blocktimeindex.FromReader", func() error { _, err := blocktimeindex.FromReader(bytes.NewReader(in)); return err })
}

// ---------------------------------------------------------------- linked log

func c12ParseRecords(c *c12kit.Case) (out [][2]uint64) {
	for _, p := range strings.Split(c.AuxGet("records"), ",") {
		var o, z uint64
		if n, _ := fmt.Sscanf(p, "%d:%d", &o, &z); n == 2 {
			out = append(out, [2]uint64{o, z})
		}
	}
	return
}

func c12DriveLinkedLog(c *c12kit.Case, s *c12kit.Stepper) {
	p := filepath.Join(c12Scratch(), "linked-log")
	if err := os.WriteFile(p, c.In, 0o644); err != nil {
		return
	}
	defer os.Remove(p)
	var ll *linkedlog.LinkedLog
	if !s.Do("linkedlog.NewLinkedLog", func() (err error) { ll, err = linkedlog.NewLinkedLog(p); return }) {
		return
	}
	defer ll.Close()
	recs := c12ParseRecords(c)
	n := uint64(len(c.In))
	offs := []uint64{0}
	for _, r := range recs {
		offs = append(offs, r[0])
	}
	offs = append(offs, 1, n-1, n, n+1, 1<<47, ^uint64(0))
	for _, o := range offs {
		o := o
		s.Do("linkedlog.LinkedLog.Read", func() error { _, _, err := ll.Read(o); return err })
	}
	sweep := strings.HasPrefix(c.Class, "valid") || strings.Contains(c.Class, "payloadLen") || strings.HasPrefix(c.Class, "handmade")
	for ri, r := range recs {
		sizes := []uint64{r[1], r[1] - 1, r[1] + 1, 0, 9, 10}
		if sweep && ri == 0 {
			sizes = append(sizes, 1, 2, 8, 11, 12, 18, 19, 20, 127, 128, 129, n, n+1, 1<<24-1, 256<<20, 256<<20+1, 1<<40, 1<<63, ^uint64(0))
		}
		for _, z := range sizes {
			o, z := r[0], z
			s.Do("linkedlog.LinkedLog.ReadWithSize", func() error { _, _, err := ll.ReadWithSize(o, z); return err })
		}
	}
}

func c12DriveLLBytes(c *c12kit.Case, s *c12kit.Stepper) {
	s.Do("linkedlog.OffsetAndSizeAndSlotSliceFromBytes", func() error { _, err := linkedlog.OffsetAndSizeAndSlotSliceFromBytes(c.In); return err })
	s.Do("linkedlog.OffsetAndSizeAndSlot.FromBytes", func() error { var o linkedlog.OffsetAndSizeAndSlot; return o.FromBytes(c.In) })
	s.Do("indexes.OffsetAndSize.FromBytes", func() error { var o indexes.OffsetAndSize; return o.FromBytes(c.In) })
	s.Do("indexes.OffsetAndSizeSliceFromBytes", func() error { _, err := indexes.OffsetAndSizeSliceFromBytes(c.In); return err })
}

// ---------------------------------------------------------------- manifest

func c12DriveManifest(c *c12kit.Case, s *c12kit.Stepper) {
	p := filepath.Join(c12Scratch(), "manifest")
	if err := os.WriteFile(p, c.In, 0o644); err != nil {
		return
	}
	defer os.Remove(p)
	var m *manifest.Manifest
	if !s.Do("manifest.NewManifest", func() (err error) { m, err = manifest.NewManifest(p, indexmeta.Meta{}); return }) {
		return
	}
	defer m.Close()
	s.Do("manifest.Manifest.ReadAll", func() error {
		v, err := m.ReadAll()
		v.First()
		v.Last()
		return err
	})
	s.Do("manifest.Manifest.ContentSizeBytes", func() error { _, err := m.ContentSizeBytes(); m.Version(); return err })
	c12UseMeta(s, "manifest.Manifest.Meta", m.Meta())
}

// ---------------------------------------------------------------- gsfa

func c12DriveGsfa(c *c12kit.Case, s *c12kit.Stepper) {
	fix := c12ChildFixDir()
	src := filepath.Join(fix, "gsfa", "valid")
	dst := filepath.Join(c12Scratch(), "gsfa")
	os.RemoveAll(dst)
	os.MkdirAll(dst, 0o755)
	defer os.RemoveAll(dst)
	for _, name := range []string{"pubkey-to-offset-and-size.index", "linked-log", "manifest"} {
		var b []byte
		if name == c.AuxGet("file") {
			b = c.In
		} else {
			b, _ = os.ReadFile(filepath.Join(src, name))
		}
		if err := os.WriteFile(filepath.Join(dst, name), b, 0o644); err != nil {
			return
		}
	}
	var r *gsfa.GsfaReader
	if !s.Do("gsfa.NewGsfaReader", func() (err error) { r, err = gsfa.NewGsfaReader(dst); return }) {
		return
	}
	defer r.Close()
	ctx := context.Background()
	var pks []solana.PublicKey
	for _, k := range c12Keys(fix, filepath.Join("gsfa", "valid")) {
		if len(k) == 32 {
			pks = append(pks, solana.PublicKeyFromBytes(k))
		}
	}
	pks = append(pks, solana.PublicKey{9, 9, 9})
	for _, pk := range pks {
		pk := pk
		for _, limit := range []int{1, 1000} {
			limit := limit
			s.Do("gsfa.GsfaReader.Get", func() error { _, err := r.Get(ctx, pk, limit); return err })
		}
		calls := 0
		s.Do("gsfa.GsfaReader.GetBeforeUntil", func() error {
			_, err := r.GetBeforeUntil(ctx, pk, 1000, nil, nil, func(l linkedlog.OffsetAndSizeAndSlot) (solana.Signature, error) {
				calls++
				if calls > 200000 {
					return solana.Signature{}, errors.New("harness: fetcher budget")
				}
				var sg solana.Signature
				binary.LittleEndian.PutUint64(sg[:], l.Offset)
				return sg, nil
			})
			return err
		})
	}
	s.Do("gsfa.GsfaReader.Meta", func() error { r.Version(); r.GetEpoch(); return nil })
	c12UseMeta(s, "gsfa.GsfaReader.Meta", r.Meta())
	// the same index through the multi-epoch reader (what getSignaturesForAddress and StreamTransactions use):
	// paging after a signature that is not in the list, and a slot window below every entry - neither query
	// ever fills its limit, so only the end of the list (or an error) can end the walk
	var multi *gsfa.GsfaReaderMultiepoch
	r.SetEpoch(7) // what the epoch loader does after opening the index
	if !s.Do("gsfa.NewGsfaReaderMultiepoch", func() (err error) {
		multi, err = gsfa.NewGsfaReaderMultiepoch([]*gsfa.GsfaReader{r})
		return
	}) || multi == nil {
		return
	}
	fetch := func(epoch uint64, l linkedlog.OffsetAndSizeAndSlot) (*ipldbindcode.Transaction, error) {
		buf := make([]byte, 65)
		buf[0] = 1
		binary.LittleEndian.PutUint64(buf[1:], l.Offset)
		tx := &ipldbindcode.Transaction{Slot: int(l.Slot & 0x7fffffffffff)}
		tx.Data.Data = buf
		return tx, nil
	}
	absent := solana.Signature{0xEE, 0xEE, 0xEE}
	for _, pk := range pks {
		pk := pk
		s.Do("gsfa.GsfaReaderMultiepoch.Get", func() error { _, err := multi.Get(ctx, pk, 1000, fetch); return err })
		s.Do("gsfa.GsfaReaderMultiepoch.GetBeforeUntil", func() error {
			_, err := multi.GetBeforeUntil(ctx, pk, 1000, &absent, nil, fetch)
			return err
		})
		s.Do("gsfa.GsfaReaderMultiepoch.GetBeforeUntilSlot", func() error {
			_, err := multi.GetBeforeUntilSlot(ctx, pk, 1000, 7*432000, 0, fetch)
			return err
		})
	}
}

// ---------------------------------------------------------------- transaction status metadata

func c12DriveTxMeta(c *c12kit.Case, s *c12kit.Stepper) {
	in := c.In
	s.Do("solanatxmetaparsers.ParseTransactionStatusMeta", func() error { _, err := solanatxmetaparsers.ParseTransactionStatusMeta(in); return err })
	viol := false
	s.Do("solanatxmetaparsers.ParseLegacyTransactionStatusMeta", func() error { _, err := solanatxmetaparsers.ParseLegacyTransactionStatusMeta(in); return err })
	viol = viol || s.Violated
	s.Do("solanatxmetaparsers.ParseLegacyTransactionStatusMetaOldest", func() error {
		_, err := solanatxmetaparsers.ParseLegacyTransactionStatusMetaOldest(in)
		return err
	})
	viol = viol || s.Violated
	if viol {
		return // ParseAny / the container call the same three parsers: same observation
	}
	s.Do("solanatxmetaparsers.ParseAnyTransactionStatusMeta", func() error { _, err := solanatxmetaparsers.ParseAnyTransactionStatusMeta(in); return err })
	var ct *solanatxmetaparsers.TransactionStatusMetaContainer
	if s.Do("solanatxmetaparsers.ParseTransactionStatusMetaContainer", func() (err error) {
		ct, err = solanatxmetaparsers.ParseTransactionStatusMetaContainer(in)
		return
	}) {
		s.Do("solanatxmetaparsers.TransactionStatusMetaContainer.accessors", func() error {
			ct.Ok()
			ct.IsEmpty()
			ct.IsProtobuf()
			ct.GetLoadedAccounts()
			ct.GetProtobuf()
			ct.GetSerdeLatest()
			ct.GetSerdeOldest()
			return nil
		})
	}
}

func c12DriveZstd(c *c12kit.Case, s *c12kit.Stepper) {
	var out []byte
	if s.Do("tooling.DecompressZstd", func() (err error) { out, err = tooling.DecompressZstd(c.In); return }) && len(out) < 1<<20 {
		s.Do("solanatxmetaparsers.ParseAnyTransactionStatusMeta(decompressed)", func() error {
			_, err := solanatxmetaparsers.ParseAnyTransactionStatusMeta(out)
			return err
		})
	}
}

var _ = sort.Ints
