//go:build verif

package indexes_test

// C12 — case generators (pure functions of the fixture directory, VERIF_SEED and the tier).

import (
	"bytes"
	"encoding/binary"
	"fmt"
	"math/rand"
	"os"
	"path/filepath"
	"strconv"
	"strings"

	"github.com/rpcpool/yellowstone-faithful/zzverif/c12kit"
	"github.com/rpcpool/yellowstone-faithful/zzverif/cargen"
	"github.com/rpcpool/yellowstone-faithful/zzverif/ev"
)

type c12ReaderAt struct{ *bytes.Reader }

func (c12ReaderAt) Close() error { return nil }

func c12Bytes(b []byte) c12ReaderAt { return c12ReaderAt{bytes.NewReader(b)} }

func c12Rng(group string) *rand.Rand {
	h := int64(0)
	for _, c := range group {
		h = h*131 + int64(c)
	}
	return rand.New(rand.NewSource(ev.Seed()*1_000_003 + h))
}

func c12Cases(entry string, muts []c12kit.Mut, aux map[string]string) []c12kit.Case {
	out := make([]c12kit.Case, 0, len(muts))
	for _, m := range muts {
		out = append(out, c12kit.Case{Entry: entry, Label: m.Label, Class: m.Class, In: m.Data, Aux: aux})
	}
	return out
}

func c12Valid(name string, b []byte) c12kit.Mut {
	return c12kit.Mut{Label: name + "/valid", Class: "valid|unchanged", Data: b}
}

// ---------------------------------------------------------------- ipld

func c12GenIpld(fixdir string) []c12kit.Case {
	rng := c12Rng("ipld")
	var out []c12kit.Case
	for _, s := range c12Seeds(fixdir, "nodes", ".bin") {
		kind := string(s.Name[len("nodes/k")])
		aux := map[string]string{"kind": kind}
		muts := []c12kit.Mut{c12Valid(s.Name, s.Data)}
		muts = append(muts, c12kit.CborMutants(s.Name, s.Data, ev.Pick(48, 400))...)
		muts = append(muts, c12kit.BitFlips(s.Name, s.Data, rng, ev.Pick(60, 3000))...)
		muts = append(muts, c12kit.Truncations(s.Name, s.Data, nil, rng, ev.Pick(10, 200))...)
		out = append(out, c12Cases("ipld", muts, aux)...)
		if kind == "0" {
			out = append(out, c12Cases("ipld", c12TxPayloadMutants(s, rng), aux)...)
		}
	}
	for kind := 0; kind <= 6; kind++ {
		aux := map[string]string{"kind": strconv.Itoa(kind)}
		out = append(out, c12Cases("ipld", c12kit.CborSpecials(kind), aux)...)
		blobs := c12kit.RandomBlobs(fmt.Sprintf("kind%d", kind), nil, rng, ev.Pick(2, 40))
		for i := range blobs {
			if len(blobs[i].Data) >= 2 {
				blobs[i].Data[0] = 0x80 | byte(rng.Intn(8))
				blobs[i].Data[1] = byte(kind)
			}
		}
		out = append(out, c12Cases("ipld", blobs, aux)...)
	}
	return out
}

// c12TxPayloadMutants keeps the Transaction node well-formed but makes the embedded solana transaction
// bytes hostile (hash set to null so that the payload reaches the transaction parser).
func c12TxPayloadMutants(s c12Seed, rng *rand.Rand) []c12kit.Mut {
	items := c12kit.CborItems(s.Data)
	var data, hash *c12kit.CborItem
	for i := range items {
		switch items[i].Path {
		case "r.1.4":
			data = &items[i]
		case "r.1.1":
			hash = &items[i]
		}
	}
	if data == nil || hash == nil || data.Major != 2 {
		return nil
	}
	payload := s.Data[data.HeadEnd:data.End]
	rebuild := func(p []byte) []byte {
		var d []byte
		d = append(d, s.Data[:hash.Off]...)
		d = append(d, 0xf6) // hash: null
		d = append(d, s.Data[hash.End:data.Off]...)
		d = append(d, cborBytesHead(len(p))...)
		d = append(d, p...)
		d = append(d, s.Data[data.End:]...)
		return d
	}
	var out []c12kit.Mut
	add := func(label, class string, p []byte) {
		out = append(out, c12kit.Mut{Label: s.Name + "/txpayload/" + label, Class: "txpayload|" + class, Data: rebuild(p)})
	}
	add("unchanged", "valid", payload)
	// compact-u16 / length bytes: every byte of the first 8 and of the message header region
	for i := 0; i < len(payload); i++ {
		if i > 8 && (i < 60 || i%7 != 0) && i < len(payload)-40 {
			continue
		}
		for _, v := range []byte{0x00, 0x01, 0x7f, 0x80, 0xff} {
			if payload[i] == v {
				continue
			}
			p := append([]byte(nil), payload...)
			p[i] = v
			add(fmt.Sprintf("byte@%d=%02x", i, v), fmt.Sprintf("byte=%02x", v), p)
		}
	}
	for i := 0; i+3 <= len(payload); i += 5 {
		p := append([]byte(nil), payload...)
		p[i], p[i+1], p[i+2] = 0xff, 0xff, 0x03 // compact-u16 65535
		add(fmt.Sprintf("compactu16-max@%d", i), "compactu16-max", p)
	}
	for _, cut := range []int{0, 1, 2, 63, 64, 65, 66, 100, len(payload) / 2, len(payload) - 1} {
		if cut >= 0 && cut < len(payload) {
			add(fmt.Sprintf("truncate@%d", cut), "truncate", payload[:cut])
		}
	}
	for i := 0; i < ev.Pick(40, 1500); i++ {
		p := append([]byte(nil), payload...)
		p[rng.Intn(len(p))] ^= 1 << uint(rng.Intn(8))
		add(fmt.Sprintf("bitflip#%d", i), "bitflip", p)
	}
	return out
}

func cborBytesHead(n int) []byte {
	switch {
	case n < 24:
		return []byte{0x40 | byte(n)}
	case n < 256:
		return []byte{0x58, byte(n)}
	case n < 65536:
		return []byte{0x59, byte(n >> 8), byte(n)}
	}
	return []byte{0x5a, byte(n >> 24), byte(n >> 16), byte(n >> 8), byte(n)}
}

// ---------------------------------------------------------------- car

func c12GenCar(fixdir string) []c12kit.Case {
	rng := c12Rng("car")
	var out []c12kit.Case
	for _, s := range c12Seeds(fixdir, "car", ".car") {
		_, hl, secs, err := cargen.ParseCar(s.Data)
		if err != nil || len(secs) == 0 {
			continue
		}
		var offs []int
		for _, i := range []int{0, 1, 2, len(secs) / 2, len(secs) - 2, len(secs) - 1} {
			if i >= 0 && i < len(secs) {
				offs = append(offs, int(secs[i].Offset))
			}
		}
		fields := c12kit.CarFields(s.Data, offs)
		muts := []c12kit.Mut{c12Valid(s.Name, s.Data)}
		muts = append(muts, c12kit.FieldMutants(s.Name, s.Data, fields)...)
		muts = append(muts, c12kit.Truncations(s.Name, s.Data, fields, rng, ev.Pick(20, 400))...)
		muts = append(muts, c12kit.HeaderSweep(s.Name, s.Data, 0, int(hl)+4)...)
		muts = append(muts, c12kit.BitFlips(s.Name, s.Data, rng, ev.Pick(150, 6000))...)
		// header CBOR mutants, re-wrapped with a consistent length prefix
		_, n := binary.Uvarint(s.Data)
		hdr := s.Data[n:hl]
		for _, m := range c12kit.CborMutants(s.Name+"/header", hdr, 40) {
			d := binary.AppendUvarint(nil, uint64(len(m.Data)))
			d = append(d, m.Data...)
			d = append(d, s.Data[hl:]...)
			muts = append(muts, c12kit.Mut{Label: m.Label, Class: "header-" + m.Class, Data: d})
		}
		// a section that is only a length prefix + CID (no data), sections of every tiny length
		for l := 0; l <= 40; l++ {
			d := append([]byte(nil), s.Data[:hl]...)
			d = binary.AppendUvarint(d, uint64(l))
			body := s.Data[int(secs[0].Offset)+1:]
			if l < len(body) {
				d = append(d, body[:l]...)
			}
			d = append(d, s.Data[secs[1].Offset:]...)
			muts = append(muts, c12kit.Mut{Label: fmt.Sprintf("%s/first-section-length-%d-consistent", s.Name, l), Class: "section0.length|tiny-consistent", Data: d})
		}
		out = append(out, c12Cases("car", muts, nil)...)
	}
	out = append(out, c12Cases("car", c12kit.RandomBlobs("car", []byte{0x0a, 0xa1, 0x67, 'v', 'e', 'r', 's', 'i', 'o', 'n', 0x01}, rng, ev.Pick(2, 40)), nil)...)
	return out
}

// ---------------------------------------------------------------- compact indexes

// c12RewriteSizedMeta re-serialises the header of a compactindexsized file with edited key-values
// (header length kept consistent), so that only the metadata VALUE is hostile.
func c12RewriteSizedMeta(valid []byte, edit func(kvs [][2][]byte) [][2][]byte) []byte {
	hl := int(binary.LittleEndian.Uint32(valid[8:12]))
	hdrEnd := 12 + hl
	p := 25
	n := int(valid[p])
	p++
	var kvs [][2][]byte
	for i := 0; i < n; i++ {
		kl := int(valid[p])
		k := valid[p+1 : p+1+kl]
		p += 1 + kl
		vl := int(valid[p])
		v := valid[p+1 : p+1+vl]
		p += 1 + vl
		kvs = append(kvs, [2][]byte{k, v})
	}
	kvs = edit(kvs)
	rest := append([]byte(nil), valid[12:25]...)
	rest = append(rest, byte(len(kvs)))
	for _, kv := range kvs {
		rest = append(rest, byte(len(kv[0])))
		rest = append(rest, kv[0]...)
		rest = append(rest, byte(len(kv[1])))
		rest = append(rest, kv[1]...)
	}
	out := append([]byte(nil), valid[:8]...)
	out = binary.LittleEndian.AppendUint32(out, uint32(len(rest)))
	out = append(out, rest...)
	return append(out, valid[hdrEnd:]...)
}

func c12MetaValueMutants(name string, valid []byte, rewrite func([]byte, func([][2][]byte) [][2][]byte) []byte) []c12kit.Mut {
	var out []c12kit.Mut
	for _, key := range []string{"epoch", "rootCid", "network", "kind"} {
		vals := [][]byte{{}, {1}, {1, 2, 3}, {1, 2, 3, 4, 5, 6, 7}, {1, 2, 3, 4, 5, 6, 7, 8, 9}, bytes.Repeat([]byte{0xff}, 255), {0x01, 0x71, 0x12, 0x20}, {0x01, 0x71, 0x12, 0xff, 0xff, 0xff, 0xff, 0x0f}, {0x12, 0x20}, bytes.Repeat([]byte{0x80}, 40)}
		for _, v := range vals {
			v := v
			d := rewrite(valid, func(kvs [][2][]byte) [][2][]byte {
				for i := range kvs {
					if string(kvs[i][0]) == key {
						kvs[i][1] = v
					}
				}
				return kvs
			})
			out = append(out, c12kit.Mut{Label: fmt.Sprintf("%s/meta.%s.value=len%d(%x)", name, key, len(v), trunc8(v)), Class: fmt.Sprintf("meta.%s.value|len%d", key, len(v)), Data: d})
		}
		// key removed, key duplicated
		d := rewrite(valid, func(kvs [][2][]byte) [][2][]byte {
			var o [][2][]byte
			for _, kv := range kvs {
				if string(kv[0]) != key {
					o = append(o, kv)
				}
			}
			return o
		})
		out = append(out, c12kit.Mut{Label: fmt.Sprintf("%s/meta.%s.removed", name, key), Class: "meta." + key + "|removed", Data: d})
	}
	d := rewrite(valid, func(kvs [][2][]byte) [][2][]byte { return nil })
	out = append(out, c12kit.Mut{Label: name + "/meta.all-removed", Class: "meta|all-removed", Data: d})
	return out
}

func trunc8(b []byte) []byte {
	if len(b) > 8 {
		return b[:8]
	}
	return b
}

func c12GenCompact(fixdir string) []c12kit.Case {
	rng := c12Rng("compact")
	var out []c12kit.Case
	for _, s := range c12Seeds(fixdir, "cis", ".index") {
		fields := c12kit.CompactIndexSizedFields(s.Data)
		muts := []c12kit.Mut{c12Valid(s.Name, s.Data)}
		muts = append(muts, c12kit.FieldMutants(s.Name, s.Data, fields)...)
		muts = append(muts, c12kit.Truncations(s.Name, s.Data, fields, rng, ev.Pick(10, 300))...)
		muts = append(muts, c12kit.HeaderSweep(s.Name, s.Data, 0, ev.Pick(40, 140))...)
		muts = append(muts, c12kit.BitFlips(s.Name, s.Data, rng, ev.Pick(80, 5000))...)
		muts = append(muts, c12kit.Extensions(s.Name, s.Data)...)
		if !strings.Contains(s.Name, "raw") {
			muts = append(muts, c12MetaValueMutants(s.Name, s.Data, c12RewriteSizedMeta)...)
		}
		out = append(out, c12Cases("cis", muts, map[string]string{"seed": s.Name})...)
	}
	out = append(out, c12Cases("cis", c12kit.RandomBlobs("cis", []byte("compiszd"), rng, ev.Pick(3, 60)), nil)...)
	// every header length 0..40 with a file of exactly / one less than that many bytes
	for hl := 0; hl <= 40; hl++ {
		for _, short := range []int{0, 1} {
			d := append([]byte("compiszd"), 0, 0, 0, 0)
			binary.LittleEndian.PutUint32(d[8:], uint32(hl))
			body := make([]byte, 64)
			binary.LittleEndian.PutUint64(body[0:], 8)
			binary.LittleEndian.PutUint32(body[8:], 1)
			body[12] = 1
			n := hl - short
			if n < 0 {
				continue
			}
			d = append(d, body[:min(n, len(body))]...)
			out = append(out, c12kit.Case{Entry: "cis", Label: fmt.Sprintf("cis/handmade/header.length=%d,file-has-%d-header-bytes", hl, n), Class: "header.length|tiny-handmade", In: d})
		}
	}
	for _, sub := range []string{"dci", "dci36"} {
		for _, s := range c12Seeds(fixdir, sub, ".index") {
			fields := c12kit.CompactIndexLegacyFields(s.Data)
			muts := []c12kit.Mut{c12Valid(s.Name, s.Data)}
			muts = append(muts, c12kit.FieldMutants(s.Name, s.Data, fields)...)
			muts = append(muts, c12kit.Truncations(s.Name, s.Data, fields, rng, ev.Pick(10, 300))...)
			muts = append(muts, c12kit.HeaderSweep(s.Name, s.Data, 0, 48)...)
			muts = append(muts, c12kit.BitFlips(s.Name, s.Data, rng, ev.Pick(60, 4000))...)
			out = append(out, c12Cases(sub, muts, map[string]string{"seed": s.Name})...)
		}
		out = append(out, c12Cases(sub, c12kit.RandomBlobs(sub, []byte("rdcecidx"), rng, ev.Pick(2, 40)), nil)...)
	}
	return out
}

// ---------------------------------------------------------------- index metadata

func c12GenMeta(fixdir string) []c12kit.Case {
	rng := c12Rng("meta")
	var out []c12kit.Case
	for _, s := range c12Seeds(fixdir, "meta", ".bin") {
		// metaFields is internal to the kit: a metadata blob embedded at offset 0 is described by the manifest table shifted
		muts := []c12kit.Mut{c12Valid(s.Name, s.Data)}
		muts = append(muts, c12kit.HeaderSweep(s.Name, s.Data, 0, len(s.Data))...)
		muts = append(muts, c12kit.Truncations(s.Name, s.Data, nil, rng, len(s.Data))...)
		muts = append(muts, c12kit.BitFlips(s.Name, s.Data, rng, ev.Pick(100, 3000))...)
		out = append(out, c12Cases("meta", muts, nil)...)
	}
	// hand-made: one KV "epoch"/"rootCid" with every value length 0..12
	for _, key := range []string{"epoch", "rootCid", "network", "kind", ""} {
		for vl := 0; vl <= 12; vl++ {
			d := []byte{1, byte(len(key))}
			d = append(d, key...)
			d = append(d, byte(vl))
			for i := 0; i < vl; i++ {
				d = append(d, byte(i+1))
			}
			out = append(out, c12kit.Case{Entry: "meta", Label: fmt.Sprintf("meta/handmade/%s.valueLen=%d", key, vl), Class: fmt.Sprintf("%s.value|len%d", key, vl), In: d})
		}
	}
	out = append(out, c12Cases("meta", c12kit.RandomBlobs("meta", nil, rng, ev.Pick(4, 80)), nil)...)
	return out
}

// ---------------------------------------------------------------- sig-exists

func c12GenSigExists(fixdir string) []c12kit.Case {
	rng := c12Rng("sigexists")
	var out []c12kit.Case
	for _, sub := range []string{"sigexists", "sigexists-old"} {
		for _, s := range c12Seeds(fixdir, sub, ".index") {
			var fields []c12kit.Field
			if sub == "sigexists" {
				fields = c12kit.BucketteerFields(s.Data)
			} else {
				fields = c12kit.BucketteerLegacyFields(s.Data)
			}
			muts := []c12kit.Mut{c12Valid(s.Name, s.Data)}
			muts = append(muts, c12kit.FieldMutants(s.Name, s.Data, fields)...)
			muts = append(muts, c12kit.Truncations(s.Name, s.Data, fields, rng, ev.Pick(10, 300))...)
			muts = append(muts, c12kit.HeaderSweep(s.Name, s.Data, 0, ev.Pick(48, 160))...)
			muts = append(muts, c12kit.BitFlips(s.Name, s.Data, rng, ev.Pick(80, 5000))...)
			muts = append(muts, c12kit.Extensions(s.Name, s.Data)...)
			out = append(out, c12Cases(sub, muts, map[string]string{"seed": s.Name})...)
		}
		out = append(out, c12Cases(sub, c12kit.RandomBlobs(sub, []byte{40, 0, 0, 0, 'b', 'u', 'c', 'k', 'e', 't', 't', 'e'}, rng, ev.Pick(2, 40)), nil)...)
	}
	return out
}

// ---------------------------------------------------------------- block time

func c12GenBlocktime(fixdir string) []c12kit.Case {
	rng := c12Rng("blocktime")
	var out []c12kit.Case
	for _, s := range c12Seeds(fixdir, "blocktime", ".index") {
		fields := c12kit.BlocktimeFields(s.Data)
		muts := []c12kit.Mut{c12Valid(s.Name, s.Data)}
		muts = append(muts, c12kit.FieldMutants(s.Name, s.Data, fields)...)
		muts = append(muts, c12kit.Truncations(s.Name, s.Data, fields, rng, 20)...)
		muts = append(muts, c12kit.HeaderSweep(s.Name, s.Data, 0, 50)...)
		muts = append(muts, c12kit.BitFlips(s.Name, s.Data, rng, ev.Pick(60, 3000))...)
		muts = append(muts, c12kit.Extensions(s.Name, s.Data)...)
		out = append(out, c12Cases("blocktime", muts, nil)...)
	}
	// the epoch-sized file: a hand-picked set only (1.7 MB per case)
	for _, s := range c12Seeds(fixdir, "blocktime", ".bigindex") {
		out = append(out, c12kit.Case{Entry: "blocktime", Label: s.Name + "/valid", Class: "valid|epoch-sized", In: s.Data})
		for _, v := range []uint64{0, 1, 431999, 432001, 864000} {
			d := append([]byte(nil), s.Data...)
			binary.LittleEndian.PutUint64(d[38:], v)
			out = append(out, c12kit.Case{Entry: "blocktime", Label: fmt.Sprintf("%s/capacity=%d", s.Name, v), Class: "capacity|epoch-sized", In: d})
		}
		for _, cut := range []int{len(s.Data) - 1, len(s.Data) - 4, len(s.Data) / 2} {
			out = append(out, c12kit.Case{Entry: "blocktime", Label: fmt.Sprintf("%s/truncate@%d", s.Name, cut), Class: "truncate|epoch-sized", In: append([]byte(nil), s.Data[:cut]...)})
		}
	}
	out = append(out, c12Cases("blocktime", c12kit.RandomBlobs("blocktime", []byte("blocktimeindex"), rng, ev.Pick(3, 60)), nil)...)
	return out
}

// ---------------------------------------------------------------- linked log

// c12LLRecords walks a valid linked-log file.
func c12LLRecords(b []byte) (offs []int, sizes []int) {
	p := 0
	for p < len(b) {
		pl, n := binary.Uvarint(b[p:])
		if n <= 0 || p+n+int(pl) > len(b) {
			break
		}
		offs = append(offs, p)
		sizes = append(sizes, n+int(pl))
		p += n + int(pl)
	}
	return
}

func c12LLRecord(z []byte, nextOff uint64, nextSize uint32) []byte {
	d := binary.AppendUvarint(nil, uint64(len(z)+9))
	d = append(d, z...)
	var nx [9]byte
	for i := 0; i < 6; i++ {
		nx[i] = byte(nextOff >> (8 * uint(i)))
	}
	for i := 0; i < 3; i++ {
		nx[6+i] = byte(nextSize >> (8 * uint(i)))
	}
	return append(d, nx[:]...)
}

func c12GenLinkedLog(fixdir string) []c12kit.Case {
	rng := c12Rng("linkedlog")
	var out []c12kit.Case
	for _, s := range c12Seeds(fixdir, "ll", ".bin") {
		offs, sizes := c12LLRecords(s.Data)
		if len(offs) == 0 {
			continue
		}
		var fields []c12kit.Field
		pick := []int{0, len(offs) / 2, len(offs) - 1}
		var auxOffs []string
		for _, i := range pick {
			fields = append(fields, c12kit.LinkedLogRecordFields(s.Data, offs[i], fmt.Sprintf("record%d", i))...)
			auxOffs = append(auxOffs, fmt.Sprintf("%d:%d", offs[i], sizes[i]))
		}
		aux := map[string]string{"records": strings.Join(auxOffs, ",")}
		muts := []c12kit.Mut{c12Valid(s.Name, s.Data)}
		muts = append(muts, c12kit.FieldMutants(s.Name, s.Data, fields)...)
		muts = append(muts, c12kit.Truncations(s.Name, s.Data, fields, rng, ev.Pick(10, 200))...)
		muts = append(muts, c12kit.BitFlips(s.Name, s.Data, rng, ev.Pick(100, 5000))...)
		out = append(out, c12Cases("linkedlog", muts, aux)...)
		// the first record alone, every byte swept
		first := s.Data[offs[0] : offs[0]+sizes[0]]
		aux1 := map[string]string{"records": fmt.Sprintf("0:%d", len(first))}
		out = append(out, c12Cases("linkedlog", c12kit.HeaderSweep(s.Name+"/record0-alone", first, 0, min(len(first), ev.Pick(40, 400))), aux1)...)
	}
	// hand-made records
	type hm struct {
		name string
		rec  []byte
	}
	var hms []hm
	for l := 0; l <= 24; l++ {
		// a record whose declared payload length is l and whose bytes are all present (zeros)
		d := binary.AppendUvarint(nil, uint64(l))
		d = append(d, make([]byte, l)...)
		hms = append(hms, hm{fmt.Sprintf("payloadLen=%d-zero-bytes", l), d})
	}
	for _, blocks := range []int{8, 64, ev.Pick(2500, 2500), ev.Pick(2500, 9000)} {
		hms = append(hms, hm{fmt.Sprintf("zstd-rle-bomb-%d-blocks", blocks), c12LLRecord(c12kit.ZstdRLEBomb(blocks), 0, 0)})
	}
	for _, sz := range []uint64{1 << 10, 1 << 20, 300 << 20, 1 << 30, 3 << 30, 1 << 35, 1 << 36, 1<<36 + 1, 1 << 40, 1<<63 - 1, ^uint64(0)} {
		hms = append(hms, hm{fmt.Sprintf("zstd-declared-content-size-%d", sz), c12LLRecord(c12kit.ZstdDeclaredSize(sz), 0, 0)})
	}
	for _, h := range hms {
		out = append(out, c12kit.Case{Entry: "linkedlog", Label: "ll/handmade/" + h.name, Class: "handmade|" + strings.SplitN(h.name, "-", 2)[0], In: h.rec,
			Aux: map[string]string{"records": fmt.Sprintf("0:%d", len(h.rec))}})
	}
	// pure-bytes decoders
	valid := []byte{0xe8, 0x07, 0xc8, 0x01, 0x80, 0xe1, 0xb8, 0x01, 0x03, 0x90, 0x4e, 0x10, 0x81, 0xe1, 0xb8, 0x01, 0x01}
	muts := []c12kit.Mut{c12Valid("llbytes/two-entries", valid)}
	muts = append(muts, c12kit.HeaderSweep("llbytes/two-entries", valid, 0, len(valid))...)
	muts = append(muts, c12kit.Truncations("llbytes/two-entries", valid, nil, rng, 0)...)
	muts = append(muts, c12kit.RandomBlobs("llbytes", nil, rng, ev.Pick(4, 100))...)
	out = append(out, c12Cases("llbytes", muts, nil)...)
	return out
}

// ---------------------------------------------------------------- manifest

func c12GenManifest(fixdir string) []c12kit.Case {
	rng := c12Rng("manifest")
	var out []c12kit.Case
	for _, s := range c12Seeds(fixdir, "manifest", ".bin") {
		fields := c12kit.ManifestFields(s.Data)
		muts := []c12kit.Mut{c12Valid(s.Name, s.Data)}
		muts = append(muts, c12kit.FieldMutants(s.Name, s.Data, fields)...)
		muts = append(muts, c12kit.Truncations(s.Name, s.Data, fields, rng, len(s.Data))...)
		muts = append(muts, c12kit.HeaderSweep(s.Name, s.Data, 0, len(s.Data))...)
		muts = append(muts, c12kit.BitFlips(s.Name, s.Data, rng, ev.Pick(60, 3000))...)
		muts = append(muts, c12kit.Extensions(s.Name, s.Data)...)
		out = append(out, c12Cases("manifest", muts, nil)...)
	}
	out = append(out, c12Cases("manifest", c12kit.RandomBlobs("manifest", append([]byte("gsfamnfs"), 5, 0, 0, 0, 0, 0, 0, 0), rng, ev.Pick(3, 60)), nil)...)
	return out
}

// ---------------------------------------------------------------- gsfa directory

func c12GenGsfa(fixdir string) []c12kit.Case {
	rng := c12Rng("gsfa")
	var out []c12kit.Case
	gdir := filepath.Join(fixdir, "gsfa", "valid")
	read := func(name string) []byte {
		b, _ := os.ReadFile(filepath.Join(gdir, name))
		return b
	}
	pkIdxName := "pubkey-to-offset-and-size.index"
	pk, ll, man := read(pkIdxName), read("linked-log"), read("manifest")
	if len(pk) == 0 || len(ll) == 0 || len(man) == 0 {
		return nil
	}
	out = append(out, c12kit.Case{Entry: "gsfa", Label: "gsfa/valid", Class: "valid|unchanged", In: man, Aux: map[string]string{"file": "manifest"}})
	// pubkey index
	{
		fields := c12kit.CompactIndexSizedFields(pk)
		var few []c12kit.Field
		for _, f := range fields {
			if strings.HasPrefix(f.Name, "header.") {
				few = append(few, f)
			}
		}
		muts := c12kit.FieldMutants("gsfa/pubkey-index", pk, few)
		muts = append(muts, c12MetaValueMutants("gsfa/pubkey-index", pk, c12RewriteSizedMeta)...)
		muts = append(muts, c12kit.BitFlips("gsfa/pubkey-index", pk, rng, ev.Pick(60, 3000))...)
		// every stored value (offset,size) of the buckets: set to boundary values => hostile pointers into the log
		hs := 12 + int(binary.LittleEndian.Uint32(pk[8:12]))
		nb := int(binary.LittleEndian.Uint32(pk[20:24]))
		nvals := 0
		for i := 0; i < nb && nvals < 12; i++ {
			base := hs + 16*i
			ne := int(binary.LittleEndian.Uint32(pk[base+4:]))
			fo := int(binary.LittleEndian.Uint64(append(append([]byte(nil), pk[base+10:base+16]...), 0, 0)))
			for e := 0; e < ne && nvals < 12; e++ {
				vo := fo + e*12 + 3
				fs := []c12kit.Field{{Name: fmt.Sprintf("bucket%d.entry%d.value.offset", i, e), Off: vo, W: 6}, {Name: fmt.Sprintf("bucket%d.entry%d.value.size", i, e), Off: vo + 6, W: 3}}
				muts = append(muts, c12kit.FieldMutants("gsfa/pubkey-index", pk, fs)...)
				nvals++
			}
		}
		out = append(out, c12Cases("gsfa", muts, map[string]string{"file": pkIdxName})...)
	}
	// linked log
	{
		offs, sizes := c12LLRecords(ll)
		var fields []c12kit.Field
		for _, i := range []int{0, len(offs) / 2, len(offs) - 1} {
			fields = append(fields, c12kit.LinkedLogRecordFields(ll, offs[i], fmt.Sprintf("record%d", i))...)
		}
		muts := c12kit.FieldMutants("gsfa/linked-log", ll, fields)
		muts = append(muts, c12kit.Truncations("gsfa/linked-log", ll, fields, rng, ev.Pick(10, 200))...)
		muts = append(muts, c12kit.BitFlips("gsfa/linked-log", ll, rng, ev.Pick(100, 5000))...)
		// every record's `next` pointer redirected: to itself, to the newest record, to offset 0 with its own size
		for i := range offs {
			for _, tgt := range []struct {
				name      string
				off, size int
			}{{"itself", offs[i], sizes[i]}, {"newest", offs[len(offs)-1], sizes[len(offs)-1]}, {"first", offs[0], sizes[0]}, {"first-with-own-size", offs[0], sizes[i]}, {"eof", len(ll), sizes[i]}, {"size-0", offs[i], 0}, {"offset-0-size-0", 0, 0}} {
				d := append([]byte(nil), ll...)
				e := offs[i] + sizes[i]
				for k := 0; k < 6; k++ {
					d[e-9+k] = byte(uint64(tgt.off) >> (8 * uint(k)))
				}
				for k := 0; k < 3; k++ {
					d[e-3+k] = byte(uint32(tgt.size) >> (8 * uint(k)))
				}
				muts = append(muts, c12kit.Mut{Label: fmt.Sprintf("gsfa/linked-log/record%d.next->%s", i, tgt.name), Class: "record.next|" + tgt.name, Data: d})
			}
		}
		// every record emptied (a zstd frame of zero bytes, padded to the old size with a skippable frame)
		// and pointing to itself: a reader that follows `next` without progress never ends
		for i := range offs {
			_, n := binary.Uvarint(ll[offs[i]:])
			zlen := sizes[i] - n - 9
			if zlen < 17 {
				continue
			}
			z := []byte{0x28, 0xb5, 0x2f, 0xfd, 0x20, 0x00, 0x01, 0x00, 0x00} // zstd frame of zero bytes
			z = append(z, 0x50, 0x2a, 0x4d, 0x18)
			z = binary.LittleEndian.AppendUint32(z, uint32(zlen-17))
			z = append(z, make([]byte, zlen-17)...)
			d := append([]byte(nil), ll...)
			copy(d[offs[i]+n:], z)
			e := offs[i] + sizes[i]
			for k := 0; k < 6; k++ {
				d[e-9+k] = byte(uint64(offs[i]) >> (8 * uint(k)))
			}
			for k := 0; k < 3; k++ {
				d[e-3+k] = byte(uint32(sizes[i]) >> (8 * uint(k)))
			}
			muts = append(muts, c12kit.Mut{Label: fmt.Sprintf("gsfa/linked-log/record%d.emptied-and-next->itself", i), Class: "record.next|empty-self-cycle", Data: d})
		}
		out = append(out, c12Cases("gsfa", muts, map[string]string{"file": "linked-log"})...)
	}
	// manifest
	{
		fields := c12kit.ManifestFields(man)
		muts := c12kit.FieldMutants("gsfa/manifest", man, fields)
		muts = append(muts, c12kit.Truncations("gsfa/manifest", man, fields, rng, 10)...)
		muts = append(muts, c12kit.HeaderSweep("gsfa/manifest", man, 0, len(man))...)
		out = append(out, c12Cases("gsfa", muts, map[string]string{"file": "manifest"})...)
	}
	return out
}

// ---------------------------------------------------------------- transaction status metadata + zstd

func c12GenTxMeta(fixdir string) []c12kit.Case {
	rng := c12Rng("txmeta")
	var out []c12kit.Case
	for _, s := range c12Seeds(fixdir, "txmeta", ".bin") {
		muts := []c12kit.Mut{c12Valid(s.Name, s.Data)}
		muts = append(muts, c12kit.HeaderSweep(s.Name, s.Data, 0, min(len(s.Data), ev.Pick(64, 600)))...)
		muts = append(muts, c12kit.Truncations(s.Name, s.Data, nil, rng, ev.Pick(20, 300))...)
		muts = append(muts, c12kit.BitFlips(s.Name, s.Data, rng, ev.Pick(150, 6000))...)
		if strings.Contains(s.Name, "bincode") {
			muts = append(muts, c12kit.SlidingU64(s.Name, s.Data, ev.Pick(3, 1))...)
			muts = append(muts, c12kit.SlidingU32(s.Name, s.Data, ev.Pick(3, 1))...)
		} else {
			muts = append(muts, c12kit.SlidingU64(s.Name, s.Data, ev.Pick(7, 1))...)
		}
		out = append(out, c12Cases("txmeta", muts, nil)...)
	}
	out = append(out, c12Cases("txmeta", c12kit.RandomBlobs("txmeta", []byte{0, 0, 0, 0}, rng, ev.Pick(4, 100)), nil)...)
	// zstd
	for _, s := range c12Seeds(fixdir, "txmeta", ".zst") {
		muts := []c12kit.Mut{c12Valid(s.Name, s.Data)}
		muts = append(muts, c12kit.HeaderSweep(s.Name, s.Data, 0, min(len(s.Data), 24))...)
		muts = append(muts, c12kit.Truncations(s.Name, s.Data, nil, rng, 20)...)
		muts = append(muts, c12kit.BitFlips(s.Name, s.Data, rng, ev.Pick(100, 5000))...)
		out = append(out, c12Cases("zstd", muts, nil)...)
	}
	for _, blocks := range []int{1, 8, 64, 2500, ev.Pick(2500, 9000)} {
		out = append(out, c12kit.Case{Entry: "zstd", Label: fmt.Sprintf("zstd/handmade/rle-bomb-%d-blocks", blocks), Class: "handmade|rle-bomb", In: c12kit.ZstdRLEBomb(blocks)})
	}
	for _, sz := range []uint64{0, 1, 1 << 20, 300 << 20, 1 << 30, 3 << 30, 1 << 35, 1 << 36, 1<<36 + 1, 1 << 40, 1<<63 - 1, ^uint64(0)} {
		out = append(out, c12kit.Case{Entry: "zstd", Label: fmt.Sprintf("zstd/handmade/declared-content-size-%d", sz), Class: "handmade|declared-size", In: c12kit.ZstdDeclaredSize(sz)})
	}
	out = append(out, c12Cases("zstd", c12kit.RandomBlobs("zstd", []byte{0x28, 0xb5, 0x2f, 0xfd}, rng, ev.Pick(3, 60)), nil)...)
	return out
}
