//go:build verif

package indexes_test

// C12 — fixtures: VALID files of every external format, produced by the repository's own writers
// (or, for the sig-exists index whose writer pre-allocates 8 GiB, by a hand-written encoder that is
// validated against the repository's reader).  The mutation generators start from these files.

import (
	"context"
	"encoding/hex"
	"encoding/json"
	"fmt"
	"math/rand"
	"os"
	"path/filepath"
	"sort"

	"github.com/gagliardetto/solana-go"
	"github.com/ipfs/go-cid"
	"github.com/rpcpool/yellowstone-faithful/blocktimeindex"
	"github.com/rpcpool/yellowstone-faithful/bucketteer"
	"github.com/rpcpool/yellowstone-faithful/compactindexsized"
	oldbucketteer "github.com/rpcpool/yellowstone-faithful/deprecated/bucketteer"
	"github.com/rpcpool/yellowstone-faithful/deprecated/compactindex"
	"github.com/rpcpool/yellowstone-faithful/deprecated/compactindex36"
	"github.com/rpcpool/yellowstone-faithful/gsfa"
	"github.com/rpcpool/yellowstone-faithful/indexes"
	"github.com/rpcpool/yellowstone-faithful/indexmeta"
	metalatest "github.com/rpcpool/yellowstone-faithful/parse_legacy_transaction_status_meta/v-latest"
	metaoldest "github.com/rpcpool/yellowstone-faithful/parse_legacy_transaction_status_meta/v-oldest"
	"github.com/rpcpool/yellowstone-faithful/zzverif/c12kit"
	"github.com/rpcpool/yellowstone-faithful/zzverif/cargen"
)

type c12Seed struct {
	Name string
	Data []byte
}

// c12Seeds lists the seed files of one sub-directory in name order.
func c12Seeds(fixdir, sub string, ext string) []c12Seed {
	ents, err := os.ReadDir(filepath.Join(fixdir, sub))
	if err != nil {
		return nil
	}
	var out []c12Seed
	for _, e := range ents {
		if e.IsDir() || filepath.Ext(e.Name()) != ext {
			continue
		}
		b, err := os.ReadFile(filepath.Join(fixdir, sub, e.Name()))
		if err != nil {
			continue
		}
		out = append(out, c12Seed{Name: sub + "/" + e.Name(), Data: b})
	}
	sort.Slice(out, func(i, j int) bool { return out[i].Name < out[j].Name })
	return out
}

func c12Keys(fixdir, seedName string) [][]byte {
	b, err := os.ReadFile(filepath.Join(fixdir, seedName+".keys"))
	if err != nil {
		return nil
	}
	var hx []string
	if json.Unmarshal(b, &hx) != nil {
		return nil
	}
	var out [][]byte
	for _, h := range hx {
		k, _ := hex.DecodeString(h)
		out = append(out, k)
	}
	return out
}

func c12WriteKeys(path string, keys [][]byte) error {
	var hx []string
	for _, k := range keys {
		hx = append(hx, hex.EncodeToString(k))
	}
	b, _ := json.Marshal(hx)
	return os.WriteFile(path+".keys", b, 0o644)
}

func c12Must(err error, what string) {
	if err != nil {
		panic(fmt.Errorf("c12 fixture: %s: %w", what, err))
	}
}

// c12BuildFixtures writes all seed files below dir. Panics (=> harness set-up failure) on error.
func c12BuildFixtures(dir string) {
	rng := rand.New(rand.NewSource(4242))
	for _, sub := range []string{"nodes", "car", "cis", "dci", "dci36", "sigexists", "sigexists-old", "blocktime", "ll", "manifest", "gsfa", "txmeta", "meta", "tmp"} {
		c12Must(os.MkdirAll(filepath.Join(dir, sub), 0o755), "mkdir")
	}
	// ---- CAR + nodes
	carPath := filepath.Join(dir, "car", "small.car")
	model, err := cargen.Generate(carPath, cargen.Opts{Epoch: 7, Seed: 12, NSlots: 4, MaxEntries: 2, MaxTx: 2, MultiFrameOneIn: 2, MaxFrames: 3, RewardsOneIn: 1, V0OneIn: 2, FailOneIn: 3, VoteOneIn: 3})
	c12Must(err, "cargen")
	byKind := map[int][]cargen.Section{}
	for _, s := range model.Sections {
		byKind[s.Kind] = append(byKind[s.Kind], s)
	}
	for kind := 0; kind <= 6; kind++ {
		ss := byKind[kind]
		if len(ss) == 0 {
			panic(fmt.Errorf("c12 fixture: generated CAR has no node of kind %d", kind))
		}
		sort.SliceStable(ss, func(i, j int) bool { return len(ss[i].Data) < len(ss[j].Data) })
		pick := []cargen.Section{ss[0]}
		if len(ss) > 1 {
			pick = append(pick, ss[len(ss)-1])
		}
		for i, s := range pick {
			if len(s.Data) > 3000 {
				continue
			}
			c12Must(os.WriteFile(filepath.Join(dir, "nodes", fmt.Sprintf("k%d-%d.bin", kind, i)), s.Data, 0o644), "node")
		}
	}
	// transaction metadata (protobuf)
	txs := model.AllTxs()
	n := 0
	for _, tx := range txs {
		if len(tx.MetaRaw) > 0 && n < 3 {
			c12Must(os.WriteFile(filepath.Join(dir, "txmeta", fmt.Sprintf("protobuf-%d.bin", n)), tx.MetaRaw, 0o644), "txmeta")
			c12Must(os.WriteFile(filepath.Join(dir, "txmeta", fmt.Sprintf("zstd-%d.zst", n)), tx.MetaZ, 0o644), "txmeta")
			n++
		}
	}
	if n == 0 {
		panic("c12 fixture: no transaction metadata generated")
	}
	{
		ii := []metalatest.InnerInstructions{{Index: 1}, {Index: 2, Instructions: []metalatest.CompiledInstruction{{}}}}
		m := metalatest.TransactionStatusMeta{Status: &metalatest.Result__Ok{}, Fee: 5000, PreBalances: []uint64{1, 2, 3}, PostBalances: []uint64{4, 5, 6}, InnerInstructions: &ii}
		b, err := m.BincodeSerialize()
		c12Must(err, "bincode latest")
		c12Must(os.WriteFile(filepath.Join(dir, "txmeta", "bincode-latest.bin"), b, 0o644), "txmeta")
		o := metaoldest.TransactionStatusMeta{Status: &metaoldest.Result__Ok{}, Fee: 5000, PreBalances: []uint64{1, 2, 3}, PostBalances: []uint64{4, 5}}
		b, err = o.BincodeSerialize()
		c12Must(err, "bincode oldest")
		c12Must(os.WriteFile(filepath.Join(dir, "txmeta", "bincode-oldest.bin"), b, 0o644), "txmeta")
	}

	root := model.Root
	ctx := context.Background()
	tmp := func(name string) string {
		p := filepath.Join(dir, "tmp", name)
		os.RemoveAll(p)
		c12Must(os.MkdirAll(p, 0o755), "mkdir")
		return p
	}
	// ---- compactindexsized through the typed writers
	{
		w, err := indexes.NewWriter_CidToOffsetAndSize(7, root, indexes.NetworkMainnet, tmp("c2o"), uint64(len(model.Sections)))
		c12Must(err, "c2o writer")
		var keys [][]byte
		for _, s := range model.Sections {
			c12Must(w.Put(s.Cid, s.Offset, s.Len), "c2o put")
			if len(keys) < 4 {
				keys = append(keys, s.Cid.Bytes())
			}
		}
		c12Must(w.Seal(ctx, tmp("c2o-out")), "c2o seal")
		p := filepath.Join(dir, "cis", "cid-to-offset-and-size.index")
		c12Must(os.Rename(w.GetFilepath(), p), "mv")
		w.Close()
		c12Must(c12WriteKeys(p, keys), "keys")
	}
	{
		w, err := indexes.NewWriter_SlotToCid(7, root, indexes.NetworkMainnet, tmp("s2c"), uint64(len(model.Blocks)))
		c12Must(err, "s2c writer")
		var keys [][]byte
		for _, b := range model.Blocks {
			c12Must(w.Put(b.Slot, b.Cid), "s2c put")
			keys = append(keys, indexes.Uint64tob(b.Slot))
		}
		c12Must(w.Seal(ctx, tmp("s2c-out")), "s2c seal")
		p := filepath.Join(dir, "cis", "slot-to-cid.index")
		c12Must(os.Rename(w.GetFilepath(), p), "mv")
		w.Close()
		c12Must(c12WriteKeys(p, keys), "keys")
	}
	{
		w, err := indexes.NewWriter_SigToCid(7, root, indexes.NetworkMainnet, tmp("g2c"), uint64(len(txs)))
		c12Must(err, "g2c writer")
		var keys [][]byte
		for _, tx := range txs {
			c12Must(w.Put(tx.Sig, tx.Cid), "g2c put")
			if len(keys) < 4 {
				keys = append(keys, append([]byte(nil), tx.Sig[:]...))
			}
		}
		c12Must(w.Seal(ctx, tmp("g2c-out")), "g2c seal")
		p := filepath.Join(dir, "cis", "sig-to-cid.index")
		c12Must(os.Rename(w.GetFilepath(), p), "mv")
		w.Close()
		c12Must(c12WriteKeys(p, keys), "keys")
	}
	// raw builder: 3 buckets (declared 25 000 items, 300 inserted), value size 8, no kind
	{
		b, err := compactindexsized.NewBuilderSized(tmp("raw"), 25000, 8)
		c12Must(err, "raw builder")
		var keys [][]byte
		for i := 0; i < 300; i++ {
			k := make([]byte, 12)
			rng.Read(k)
			v := make([]byte, 8)
			rng.Read(v)
			c12Must(b.Insert(k, v), "raw insert")
			if i < 4 {
				keys = append(keys, k)
			}
		}
		p := filepath.Join(dir, "cis", "raw-3buckets.index")
		f, err := os.Create(p)
		c12Must(err, "create")
		c12Must(b.Seal(ctx, f), "raw seal")
		f.Close()
		b.Close()
		c12Must(c12WriteKeys(p, keys), "keys")
	}
	// ---- deprecated compactindex (u64 values) and compactindex36
	{
		b, err := compactindex.NewBuilder(tmp("dci"), 40, 1<<20)
		c12Must(err, "dci builder")
		var keys [][]byte
		for i := 0; i < 40; i++ {
			k := make([]byte, 36)
			rng.Read(k)
			c12Must(b.Insert(k, uint64(rng.Intn(1<<20))), "dci insert")
			if i < 4 {
				keys = append(keys, k)
			}
		}
		p := filepath.Join(dir, "dci", "legacy-cid-to-offset.index")
		f, err := os.Create(p)
		c12Must(err, "create")
		c12Must(b.Seal(ctx, f), "dci seal")
		f.Close()
		b.Close()
		c12Must(c12WriteKeys(p, keys), "keys")
	}
	for _, kind := range []string{"slot", "sig"} {
		b, err := compactindex36.NewBuilder(tmp("dci36"+kind), 40, 0)
		c12Must(err, "dci36 builder")
		var keys [][]byte
		for i := 0; i < 40; i++ {
			var k []byte
			if kind == "slot" {
				k = indexes.Uint64tob(uint64(3024000 + i))
			} else {
				k = make([]byte, 64)
				rng.Read(k)
			}
			var v [36]byte
			copy(v[:], root.Bytes())
			c12Must(b.Insert(k, v), "dci36 insert")
			if i < 4 {
				keys = append(keys, k)
			}
		}
		p := filepath.Join(dir, "dci36", "legacy-"+kind+"-to-cid.index")
		f, err := os.Create(p)
		c12Must(err, "create")
		c12Must(b.Seal(ctx, f), "dci36 seal")
		f.Close()
		b.Close()
		c12Must(c12WriteKeys(p, keys), "keys")
	}
	// ---- sig-exists (hand-written encoder, validated against the repository's readers)
	{
		var sigs [][64]byte
		for i := 0; i < 60; i++ {
			var s [64]byte
			rng.Read(s[:])
			switch {
			case i < 10:
				s[0], s[1] = 0, 0
			case i < 20:
				s[0], s[1] = 0xff, 0xff
			case i < 23:
				s[0], s[1] = 0x34, 0x12
			}
			sigs = append(sigs, s)
		}
		build := func(hash func([64]byte) uint64) (prefixes []uint16, hashes map[uint16][]uint64) {
			hashes = map[uint16][]uint64{}
			for _, s := range sigs {
				p := uint16(s[0]) | uint16(s[1])<<8
				hashes[p] = append(hashes[p], hash(s))
			}
			for p, hs := range hashes {
				sort.Slice(hs, func(i, j int) bool { return hs[i] < hs[j] })
				hashes[p] = c12kit.Eytzinger(hs)
				prefixes = append(prefixes, p)
			}
			sort.Slice(prefixes, func(i, j int) bool { return prefixes[i] < prefixes[j] })
			return
		}
		var keys [][]byte
		for _, s := range []int{0, 10, 20, 30} {
			keys = append(keys, append([]byte(nil), sigs[s][:]...))
		}
		pf, hs := build(bucketteer.Hash)
		kvs := [][2][]byte{{indexmeta.MetadataKey_Epoch, indexes.Uint64tob(7)}, {indexmeta.MetadataKey_RootCid, root.Bytes()}, {indexmeta.MetadataKey_Network, []byte("mainnet")}}
		file := c12kit.BuildBucketteer(bucketteer.Magic(), bucketteer.Version, kvs, pf, hs)
		rd, err := bucketteer.NewReader(c12Bytes(file))
		c12Must(err, "hand-written sig-exists file rejected by bucketteer.NewReader")
		for _, s := range sigs {
			ok, err := rd.Has(s)
			if err != nil || !ok {
				panic(fmt.Errorf("c12 fixture: hand-written sig-exists file: Has=%v err=%v", ok, err))
			}
		}
		p := filepath.Join(dir, "sigexists", "sig-exists.index")
		c12Must(os.WriteFile(p, file, 0o644), "write")
		c12Must(c12WriteKeys(p, keys), "keys")

		pf, hs = build(oldbucketteer.Hash)
		old := c12kit.BuildBucketteerLegacy(oldbucketteer.Magic(), oldbucketteer.Version, [][2]string{{"epoch", "7"}, {"network", "mainnet"}}, pf, hs)
		ord, err := oldbucketteer.NewReader(c12Bytes(old))
		c12Must(err, "hand-written legacy sig-exists file rejected")
		for _, s := range sigs {
			ok, err := ord.Has(s)
			if err != nil || !ok {
				panic(fmt.Errorf("c12 fixture: hand-written legacy sig-exists file: Has=%v err=%v", ok, err))
			}
		}
		p = filepath.Join(dir, "sigexists-old", "sig-exists-legacy.index")
		c12Must(os.WriteFile(p, old, 0o644), "write")
		c12Must(c12WriteKeys(p, keys), "keys")
	}
	// ---- block-time index: a 10-slot one and the real epoch-sized one
	{
		start := uint64(7 * 432000)
		ix := blocktimeindex.NewIndexer(start, start+9, 10)
		for i := uint64(0); i < 10; i++ {
			c12Must(ix.Set(start+i, int64(1_600_000_000+i)), "blocktime set")
		}
		b, err := ix.MarshalBinary()
		c12Must(err, "blocktime marshal")
		c12Must(os.WriteFile(filepath.Join(dir, "blocktime", "small.index"), b, 0o644), "write")
		full := blocktimeindex.NewForEpoch(7)
		for _, bl := range model.Blocks {
			c12Must(full.Set(bl.Slot, bl.Blocktime), "blocktime set")
		}
		b, err = full.MarshalBinary()
		c12Must(err, "blocktime marshal")
		c12Must(os.WriteFile(filepath.Join(dir, "blocktime", "full.bigindex"), b, 0o644), "write")
	}
	// ---- gsfa index (pubkey index + linked log + manifest) through the real writer
	{
		gdir := filepath.Join(dir, "gsfa", "valid")
		os.RemoveAll(gdir)
		meta := indexmeta.Meta{}
		c12Must(meta.AddUint64(indexmeta.MetadataKey_Epoch, 7), "meta")
		c12Must(meta.AddCid(indexmeta.MetadataKey_RootCid, root), "meta")
		c12Must(meta.AddString(indexmeta.MetadataKey_Network, "mainnet"), "meta")
		w, err := gsfa.NewGsfaWriter(gdir, meta, 7, root, indexes.NetworkMainnet, tmp("gsfa"))
		c12Must(err, "gsfa writer")
		var pks []solana.PublicKey
		for i := 0; i < 12; i++ {
			var pk solana.PublicKey
			rng.Read(pk[:])
			pks = append(pks, pk)
		}
		for i := 0; i < 400; i++ {
			ks := solana.PublicKeySlice{pks[i%len(pks)], pks[(i*7+1)%len(pks)]}
			c12Must(w.Push(uint64(1000+i*300), uint64(200+i%50), uint64(7*432000+i/3), ks, i%2 == 0, i%3 != 0, i%5 == 0), "gsfa push")
		}
		c12Must(w.Close(), "gsfa close")
		var keys [][]byte
		for _, pk := range pks[:3] {
			keys = append(keys, append([]byte(nil), pk[:]...))
		}
		c12Must(c12WriteKeys(filepath.Join(dir, "gsfa", "valid"), keys), "keys")
		// self-check: the valid index answers
		rd, err := gsfa.NewGsfaReader(gdir)
		c12Must(err, "gsfa reader on the valid index")
		got, err := rd.Get(ctx, pks[0], 1000)
		if err != nil || len(got) == 0 {
			panic(fmt.Errorf("c12 fixture: valid gsfa index: Get -> %d entries, err %v", len(got), err))
		}
		rd.Close()
		// stand-alone copies for the linked-log and manifest groups
		for _, cp := range [][2]string{{"linked-log", "ll/linked-log.bin"}, {"manifest", "manifest/manifest.bin"}} {
			b, err := os.ReadFile(filepath.Join(gdir, cp[0]))
			c12Must(err, "read "+cp[0])
			c12Must(os.WriteFile(filepath.Join(dir, cp[1]), b, 0o644), "write")
		}
	}
	// ---- index metadata blobs
	{
		m := indexmeta.Meta{}
		m.AddUint64(indexmeta.MetadataKey_Epoch, 7)
		m.AddCid(indexmeta.MetadataKey_RootCid, root)
		m.AddString(indexmeta.MetadataKey_Network, "mainnet")
		m.Add(indexmeta.MetadataKey_Kind, []byte("slot-to-cid"))
		c12Must(os.WriteFile(filepath.Join(dir, "meta", "typical.bin"), m.Bytes(), 0o644), "write")
		e := indexmeta.Meta{}
		c12Must(os.WriteFile(filepath.Join(dir, "meta", "empty.bin"), e.Bytes(), 0o644), "write")
	}
	os.RemoveAll(filepath.Join(dir, "tmp"))
	_ = cid.Undef
}
