//go:build verif

package main

// C14 (part "server") — the server-side entry points that reassemble multi-frame transaction and
// metadata payloads: getTransactionAndMetaFromNode (gRPC) and parseTransactionAndMetaFromNode (JSON-RPC).
//
// Workload: (i) real transactions + protobuf metadata from the cargen model, (ii) arbitrary byte
// payloads up to 200 KiB (get* only).  Transaction payload and zstd-compressed metadata payload are
// each split by c14chain (1..60 frames, all layouts), the Transaction node is encoded with the
// reference encoder and decoded with the repository's DecodeTransaction, the frames are served by a
// map keyed by CID that decodes with the repository's DecodeDataFrame (what Epoch.GetDataFrameByCid does after
// its lookup; the decoded form of unfaulted frames is cached per chain).
// Oracle: clean => exactly the original transaction bytes and the original (uncompressed) metadata;
// one single-frame fault in either chain => error, or exactly the original pair.
// The metadata is compressed WITHOUT the optional zstd content checksum, so that zstd does not mask
// what the frame checksum is there to catch.

import (
	"bytes"
	"context"
	"fmt"
	"math/rand"
	"os"
	"path/filepath"
	"testing"

	"github.com/ipfs/go-cid"
	"github.com/rpcpool/yellowstone-faithful/ipld/ipldbindcode"
	"github.com/rpcpool/yellowstone-faithful/iplddecoders"
	"github.com/rpcpool/yellowstone-faithful/third_party/solana_proto/confirmed_block"
	"github.com/rpcpool/yellowstone-faithful/zzverif/c14chain"
	"github.com/rpcpool/yellowstone-faithful/zzverif/cargen"
	"github.com/rpcpool/yellowstone-faithful/zzverif/ev"
	"github.com/urfave/cli/v2"
	"google.golang.org/protobuf/proto"
)

type c14SrvCase struct {
	Part    string          `json:"part"`
	Name    string          `json:"name"`
	Func    string          `json:"func"`     // get | parse
	Data    c14chain.Spec   `json:"data"`     // transaction payload chain (explicit payload)
	Meta    c14chain.Spec   `json:"meta"`     // compressed metadata payload chain (explicit payload)
	MetaRaw []byte          `json:"meta_raw"` // expected uncompressed metadata
	Target  string          `json:"target"`   // which chain the fault hits: data | meta
	Fault   *c14chain.Fault `json:"fault,omitempty"`
	Other   *c14chain.Spec  `json:"other,omitempty"`
}

type c14SrvOutcome struct {
	tx, meta []byte // what came back, normalised to bytes
	metaNil  bool
	err      error
	panicked any
}

func c14SrvCall(fn string, node *ipldbindcode.Transaction, get func(ctx context.Context, wanted cid.Cid) (*ipldbindcode.DataFrame, error)) (o c14SrvOutcome) {
	defer func() {
		if r := recover(); r != nil {
			o.panicked = r
		}
	}()
	if fn == "get" {
		o.tx, o.meta, o.err = getTransactionAndMetaFromNode(node, get)
		o.metaNil = o.meta == nil
		return
	}
	tx, meta, err := parseTransactionAndMetaFromNode(node, get)
	o.err = err
	if err != nil {
		return
	}
	b, merr := tx.MarshalBinary()
	if merr != nil {
		// an unparsed (zero) transaction cannot be re-serialised: report it as "no bytes"
		b = nil
	}
	o.tx = b
	switch m := meta.(type) {
	case nil:
		o.metaNil = true
	case *confirmed_block.TransactionStatusMeta:
		// canonical bytes for comparison
		o.meta, _ = proto.MarshalOptions{Deterministic: true}.Marshal(m)
	default:
		o.meta = []byte(fmt.Sprintf("%T", meta))
	}
	return
}

func c14SrvRun(rec *ev.Recorder, c c14SrvCase, dch, mch *c14chain.Chain, cache c14chain.Decoded) {
	site := "getTransactionAndMetaFromNode"
	if c.Func == "parse" {
		site = "parseTransactionAndMetaFromNode"
	}
	dv, mv := dch.Clean(), mch.Clean()
	fault := "none"
	tgt := dch
	if c.Fault != nil {
		var other *c14chain.Chain
		if c.Other != nil && c.Fault.Kind == "swap-other" {
			other = c14chain.Build(*c.Other)
		}
		if c.Target == "meta" {
			mv = mch.View(*c.Fault, other)
			tgt = mch
			if !mv.Applied {
				rec.Count("fault_not_applicable", 1)
				return
			}
		} else {
			dv = dch.View(*c.Fault, other)
			if !dv.Applied {
				rec.Count("fault_not_applicable", 1)
				return
			}
		}
		fault = c.Fault.Kind
	}
	node := ipldbindcode.Transaction{Kind: cargen.KindTransaction, Data: dv.First, Metadata: mv.First, Slot: 432000 + 5}
	_, nb := cargen.EncodeNode(&node, ipldbindcode.Prototypes.Transaction)
	dec, err := iplddecoders.DecodeTransaction(nb)
	if err != nil {
		rec.Inconclusive(fmt.Sprintf("%s: transaction node could not be decoded: %v", c.Name, err))
		return
	}
	fetched := 0
	o := c14SrvCall(c.Func, dec, c14chain.Getter(cache, &fetched, &dv, &mv))
	rec.Eval(1)
	rec.Count("calls_"+c.Func+"_"+fault, 1)
	if tgt.K >= 2 {
		rec.Distinct(c.Func + "/" + c.Target + "/" + tgt.Signature(fault))
	}
	if o.panicked != nil {
		rec.Violationf(site+"/panic", c, "%s: panic %v (fault=%s)", c.Name, o.panicked, fault)
		return
	}
	wantTx := dch.Payload
	wantMeta := c.MetaRaw
	if c.Func == "parse" && len(wantMeta) > 0 {
		var m confirmed_block.TransactionStatusMeta
		if err := proto.Unmarshal(wantMeta, &m); err != nil {
			rec.Inconclusive(fmt.Sprintf("%s: model metadata does not parse: %v", c.Name, err))
			return
		}
		wantMeta, _ = proto.MarshalOptions{Deterministic: true}.Marshal(&m)
	}
	exact := bytes.Equal(o.tx, wantTx) && ((len(wantMeta) == 0 && len(o.meta) == 0) || (!o.metaNil && bytes.Equal(o.meta, wantMeta)))
	what := func() string {
		return fmt.Sprintf("tx %d bytes (want %d, equal=%v), meta %d bytes nil=%v (want %d, equal=%v)", len(o.tx), len(wantTx), bytes.Equal(o.tx, wantTx), len(o.meta), o.metaNil, len(wantMeta), bytes.Equal(o.meta, wantMeta))
	}
	if c.Fault == nil {
		if o.err != nil {
			rec.Violationf(site+"/wellformed-rejected", c, "%s: well-formed payloads (data k=%d %s fan=%d, meta k=%d %s fan=%d) rejected: %v", c.Name, dch.K, c.Data.Layout, c.Data.Fanout, mch.K, c.Meta.Layout, c.Meta.Fanout, o.err)
			return
		}
		if !exact {
			rec.Violationf(site+"/wellformed-wrong-bytes", c, "%s: well-formed payloads (data k=%d %s fan=%d, meta k=%d %s fan=%d): %s", c.Name, dch.K, c.Data.Layout, c.Data.Fanout, mch.K, c.Meta.Layout, c.Meta.Fanout, what())
			return
		}
		rec.Count("clean_exact", 1)
		return
	}
	switch {
	case o.err != nil:
		rec.Count("fault_rejected_"+fault, 1)
	case exact:
		rec.Count("fault_masked_"+fault, 1)
	default:
		rec.Violationf(site+"/fault-"+fault+"-wrong-bytes", c, "%s: fault %+v in the %s chain (k=%d %s fan=%d sum=%s): no error, but %s", c.Name, *c.Fault, c.Target, tgt.K, tgt.Spec.Layout, tgt.Spec.Fanout, tgt.Spec.Sum, what())
	}
}

type c14Payloads struct {
	name      string
	raw       []byte // transaction payload
	metaRaw   []byte // uncompressed metadata (nil = none)
	parseable bool   // a real transaction + protobuf metadata
}

func c14ShapeFor(rng *rand.Rand, seed int64, payload []byte, kmax int) c14chain.Spec {
	s := c14chain.Spec{Seed: seed, Payload: payload, K: 1 + rng.Intn(kmax), Fanout: 1 + rng.Intn(10), Shuffle: rng.Intn(3),
		Sum: "crc", Split: []string{"even", "fixed", "random"}[rng.Intn(3)]}
	if rng.Intn(4) == 0 {
		s.Sum = "fnv"
	}
	switch r := rng.Intn(10); {
	case r < 4:
		s.Layout = "schema"
	case r < 6:
		s.Layout = "schema-head"
	case r < 8:
		s.Layout = "anytree"
	default:
		s.Layout = "tree"
	}
	if payload == nil {
		s.Payload = []byte{}
	}
	return s
}

func TestVerifC14Server(t *testing.T) {
	var rc c14SrvCase
	if ev.LoadReplay(&rc) {
		if rc.Part != "server" {
			t.Skip("replay of another part")
		}
		rec := ev.New("C14", "server")
		defer rec.Flush()
		rec.Rule("replay of one case")
		rec.Distinct("replay")
		rec.Distinct("replay2")
		c14SrvRun(rec, rc, c14chain.Build(rc.Data), c14chain.Build(rc.Meta), nil)
		return
	}
	part := "server"
	afterGsfa := os.Getenv("VERIF_C14_AFTER_GSFA") != ""
	if afterGsfa {
		part = "server-after-gsfa-index"
	}
	rec := ev.New("C14", part)
	defer rec.Flush()
	rec.Rule("distinct = (entry point, faulted chain, frame count >= 2, layout + fan-out, checksum kind, fault kind or none)")
	seed := ev.Seed()
	rng := rand.New(rand.NewSource(seed*0xC14 + 2))
	dir := filepath.Join(ev.Scratch(), "c14srv-"+part)
	os.MkdirAll(dir, 0o755)
	defer os.RemoveAll(dir)
	if afterGsfa {
		// the same workload in a process that has run the repository's `index gsfa` command (default flags)
		// (default flags except the signature check, which generated transactions cannot pass) before: process-wide state a command leaves behind must not change what reassembly accepts
		gcar := filepath.Join(dir, "g.car")
		if _, err := cargen.Generate(gcar, cargen.Opts{Epoch: 2, Seed: seed + 99, NSlots: 40, MaxEntries: 2, MaxTx: 3, MultiFrameOneIn: 4, VoteOneIn: 4, FailOneIn: 4}); err != nil {
			t.Fatalf("c14: cargen: %v", err)
		}
		gidx, gtmp := filepath.Join(dir, "gidx"), filepath.Join(dir, "gtmp")
		os.MkdirAll(gidx, 0o755)
		os.MkdirAll(gtmp, 0o755)
		app := &cli.App{Commands: []*cli.Command{newCmd_Index()}}
		if err := app.Run([]string{"x", "index", "gsfa", "--epoch", "2", "--network", "mainnet", "--tmp-dir", gtmp, "--sigverify=false", gcar, gidx}); err != nil {
			rec.Inconclusive("the preceding `index gsfa` run failed: " + err.Error())
			return
		}
		rec.Note("preceding_command", "index gsfa --epoch 2 --network mainnet --sigverify=false (other flags at their defaults), run in this process")
	}
	m, err := cargen.Generate(filepath.Join(dir, "m.car"), cargen.Opts{Epoch: 1, Seed: seed*31 + 14, NSlots: ev.Pick(80, 1000), MaxEntries: 2, MaxTx: 4,
		BigOneIn: 4, TinyOneIn: 9, VoteOneIn: 4, FailOneIn: 4, V0OneIn: 3})
	if err != nil {
		t.Fatalf("c14: cargen: %v", err)
	}
	os.Remove(filepath.Join(dir, "m.car"))
	var pls []c14Payloads
	for i, tx := range m.AllTxs() {
		mr := tx.MetaRaw
		if i%3 == 1 {
			mr = c14chain.FattenMeta(rng, mr, []int{300, 1000, 5000, 20000, 70000, 200000}[(i/3)%6])
		}
		pls = append(pls, c14Payloads{name: fmt.Sprintf("modeltx-%d", i), raw: tx.Raw, metaRaw: mr, parseable: true})
	}
	nModel := len(pls)
	lim := ev.Pick(240, 3000)
	if afterGsfa {
		lim = ev.Pick(60, 500)
	}
	if nModel > lim {
		pls = pls[:lim]
		nModel = lim
	}
	// arbitrary payloads for the byte-level entry point
	sizes := []int{1, 2, 60, 127, 128, 1232, 16384, 65535, 65536, 204800}
	nRand := ev.Pick(80, 1000)
	if afterGsfa {
		nRand = ev.Pick(20, 200)
	}
	for i := 0; i < nRand; i++ {
		var ld, lm int
		if i < len(sizes) {
			ld, lm = sizes[i], sizes[len(sizes)-1-i]
		} else {
			ld, lm = 1+rng.Intn(40000), rng.Intn(40000)
			if rng.Intn(12) == 0 {
				ld = 100000 + rng.Intn(104801)
			}
		}
		raw, mr := make([]byte, ld), make([]byte, lm)
		rng.Read(raw)
		rng.Read(mr)
		if lm == 0 {
			mr = nil
		}
		pls = append(pls, c14Payloads{name: fmt.Sprintf("bytes-%d", i), raw: raw, metaRaw: mr})
	}
	rec.Note("model_transactions", nModel)
	rec.Note("arbitrary_payload_pairs", nRand)
	for pi, p := range pls {
		if rec.Enough() {
			break
		}
		var metaZ []byte
		if len(p.metaRaw) > 0 {
			metaZ = c14chain.ZstdNoCRC(p.metaRaw)
		}
		cs := seed*1_000_003 + int64(pi)
		ds := c14ShapeFor(rng, cs, p.raw, 60)
		ms := c14ShapeFor(rng, cs+500_000, metaZ, 60)
		if pi%7 == 0 {
			ds.K = 1 // the production shape: single-frame transaction, split metadata
		}
		dch, mch := c14chain.Build(ds), c14chain.Build(ms)
		cache := c14chain.Decoded{}
		funcs := []string{"get"}
		if p.parseable {
			funcs = append(funcs, "parse")
		}
		if pi < 3 {
			rec.Sample(map[string]any{"name": p.name, "tx_bytes": len(p.raw), "meta_bytes": len(p.metaRaw), "meta_zstd_bytes": len(metaZ), "data_frames": dch.K, "data_layout": ds.Layout, "meta_frames": mch.K, "meta_layout": ms.Layout, "fanout": []int{ds.Fanout, ms.Fanout}})
		}
		for _, fn := range funcs {
			base := c14SrvCase{Part: "server", Name: p.name, Func: fn, Data: ds, Meta: ms, MetaRaw: p.metaRaw, Target: "data"}
			c14SrvRun(rec, base, dch, mch, cache)
			for _, tg := range []string{"data", "meta"} {
				ch := dch
				if tg == "meta" {
					ch = mch
				}
				// another payload of the same length and shape
				os2 := ch.Spec
				os2.Payload = make([]byte, len(ch.Payload))
				rand.New(rand.NewSource(cs ^ 0x77)).Read(os2.Payload)
				frng := rand.New(rand.NewSource(cs ^ 0xfa17 ^ int64(len(tg))))
				for _, f := range ch.Faults(frng, pi%4 == 0) {
					if rec.Enough() {
						break
					}
					f := f
					fc := base
					fc.Target, fc.Fault, fc.Other = tg, &f, &os2
					c14SrvRun(rec, fc, dch, mch, cache)
				}
			}
		}
	}
}
