//go:build verif

package compactindexsized

// C04 — adapter of the current index format (N-byte values) for the shared engine zzverif/c04eng.

import (
	"context"
	"io"
	"os"
	"testing"

	"github.com/rpcpool/yellowstone-faithful/zzverif/c04eng"
)

type c04Format struct{}

func (c04Format) Name() string { return "compactindexsized" }

func (c04Format) LegalValueSizes() []int {
	// the entry stride (3-byte hash + value) is held in a uint8 on disk: 3 + 252 = 255 is the largest
	// stride that exists, so 1..252 is what the format can express
	out := make([]int, 0, 252)
	for i := 1; i <= 252; i++ {
		out = append(out, i)
	}
	return out
}

func (c04Format) UnsupportedValueSizes() []int { return []int{0, 253, 254, 255, 256, 257, 1000} }
func (c04Format) Variants(int) []int           { return []int{0} }
func (c04Format) HasMeta() bool                { return true }

func (c04Format) NumBucketsFor(declared uint) uint32 {
	return uint32((declared + targetEntriesPerBucket - 1) / targetEntriesPerBucket)
}

func (c04Format) BucketOf(nb uint32, key []byte) uint {
	h := Header{NumBuckets: nb}
	return h.BucketHash(key)
}

func (c04Format) EntryHash(domain uint32, key []byte) uint64 {
	return EntryHash64(domain, key) & 0xffffff
}

func (c04Format) FixValue(valueSize, variant int, raw []byte) []byte { return raw }

func (c04Format) IsNotFound(err error) bool { return IsNotFound(err) }

type c04Builder struct{ b *Builder }

func (c04Format) NewBuilder(tmpDir string, declared uint, valueSize, variant int) (c04eng.Builder, error) {
	b, err := NewBuilderSized(tmpDir, declared, uint(valueSize))
	if err != nil {
		return nil, err
	}
	return &c04Builder{b}, nil
}

func (w *c04Builder) NumBuckets() uint32                         { return w.b.Header.NumBuckets }
func (w *c04Builder) AddMeta(k, v []byte) error                  { return w.b.Metadata().Add(k, v) }
func (w *c04Builder) SetKind(kind []byte) error                  { return w.b.SetKind(kind) }
func (w *c04Builder) Insert(key, value []byte) error             { return w.b.Insert(key, value) }
func (w *c04Builder) Seal(ctx context.Context, f *os.File) error { return w.b.Seal(ctx, f) }
func (w *c04Builder) Close() error                               { return w.b.Close() }

type c04DB struct{ db *DB }

func (c04Format) Open(r io.ReaderAt) (c04eng.DB, error) {
	db, err := Open(r)
	if err != nil {
		return nil, err
	}
	return &c04DB{db}, nil
}

func (d *c04DB) Prefetch(b bool)                   { d.db.Prefetch(b) }
func (d *c04DB) Lookup(key []byte) ([]byte, error) { return d.db.Lookup(key) }
func (d *c04DB) Meta() [][2][]byte {
	var out [][2][]byte
	if d.db.Header != nil && d.db.Header.Metadata != nil {
		for _, kv := range d.db.Header.Metadata.KeyVals {
			out = append(out, [2][]byte{kv.Key, kv.Value})
		}
	}
	return out
}

func TestVerifC04(t *testing.T) { c04eng.Run(t, c04Format{}) }
