//go:build verif

package main

// C13 fixtures: three generated epochs (tiny: every file small enough to be cut at every offset;
// small: diverse shapes; medium: > 10 000 items => several buckets per compact index), directly
// built compact indexes with 1..17 entries, a directed sig-exists file (child process: one
// bucketteer writer per process), directly built block-time files. A function of the seed only.

import (
	"context"
	"encoding/json"
	"fmt"
	"math/rand"
	"net/http/httptest"
	"os"
	"path/filepath"
	"sort"
	"sync"
	"sync/atomic"
	"time"

	"github.com/gagliardetto/solana-go"
	"github.com/ipfs/go-cid"
	"github.com/rpcpool/yellowstone-faithful/blocktimeindex"
	"github.com/rpcpool/yellowstone-faithful/bucketteer"
	"github.com/rpcpool/yellowstone-faithful/indexes"
	"github.com/rpcpool/yellowstone-faithful/indexmeta"
	"github.com/rpcpool/yellowstone-faithful/zzverif/cargen"
	"github.com/rpcpool/yellowstone-faithful/zzverif/ev"
)

type c13EpochFx struct {
	Name string
	*vfEpochFx
	Cids     []cid.Cid // every section
	Slots    []uint64  // every block
	Sigs     []solana.Signature
	Pubkeys  []solana.PublicKey // every address mentioned by a transaction (deduplicated)
	HotPks   []solana.PublicKey // the addresses mentioned most often (chains of several linked-log records when > 1000)
	SecBound [][]int64          // per section: offsets of its length varint, its data and its end
}

type c13DirectIdx struct {
	Name  string
	Kind  string // "sig-to-cid" | "cid-to-offset-and-size"
	Path  string
	Sigs  []solana.Signature
	Cids  []cid.Cid
	Decl  uint64
	NKeys int
}

type c13DirectBt struct {
	Name  string
	Path  string
	Start uint64
	Cap   uint64
	Slots []uint64
}

type c13SetupErr struct{ part, msg string }

type c13Fixtures struct {
	root      string
	seed      int64
	epochs    []*c13EpochFx // tiny, small, medium
	direct    []*c13DirectIdx
	sigxPath  string
	sigxSigs  [][64]byte
	bts       []*c13DirectBt
	srv       *httptest.Server // serves root
	setupErrs []c13SetupErr
	workSeq   atomic.Int64
	mu        sync.Mutex
}

func (f *c13Fixtures) close() {
	if f.srv != nil {
		f.srv.Close()
	}
}

func (f *c13Fixtures) setupErr(part, format string, a ...any) {
	f.mu.Lock()
	f.setupErrs = append(f.setupErrs, c13SetupErr{part, fmt.Sprintf(format, a...)})
	f.mu.Unlock()
}

// workDir returns a fresh directory below root (served by srv under the same relative path).
func (f *c13Fixtures) workDir() string {
	d := filepath.Join(f.root, "w", fmt.Sprint(f.workSeq.Add(1)))
	os.MkdirAll(d, 0o755)
	return d
}

func (f *c13Fixtures) url(path string) string {
	rel, _ := filepath.Rel(f.root, path)
	return f.srv.URL + "/" + filepath.ToSlash(rel)
}

func (f *c13Fixtures) epoch(name string) *c13EpochFx {
	for _, e := range f.epochs {
		if e.Name == name {
			return e
		}
	}
	return nil
}

func c13EpochOpts(seed int64) map[string]cargen.Opts {
	r := rand.New(rand.NewSource(seed*7919 + 13))
	return map[string]cargen.Opts{
		// every file (but sig-exists and block-time, whose size is fixed by the format) stays small
		"tiny": {Epoch: 8, Seed: seed*1000 + 1, NSlots: 3 + r.Intn(2), MaxEntries: 1, MaxTx: 2, ExactTx: 3 + r.Intn(3), TinyOneIn: 1,
			RewardsOneIn: 2, LastSlot: seed%2 == 0, BlocktimeEdgeOneIn: 2},
		"small": {Epoch: 7, Seed: seed*1000 + 2, NSlots: 24 + r.Intn(12), SkipOneIn: 3, MaxEntries: 3, MaxTx: 4, MultiFrameOneIn: 4, MaxFrames: 5,
			RewardsOneIn: 3, VoteOneIn: 4, FailOneIn: 5, V0OneIn: 4, LastSlot: true, BlocktimeEdgeOneIn: 4, SigEdgeOneIn: 3, BigOneIn: 29,
			RootSha512: seed%2 == 1, SubsetEvery: 7},
		// > 10 000 sections / signatures / addresses: two or more buckets in every compact index
		"medium": {Epoch: 7, Seed: seed*1000 + 3, NSlots: 380 + r.Intn(40), MaxEntries: 1, MaxTx: 1, ExactTx: 10001 + r.Intn(300), RewardsOneIn: 50,
			VoteOneIn: 3, V0OneIn: 5, LastSlot: true},
	}
}

func c13BuildFixtures(root string, seed int64) (*c13Fixtures, error) {
	f := &c13Fixtures{root: root, seed: seed}
	f.srv = vfServeDir(root)
	opts := c13EpochOpts(seed)
	names := []string{"tiny", "small", "medium"}
	f.epochs = make([]*c13EpochFx, len(names))
	var wg sync.WaitGroup
	errs := make([]error, len(names)+1)
	for i, n := range names {
		i, n := i, n
		wg.Add(1)
		go func() {
			defer wg.Done()
			fx, indexErr, err := vfMakeEpoch(filepath.Join(root, n), opts[n], true)
			if err != nil {
				errs[i] = fmt.Errorf("%s: %w", n, err)
				return
			}
			if indexErr != "" {
				errs[i] = fmt.Errorf("%s: index generation failed: %s", n, indexErr)
				return
			}
			f.epochs[i] = c13DescribeEpoch(n, fx)
		}()
	}
	wg.Add(1)
	go func() {
		defer wg.Done()
		errs[len(names)] = f.buildSigx()
	}()
	if err := f.buildDirect(); err != nil {
		return f, err
	}
	if err := f.buildBlocktimes(); err != nil {
		return f, err
	}
	wg.Wait()
	for _, e := range errs {
		if e != nil {
			return f, e
		}
	}
	return f, nil
}

func c13DescribeEpoch(name string, fx *vfEpochFx) *c13EpochFx {
	e := &c13EpochFx{Name: name, vfEpochFx: fx}
	m := fx.Model
	for _, s := range m.Sections {
		e.Cids = append(e.Cids, s.Cid)
		e.SecBound = append(e.SecBound, []int64{int64(s.Offset), int64(s.Offset + s.Len - uint64(len(s.Data))), int64(s.Offset + s.Len)})
	}
	for _, b := range m.Blocks {
		e.Slots = append(e.Slots, b.Slot)
	}
	seen := map[solana.PublicKey]int{}
	for _, tx := range m.AllTxs() {
		e.Sigs = append(e.Sigs, tx.Sig)
		for _, k := range tx.AllKeys() {
			if seen[k] == 0 {
				e.Pubkeys = append(e.Pubkeys, k)
			}
			seen[k]++
		}
	}
	hot := append([]solana.PublicKey(nil), e.Pubkeys...)
	sort.SliceStable(hot, func(i, j int) bool { return seen[hot[i]] > seen[hot[j]] })
	if len(hot) > 6 {
		hot = hot[:6]
	}
	e.HotPks = hot
	return e
}

// ---------------------------------------------------------------- directly built compact indexes

func (f *c13Fixtures) buildDirect() error {
	rng := rand.New(rand.NewSource(f.seed*31 + 5))
	root := cargen.CidOf([]byte(fmt.Sprintf("c13-root-%d", f.seed)))
	dir := filepath.Join(f.root, "direct")
	type spec struct {
		kind string
		n    int
		decl uint64
	}
	var specs []spec
	for _, n := range []int{1, 2, 3, 4, 7, 8, 16, 17} {
		specs = append(specs, spec{"sig-to-cid", n, uint64(n)})
	}
	specs = append(specs, spec{"sig-to-cid", 6, 30001}) // 4 buckets, some of them empty
	for _, n := range []int{1, 2, 3, 5} {
		specs = append(specs, spec{"cid-to-offset-and-size", n, uint64(n)})
	}
	specs = append(specs, spec{"cid-to-offset-and-size", 9, 20001}) // 3 buckets
	for _, s := range specs {
		d := &c13DirectIdx{Name: fmt.Sprintf("direct-%s-n%d-decl%d", s.kind, s.n, s.decl), Kind: s.kind, Decl: s.decl, NKeys: s.n}
		sub := filepath.Join(dir, d.Name)
		tmp := filepath.Join(sub, "tmp")
		if err := os.MkdirAll(tmp, 0o755); err != nil {
			return err
		}
		switch s.kind {
		case "sig-to-cid":
			w, err := indexes.NewWriter_SigToCid(7, root, indexes.NetworkMainnet, tmp, s.decl)
			if err != nil {
				return err
			}
			for i := 0; i < s.n; i++ {
				var sig solana.Signature
				rng.Read(sig[:])
				c := cargen.CidOf(sig[:])
				if err := w.Put(sig, c); err != nil {
					return err
				}
				d.Sigs = append(d.Sigs, sig)
			}
			if err := w.Seal(context.Background(), sub); err != nil {
				return fmt.Errorf("%s: seal: %w", d.Name, err)
			}
			d.Path = w.GetFilepath()
			w.Close()
		case "cid-to-offset-and-size":
			w, err := indexes.NewWriter_CidToOffsetAndSize(7, root, indexes.NetworkMainnet, tmp, s.decl)
			if err != nil {
				return err
			}
			for i := 0; i < s.n; i++ {
				var b [16]byte
				rng.Read(b[:])
				c := cargen.CidOf(b[:])
				// offsets / sizes incl. the extremes of the 48-bit / 24-bit fields
				off := []uint64{0, 1, 1<<48 - 1, uint64(rng.Int63n(1 << 40))}[i%4]
				sz := []uint64{1, 1<<24 - 1, 255, uint64(1 + rng.Intn(1<<20))}[i%4]
				if err := w.Put(c, off, sz); err != nil {
					return err
				}
				d.Cids = append(d.Cids, c)
			}
			if err := w.Seal(context.Background(), sub); err != nil {
				return fmt.Errorf("%s: seal: %w", d.Name, err)
			}
			d.Path = w.GetFilepath()
			w.Close()
		}
		f.direct = append(f.direct, d)
	}
	return nil
}

// ---------------------------------------------------------------- directed sig-exists file (child)

type c13SigxArgs struct {
	Path string `json:"path"`
	Seed int64  `json:"seed"`
}

// bucket populations on boundary prefixes (prefix bytes as stored: sig[0], sig[1])
var c13SigxPops = []struct {
	P0, P1 byte
	N      int
}{
	{0x00, 0x00, 1}, {0xff, 0xff, 2}, {0x00, 0xff, 3}, {0xff, 0x00, 4}, {0x01, 0x00, 7}, {0x00, 0x01, 8},
	{0x80, 0x00, 9}, {0x7f, 0xff, 15}, {0x12, 0x34, 16}, {0x34, 0x12, 17}, {0xfe, 0xff, 100}, {0xff, 0xfe, 1},
}

func c13SigxSigs(seed int64) [][64]byte {
	rng := rand.New(rand.NewSource(seed*977 + 3))
	var out [][64]byte
	for _, p := range c13SigxPops {
		for i := 0; i < p.N; i++ {
			var s [64]byte
			rng.Read(s[:])
			s[0], s[1] = p.P0, p.P1
			out = append(out, s)
		}
	}
	return out
}

func init() {
	vfChildRoles["c13-sigx"] = func(raw json.RawMessage) (any, error) {
		var a c13SigxArgs
		if err := json.Unmarshal(raw, &a); err != nil {
			return nil, err
		}
		w, err := bucketteer.NewWriter(a.Path)
		if err != nil {
			return nil, err
		}
		for _, s := range c13SigxSigs(a.Seed) {
			w.Put(s)
		}
		meta := indexmeta.Meta{}
		meta.AddUint64(indexmeta.MetadataKey_Epoch, 7)
		meta.AddCid(indexmeta.MetadataKey_RootCid, cargen.CidOf([]byte("c13-sigx")))
		meta.AddString(indexmeta.MetadataKey_Network, string(indexes.NetworkMainnet))
		if _, err := w.Seal(meta); err != nil {
			return nil, err
		}
		return "ok", w.Close()
	}
}

func (f *c13Fixtures) buildSigx() error {
	dir := filepath.Join(f.root, "sigx")
	os.MkdirAll(dir, 0o755)
	p := filepath.Join(dir, "directed-sig-exists.index")
	r := vfRunChild("c13-sigx", c13SigxArgs{Path: p, Seed: f.seed}, 10*time.Minute)
	if r.Err != "" || r.Result == nil {
		return fmt.Errorf("directed sig-exists child: %s %v\n%s", r.Err, r.ExitErr, r.Output)
	}
	f.sigxPath = p
	f.sigxSigs = c13SigxSigs(f.seed)
	return nil
}

// ---------------------------------------------------------------- directly built block-time files

func (f *c13Fixtures) buildBlocktimes() error {
	rng := rand.New(rand.NewSource(f.seed*131 + 9))
	dir := filepath.Join(f.root, "bt")
	os.MkdirAll(dir, 0o755)
	edges := []int64{1, 1<<31 - 1, 1 << 31, 1<<32 - 1, 1_600_000_999}
	for _, c := range []uint64{1, 2, 3, 16, 255, 256, 257} {
		start := uint64(7 * 432000)
		ix := blocktimeindex.NewIndexer(start, start+c-1, c)
		d := &c13DirectBt{Name: fmt.Sprintf("direct-cap%d", c), Start: start, Cap: c, Path: filepath.Join(dir, fmt.Sprintf("cap%d-slot-to-blocktime.index", c))}
		for s := uint64(0); s < c; s++ {
			v := int64(1_500_000_000 + rng.Intn(400_000_000))
			if s == c-1 || rng.Intn(5) == 0 {
				v = edges[rng.Intn(len(edges))]
			}
			if err := ix.Set(start+s, v); err != nil {
				return err
			}
			d.Slots = append(d.Slots, start+s)
		}
		fh, err := os.Create(d.Path)
		if err != nil {
			return err
		}
		if _, err := ix.WriteTo(fh); err != nil {
			fh.Close()
			return err
		}
		fh.Close()
		f.bts = append(f.bts, d)
	}
	return nil
}

var _ = ev.Seed
