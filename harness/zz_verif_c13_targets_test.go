//go:build verif

package main

// C13 targets: one c13Target per (fixture, file kind, opener). The structure of each file is parsed
// here only to choose cut offsets and to name the region of a cut in the evidence; the oracle never
// looks at it (it compares with the complete file's answer).

import (
	"bytes"
	"context"
	"crypto/sha256"
	"encoding/binary"
	"encoding/hex"
	"fmt"
	"os"
	"path/filepath"
	"sort"
	"strings"

	"github.com/gagliardetto/solana-go"
	"github.com/ipfs/go-cid"
	"github.com/rpcpool/yellowstone-faithful/blocktimeindex"
	"github.com/rpcpool/yellowstone-faithful/bucketteer"
	"github.com/rpcpool/yellowstone-faithful/compactindexsized"
	"github.com/rpcpool/yellowstone-faithful/gsfa"
	"github.com/rpcpool/yellowstone-faithful/gsfa/linkedlog"
	"github.com/rpcpool/yellowstone-faithful/indexes"
	"github.com/rpcpool/yellowstone-faithful/indexmeta"
	"github.com/rpcpool/yellowstone-faithful/zzverif/ev"
	"golang.org/x/exp/mmap"
)

type c13FuncHandle struct {
	lookup func(k int) c13Ans
	close  func()
}

func (h *c13FuncHandle) Lookup(k int) c13Ans { return h.lookup(k) }
func (h *c13FuncHandle) Close() {
	if h.close != nil {
		h.close()
	}
}

func c13ValOrErr(v string, err error) c13Ans {
	if err != nil {
		return c13FromErr(err)
	}
	return c13Ans{c13Val, v}
}

func c13CidAns(c cid.Cid, err error) c13Ans {
	if err != nil {
		return c13FromErr(err)
	}
	if !c.Defined() {
		return c13Ans{c13Empty, "undefined cid without an error"}
	}
	return c13Ans{c13Val, c.String()}
}

func c13OasAns(o *indexes.OffsetAndSize, err error) c13Ans {
	if err != nil {
		return c13FromErr(err)
	}
	if o == nil {
		return c13Ans{c13Empty, "nil offset-and-size without an error"}
	}
	return c13Ans{c13Val, fmt.Sprintf("offset=%d size=%d", o.Offset, o.Size)}
}

// ================================================================ compact indexes

type c13CompactKeys struct {
	Cids  []cid.Cid
	Slots []uint64
	Sigs  []solana.Signature
	Pks   []solana.PublicKey
}

func (k c13CompactKeys) names(kind string) (names []string, raw [][]byte) {
	switch kind {
	case "cid-to-offset-and-size":
		for _, c := range k.Cids {
			names = append(names, c.String())
			raw = append(raw, c.Bytes())
		}
	case "slot-to-cid":
		for _, s := range k.Slots {
			names = append(names, fmt.Sprint(s))
			raw = append(raw, indexes.Uint64tob(s))
		}
	case "sig-to-cid":
		for _, s := range k.Sigs {
			s := s
			names = append(names, s.String())
			raw = append(raw, s[:])
		}
	case "pubkey-to-offset-and-size":
		for _, p := range k.Pks {
			names = append(names, p.String())
			raw = append(raw, p.Bytes())
		}
	}
	return
}

// c13OpenCompact opens a compact index with the repository's opener of that kind.
// flavor "os-file": Open_<Kind>(path); "mmap": OpenWithReader_<Kind>(mmap.Open(path)) as the server does.
func c13OpenCompact(kind, flavor, path string, keys c13CompactKeys) (c13Handle, error) {
	var rd indexes.ReaderAtCloser
	if flavor == "mmap" {
		m, err := mmap.Open(path)
		if err != nil {
			return nil, err
		}
		rd = m
	}
	switch kind {
	case "cid-to-offset-and-size":
		var r *indexes.CidToOffsetAndSize_Reader
		var err error
		if rd != nil {
			r, err = indexes.OpenWithReader_CidToOffsetAndSize(rd)
		} else {
			r, err = indexes.Open_CidToOffsetAndSize(path)
		}
		if err != nil {
			if rd != nil {
				rd.Close()
			}
			return nil, err
		}
		return &c13FuncHandle{func(k int) c13Ans { return c13OasAns(r.Get(keys.Cids[k])) }, func() { r.Close() }}, nil
	case "slot-to-cid":
		var r *indexes.SlotToCid_Reader
		var err error
		if rd != nil {
			r, err = indexes.OpenWithReader_SlotToCid(rd)
		} else {
			r, err = indexes.Open_SlotToCid(path)
		}
		if err != nil {
			if rd != nil {
				rd.Close()
			}
			return nil, err
		}
		return &c13FuncHandle{func(k int) c13Ans { return c13CidAns(r.Get(keys.Slots[k])) }, func() { r.Close() }}, nil
	case "sig-to-cid":
		var r *indexes.SigToCid_Reader
		var err error
		if rd != nil {
			r, err = indexes.OpenWithReader_SigToCid(rd)
		} else {
			r, err = indexes.Open_SigToCid(path)
		}
		if err != nil {
			if rd != nil {
				rd.Close()
			}
			return nil, err
		}
		return &c13FuncHandle{func(k int) c13Ans { return c13CidAns(r.Get(keys.Sigs[k])) }, func() { r.Close() }}, nil
	case "pubkey-to-offset-and-size":
		var r *indexes.PubkeyToOffsetAndSize_Reader
		var err error
		if rd != nil {
			r, err = indexes.OpenWithReader_PubkeyToOffsetAndSize(rd)
		} else {
			r, err = indexes.Open_PubkeyToOffsetAndSize(path)
		}
		if err != nil {
			if rd != nil {
				rd.Close()
			}
			return nil, err
		}
		return &c13FuncHandle{func(k int) c13Ans { return c13OasAns(r.Get(keys.Pks[k])) }, func() { r.Close() }}, nil
	}
	return nil, fmt.Errorf("unknown kind %s", kind)
}

// c13CompactLayout: where the structures of a compact index file are (cut selection / region names).
type c13CompactLayout struct {
	size     int64
	hdrEnd   int64
	tableEnd int64
	stride   int64
	buckets  []struct{ off, n int64 }
	db       *compactindexsized.DB
	file     *os.File
	loaded   map[int64][]compactindexsized.Entry
}

func c13ParseCompact(path string) (*c13CompactLayout, error) {
	b, err := os.ReadFile(path)
	if err != nil {
		return nil, err
	}
	if len(b) < 25 {
		return nil, fmt.Errorf("compact index %s: too short", path)
	}
	l := &c13CompactLayout{size: int64(len(b)), loaded: map[int64][]compactindexsized.Entry{}}
	l.hdrEnd = 12 + int64(binary.LittleEndian.Uint32(b[8:12]))
	vs := int64(binary.LittleEndian.Uint64(b[12:20]))
	nb := int64(binary.LittleEndian.Uint32(b[20:24]))
	l.stride = 3 + vs
	l.tableEnd = l.hdrEnd + 16*nb
	if l.tableEnd > l.size {
		return nil, fmt.Errorf("compact index %s: bucket table beyond the end", path)
	}
	for i := int64(0); i < nb; i++ {
		e := b[l.hdrEnd+16*i : l.hdrEnd+16*i+16]
		var off [8]byte
		copy(off[:], e[10:16])
		l.buckets = append(l.buckets, struct{ off, n int64 }{int64(binary.LittleEndian.Uint64(off[:])), int64(binary.LittleEndian.Uint32(e[4:8]))})
	}
	l.file, err = os.Open(path)
	if err != nil {
		return nil, err
	}
	l.db, err = compactindexsized.Open(l.file)
	if err != nil {
		l.file.Close()
		return nil, err
	}
	return l, nil
}

func (l *c13CompactLayout) close() {
	if l.file != nil {
		l.file.Close()
	}
}

func (l *c13CompactLayout) bounds() []int64 {
	out := []int64{8, 12, 20, 24, 25, l.hdrEnd, l.tableEnd, l.size}
	step := 1
	if len(l.buckets) > 64 {
		step = len(l.buckets) / 64
	}
	for i := 0; i < len(l.buckets); i += step {
		out = append(out, l.hdrEnd+16*int64(i), l.hdrEnd+16*int64(i)+4, l.hdrEnd+16*int64(i)+8, l.hdrEnd+16*int64(i)+10)
		bk := l.buckets[i]
		out = append(out, bk.off, bk.off+bk.n*l.stride)
		if bk.n > 0 {
			out = append(out, bk.off+l.stride, bk.off+(bk.n-1)*l.stride)
		}
	}
	return out
}

// keyBounds: the bucket-table entry of the key's bucket and the key's own entry (start, end of the
// hash, end of the value), located with the repository's own bucket functions.
func (l *c13CompactLayout) keyBounds(key []byte) []int64 {
	bi := int64(l.db.Header.BucketHash(key))
	out := []int64{l.hdrEnd + 16*bi, l.hdrEnd + 16*bi + 16}
	bk, err := l.db.GetBucket(uint(bi))
	if err != nil {
		return out
	}
	ents, ok := l.loaded[bi]
	if !ok {
		ents, err = bk.Load(0)
		if err != nil {
			return out
		}
		l.loaded[bi] = ents
	}
	target := bk.Hash(key)
	for j, e := range ents {
		if e.Hash == target {
			p := int64(bk.FileOffset) + int64(j)*l.stride
			out = append(out, p, p+3, p+l.stride)
			break
		}
	}
	return out
}

func (l *c13CompactLayout) region(c int64) string {
	switch {
	case c < 12:
		return "magic+header-length"
	case c < l.hdrEnd:
		return "header"
	case c < l.tableEnd:
		return "bucket-table"
	}
	for i, b := range l.buckets {
		if c >= b.off && c < b.off+b.n*l.stride {
			if i == 0 {
				return "entries-first-bucket"
			}
			return "entries-later-bucket"
		}
	}
	return "entries"
}

type c13Limits struct {
	exhaustBelow int64
	nRandom      int
	maxKeys      int
	maxCuts      int
	shard, of    int
}

func (t *c13Target) limits(l c13Limits) *c13Target {
	t.ExhaustBelow, t.NRandom, t.MaxKeys, t.MaxCuts = l.exhaustBelow, l.nRandom, l.maxKeys, l.maxCuts
	t.Shard, t.NShards = l.shard, l.of
	return t
}

// c13CompactTarget builds the target for one compact index file and one opener.
func c13CompactTarget(f *c13Fixtures, part, fixture, kind, flavor, path string, keys c13CompactKeys, lim c13Limits) (*c13Target, error) {
	lay, err := c13ParseCompact(path)
	if err != nil {
		return nil, err
	}
	names, raw := keys.names(kind)
	work := filepath.Join(f.workDir(), filepath.Base(path))
	t := &c13Target{Part: part, Fixture: fixture, Site: kind + "/" + flavor, Size: lay.size, Keys: names}
	t.SetCut = c13Cutter(path, work)
	t.Open = func() (c13Handle, error) { return c13OpenCompact(kind, flavor, work, keys) }
	t.Region = lay.region
	t.Bounds = lay.bounds()
	t.KeyBounds = func(k int) []int64 { return lay.keyBounds(raw[k]) }
	t.Cleanup = func() { lay.close(); os.RemoveAll(filepath.Dir(work)) }
	return t.limits(lim), nil
}

func c13EpochCompactFiles(e *c13EpochFx) []struct {
	kind, path string
} {
	return []struct{ kind, path string }{
		{"cid-to-offset-and-size", e.Idx.CidToOffsetAndSize},
		{"slot-to-cid", e.Idx.SlotToCid},
		{"sig-to-cid", e.Idx.SigToCid},
		{"pubkey-to-offset-and-size", filepath.Join(e.Idx.GsfaDir, "pubkey-to-offset-and-size.index")},
	}
}

// c13StoredPubkeys: the addresses the complete pubkey index answers (which addresses the gsfa
// indexer stores is C06's subject; C13 quantifies over the stored ones).
func c13StoredPubkeys(e *c13EpochFx) []solana.PublicKey {
	r, err := indexes.Open_PubkeyToOffsetAndSize(filepath.Join(e.Idx.GsfaDir, "pubkey-to-offset-and-size.index"))
	if err != nil {
		return nil
	}
	defer r.Close()
	var out []solana.PublicKey
	for _, pk := range e.Pubkeys {
		if _, err := r.Get(pk); err == nil {
			out = append(out, pk)
		}
	}
	return out
}

// c13HotIdx: positions of the most mentioned addresses within pks.
func c13HotIdx(e *c13EpochFx, pks []solana.PublicKey) []int {
	var out []int
	for _, h := range e.HotPks {
		for i, p := range pks {
			if p == h {
				out = append(out, i)
				break
			}
		}
	}
	return out
}

func c13CompactTargets(f *c13Fixtures) []*c13Target {
	var out []*c13Target
	add := func(t *c13Target, err error) {
		if err != nil {
			f.setupErr("compact-index", "target setup: %v", err)
			return
		}
		out = append(out, t)
	}
	for _, e := range f.epochs {
		keys := c13CompactKeys{Cids: e.Cids, Slots: e.Slots, Sigs: e.Sigs, Pks: c13StoredPubkeys(e)}
		lim := c13Limits{exhaustBelow: 8192, nRandom: ev.Pick(300, 3000), maxKeys: ev.Pick(64, 0)}
		if e.Name == "medium" {
			lim.maxKeys = ev.Pick(100, 600)
		}
		for _, kf := range c13EpochCompactFiles(e) {
			for _, flavor := range []string{"os-file", "mmap"} {
				add(c13CompactTarget(f, "compact-index", e.Name, kf.kind, flavor, kf.path, keys, lim))
			}
		}
	}
	for _, d := range f.direct {
		keys := c13CompactKeys{Cids: d.Cids, Sigs: d.Sigs}
		for _, flavor := range []string{"os-file", "mmap"} {
			add(c13CompactTarget(f, "compact-index", d.Name, d.Kind, flavor, d.Path, keys, c13Limits{exhaustBelow: 1 << 20}))
		}
	}
	return out
}

// ================================================================ sig-exists

type c13SigxLayout struct {
	size      int64
	hdrTotal  int64 // 4 + header size: where the buckets start
	metaEnd   int64
	tableAt   int64
	entryPos  map[[2]byte]int64 // position of the prefix's table entry
	bucketAbs map[[2]byte]int64 // absolute position of the prefix's bucket (its u32 count)
	data      []byte
}

func c13ParseSigx(path string) (*c13SigxLayout, error) {
	b, err := os.ReadFile(path)
	if err != nil {
		return nil, err
	}
	if len(b) < 30 {
		return nil, fmt.Errorf("sig-exists %s: too short", path)
	}
	l := &c13SigxLayout{size: int64(len(b)), data: b, entryPos: map[[2]byte]int64{}, bucketAbs: map[[2]byte]int64{}}
	l.hdrTotal = 4 + int64(binary.LittleEndian.Uint32(b[0:4]))
	p := int64(20) // size(4) magic(8) version(8)
	nkv := int(b[p])
	p++
	for i := 0; i < nkv; i++ {
		p += 1 + int64(b[p])
		p += 1 + int64(b[p])
	}
	l.metaEnd = p
	n := int64(binary.LittleEndian.Uint64(b[p : p+8]))
	p += 8
	l.tableAt = p
	if p+n*10 != l.hdrTotal || l.hdrTotal > l.size {
		return nil, fmt.Errorf("sig-exists %s: header does not parse (table end %d, header end %d)", path, p+n*10, l.hdrTotal)
	}
	for i := int64(0); i < n; i++ {
		var pr [2]byte
		copy(pr[:], b[p:p+2])
		l.entryPos[pr] = p
		l.bucketAbs[pr] = l.hdrTotal + int64(binary.LittleEndian.Uint64(b[p+2:p+10]))
		p += 10
	}
	return l, nil
}

func (l *c13SigxLayout) bounds() []int64 {
	return []int64{4, 12, 20, l.metaEnd, l.tableAt, l.hdrTotal, l.size}
}

func (l *c13SigxLayout) keyBounds(sig [64]byte) []int64 {
	pr := [2]byte{sig[0], sig[1]}
	ep, ok := l.entryPos[pr]
	if !ok {
		return nil
	}
	out := []int64{ep, ep + 2, ep + 10}
	ba := l.bucketAbs[pr]
	if ba+4 > l.size {
		return out
	}
	out = append(out, ba, ba+4)
	n := int64(binary.LittleEndian.Uint32(l.data[ba : ba+4]))
	want := bucketteer.Hash(sig)
	for j := int64(0); j < n && ba+4+8*j+8 <= l.size; j++ {
		if binary.LittleEndian.Uint64(l.data[ba+4+8*j:]) == want {
			out = append(out, ba+4+8*j, ba+4+8*j+8)
		}
	}
	out = append(out, ba+4+8*n)
	return out
}

func (l *c13SigxLayout) region(c int64) string {
	switch {
	case c < 4:
		return "header-size"
	case c < l.tableAt:
		return "header-fields"
	case c < l.hdrTotal:
		return "prefix-table"
	}
	return "buckets"
}

func c13OpenSigx(flavor, path string, sigs [][64]byte) (c13Handle, error) {
	has := func(r *bucketteer.Reader, k int) c13Ans {
		ok, err := r.Has(sigs[k])
		if err != nil {
			return c13FromErr(err)
		}
		if !ok {
			return c13Ans{c13NotFound, "has=false"}
		}
		return c13Ans{c13Val, "has=true"}
	}
	if flavor == "Open-mmap" {
		r, err := bucketteer.Open(path)
		if err != nil {
			return nil, err
		}
		return &c13FuncHandle{func(k int) c13Ans { return has(r, k) }, func() { r.Close() }}, nil
	}
	fh, err := os.Open(path)
	if err != nil {
		return nil, err
	}
	r, err := bucketteer.NewReader(fh)
	if err != nil {
		fh.Close()
		return nil, err
	}
	return &c13FuncHandle{func(k int) c13Ans { return has(r, k) }, func() { r.Close(); fh.Close() }}, nil
}

func c13SigsOf(e *c13EpochFx) [][64]byte {
	out := make([][64]byte, len(e.Sigs))
	for i, s := range e.Sigs {
		out[i] = s
	}
	return out
}

func c13SigNames(sigs [][64]byte) []string {
	out := make([]string, len(sigs))
	for i, s := range sigs {
		out[i] = solana.Signature(s).String()
	}
	return out
}

func c13SigxTarget(f *c13Fixtures, part, fixture, site, path string, sigs [][64]byte, lim c13Limits, open func(work string) (c13Handle, error)) (*c13Target, error) {
	lay, err := c13ParseSigx(path)
	if err != nil {
		return nil, err
	}
	work := filepath.Join(f.workDir(), filepath.Base(path))
	t := &c13Target{Part: part, Fixture: fixture, Site: site, Size: lay.size, Keys: c13SigNames(sigs)}
	t.SetCut = c13Cutter(path, work)
	t.Open = func() (c13Handle, error) { return open(work) }
	t.Region = lay.region
	t.Bounds = lay.bounds()
	t.KeyBounds = func(k int) []int64 { return lay.keyBounds(sigs[k]) }
	t.Cleanup = func() { os.RemoveAll(filepath.Dir(work)) }
	return t.limits(lim), nil
}

func c13SigExistsTargets(f *c13Fixtures) []*c13Target {
	var out []*c13Target
	type file struct {
		fixture, path string
		sigs          [][64]byte
	}
	files := []file{{"directed", f.sigxPath, f.sigxSigs}}
	for _, e := range f.epochs {
		files = append(files, file{e.Name, e.Idx.SigExists, c13SigsOf(e)})
	}
	for _, fl := range files {
		lim := c13Limits{nRandom: ev.Pick(150, 2000), maxKeys: ev.Pick(60, 400), maxCuts: ev.Pick(900, 12000)}
		if fl.fixture == "directed" {
			lim.maxKeys = 0
			lim.maxCuts = ev.Pick(2500, 20000)
		}
		for _, flavor := range []string{"Open-mmap", "NewReader-os-file"} {
			flavor, fl := flavor, fl
			t, err := c13SigxTarget(f, "sig-exists", fl.fixture, "sig-exists/"+flavor, fl.path, fl.sigs, lim,
				func(work string) (c13Handle, error) { return c13OpenSigx(flavor, work, fl.sigs) })
			if err != nil {
				f.setupErr("sig-exists", "target setup: %v", err)
				continue
			}
			out = append(out, t)
		}
	}
	return out
}

// ================================================================ slot-to-blocktime

func c13BtRegion(size int64) func(c int64) string {
	return func(c int64) string {
		switch {
		case c < 14:
			return "magic"
		case c < 46:
			return "header-fields"
		case c >= size-4:
			return "last-value"
		}
		return "values"
	}
}

func c13BtHandle(ix *blocktimeindex.Index, slots []uint64) c13Handle {
	return &c13FuncHandle{lookup: func(k int) c13Ans {
		v, err := ix.Get(slots[k])
		return c13ValOrErr(fmt.Sprint(v), err)
	}}
}

func c13OpenBt(flavor, path string, slots []uint64) (c13Handle, error) {
	var ix *blocktimeindex.Index
	var err error
	switch flavor {
	case "FromFile":
		ix, err = blocktimeindex.FromFile(path)
	case "FromBytes":
		var b []byte
		if b, err = os.ReadFile(path); err == nil {
			ix, err = blocktimeindex.FromBytes(b)
		}
	case "FromReader":
		var fh *os.File
		if fh, err = os.Open(path); err == nil {
			ix, err = blocktimeindex.FromReader(fh)
			fh.Close()
		}
	case "server-sequence":
		// the statements of NewEpochFromConfig for this file, in its order
		var fh ReaderAtCloser
		if fh, err = openIndexStorage(context.Background(), path); err == nil {
			var b []byte
			b, err = ReadAllFromReaderAt(fh, uint64(blocktimeindex.DefaultIndexByteSize))
			if err == nil {
				ix, err = blocktimeindex.FromBytes(b)
			}
			fh.Close()
		}
	}
	if err != nil {
		return nil, err
	}
	return c13BtHandle(ix, slots), nil
}

func c13SlotNames(slots []uint64) []string {
	out := make([]string, len(slots))
	for i, s := range slots {
		out[i] = fmt.Sprint(s)
	}
	return out
}

func c13BtTarget(f *c13Fixtures, part, fixture, site, path string, start uint64, slots []uint64, lim c13Limits, open func(work string) (c13Handle, error)) (*c13Target, error) {
	st, err := os.Stat(path)
	if err != nil {
		return nil, err
	}
	work := filepath.Join(f.workDir(), filepath.Base(path))
	t := &c13Target{Part: part, Fixture: fixture, Site: site, Size: st.Size(), Keys: c13SlotNames(slots)}
	t.SetCut = c13Cutter(path, work)
	t.Open = func() (c13Handle, error) { return open(work) }
	t.Region = c13BtRegion(st.Size())
	t.Bounds = []int64{14, 22, 30, 38, 46, st.Size()}
	t.KeyBounds = func(k int) []int64 { p := 46 + 4*int64(slots[k]-start); return []int64{p, p + 4} }
	t.Cleanup = func() { os.RemoveAll(filepath.Dir(work)) }
	return t.limits(lim), nil
}

func c13BlocktimeTargets(f *c13Fixtures) []*c13Target {
	var out []*c13Target
	add := func(t *c13Target, err error) {
		if err != nil {
			f.setupErr("slot-to-blocktime", "target setup: %v", err)
			return
		}
		out = append(out, t)
	}
	for _, d := range f.bts {
		for _, flavor := range []string{"FromFile", "FromBytes", "FromReader"} {
			flavor, d := flavor, d
			add(c13BtTarget(f, "slot-to-blocktime", d.Name, "slot-to-blocktime/"+flavor, d.Path, d.Start, d.Slots, c13Limits{exhaustBelow: 1 << 20},
				func(work string) (c13Handle, error) { return c13OpenBt(flavor, work, d.Slots) }))
		}
	}
	for _, e := range f.epochs {
		if e.Name == "medium" && !ev.Thorough() {
			continue
		}
		start := e.Model.Epoch * 432000
		for _, flavor := range []string{"FromFile", "FromBytes", "FromReader", "server-sequence"} {
			flavor, e := flavor, e
			lim := c13Limits{nRandom: ev.Pick(40, 600), maxKeys: ev.Pick(100, 0), maxCuts: ev.Pick(150, 2500)}
			add(c13BtTarget(f, "slot-to-blocktime", e.Name, "slot-to-blocktime/"+flavor, e.Idx.SlotToBlocktime, start, e.Slots, lim,
				func(work string) (c13Handle, error) { return c13OpenBt(flavor, work, e.Slots) }))
		}
	}
	return out
}

// ================================================================ gsfa directory

func c13LocsAns(locs []linkedlog.OffsetAndSizeAndSlot, err error) c13Ans {
	if err != nil {
		return c13FromErr(err)
	}
	if len(locs) == 0 {
		return c13Ans{c13Empty, "empty list without an error"}
	}
	var sb strings.Builder
	for _, l := range locs {
		fmt.Fprintf(&sb, "%d+%d@%d/%x;", l.Offset, l.Size, l.Slot, byte(l.Flags))
	}
	s := sb.String()
	if len(s) > 200 {
		h := sha256.Sum256([]byte(s))
		s = fmt.Sprintf("%d entries sha256=%s first=%s", len(locs), hex.EncodeToString(h[:8]), s[:60])
	}
	return c13Ans{c13Val, s}
}

var c13GsfaFiles = []string{"pubkey-to-offset-and-size.index", "linked-log", "manifest"}

// c13CopyGsfaDir copies the three files of a gsfa index directory.
func c13CopyGsfaDir(src, dst string) error {
	for _, n := range c13GsfaFiles {
		if err := c13CopyFile(filepath.Join(src, n), filepath.Join(dst, n)); err != nil {
			return err
		}
	}
	return nil
}

// c13ManifestKeys: what a reader can ask a manifest: its version and every metadata key.
func c13ManifestKeys(dir string) ([]string, [][]byte, error) {
	r, err := gsfa.NewGsfaReader(dir)
	if err != nil {
		return nil, nil, err
	}
	defer r.Close()
	names := []string{"version"}
	raw := [][]byte{nil}
	for _, kv := range r.Meta().KeyVals {
		names = append(names, "meta:"+string(kv.Key))
		raw = append(raw, append([]byte(nil), kv.Key...))
	}
	return names, raw, nil
}

// c13ManifestLookup: a manifest without the epoch / root-CID metadata is refused by the loader
// (NewEpochFromConfig: "the gsfa index does not have the epoch metadata"), so that outcome counts as
// the error it becomes there (DESIGN §3 C13: a manifest cut to 0 bytes is indistinguishable from a
// fresh one; NewManifest then writes a fresh header).
func c13ManifestLookup(r *gsfa.GsfaReader, raw [][]byte, k int) c13Ans {
	meta := r.Meta()
	if _, ok := meta.GetUint64(indexmeta.MetadataKey_Epoch); !ok {
		return c13Ans{c13Err, "no epoch metadata: refused by NewEpochFromConfig"}
	}
	if _, ok := meta.GetCid(indexmeta.MetadataKey_RootCid); !ok {
		return c13Ans{c13Err, "no root CID metadata: refused by NewEpochFromConfig"}
	}
	if k == 0 {
		return c13Ans{c13Val, fmt.Sprint(r.Version())}
	}
	v, ok := meta.Get(raw[k])
	if !ok {
		return c13Ans{c13Empty, "metadata key missing"}
	}
	return c13Ans{c13Val, hex.EncodeToString(v)}
}

// c13LogBounds: start and end of every linked-log record on the address's chain (walked with the
// repository's reader on the complete files; cut selection only).
func c13LogBounds(dir string, pk solana.PublicKey) []int64 {
	r, err := indexes.Open_PubkeyToOffsetAndSize(filepath.Join(dir, "pubkey-to-offset-and-size.index"))
	if err != nil {
		return nil
	}
	defer r.Close()
	ll, err := linkedlog.NewLinkedLog(filepath.Join(dir, "linked-log"))
	if err != nil {
		return nil
	}
	defer ll.Close()
	next, err := r.Get(pk)
	if err != nil {
		return nil
	}
	var out []int64
	for i := 0; i < 64 && next != nil && !next.IsZero(); i++ {
		out = append(out, int64(next.Offset), int64(next.Offset+next.Size), int64(next.Offset+next.Size)-9)
		_, nn, err := ll.ReadWithSize(next.Offset, next.Size)
		if err != nil {
			break
		}
		next = &nn
	}
	return out
}

func c13GsfaTargets(f *c13Fixtures) []*c13Target {
	var out []*c13Target
	for _, e := range f.epochs {
		e := e
		pks := c13StoredPubkeys(e)
		if len(pks) == 0 {
			f.setupErr("gsfa", "%s: the complete gsfa index answers none of the generated addresses", e.Name)
			continue
		}
		pkNames := make([]string, len(pks))
		for i, p := range pks {
			pkNames[i] = p.String()
		}
		mNames, mRaw, err := c13ManifestKeys(e.Idx.GsfaDir)
		if err != nil {
			f.setupErr("gsfa", "%s: complete gsfa index does not open: %v", e.Name, err)
			continue
		}
		for _, file := range c13GsfaFiles {
			file := file
			src := filepath.Join(e.Idx.GsfaDir, file)
			st, err := os.Stat(src)
			if err != nil {
				f.setupErr("gsfa", "%s: %v", e.Name, err)
				continue
			}
			work := f.workDir()
			if err := c13CopyGsfaDir(e.Idx.GsfaDir, work); err != nil {
				f.setupErr("gsfa", "%s: %v", e.Name, err)
				continue
			}
			t := &c13Target{Part: "gsfa", Fixture: e.Name, Site: "gsfa-" + strings.TrimSuffix(file, ".index") + "/NewGsfaReader", Size: st.Size()}
			t.SetCut = c13Cutter(src, filepath.Join(work, file))
			t.Cleanup = func() { os.RemoveAll(work) }
			lim := c13Limits{exhaustBelow: int64(ev.Pick(4096, 1<<16)), nRandom: ev.Pick(100, 1500), maxKeys: ev.Pick(60, 500), maxCuts: ev.Pick(700, 20000)}
			switch file {
			case "manifest":
				t.Keys = mNames
				t.Open = func() (c13Handle, error) {
					r, err := gsfa.NewGsfaReader(work)
					if err != nil {
						return nil, err
					}
					return &c13FuncHandle{func(k int) c13Ans { return c13ManifestLookup(r, mRaw, k) }, func() { r.Close() }}, nil
				}
				t.Region = func(c int64) string {
					switch {
					case c == 0:
						return "empty-file"
					case c < 8:
						return "magic"
					case c < 16:
						return "version"
					}
					return "metadata"
				}
				t.Bounds = []int64{8, 16, 17, st.Size()}
				lim.exhaustBelow = 1 << 16
			default:
				t.Keys = pkNames
				t.MustKeys = c13HotIdx(e, pks)
				t.Open = func() (c13Handle, error) {
					r, err := gsfa.NewGsfaReader(work)
					if err != nil {
						return nil, err
					}
					return &c13FuncHandle{func(k int) c13Ans { return c13LocsAns(r.Get(context.Background(), pks[k], 1<<30)) }, func() { r.Close() }}, nil
				}
				if file == "linked-log" {
					t.Region = func(c int64) string { return "records" }
					t.Bounds = []int64{st.Size()}
					t.KeyBounds = func(k int) []int64 { return c13LogBounds(e.Idx.GsfaDir, pks[k]) }
				} else {
					lay, err := c13ParseCompact(src)
					if err != nil {
						f.setupErr("gsfa", "%s: %v", e.Name, err)
						continue
					}
					t.Region = lay.region
					t.Bounds = lay.bounds()
					t.KeyBounds = func(k int) []int64 { return lay.keyBounds(pks[k].Bytes()) }
					t.Cleanup = func() { lay.close(); os.RemoveAll(work) }
				}
			}
			out = append(out, t.limits(lim))
		}
	}
	return out
}

// ================================================================ through a loaded Epoch

// c13CarRegion names the part of the CAR a cut falls into.
func c13CarRegion(e *c13EpochFx) func(c int64) string {
	starts := make([]int64, len(e.SecBound))
	for i, b := range e.SecBound {
		starts[i] = b[0]
	}
	return func(c int64) string {
		if c < int64(e.Model.HeaderLen) {
			return "car-header"
		}
		i := sort.Search(len(starts), func(i int) bool { return starts[i] > c }) - 1
		if i < 0 {
			return "car-header"
		}
		b := e.SecBound[i]
		pos := "first-section"
		if i == len(starts)-1 {
			pos = "last-section"
		} else if i > 0 {
			pos = "inner-section"
		}
		if c < b[1] {
			return pos + "-length+cid"
		}
		return pos + "-data"
	}
}

type c13EpochRole struct {
	role   string // config role: car, cid_to_offset_and_size, ...
	kind   string // file kind for the violation key
	remote bool
	gsfa   string // file of the gsfa directory under test ("" otherwise)
}

// c13EpochTarget: the epoch of fixture e with exactly one file cut, loaded through LoadConfig +
// NewEpochFromConfig for every cut; lookups through the Epoch's own methods.
func c13EpochTarget(f *c13Fixtures, e *c13EpochFx, r c13EpochRole, lim c13Limits) (*c13Target, error) {
	part := "epoch-index-files"
	if r.role == "car" {
		part = "car"
	}
	flavor := "local"
	if r.remote {
		flavor = "remote-http"
	}
	t := &c13Target{Part: part, Fixture: e.Name, Site: "epoch/" + r.kind + "/" + flavor}
	work := f.workDir()
	t.Cleanup = func() { os.RemoveAll(work) }
	var src string
	switch r.role {
	case "car":
		src = e.CarPath
	case "cid_to_offset_and_size":
		src = e.Idx.CidToOffsetAndSize
	case "slot_to_cid":
		src = e.Idx.SlotToCid
	case "sig_to_cid":
		src = e.Idx.SigToCid
	case "sig_exists":
		src = e.Idx.SigExists
	case "slot_to_blocktime":
		src = e.Idx.SlotToBlocktime
	case "gsfa":
		src = filepath.Join(e.Idx.GsfaDir, r.gsfa)
	}
	st, err := os.Stat(src)
	if err != nil {
		return nil, err
	}
	t.Size = st.Size()
	override := map[string]string{"gsfa": "", "__name": fmt.Sprintf("c13-%s.yml", filepath.Base(work))}
	var workFile string
	if r.role == "gsfa" {
		gdir := filepath.Join(work, filepath.Base(e.Idx.GsfaDir))
		if err := c13CopyGsfaDir(e.Idx.GsfaDir, gdir); err != nil {
			return nil, err
		}
		workFile = filepath.Join(gdir, r.gsfa)
		override["gsfa"] = gdir
	} else {
		workFile = filepath.Join(work, filepath.Base(src))
		override[r.role] = workFile
		if r.remote {
			override[r.role] = f.url(workFile)
		}
	}
	t.SetCut = c13Cutter(src, workFile)
	fxc := *e.vfEpochFx
	if err := fxc.writeConfig("", override); err != nil {
		return nil, err
	}
	cfgPath := fxc.CfgPath
	prevCleanup := t.Cleanup
	t.Cleanup = func() { prevCleanup(); os.Remove(cfgPath) }
	ctx := context.Background()
	var lookup func(ep *Epoch, k int) c13Ans
	switch r.role {
	case "car":
		t.Keys = make([]string, len(e.Cids))
		for i, c := range e.Cids {
			t.Keys[i] = c.String()
		}
		lookup = func(ep *Epoch, k int) c13Ans {
			b, err := ep.GetNodeByCid(ctx, e.Cids[k])
			if err != nil {
				return c13FromErr(err)
			}
			if len(b) == 0 {
				return c13Ans{c13Empty, "empty node without an error"}
			}
			h := sha256.Sum256(b)
			return c13Ans{c13Val, fmt.Sprintf("%d bytes sha256=%s", len(b), hex.EncodeToString(h[:8]))}
		}
		t.Region = c13CarRegion(e)
		t.Bounds = []int64{int64(e.Model.HeaderLen), t.Size}
		t.KeyBounds = func(k int) []int64 { return e.SecBound[k] }
	case "cid_to_offset_and_size":
		t.Keys = make([]string, len(e.Cids))
		for i, c := range e.Cids {
			t.Keys[i] = c.String()
		}
		lookup = func(ep *Epoch, k int) c13Ans { return c13OasAns(ep.FindOffsetAndSizeFromCid(ctx, e.Cids[k])) }
	case "slot_to_cid":
		t.Keys = c13SlotNames(e.Slots)
		lookup = func(ep *Epoch, k int) c13Ans { return c13CidAns(ep.FindCidFromSlot(ctx, e.Slots[k])) }
	case "sig_to_cid":
		t.Keys = c13SigNames(c13SigsOf(e))
		lookup = func(ep *Epoch, k int) c13Ans { return c13CidAns(ep.FindCidFromSignature(ctx, e.Sigs[k])) }
	case "sig_exists":
		t.Keys = c13SigNames(c13SigsOf(e))
		lookup = func(ep *Epoch, k int) c13Ans {
			ok, err := ep.sigExists.Has(e.Sigs[k])
			if err != nil {
				return c13FromErr(err)
			}
			if !ok {
				return c13Ans{c13NotFound, "has=false"}
			}
			return c13Ans{c13Val, "has=true"}
		}
		lay, err := c13ParseSigx(src)
		if err != nil {
			return nil, err
		}
		sigs := c13SigsOf(e)
		t.Region, t.Bounds = lay.region, lay.bounds()
		t.KeyBounds = func(k int) []int64 { return lay.keyBounds(sigs[k]) }
	case "slot_to_blocktime":
		t.Keys = c13SlotNames(e.Slots)
		lookup = func(ep *Epoch, k int) c13Ans {
			v, err := ep.GetBlocktime(e.Slots[k])
			return c13ValOrErr(fmt.Sprint(v), err)
		}
		start := e.Model.Epoch * 432000
		t.Region = c13BtRegion(t.Size)
		t.Bounds = []int64{14, 22, 30, 38, 46, t.Size}
		t.KeyBounds = func(k int) []int64 { p := 46 + 4*int64(e.Slots[k]-start); return []int64{p, p + 4} }
	case "gsfa":
		pks := c13StoredPubkeys(e)
		if len(pks) == 0 {
			return nil, fmt.Errorf("%s: no stored addresses", e.Name)
		}
		t.Keys = make([]string, len(pks))
		for i, p := range pks {
			t.Keys[i] = p.String()
		}
		t.MustKeys = c13HotIdx(e, pks)
		lookup = func(ep *Epoch, k int) c13Ans {
			if ep.gsfaReader == nil {
				return c13Ans{c13Empty, "epoch loaded without its address index"}
			}
			return c13LocsAns(ep.gsfaReader.Get(ctx, pks[k], 1<<30))
		}
		switch r.gsfa {
		case "linked-log":
			t.Region = func(c int64) string { return "records" }
			t.Bounds = []int64{t.Size}
			t.KeyBounds = func(k int) []int64 { return c13LogBounds(e.Idx.GsfaDir, pks[k]) }
		case "manifest":
			t.Region = func(c int64) string {
				if c == 0 {
					return "empty-file"
				}
				return "manifest"
			}
			t.Bounds = []int64{8, 16, 17, t.Size}
		}
	}
	if t.Region == nil {
		// the three compact kinds (and the gsfa pubkey index)
		lay, err := c13ParseCompact(src)
		if err != nil {
			return nil, err
		}
		ck := c13CompactKeys{Cids: e.Cids, Slots: e.Slots, Sigs: e.Sigs}
		kind := r.kind
		if r.role == "gsfa" {
			ck.Pks = c13StoredPubkeys(e)
			kind = "pubkey-to-offset-and-size"
		}
		_, raw := ck.names(kind)
		t.Region, t.Bounds = lay.region, lay.bounds()
		t.KeyBounds = func(k int) []int64 { return lay.keyBounds(raw[k]) }
		pc := t.Cleanup
		t.Cleanup = func() { pc(); lay.close() }
	}
	t.Open = func() (c13Handle, error) {
		fx := fxc // per-target copy: the config path never changes
		ep, err := fx.vfLoad(c13NewCache())
		if err != nil {
			return nil, err
		}
		return &c13FuncHandle{func(k int) c13Ans { return lookup(ep, k) }, func() { ep.Close() }}, nil
	}
	return t.limits(lim), nil
}

func c13EpochTargets(f *c13Fixtures) []*c13Target {
	var out []*c13Target
	add := func(part string, t *c13Target, err error) {
		if err != nil {
			f.setupErr(part, "target setup: %v", err)
			return
		}
		out = append(out, t)
	}
	for _, e := range f.epochs {
		var car, carRemote, idx, idxRemote, big, bigRemote, gs c13Limits
		switch e.Name {
		case "tiny":
			car = c13Limits{exhaustBelow: 1 << 14, maxKeys: 0}
			carRemote = c13Limits{exhaustBelow: int64(ev.Pick(0, 1<<14)), nRandom: ev.Pick(60, 0), maxCuts: ev.Pick(250, 0)}
			idx = c13Limits{exhaustBelow: 1 << 14}
			idxRemote = c13Limits{exhaustBelow: int64(ev.Pick(0, 1<<14)), nRandom: ev.Pick(30, 0), maxCuts: ev.Pick(120, 0)}
			big = c13Limits{nRandom: ev.Pick(30, 400), maxCuts: ev.Pick(120, 1500)}
			bigRemote = c13Limits{nRandom: ev.Pick(8, 100), maxCuts: ev.Pick(25, 400)}
			gs = c13Limits{exhaustBelow: int64(ev.Pick(512, 1<<14)), nRandom: ev.Pick(60, 0), maxCuts: ev.Pick(300, 0)}
		case "small":
			car = c13Limits{nRandom: ev.Pick(100, 2000), maxCuts: ev.Pick(500, 12000), maxKeys: ev.Pick(80, 0)}
			carRemote = c13Limits{nRandom: ev.Pick(30, 400), maxCuts: ev.Pick(120, 2500), maxKeys: ev.Pick(60, 0)}
			idx = c13Limits{nRandom: ev.Pick(60, 1500), maxCuts: ev.Pick(250, 8192), maxKeys: ev.Pick(60, 0), exhaustBelow: int64(ev.Pick(0, 8192))}
			idxRemote = c13Limits{nRandom: ev.Pick(20, 300), maxCuts: ev.Pick(80, 1500), maxKeys: ev.Pick(40, 0)}
			big = c13Limits{nRandom: ev.Pick(30, 400), maxCuts: ev.Pick(100, 1500), maxKeys: ev.Pick(60, 0)}
			bigRemote = c13Limits{nRandom: ev.Pick(4, 100), maxCuts: ev.Pick(15, 400), maxKeys: ev.Pick(40, 0)}
			gs = c13Limits{nRandom: ev.Pick(40, 800), maxCuts: ev.Pick(200, 5000), maxKeys: ev.Pick(40, 0)}
		default: // medium
			car = c13Limits{nRandom: ev.Pick(60, 1500), maxCuts: ev.Pick(250, 6000), maxKeys: ev.Pick(60, 400)}
			carRemote = c13Limits{nRandom: ev.Pick(15, 300), maxCuts: ev.Pick(60, 1200), maxKeys: ev.Pick(40, 200)}
			idx = c13Limits{nRandom: ev.Pick(40, 1000), maxCuts: ev.Pick(180, 5000), maxKeys: ev.Pick(60, 400)}
			idxRemote = c13Limits{nRandom: ev.Pick(10, 200), maxCuts: ev.Pick(40, 1000), maxKeys: ev.Pick(30, 200)}
			big = c13Limits{nRandom: ev.Pick(20, 300), maxCuts: ev.Pick(70, 1000), maxKeys: ev.Pick(60, 400)}
			bigRemote = c13Limits{nRandom: ev.Pick(4, 100), maxCuts: ev.Pick(14, 300), maxKeys: ev.Pick(30, 200)}
			gs = c13Limits{nRandom: ev.Pick(30, 600), maxCuts: ev.Pick(120, 3000), maxKeys: ev.Pick(40, 300)}
		}
		var t *c13Target
		var err error
		nsh := 1
		if e.Name == "tiny" {
			nsh = 4 // every offset of the CAR, one epoch load per cut: spread over 4 workers
		}
		for sh := 0; sh < nsh; sh++ {
			lim := car
			lim.shard, lim.of = sh, nsh
			t, err = c13EpochTarget(f, e, c13EpochRole{role: "car", kind: "car"}, lim)
			add("car", t, err)
		}
		t, err = c13EpochTarget(f, e, c13EpochRole{role: "car", kind: "car", remote: true}, carRemote)
		add("car", t, err)
		for _, rk := range [][2]string{{"cid_to_offset_and_size", "cid-to-offset-and-size"}, {"slot_to_cid", "slot-to-cid"}, {"sig_to_cid", "sig-to-cid"}} {
			t, err = c13EpochTarget(f, e, c13EpochRole{role: rk[0], kind: rk[1]}, idx)
			add("epoch-index-files", t, err)
			t, err = c13EpochTarget(f, e, c13EpochRole{role: rk[0], kind: rk[1], remote: true}, idxRemote)
			add("epoch-index-files", t, err)
		}
		for _, rk := range [][2]string{{"sig_exists", "sig-exists"}, {"slot_to_blocktime", "slot-to-blocktime"}} {
			t, err = c13EpochTarget(f, e, c13EpochRole{role: rk[0], kind: rk[1]}, big)
			add("epoch-index-files", t, err)
			t, err = c13EpochTarget(f, e, c13EpochRole{role: rk[0], kind: rk[1], remote: true}, bigRemote)
			add("epoch-index-files", t, err)
		}
		for _, file := range c13GsfaFiles {
			lim := gs
			if file == "manifest" {
				lim = c13Limits{exhaustBelow: 1 << 14}
			}
			t, err = c13EpochTarget(f, e, c13EpochRole{role: "gsfa", kind: "gsfa-" + strings.TrimSuffix(file, ".index"), gsfa: file}, lim)
			add("epoch-index-files", t, err)
		}
	}
	return out
}

var _ = bytes.Equal
