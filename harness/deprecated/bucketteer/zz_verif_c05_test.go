//go:build verif

package bucketteer

// C05 — signature-existence index has no false negatives (legacy file format, version 1).
// Workload, model and oracle live in zzverif/c05kit; this file adapts the deprecated Writer / Reader.
// The legacy writer keeps a map, so the cases run in-process.

import (
	"io"
	"testing"

	"github.com/rpcpool/yellowstone-faithful/zzverif/c05kit"
	"github.com/rpcpool/yellowstone-faithful/zzverif/ev"
)

type c05Writer struct{ w *Writer }

func (x c05Writer) Put(s [64]byte)      { x.w.Put(s) }
func (x c05Writer) Has(s [64]byte) bool { return x.w.Has(s) }
func (x c05Writer) Close() error        { return x.w.Close() }
func (x c05Writer) Seal(kvs []c05kit.KV) (int64, error) {
	var m map[string]string
	if kvs != nil {
		m = make(map[string]string, len(kvs))
		for _, kv := range kvs {
			m[string(kv.K)] = string(kv.V)
		}
	}
	return x.w.Seal(m)
}

func c05Format() c05kit.Format {
	return c05kit.Format{
		Name: "legacy", Pkg: "deprecated/bucketteer",
		NewWriter: func(path string) (c05kit.Writer, error) {
			w, err := NewWriter(path)
			if err != nil {
				return nil, err
			}
			return c05Writer{w}, nil
		},
		Open: func(path string) (c05kit.Reader, error) {
			r, err := Open(path)
			if err != nil {
				return nil, err
			}
			return r, nil
		},
		NewReader: func(ra io.ReaderAt) (c05kit.Reader, error) {
			r, err := NewReader(ra)
			if err != nil {
				return nil, err
			}
			return r, nil
		},
	}
}

func TestVerifC05(t *testing.T) {
	rec := ev.New("C05", "legacy-format")
	defer rec.Flush()
	cases := c05kit.Cases(ev.Seed(), ev.Thorough(), ev.Pick(80, 1500))
	c05kit.Drive(rec, c05Format(), cases, "", 4)
}
