//go:build verif

package compactindex36

// C04 — adapter of the legacy format with fixed 36-byte values for the shared engine zzverif/c04eng.

import (
	"context"
	"errors"
	"io"
	"os"
	"testing"

	"github.com/rpcpool/yellowstone-faithful/zzverif/c04eng"
)

type c04Format struct{}

func (c04Format) Name() string                 { return "compactindex36" }
func (c04Format) LegalValueSizes() []int       { return []int{36} }
func (c04Format) UnsupportedValueSizes() []int { return nil }
func (c04Format) HasMeta() bool                { return false }

// variant 0: target file size unknown (0); variant 1: a concrete target file size (the field is only
// recorded in the header by this format).
func (c04Format) Variants(int) []int { return []int{0, 1} }

func (c04Format) NumBucketsFor(declared uint) uint32 {
	return uint32((declared + targetEntriesPerBucket - 1) / targetEntriesPerBucket)
}

func (c04Format) BucketOf(nb uint32, key []byte) uint {
	h := Header{NumBuckets: nb}
	return h.BucketHash(key)
}

func (c04Format) EntryHash(domain uint32, key []byte) uint64 {
	return EntryHash64(domain, key) & 0xffffff
}

func (c04Format) FixValue(valueSize, variant int, raw []byte) []byte {
	out := make([]byte, 36)
	copy(out, raw)
	return out
}

func (c04Format) IsNotFound(err error) bool { return errors.Is(err, ErrNotFound) }

type c04Builder struct{ b *Builder }

func (c04Format) NewBuilder(tmpDir string, declared uint, valueSize, variant int) (c04eng.Builder, error) {
	var fileSize uint64
	if variant == 1 {
		fileSize = 1 << 40
	}
	b, err := NewBuilder(tmpDir, declared, fileSize)
	if err != nil {
		return nil, err
	}
	return &c04Builder{b}, nil
}

func (w *c04Builder) NumBuckets() uint32        { return w.b.Header.NumBuckets }
func (w *c04Builder) AddMeta(k, v []byte) error { return nil }
func (w *c04Builder) SetKind(kind []byte) error { return nil }
func (w *c04Builder) Insert(key, value []byte) error {
	var v [36]byte
	copy(v[:], value)
	return w.b.Insert(key, v)
}
func (w *c04Builder) Seal(ctx context.Context, f *os.File) error { return w.b.Seal(ctx, f) }
func (w *c04Builder) Close() error {
	// the legacy builder never closes its spill files; the harness does (descriptor hygiene)
	for i := range w.b.buckets {
		if w.b.buckets[i].file != nil {
			w.b.buckets[i].file.Close()
		}
	}
	return w.b.Close()
}

type c04DB struct{ db *DB }

func (c04Format) Open(r io.ReaderAt) (c04eng.DB, error) {
	db, err := Open(r)
	if err != nil {
		return nil, err
	}
	return &c04DB{db}, nil
}

func (d *c04DB) Prefetch(b bool) { d.db.Prefetch(b) }
func (d *c04DB) Lookup(key []byte) ([]byte, error) {
	v, err := d.db.Lookup(key)
	if err != nil {
		return nil, err
	}
	return v[:], nil
}
func (d *c04DB) Meta() [][2][]byte { return nil }

func TestVerifC04(t *testing.T) { c04eng.Run(t, c04Format{}) }
