//go:build verif

package compactindex

// C04 — adapter of the legacy format with integer (offset) values for the shared engine zzverif/c04eng.
// "Value size" here is the byte width of the offset field, which the format derives from the declared
// target file size; values are legal when they do not exceed that file size (documented contract of
// Insert).  Values travel through the engine as 8-byte little-endian integers.

import (
	"context"
	"encoding/binary"
	"errors"
	"io"
	"math"
	"os"
	"testing"

	"github.com/rpcpool/yellowstone-faithful/zzverif/c04eng"
)

type c04Format struct{}

func (c04Format) Name() string                 { return "compactindex" }
func (c04Format) LegalValueSizes() []int       { return []int{1, 2, 3, 4, 5, 6, 7, 8} }
func (c04Format) UnsupportedValueSizes() []int { return nil }
func (c04Format) HasMeta() bool                { return false }

// variant 0: the largest file size of that width (2^(8w)-1); variant 1: the smallest (2^(8(w-1)), 1 for w=1);
// variant 2 (w=8 only): file size "unknown" (0), which the builder documents as allowed.
func (c04Format) Variants(w int) []int {
	if w == 8 {
		return []int{0, 1, 2}
	}
	return []int{0, 1}
}

func c04FileSize(w, variant int) (param uint64, effective uint64) {
	switch variant {
	case 1:
		v := uint64(1) << (8 * uint(w-1))
		return v, v
	case 2:
		return 0, math.MaxUint64
	}
	if w >= 8 {
		return math.MaxUint64, math.MaxUint64
	}
	v := uint64(1)<<(8*uint(w)) - 1
	return v, v
}

func (c04Format) NumBucketsFor(declared uint) uint32 {
	return uint32((declared + targetEntriesPerBucket - 1) / targetEntriesPerBucket)
}

func (c04Format) BucketOf(nb uint32, key []byte) uint {
	h := Header{NumBuckets: nb}
	return h.BucketHash(key)
}

func (c04Format) EntryHash(domain uint32, key []byte) uint64 {
	return EntryHash64(domain, key) & 0xffffff
}

func (c04Format) FixValue(w, variant int, raw []byte) []byte {
	_, fs := c04FileSize(w, variant)
	var full [8]byte
	copy(full[:], raw)
	v := binary.LittleEndian.Uint64(full[:])
	allFF := len(raw) > 0
	for _, b := range raw {
		if b != 0xff {
			allFF = false
		}
	}
	switch {
	case allFF:
		v = fs // the largest legal value
	case fs != math.MaxUint64:
		v %= fs + 1
	}
	out := make([]byte, 8)
	binary.LittleEndian.PutUint64(out, v)
	return out
}

func (c04Format) IsNotFound(err error) bool { return errors.Is(err, ErrNotFound) }

type c04Builder struct{ b *Builder }

func (c04Format) NewBuilder(tmpDir string, declared uint, w, variant int) (c04eng.Builder, error) {
	param, _ := c04FileSize(w, variant)
	b, err := NewBuilder(tmpDir, declared, param)
	if err != nil {
		return nil, err
	}
	return &c04Builder{b}, nil
}

func (w *c04Builder) NumBuckets() uint32        { return w.b.Header.NumBuckets }
func (w *c04Builder) AddMeta(k, v []byte) error { return nil }
func (w *c04Builder) SetKind(kind []byte) error { return nil }
func (w *c04Builder) Insert(key, value []byte) error {
	return w.b.Insert(key, binary.LittleEndian.Uint64(value))
}
func (w *c04Builder) Seal(ctx context.Context, f *os.File) error { return w.b.Seal(ctx, f) }
func (w *c04Builder) Close() error {
	// the legacy builder never closes its spill files; the harness does, so that thousands of cases do
	// not run the process out of descriptors
	for i := range w.b.buckets {
		if w.b.buckets[i].file != nil {
			w.b.buckets[i].file.Close()
		}
	}
	return w.b.Close()
}

type c04DB struct{ db *DB }

func (c04Format) Open(r io.ReaderAt) (c04eng.DB, error) {
	db, err := Open(r)
	if err != nil {
		return nil, err
	}
	return &c04DB{db}, nil
}

func (d *c04DB) Prefetch(b bool) { d.db.Prefetch(b) }
func (d *c04DB) Lookup(key []byte) ([]byte, error) {
	v, err := d.db.Lookup(key)
	if err != nil {
		return nil, err
	}
	out := make([]byte, 8)
	binary.LittleEndian.PutUint64(out, v)
	return out, nil
}
func (d *c04DB) Meta() [][2][]byte { return nil }

func TestVerifC04(t *testing.T) { c04eng.Run(t, c04Format{}) }
