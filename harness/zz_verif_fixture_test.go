//go:build verif

package main

// Shared fixture machinery for the package-main monitors: child-process protocol, epoch fixtures
// (cargen CAR -> the repository's own createAllIndexes / `index gsfa` in a child -> YAML config ->
// LoadConfig -> NewEpochFromConfig), request helpers.

import (
	"context"
	"encoding/json"
	"flag"
	"fmt"
	"net/http"
	"net/http/httptest"
	"os"
	"os/exec"
	"path/filepath"
	"strings"
	"sync"
	"syscall"
	"testing"
	"time"

	"github.com/allegro/bigcache/v3"
	hugecache "github.com/rpcpool/yellowstone-faithful/huge-cache"
	"github.com/rpcpool/yellowstone-faithful/indexes"
	"github.com/rpcpool/yellowstone-faithful/zzverif/cargen"
	"github.com/urfave/cli/v2"
	"github.com/valyala/fasthttp"
	"k8s.io/klog/v2"
)

func init() {
	// keep the monitors' logs readable: klog to stderr only at error level
	fs := flag.NewFlagSet("klog", flag.ContinueOnError)
	klog.InitFlags(fs)
	fs.Set("logtostderr", "false")
	fs.Set("alsologtostderr", "false")
	fs.Set("stderrthreshold", "FATAL")
	if d := os.Getenv("VERIF_SCRATCH"); d != "" {
		fs.Set("log_dir", d)
	}
}

// ---------------------------------------------------------------- child protocol

type vfChildReq struct {
	Role string          `json:"role"`
	Args json.RawMessage `json:"args"`
	Out  string          `json:"out"` // file the child writes its JSON result to
}

var vfChildRoles = map[string]func(args json.RawMessage) (any, error){}

// TestVerifChild is the entry point of every child process (re-exec of the test binary).
func TestVerifChild(t *testing.T) {
	spec := os.Getenv("VERIF_CHILD")
	if spec == "" {
		t.Skip("not a child")
	}
	b, err := os.ReadFile(spec)
	if err != nil {
		t.Fatalf("child: %v", err)
	}
	var req vfChildReq
	if err := json.Unmarshal(b, &req); err != nil {
		t.Fatalf("child: %v", err)
	}
	fn := vfChildRoles[req.Role]
	if fn == nil {
		t.Fatalf("child: unknown role %q", req.Role)
	}
	// a child must not outlive the monitor that started it (a killed driver would leave a stuck child
	// spinning for hours)
	go func() {
		pp := os.Getppid()
		for {
			time.Sleep(time.Second)
			if os.Getppid() != pp {
				os.Exit(3)
			}
		}
	}()
	res, err := fn(req.Args)
	out := map[string]any{"result": res}
	if err != nil {
		out["error"] = err.Error()
	}
	ob, _ := json.Marshal(out)
	if err := os.WriteFile(req.Out+".tmp", ob, 0o644); err != nil {
		t.Fatalf("child: %v", err)
	}
	os.Rename(req.Out+".tmp", req.Out)
}

var vfChildSeq struct {
	sync.Mutex
	n int
}

type vfChildResult struct {
	Result   json.RawMessage
	Err      string // error returned by the role function
	ExitErr  error  // process-level failure (crash, timeout)
	Output   string // combined output tail
	TimedOut bool
}

// vfRunChild re-executes the test binary as a child with the given role. The child's combined
// output goes to a file (pipes lose goroutine dumps).
func vfRunChild(role string, args any, timeout time.Duration, extraEnv ...string) vfChildResult {
	vfChildSeq.Lock()
	vfChildSeq.n++
	n := vfChildSeq.n
	vfChildSeq.Unlock()
	dir := filepath.Join(evScratch(), "child")
	os.MkdirAll(dir, 0o755)
	base := filepath.Join(dir, fmt.Sprintf("%s-%d-%d", role, os.Getpid(), n))
	ab, _ := json.Marshal(args)
	rb, _ := json.Marshal(vfChildReq{Role: role, Args: ab, Out: base + ".out.json"})
	os.WriteFile(base+".req.json", rb, 0o644)
	logf, _ := os.Create(base + ".log")
	defer logf.Close()
	ctx, cancel := context.WithTimeout(context.Background(), timeout)
	defer cancel()
	cmd := exec.CommandContext(ctx, os.Args[0], "-test.run=^TestVerifChild$", "-test.count=1", "-test.timeout=0")
	cmd.Env = append(os.Environ(), "VERIF_CHILD="+base+".req.json")
	cmd.Env = append(cmd.Env, extraEnv...)
	if gr := os.Getenv("GORACE"); gr != "" && strings.Contains(gr, "log_path=") {
		// children get their own race log next to the fixtures so that the driver finds them
		cmd.Env = append(cmd.Env, "GORACE=halt_on_error=0 log_path="+filepath.Join(evScratch(), fmt.Sprintf("race-child-%d", n)))
	}
	cmd.Stdout = logf
	cmd.Stderr = logf
	cmd.Dir, _ = os.Getwd()
	cmd.Cancel = func() error { return cmd.Process.Signal(sigQuit) }
	cmd.WaitDelay = 10 * time.Second
	err := cmd.Run()
	var res vfChildResult
	res.ExitErr = err
	res.TimedOut = ctx.Err() != nil
	if ob, rerr := os.ReadFile(base + ".out.json"); rerr == nil {
		var w struct {
			Result json.RawMessage `json:"result"`
			Error  string          `json:"error"`
		}
		if json.Unmarshal(ob, &w) == nil {
			res.Result, res.Err = w.Result, w.Error
		}
	}
	if lb, rerr := os.ReadFile(base + ".log"); rerr == nil {
		// keep the part that matters: from the first panic / fatal error line on
		txt := string(lb)
		first := -1
		for _, mark := range []string{"\npanic: ", "\nfatal error: ", "\nunexpected fault address", "\nSIGSEGV", "\nruntime: out of memory", "\nSIGQUIT"} {
			if k := strings.Index("\n"+txt, mark); k >= 0 && (first < 0 || k < first) {
				first = k
			}
		}
		if first >= 0 {
			txt = txt[first:]
			if len(txt) > 6000 {
				txt = txt[:6000]
			}
		} else if len(txt) > 6000 {
			txt = txt[len(txt)-6000:]
		}
		res.Output = txt
	}
	if err == nil {
		os.Remove(base + ".log")
		os.Remove(base + ".req.json")
		os.Remove(base + ".out.json")
	}
	return res
}

var sigQuit = syscall.SIGQUIT

func evScratch() string {
	if d := os.Getenv("VERIF_SCRATCH"); d != "" {
		return d
	}
	return os.TempDir()
}

// ---------------------------------------------------------------- index building (child role)

type vfIndexArgs struct {
	Car    string `json:"car"`
	IdxDir string `json:"idx_dir"`
	TmpDir string `json:"tmp_dir"`
	Epoch  uint64 `json:"epoch"`
	Gsfa   bool   `json:"gsfa"`
	// PreCancelled: createAllIndexes is given a context that is already cancelled
	PreCancelled bool   `json:"pre_cancelled,omitempty"`
	Network      string `json:"network"`
}

type vfIndexResult struct {
	CidToOffsetAndSize string `json:"cid_to_offset_and_size"`
	SlotToCid          string `json:"slot_to_cid"`
	SigToCid           string `json:"sig_to_cid"`
	SigExists          string `json:"sig_exists"`
	SlotToBlocktime    string `json:"slot_to_blocktime"`
	GsfaDir            string `json:"gsfa_dir"`
	NumItems           uint64 `json:"num_items"`
	VerifyErr          string `json:"verify_err"`
	GsfaErr            string `json:"gsfa_err"`
}

func init() {
	vfChildRoles["index"] = func(raw json.RawMessage) (any, error) {
		var a vfIndexArgs
		if err := json.Unmarshal(raw, &a); err != nil {
			return nil, err
		}
		os.MkdirAll(a.IdxDir, 0o755)
		os.MkdirAll(a.TmpDir, 0o755)
		nw := indexes.Network(a.Network)
		if nw == "" {
			nw = indexes.NetworkMainnet
		}
		ictx, icancel := context.WithCancel(context.Background())
		defer icancel()
		if a.PreCancelled {
			icancel()
		}
		paths, n, err := createAllIndexes(ictx, nw, a.TmpDir, a.Car, a.IdxDir)
		if err != nil {
			return nil, fmt.Errorf("createAllIndexes: %w", err)
		}
		res := &vfIndexResult{
			CidToOffsetAndSize: paths.CidToOffsetAndSize, SlotToCid: paths.SlotToCid, SigToCid: paths.SignatureToCid,
			SigExists: paths.SignatureExists, SlotToBlocktime: paths.SlotToBlocktime, NumItems: n,
		}
		if a.Gsfa {
			app := &cli.App{Commands: []*cli.Command{newCmd_Index()}}
			err := app.Run([]string{"x", "index", "gsfa", "--epoch", fmt.Sprint(a.Epoch), "--network", string(nw), "--tmp-dir", a.TmpDir, "--sigverify=false", a.Car, a.IdxDir})
			if err != nil {
				res.GsfaErr = err.Error()
			} else {
				m, _ := filepath.Glob(filepath.Join(a.IdxDir, "*gsfa*"))
				if len(m) > 0 {
					res.GsfaDir = m[0]
				} else {
					res.GsfaErr = "gsfa index directory not found after the command returned"
				}
			}
		}
		return res, nil
	}
}

// ---------------------------------------------------------------- epoch fixtures

type vfEpochFx struct {
	Model   *cargen.Model
	Dir     string
	CarPath string
	CfgPath string
	Idx     vfIndexResult
	Genesis string
}

func vfGenesisPath() string {
	p, _ := filepath.Abs("radiance/genesis/testdata/mainnet/genesis.tar.bz2")
	return p
}

// vfMakeEpoch generates a CAR and indexes it in a child process. indexErr is the error reported by
// the repository's index generation ("" when it reported success).
func vfMakeEpoch(dir string, o cargen.Opts, withGsfa bool) (fx *vfEpochFx, indexErr string, err error) {
	return vfMakeEpochTmp(dir, o, withGsfa, filepath.Join(dir, "tmp"))
}

// vfMakeEpochTmp: as vfMakeEpoch with the indexers' scratch directory given (several runs may share one, as
// several `index` commands started with the same --tmp-dir do).
func vfMakeEpochTmp(dir string, o cargen.Opts, withGsfa bool, tmpDir string) (fx *vfEpochFx, indexErr string, err error) {
	return vfMakeEpochOpt(dir, o, withGsfa, tmpDir, false)
}

// vfMakeEpochOpt: preCancelled runs the indexer with a context that is already cancelled (what a SIGINT that
// arrives early does to `index all`).
func vfMakeEpochOpt(dir string, o cargen.Opts, withGsfa bool, tmpDir string, preCancelled bool) (fx *vfEpochFx, indexErr string, err error) {
	if err := os.MkdirAll(dir, 0o755); err != nil {
		return nil, "", err
	}
	fx = &vfEpochFx{Dir: dir, CarPath: filepath.Join(dir, fmt.Sprintf("epoch-%d.car", o.Epoch))}
	m, err := cargen.Generate(fx.CarPath, o)
	if err != nil {
		return nil, "", err
	}
	fx.Model = m
	r := vfRunChild("index", vfIndexArgs{Car: fx.CarPath, IdxDir: filepath.Join(dir, "idx"), TmpDir: tmpDir, Epoch: o.Epoch, Gsfa: withGsfa, PreCancelled: preCancelled}, 20*time.Minute)
	if r.ExitErr != nil && r.Result == nil && r.Err == "" {
		return fx, "", fmt.Errorf("index child died: %v\n%s", r.ExitErr, r.Output)
	}
	if r.Err != "" {
		return fx, r.Err, nil
	}
	if err := json.Unmarshal(r.Result, &fx.Idx); err != nil {
		return fx, "", fmt.Errorf("index child result: %v", err)
	}
	if withGsfa && fx.Idx.GsfaErr != "" {
		return fx, "", fmt.Errorf("index gsfa: %s", fx.Idx.GsfaErr)
	}
	if err := fx.writeConfig("", nil); err != nil {
		return fx, "", err
	}
	return fx, "", nil
}

// writeConfig writes the epoch's YAML config. If remoteBase != "", the CAR and the compact/sig-exists/
// blocktime index files are referenced through that HTTP base URL (files served by vfServeDir).
func (fx *vfEpochFx) writeConfig(remoteBase string, override map[string]string) error {
	u := func(role, p string) string {
		if v, ok := override[role]; ok {
			return v
		}
		if remoteBase != "" {
			rel, _ := filepath.Rel(fx.Dir, p)
			return remoteBase + "/" + rel
		}
		return p
	}
	var sb strings.Builder
	fmt.Fprintf(&sb, "epoch: %d\nversion: 1\ndata:\n  car:\n    uri: '%s'\n", fx.Model.Epoch, u("car", fx.CarPath))
	if fx.Model.Epoch == 0 {
		fx.Genesis = vfGenesisPath()
		fmt.Fprintf(&sb, "genesis:\n  uri: '%s'\n", fx.Genesis)
	}
	sb.WriteString("indexes:\n")
	fmt.Fprintf(&sb, "  cid_to_offset_and_size:\n    uri: '%s'\n", u("cid_to_offset_and_size", fx.Idx.CidToOffsetAndSize))
	fmt.Fprintf(&sb, "  slot_to_cid:\n    uri: '%s'\n", u("slot_to_cid", fx.Idx.SlotToCid))
	fmt.Fprintf(&sb, "  sig_to_cid:\n    uri: '%s'\n", u("sig_to_cid", fx.Idx.SigToCid))
	fmt.Fprintf(&sb, "  sig_exists:\n    uri: '%s'\n", u("sig_exists", fx.Idx.SigExists))
	fmt.Fprintf(&sb, "  slot_to_blocktime:\n    uri: '%s'\n", u("slot_to_blocktime", fx.Idx.SlotToBlocktime))
	g := fx.Idx.GsfaDir
	if v, ok := override["gsfa"]; ok {
		g = v
	}
	if g != "" {
		fmt.Fprintf(&sb, "  gsfa:\n    uri: '%s'\n", g)
	}
	name := "epoch.yml"
	if remoteBase != "" {
		name = "epoch-remote.yml"
	}
	if v, ok := override["__name"]; ok {
		name = v
	}
	fx.CfgPath = filepath.Join(fx.Dir, name)
	return os.WriteFile(fx.CfgPath, []byte(sb.String()), 0o644)
}

func vfCliContext() *cli.Context {
	c := cli.NewContext(cli.NewApp(), flag.NewFlagSet("x", 0), nil)
	c.Context = context.Background()
	return c
}

func vfNewCache() *hugecache.Cache {
	// Same semantics as the server's cache (bigcache default config, 5 min life window) but with a small
	// initial allocation and no janitor goroutine: the default config pre-allocates ~300 MB per cache and its
	// clean-up goroutine keeps the cache reachable for ever, which made a run that creates hundreds of caches
	// (one per loaded epoch set) grow to tens of GB.
	conf := bigcache.DefaultConfig(5 * time.Minute)
	conf.Shards = 64
	conf.MaxEntriesInWindow = 64 * 64
	conf.MaxEntrySize = 512
	conf.CleanWindow = 0
	conf.Verbose = false
	cache, err := hugecache.NewWithConfig(context.Background(), conf)
	if err != nil {
		panic(err)
	}
	return cache
}

// vfLoad loads the epoch of the fixture's current config through the repository's loader.
func (fx *vfEpochFx) vfLoad(cache *hugecache.Cache) (*Epoch, error) {
	cfg, err := LoadConfig(fx.CfgPath)
	if err != nil {
		return nil, fmt.Errorf("LoadConfig: %w", err)
	}
	if err := cfg.Validate(); err != nil {
		return nil, fmt.Errorf("config.Validate: %w", err)
	}
	return NewEpochFromConfig(cfg, vfCliContext(), cache, nil)
}

// vfServeDir serves a directory over loopback HTTP with Range support (net/http's ServeContent).
func vfServeDir(dir string) *httptest.Server {
	return httptest.NewServer(http.FileServer(http.Dir(dir)))
}

// ---------------------------------------------------------------- request helpers

// vfCall sends one JSON-RPC body through the handler (fasthttp's own fake server context).
func vfCall(h func(*fasthttp.RequestCtx), body string) (status int, resp []byte) {
	var ctx fasthttp.RequestCtx
	var req fasthttp.Request
	req.Header.SetMethod("POST")
	req.SetRequestURI("/")
	req.Header.SetContentType("application/json")
	req.SetBody([]byte(body))
	ctx.Init(&req, nil, nil)
	h(&ctx)
	return ctx.Response.StatusCode(), append([]byte(nil), ctx.Response.Body()...)
}

func vfGet(h func(*fasthttp.RequestCtx), path string) (status int, resp []byte) {
	var ctx fasthttp.RequestCtx
	var req fasthttp.Request
	req.Header.SetMethod("GET")
	req.SetRequestURI(path)
	ctx.Init(&req, nil, nil)
	h(&ctx)
	return ctx.Response.StatusCode(), append([]byte(nil), ctx.Response.Body()...)
}
