//go:build verif

package rangecache

// C17 — the remote-file range cache is transparent (sequential part).
//
// Model: an immutable file F.  Histories over
//   get(s,l)      GetRange with a working remote
//   getfail(s,l)  GetRange while every remote fetch fails (the fetcher scribbles 0xEE into the buffer first)
//   set(s,l)      SetRange(s,l,copy of F[s:s+l])      setlong/setshort: value one byte too long / short
//   xall/xnone/xsome  DeleteOldEntries (everything / nothing / the entries with an even start, back-dated in-package)
// are executed against the real RangeCache.  Oracle (the statement, nothing more):
//   * a read of a range that is not inside the file must be refused (error, no bytes);
//   * a read that returns nil error returns exactly F[s:s+l];
//   * a read may return an error only if a remote fetch failed during that call;
//   * a call whose fetches all failed must not add an entry to the cache (in-package look at the map);
//   * every returned slice is scribbled over (0x55) after it was compared: aliasing into the cache shows as
//     wrong bytes in a later read;
//   * at the end of a history every range that is in the cache map, and every range that was ever inserted,
//     is read back through GetRange with a working remote and must equal its slice of F.
// Deliberately NOT judged: whether a read is a hit or a miss (cache effectiveness), whether expiry removes
// anything, occupiedSpace accounting (diagnostic counter only), the return value of SetRange.

import (
	"bytes"
	"context"
	"errors"
	"fmt"
	"io"
	"math"
	"math/rand"
	"os"
	"runtime"
	"sort"
	"strings"
	"sync"
	"testing"
	"time"

	"github.com/rpcpool/yellowstone-faithful/zzverif/ev"
)

type c17Op struct {
	K string `json:"k"`
	S int64  `json:"s"`
	L int64  `json:"l"`
}

func (o c17Op) String() string {
	if strings.HasPrefix(o.K, "x") {
		return o.K
	}
	return fmt.Sprintf("%s(%d,%d)", o.K, o.S, o.L)
}

type c17History struct {
	Part string  `json:"part"`
	N    int     `json:"file_size"`
	Ops  []c17Op `json:"ops"`
	// filled in on a violation
	Step int    `json:"failing_step,omitempty"`
	Obs  string `json:"observed,omitempty"`
}

type c17Fetch struct {
	off, ln int64
	failed  bool
}

var c17ErrInjected = errors.New("c17: injected remote failure")

// c17File returns the immutable model file: all bytes distinct, none 0x00 / 0x55 / 0xEE.
func c17File(n int) []byte {
	f := make([]byte, n)
	for i := range f {
		f[i] = byte(0x61 + i%23 + 29*((i/23)%4))
		if f[i] == 0x55 || f[i] == 0xEE || f[i] == 0 {
			f[i] = 0x7f
		}
	}
	return f
}

// c17Sys is one RangeCache under observation together with the model.
type c17Sys struct {
	mu       sync.Mutex // protects log/failMode/failAt (the concurrent part reads them from other goroutines)
	f        []byte
	rc       *RangeCache
	log      []c17Fetch
	failMode bool
	failAt   func(idx int) bool // optional: failure by global fetch index
	inserted map[Range]struct{}
}

func c17NewSys(n int) *c17Sys {
	s := &c17Sys{f: c17File(n), inserted: map[Range]struct{}{}}
	s.rc = NewRangeCache(int64(n), "c17", s.fetch)
	return s
}

func (s *c17Sys) fetch(p []byte, off int64) (int, error) {
	s.mu.Lock()
	idx := len(s.log)
	fail := s.failMode || (s.failAt != nil && s.failAt(idx))
	outside := off < 0 || off > int64(len(s.f)) || int64(len(p)) > int64(len(s.f))-off
	if outside {
		fail = true // a real remote cannot serve bytes it does not have
	}
	s.log = append(s.log, c17Fetch{off, int64(len(p)), fail})
	s.mu.Unlock()
	if fail {
		for i := range p {
			p[i] = 0xEE
		}
		// like a connection that breaks half-way: part of the buffer was written, n > 0, and an error;
		// the error value rotates over what real fetchers return (a plain error, io.ErrUnexpectedEOF
		// for a body cut short, io.EOF with n == 0 for an empty body)
		switch idx % 3 {
		case 1:
			return len(p) / 2, io.ErrUnexpectedEOF
		case 2:
			return 0, io.EOF
		}
		return len(p) / 2, c17ErrInjected
	}
	copy(p, s.f[off:])
	return len(p), nil
}

func (s *c17Sys) logLen() int {
	s.mu.Lock()
	defer s.mu.Unlock()
	return len(s.log)
}

func (s *c17Sys) logSince(i int) []c17Fetch {
	s.mu.Lock()
	defer s.mu.Unlock()
	return append([]c17Fetch(nil), s.log[i:]...)
}

func (s *c17Sys) valid(st, ln int64) bool {
	n := int64(len(s.f))
	return st >= 0 && ln >= 0 && st <= n && ln <= n-st
}

type c17Viol struct{ key, detail string }

func c17SafeGet(rc *RangeCache, ctx context.Context, st, ln int64) (got []byte, err error, pan any) {
	defer func() {
		if r := recover(); r != nil {
			pan = r
		}
	}()
	got, err = rc.GetRange(ctx, st, ln)
	return
}

func c17SafeSet(rc *RangeCache, ctx context.Context, st, ln int64, v []byte) (err error, pan any) {
	defer func() {
		if r := recover(); r != nil {
			pan = r
		}
	}()
	err = rc.SetRange(ctx, st, ln, v)
	return
}

func c17SafeExpire(rc *RangeCache, ctx context.Context, age time.Duration) (pan any) {
	defer func() {
		if r := recover(); r != nil {
			pan = r
		}
	}()
	rc.DeleteOldEntries(ctx, age)
	return
}

func (s *c17Sys) cacheKeys() map[Range]int {
	s.rc.mu.RLock()
	defer s.rc.mu.RUnlock()
	m := make(map[Range]int, len(s.rc.cache))
	for r, e := range s.rc.cache {
		m[r] = len(e.Value)
	}
	return m
}

// judgeGet applies the read oracle to one finished GetRange call.  fetches = the remote calls made during
// the call window (sequential: exactly this call's; concurrent: possibly other readers' too, which only
// makes the "error needs a failed fetch" clause more permissive).
func (s *c17Sys) judgeGet(site string, st, ln int64, got []byte, err error, pan any, fetches []c17Fetch) *c17Viol {
	if pan != nil {
		return &c17Viol{site + "/panic", fmt.Sprintf("GetRange(%d,%d) panicked: %v", st, ln, pan)}
	}
	if !s.valid(st, ln) {
		if err == nil {
			return &c17Viol{site + "/invalid-range-served", fmt.Sprintf("GetRange(%d,%d) on a %d-byte file returned %d bytes %x and no error (a range outside the file must be refused)", st, ln, len(s.f), len(got), got)}
		}
		return nil
	}
	if err != nil {
		for _, f := range fetches {
			if f.failed {
				return nil
			}
		}
		return &c17Viol{site + "/error-without-fetch-failure", fmt.Sprintf("GetRange(%d,%d) returned error %q although no remote fetch failed during the call (%d fetches)", st, ln, err.Error(), len(fetches))}
	}
	want := s.f[st : st+ln]
	if !bytes.Equal(got, want) {
		return &c17Viol{site + "/wrong-bytes", fmt.Sprintf("GetRange(%d,%d) = %x, the remote holds %x (fetches during the call: %v)", st, ln, got, want, fetches)}
	}
	return nil
}

func c17Scribble(b []byte) {
	for i := range b {
		b[i] = 0x55
	}
}

// runHistory executes h on a fresh cache.  Returns the first violation (nil = held) and whether the history
// contained a non-empty read served without any fetch after the cache had been mutated, plus a shape
// signature of the history (for the distinct count).
func c17RunHistory(h *c17History, diag map[string]int) (*c17Viol, bool, string) {
	s := c17NewSys(h.N)
	ctx := context.Background()
	mutated := false
	hitAfterMutation := false
	var sig strings.Builder
	fail := func(step int, v *c17Viol) (*c17Viol, bool, string) {
		h.Step = step
		h.Obs = v.detail
		return v, hitAfterMutation, sig.String()
	}
	for i, op := range h.Ops {
		switch op.K {
		case "get", "getfail":
			before := s.cacheKeys()
			l0 := len(s.log)
			s.failMode = op.K == "getfail"
			got, err, pan := c17SafeGet(s.rc, ctx, op.S, op.L)
			s.failMode = false
			fetches := s.log[l0:]
			if v := s.judgeGet("GetRange", op.S, op.L, got, err, pan, fetches); v != nil {
				return fail(i, v)
			}
			c17Scribble(got)
			okFetch := false
			for _, f := range fetches {
				if !f.failed {
					okFetch = true
					if s.valid(f.off, f.ln) {
						s.inserted[Range{f.off, f.off + f.ln}] = struct{}{}
					}
				}
			}
			after := s.cacheKeys()
			if len(fetches) > 0 && !okFetch {
				// every fetch of this call failed: nothing may have been added
				for r := range after {
					if _, was := before[r]; !was {
						return fail(i, &c17Viol{"GetRange/failed-fetch-cached", fmt.Sprintf("GetRange(%d,%d): the remote fetch failed, yet the cache gained entry [%d,%d)", op.S, op.L, r[0], r[1])})
					}
				}
			}
			switch {
			case err != nil:
				sig.WriteString("E")
			case len(fetches) == 0:
				sig.WriteString("H")
				if mutated && op.L > 0 {
					hitAfterMutation = true
				}
			default:
				sig.WriteString("M")
			}
			if len(after) != len(before) || okFetch {
				mutated = true
			}
		case "set", "setlong", "setshort":
			var val []byte
			if s.valid(op.S, op.L) {
				val = append([]byte(nil), s.f[op.S:op.S+op.L]...)
			} else {
				val = bytes.Repeat([]byte{0xEE}, int(c17Clamp(op.L, 0, 64)))
			}
			if op.K == "setlong" {
				val = append(val, 0xEE)
			}
			if op.K == "setshort" && len(val) > 0 {
				val = val[:len(val)-1]
			}
			err, pan := c17SafeSet(s.rc, ctx, op.S, op.L, val)
			if pan != nil {
				return fail(i, &c17Viol{"SetRange/panic", fmt.Sprintf("SetRange(%d,%d,%d bytes) panicked: %v", op.S, op.L, len(val), pan)})
			}
			wellFormed := s.valid(op.S, op.L) && int64(len(val)) == op.L // (setshort of an empty range is a well-formed set)
			if err == nil && wellFormed {
				s.inserted[Range{op.S, op.S + op.L}] = struct{}{}
				mutated = true
				sig.WriteString("S")
			} else if err != nil {
				sig.WriteString("s")
				if wellFormed {
					diag["setrange-valid-refused"]++
				}
			} else {
				sig.WriteString("?") // a malformed SetRange was accepted: judged through the reads that follow
				diag["setrange-malformed-accepted"]++
				mutated = true
			}
		case "xall":
			if pan := c17SafeExpire(s.rc, ctx, -time.Nanosecond); pan != nil {
				return fail(i, &c17Viol{"DeleteOldEntries/panic", fmt.Sprint(pan)})
			}
			if n := len(s.cacheKeys()); n != 0 {
				diag["expire-all-left-entries"] += n
			}
			mutated = true
			sig.WriteString("X")
		case "xnone":
			if pan := c17SafeExpire(s.rc, ctx, time.Hour); pan != nil {
				return fail(i, &c17Viol{"DeleteOldEntries/panic", fmt.Sprint(pan)})
			}
			sig.WriteString("n")
		case "xsome":
			s.rc.mu.Lock()
			for r, e := range s.rc.cache {
				if r[0]%2 == 0 {
					e.LastRead = e.LastRead.Add(-2 * time.Hour)
					s.rc.cache[r] = e
				}
			}
			s.rc.mu.Unlock()
			if pan := c17SafeExpire(s.rc, ctx, time.Hour); pan != nil {
				return fail(i, &c17Viol{"DeleteOldEntries/panic", fmt.Sprint(pan)})
			}
			mutated = true
			sig.WriteString("x")
		}
		// relation of this op's range to the previous op's range, part of the shape signature
		if i > 0 && !strings.HasPrefix(op.K, "x") && !strings.HasPrefix(h.Ops[i-1].K, "x") {
			sig.WriteString(c17Relation(h.Ops[i-1], op))
		}
		sig.WriteString(".")
	}
	// quiescent point: read everything back through the API
	if v := s.readback(ctx, "readback"); v != nil {
		return fail(len(h.Ops), v)
	}
	// diagnostic only
	var sum uint64
	for _, n := range s.cacheKeys() {
		sum += uint64(n)
	}
	if sum != s.rc.occupiedSpace {
		diag["occupied-space-mismatch"]++
	}
	return nil, hitAfterMutation, sig.String()
}

func (s *c17Sys) readback(ctx context.Context, site string) *c17Viol {
	ranges := map[Range]struct{}{}
	for r := range s.cacheKeys() {
		ranges[r] = struct{}{}
	}
	for r := range s.inserted {
		ranges[r] = struct{}{}
	}
	rs := make([]Range, 0, len(ranges))
	for r := range ranges {
		rs = append(rs, r)
	}
	sort.Slice(rs, func(i, j int) bool { return rs[i][0] < rs[j][0] || (rs[i][0] == rs[j][0] && rs[i][1] < rs[j][1]) })
	for pass := 0; pass < 2; pass++ { // second pass: everything read in pass 1 is now served from the cache
		for _, r := range rs {
			// (a map key that does not describe a range inside the file is not judged as such - the map is
			// private representation; the read below is judged like any other read: refused or correct)
			l0 := s.logLen()
			got, err, pan := c17SafeGet(s.rc, ctx, r[0], r[1]-r[0])
			if v := s.judgeGet(site, r[0], r[1]-r[0], got, err, pan, s.logSince(l0)); v != nil {
				v.detail = "reading back a cached/inserted range at a quiescent point: " + v.detail
				return v
			}
			c17Scribble(got)
		}
	}
	return nil
}

func c17Clamp(v, lo, hi int64) int64 {
	if v < lo {
		return lo
	}
	if v > hi {
		return hi
	}
	return v
}

func c17Relation(a, b c17Op) string {
	as, ae, bs, be := a.S, a.S+a.L, b.S, b.S+b.L
	switch {
	case as == bs && ae == be:
		return "="
	case as <= bs && ae >= be:
		return ">" // previous contains this
	case bs <= as && be >= ae:
		return "<"
	case ae == bs || be == as:
		return "|"
	case ae < bs || be < as:
		return "_"
	default:
		return "~"
	}
}

// c17Alphabet: every operation over an n-byte file (all valid ranges incl. empty ones + boundary-invalid ones).
func c17Alphabet(n int) []c17Op {
	N := int64(n)
	var ops []c17Op
	for s := int64(0); s <= N; s++ {
		for l := int64(0); l <= N-s; l++ {
			ops = append(ops, c17Op{"get", s, l}, c17Op{"getfail", s, l}, c17Op{"set", s, l})
		}
	}
	// reads outside the file: one past the end (from the last byte, from the middle, whole file + 1), start == size
	// with a length, start beyond size, negative start, negative length
	for _, r := range [][2]int64{{N - 1, 2}, {N / 2, N - N/2 + 1}, {0, N + 1}, {N, 1}, {N + 1, 0}, {-1, 2}, {N / 2, -1}} {
		ops = append(ops, c17Op{"get", r[0], r[1]})
	}
	for _, r := range [][2]int64{{N - 1, 2}, {-1, 1}} {
		ops = append(ops, c17Op{"set", r[0], r[1]})
	}
	ops = append(ops, c17Op{"setlong", 1, 2}, c17Op{"setshort", 1, 2}, c17Op{"setlong", N - 1, 1}, c17Op{"setshort", 0, N})
	ops = append(ops, c17Op{K: "xall"}, c17Op{K: "xnone"}, c17Op{K: "xsome"})
	return ops
}

type c17Agg struct {
	mu    sync.Mutex
	diag  map[string]int
	sigs  map[string]struct{}
	evals int
	hits  int
}

// c17Exhaustive runs every history of length 1..maxLen over an n-byte file.
func c17Exhaustive(rec *ev.Recorder, n, maxLen int) {
	alpha := c17Alphabet(n)
	workers := runtime.GOMAXPROCS(0)
	if workers > 8 {
		workers = 8
	}
	agg := &c17Agg{diag: map[string]int{}, sigs: map[string]struct{}{}}
	jobs := make(chan int)
	var wg sync.WaitGroup
	for w := 0; w < workers; w++ {
		wg.Add(1)
		go func() {
			defer wg.Done()
			diag := map[string]int{}
			sigs := map[string]struct{}{}
			evals, hits := 0, 0
			ops := make([]c17Op, 0, maxLen)
			var walk func(depth int)
			walk = func(depth int) {
				// run the history that ends here
				h := &c17History{Part: "exhaustive", N: n, Ops: ops}
				v, hit, sig := c17RunHistory(h, diag)
				evals++
				if v != nil {
					hc := *h
					hc.Ops = append([]c17Op(nil), ops...)
					rec.Violation(v.key, v.detail, hc)
				}
				if hit {
					hits++
					sigs[sig] = struct{}{}
				}
				if depth == maxLen {
					return
				}
				for _, op := range alpha {
					if evals%4096 == 0 && rec.Enough() {
						return
					}
					ops = append(ops, op)
					walk(depth + 1)
					ops = ops[:len(ops)-1]
				}
			}
			for first := range jobs {
				if rec.Enough() {
					continue
				}
				ops = append(ops[:0], alpha[first])
				walk(1)
			}
			agg.mu.Lock()
			for k, v := range diag {
				agg.diag[k] += v
			}
			for k := range sigs {
				agg.sigs[k] = struct{}{}
			}
			agg.evals += evals
			agg.hits += hits
			agg.mu.Unlock()
		}()
	}
	for i := range alpha {
		jobs <- i
	}
	close(jobs)
	wg.Wait()
	rec.Eval(agg.evals)
	rec.Count(fmt.Sprintf("histories_n%d_len<=%d", n, maxLen), agg.evals)
	rec.Count("histories_with_hit_after_mutation", agg.hits)
	rec.Count(fmt.Sprintf("alphabet_n%d", n), len(alpha))
	for k := range agg.sigs {
		rec.Distinct(fmt.Sprintf("n%d:%s", n, k))
	}
	for k, v := range agg.diag {
		rec.Count("diag_"+k, v)
	}
}

func c17ReplayEnv() string { return os.Getenv("VERIF_REPLAY") }

func c17ReplayHistory(t *testing.T, rec *ev.Recorder) bool {
	var h c17History
	if !ev.LoadReplay(&h) || len(h.Ops) == 0 {
		return false
	}
	h.Step, h.Obs = 0, ""
	diag := map[string]int{}
	rec.Eval(1)
	rec.Note("replay", true)
	if v, _, _ := c17RunHistory(&h, diag); v != nil {
		rec.Violation(v.key, v.detail, h)
		t.Logf("replayed: VIOLATION %s: %s", v.key, v.detail)
	} else {
		t.Logf("replayed: held")
	}
	return true
}

// TestVerifC17Exhaustive: all short histories.
func TestVerifC17Exhaustive(t *testing.T) {
	rec := ev.New("C17", "short-histories")
	defer rec.Flush()
	rec.Rule("every history of length <= L over the full operation alphabet of an n-byte file; distinct = distinct shape signatures (outcome per op: Hit/Miss/Error/Set/eXpire + relation of consecutive ranges) of histories containing >= 1 non-empty read served without a fetch after the cache was mutated")
	if c17ReplayEnv() != "" {
		if !c17ReplayHistory(t, rec) {
			rec.Note("replay", "not a history replay; nothing to do in this part")
			rec.Eval(1)
		}
		return
	}
	// both tiers: length <= 3 over 8 bytes; thorough adds length <= 4 over 5, 3 and 2 bytes, length <= 5 over 1 byte
	c17Exhaustive(rec, 8, 3)
	if ev.Thorough() {
		c17Exhaustive(rec, 5, 4)
		c17Exhaustive(rec, 3, 4)
		c17Exhaustive(rec, 2, 4)
		c17Exhaustive(rec, 1, 5)
	} else {
		c17Exhaustive(rec, 3, 3)
		c17Exhaustive(rec, 2, 3)
		c17Exhaustive(rec, 1, 3)
	}
	rec.Exhaustive(true)
	h := c17History{Part: "exhaustive", N: 8, Ops: []c17Op{{"set", 0, 5}, {"set", 1, 1}, {"get", 1, 3}}}
	rec.Sample(h)
	rec.Sample(c17History{Part: "exhaustive", N: 8, Ops: []c17Op{{"getfail", 2, 3}, {"xall", 0, 0}, {"get", 2, 3}}})
}

// ---- random long histories + directed boundary values -------------------------------------------------

func c17RandomHistory(rng *rand.Rand, n, length int) []c17Op {
	N := int64(n)
	ops := make([]c17Op, 0, length)
	rr := func() (int64, int64) {
		switch rng.Intn(10) {
		case 0: // whole file / prefix / suffix
			switch rng.Intn(3) {
			case 0:
				return 0, N
			case 1:
				return 0, rng.Int63n(N + 1)
			default:
				s := rng.Int63n(N + 1)
				return s, N - s
			}
		case 1: // neighbourhood of the previous range: nested / adjacent / overlapping
			if len(ops) > 0 {
				p := ops[len(ops)-1]
				s := c17Clamp(p.S+int64(rng.Intn(5))-2, 0, N)
				e := c17Clamp(p.S+p.L+int64(rng.Intn(5))-2, s, N)
				return s, e - s
			}
		case 2: // adjacent to previous
			if len(ops) > 0 {
				p := ops[len(ops)-1]
				s := c17Clamp(p.S+p.L, 0, N)
				return s, rng.Int63n(N - s + 1)
			}
		}
		s := rng.Int63n(N + 1)
		return s, rng.Int63n(N - s + 1)
	}
	for len(ops) < length {
		s, l := rr()
		switch x := rng.Intn(100); {
		case x < 50:
			ops = append(ops, c17Op{"get", s, l})
		case x < 65:
			ops = append(ops, c17Op{"getfail", s, l})
		case x < 80:
			ops = append(ops, c17Op{"set", s, l})
		case x < 84:
			ops = append(ops, c17Op{K: "xall"})
		case x < 88:
			ops = append(ops, c17Op{K: "xsome"})
		case x < 90:
			ops = append(ops, c17Op{K: "xnone"})
		case x < 94: // one past the end
			ops = append(ops, c17Op{"get", s, N - s + 1 + int64(rng.Intn(2))})
		case x < 96:
			ops = append(ops, c17Op{"get", -1 - int64(rng.Intn(3)), l + 1})
		case x < 97:
			ops = append(ops, c17Op{"get", s, -1 - int64(rng.Intn(3))})
		case x < 98:
			ops = append(ops, c17Op{"setlong", s, l})
		case x < 99:
			ops = append(ops, c17Op{"setshort", s, l})
		default:
			ops = append(ops, c17Op{"set", s, N - s + 1})
		}
	}
	return ops
}

func TestVerifC17Random(t *testing.T) {
	rec := ev.New("C17", "long-histories")
	defer rec.Flush()
	rec.Rule("random histories of length 60 over files of 0..300 bytes (seeded) + directed boundary reads (int64 extremes, start==size, one past the end); distinct = distinct (file size, shape signature) of histories with >= 1 non-empty hit after a mutation")
	if c17ReplayEnv() != "" {
		rec.Note("replay", "history replays are executed by the short-histories part")
		rec.Eval(1)
		return
	}
	diag := map[string]int{}
	// directed: extreme arguments must be refused, never panic, never padded
	sizes := []int{0, 1, 2, 7, 8, 9, 255, 256}
	for _, n := range sizes {
		N := int64(n)
		ext := [][2]int64{
			{0, math.MaxInt64}, {1, math.MaxInt64}, {math.MaxInt64, 1}, {math.MaxInt64, math.MaxInt64}, {math.MinInt64, 1},
			{math.MinInt64, math.MaxInt64}, {-1, math.MaxInt64}, {N, math.MaxInt64 - N + 1}, {1 << 62, 1 << 62}, {N, 1}, {N + 1, 0},
			{N, 0}, {0, 0}, {0, N}, {N - 1, 1}, {N - 1, 2}, {0, N + 1}, {-1, 1}, {-1, 0}, {N / 2, -1}, {2, -2}, {N, -N}, {N, -1},
		}
		for _, pre := range []string{"", "set-all", "get-all"} {
			for _, e := range ext {
				var ops []c17Op
				switch pre {
				case "set-all":
					ops = append(ops, c17Op{"set", 0, N})
				case "get-all":
					ops = append(ops, c17Op{"get", 0, N})
				}
				ops = append(ops, c17Op{"get", e[0], e[1]}, c17Op{"get", e[0], e[1]})
				h := &c17History{Part: "directed", N: n, Ops: ops}
				v, _, _ := c17RunHistory(h, diag)
				rec.Eval(1)
				if v != nil {
					rec.Violation(v.key, v.detail, *h)
				}
			}
		}
	}
	nh := ev.Pick(6000, 150000)
	rng := rand.New(rand.NewSource(ev.Seed()*1000003 + 17))
	hits := 0
	for i := 0; i < nh && !rec.Enough(); i++ {
		var n int
		switch i % 6 {
		case 0:
			n = rng.Intn(4) // 0..3
		case 1:
			n = 4 + rng.Intn(12)
		case 2:
			n = []int{15, 16, 17, 31, 32, 33, 63, 64, 65, 127, 128, 129, 255, 256, 257}[rng.Intn(15)]
		default:
			n = 1 + rng.Intn(300)
		}
		h := &c17History{Part: "random", N: n, Ops: c17RandomHistory(rng, n, 60)}
		v, hit, sig := c17RunHistory(h, diag)
		rec.Eval(1)
		if v != nil {
			rec.Violation(v.key, v.detail, *h)
		}
		if hit {
			hits++
			rec.Distinct(fmt.Sprintf("n%d:%s", n, sig))
		}
		if i%1500 == 7 {
			rec.Sample(*h)
		}
	}
	rec.Count("histories_with_hit_after_mutation", hits)
	for k, v := range diag {
		rec.Count("diag_"+k, v)
	}
}
