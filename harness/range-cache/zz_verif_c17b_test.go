//go:build verif

package rangecache

// C17 — concurrent part.
//
// (1) steered pairs: two readers are held inside the cache look-up (through the Err method of the context
//     they pass, which the look-up calls while it scans for a superset) until both have passed the point
//     where a hit could still be found; both then miss, queue for the write lock and fetch one after the
//     other.  Enumerated over every pair of non-empty ranges of a 6-byte file x which of the remote fetches
//     fail x a third party (expiry / SetRange of the whole file) arriving in between.
// (2) stress: 16 readers + SetRange writer + expirer + the real StartCacheGC goroutine + remote failures,
//     seeded yields inside the look-up; run plain and under the race detector.
// Oracle as in the sequential part: bytes == F or an error that a failed remote fetch during the call
// explains; ranges outside the file refused; at the quiescent end every cached range is read back.

import (
	"context"
	"fmt"
	"math/rand"
	"runtime"
	"sync"
	"sync/atomic"
	"testing"
	"time"

	"github.com/rpcpool/yellowstone-faithful/zzverif/ev"
)

type c17HookCtx struct {
	context.Context
	hook func()
}

func (c *c17HookCtx) Err() error {
	if c.hook != nil {
		c.hook()
	}
	return c.Context.Err()
}

type c17PairCase struct {
	Kind     string   `json:"kind"` // "pair"
	N        int      `json:"file_size"`
	A        [2]int64 `json:"a"` // start, length
	B        [2]int64 `json:"b"`
	FailMask int      `json:"fail_mask"` // bit i: the i-th remote fetch (in the order the remote sees them) fails
	Third    string   `json:"third"`     // "", "xall", "setall"
	Obs      string   `json:"observed,omitempty"`
}

type c17GetResult struct {
	got     []byte
	err     error
	pan     any
	fetches []c17Fetch
}

const c17Watchdog = 20 * time.Second

// c17RunPair returns (violation, inconclusive reason, observed schedule signature).
func c17RunPair(c *c17PairCase) (*c17Viol, string, string) {
	s := c17NewSys(c.N)
	bg := context.Background()
	N := int64(c.N)
	// a zero-length entry at the very end: the cache is not empty (so the superset scan runs and calls
	// ctx.Err) but it covers no byte, every non-empty read is a miss
	if err := s.rc.SetRange(bg, N, 0, []byte{}); err != nil {
		return nil, "set-up: SetRange(size,0) refused: " + err.Error(), ""
	}
	base := s.logLen()
	s.failAt = func(idx int) bool { return (c.FailMask>>(idx-base))&1 == 1 }
	arrived := make(chan struct{}, 2)
	release := make(chan struct{})
	type fin struct {
		who int
		r   c17GetResult
	}
	done := make(chan fin, 3)
	reader := func(who int, st, ln int64) {
		var once sync.Once
		ctx := &c17HookCtx{Context: bg, hook: func() {
			once.Do(func() {
				arrived <- struct{}{}
				<-release
			})
		}}
		l0 := s.logLen()
		got, err, pan := c17SafeGet(s.rc, ctx, st, ln)
		done <- fin{who, c17GetResult{got, err, pan, s.logSince(l0)}}
	}
	go reader(0, c.A[0], c.A[1])
	go reader(1, c.B[0], c.B[1])
	results := map[int]c17GetResult{}
	wd := time.NewTimer(c17Watchdog)
	defer wd.Stop()
	atBarrier := 0
	for ev2 := 0; ev2 < 2; ev2++ {
		select {
		case <-arrived:
			atBarrier++
		case f := <-done:
			results[f.who] = f.r
		case <-wd.C:
			close(release)
			return nil, "pair: readers neither reached the look-up hook nor returned before the watchdog", ""
		}
	}
	thirdDone := make(chan any, 1)
	switch c.Third {
	case "xall":
		go func() { thirdDone <- c17SafeExpire(s.rc, bg, -time.Nanosecond) }()
	case "setall":
		go func() {
			_, p := c17SafeSet(s.rc, bg, 0, N, append([]byte(nil), s.f...))
			thirdDone <- p
		}()
	default:
		thirdDone <- nil
	}
	for i := 0; i < 3; i++ {
		runtime.Gosched()
	}
	close(release)
	for len(results) < 2 {
		select {
		case f := <-done:
			results[f.who] = f.r
		case <-wd.C:
			return nil, "pair: a reader did not return before the watchdog", ""
		}
	}
	select {
	case p := <-thirdDone:
		if p != nil {
			return &c17Viol{"concurrent/" + c.Third + "/panic", fmt.Sprint(p)}, "", ""
		}
	case <-wd.C:
		return nil, "pair: third party did not return before the watchdog", ""
	}
	all := s.logSince(base)
	sched := fmt.Sprintf("barrier%d:", atBarrier)
	for _, f := range all {
		who := "?"
		switch {
		case f.off == c.A[0] && f.ln == c.A[1] && f.off == c.B[0] && f.ln == c.B[1]:
			who = "AB"
		case f.off == c.A[0] && f.ln == c.A[1]:
			who = "A"
		case f.off == c.B[0] && f.ln == c.B[1]:
			who = "B"
		}
		if f.failed {
			who += "!"
		}
		sched += who + ","
	}
	for who, rg := range [][2]int64{c.A, c.B} {
		r := results[who]
		if v := s.judgeGet("GetRange(concurrent-miss)", rg[0], rg[1], r.got, r.err, r.pan, r.fetches); v != nil {
			v.detail = fmt.Sprintf("reader %c of a steered pair (schedule %s): %s", 'A'+who, sched, v.detail)
			return v, "", sched
		}
		c17Scribble(r.got)
	}
	s.failAt = nil
	if v := s.readback(bg, "readback(concurrent-miss)"); v != nil {
		v.detail = fmt.Sprintf("after a steered pair (schedule %s): %s", sched, v.detail)
		return v, "", sched
	}
	return nil, "", sched
}

func c17PairRelation(a, b [2]int64) string {
	return c17Relation(c17Op{S: a[0], L: a[1]}, c17Op{S: b[0], L: b[1]})
}

type c17StressCase struct {
	Kind    string `json:"kind"` // "stress"
	Seed    int64  `json:"seed"`
	Round   int    `json:"round"`
	N       int    `json:"file_size"`
	Readers int    `json:"readers"`
	Ops     int    `json:"ops_per_reader"`
	Obs     string `json:"observed,omitempty"`
}

func c17Mix(a, b, c int64) uint64 {
	x := uint64(a)*0x9E3779B97F4A7C15 ^ uint64(b)*0xC2B2AE3D27D4EB4F ^ uint64(c)*0x165667B19E3779F9
	x ^= x >> 29
	x *= 0xBF58476D1CE4E5B9
	x ^= x >> 32
	return x
}

func c17RunStress(rec *ev.Recorder, c c17StressCase) {
	s := c17NewSys(c.N)
	N := int64(c.N)
	bg := context.Background()
	gcCtx, gcCancel := context.WithCancel(bg)
	defer gcCancel()
	s.failAt = func(idx int) bool { return c17Mix(c.Seed, int64(c.Round), int64(idx))%6 == 0 }
	s.rc.StartCacheGC(gcCtx, time.Millisecond) // the production expiry goroutine
	var wg sync.WaitGroup
	var hits, misses, errs, refused atomic.Int64
	viol := func(v *c17Viol) {
		cc := c
		cc.Obs = v.detail
		rec.Violation(v.key, v.detail, cc)
	}
	for w := 0; w < c.Readers; w++ {
		wg.Add(1)
		go func(w int) {
			defer wg.Done()
			rng := rand.New(rand.NewSource(int64(c17Mix(c.Seed, int64(c.Round), int64(1000+w)))))
			ctx := &c17HookCtx{Context: bg, hook: func() {
				if rng.Intn(3) == 0 {
					runtime.Gosched()
				}
			}}
			var ps, pl int64
			for i := 0; i < c.Ops; i++ {
				if i%64 == 0 && rec.Enough() {
					return
				}
				var st, ln int64
				switch x := rng.Intn(20); {
				case x == 0:
					st, ln = rng.Int63n(N+1), 0
					ln = N - st + 1 // one past the end
				case x == 1:
					st, ln = -1, 1+rng.Int63n(3)
				case x < 6: // related to this reader's previous range: nested / overlapping / adjacent
					st = c17Clamp(ps+int64(rng.Intn(5))-2, 0, N)
					e := c17Clamp(ps+pl+int64(rng.Intn(5))-2, st, N)
					ln = e - st
				case x < 8: // a few hot ranges shared by all readers -> concurrent misses of the same range
					hot := [][2]int64{{0, N}, {3, 7}, {4, 4}, {N - 5, 5}, {N / 2, 1}}
					h := hot[rng.Intn(len(hot))]
					st, ln = h[0], h[1]
				default:
					st = rng.Int63n(N + 1)
					ln = rng.Int63n(c17Clamp(N-st, 0, 12) + 1)
				}
				l0 := s.logLen()
				got, err, pan := c17SafeGet(s.rc, ctx, st, ln)
				fetches := s.logSince(l0)
				if v := s.judgeGet("GetRange(concurrent)", st, ln, got, err, pan, fetches); v != nil {
					viol(v)
				}
				switch {
				case !s.valid(st, ln):
					refused.Add(1)
				case err != nil:
					errs.Add(1)
				case len(fetches) == 0:
					hits.Add(1)
				default:
					misses.Add(1)
				}
				c17Scribble(got)
				ps, pl = st, ln
			}
		}(w)
	}
	// SetRange writer
	wg.Add(1)
	go func() {
		defer wg.Done()
		rng := rand.New(rand.NewSource(int64(c17Mix(c.Seed, int64(c.Round), 77))))
		for i := 0; i < c.Ops/4; i++ {
			st := rng.Int63n(N + 1)
			ln := rng.Int63n(N - st + 1)
			if _, p := c17SafeSet(s.rc, bg, st, ln, append([]byte(nil), s.f[st:st+ln]...)); p != nil {
				viol(&c17Viol{"SetRange(concurrent)/panic", fmt.Sprint(p)})
				return
			}
			runtime.Gosched()
		}
	}()
	// expirer
	wg.Add(1)
	go func() {
		defer wg.Done()
		rng := rand.New(rand.NewSource(int64(c17Mix(c.Seed, int64(c.Round), 78))))
		for i := 0; i < c.Ops/4; i++ {
			var p any
			switch rng.Intn(4) {
			case 0:
				p = c17SafeExpire(s.rc, bg, -time.Nanosecond)
			case 1:
				p = c17SafeExpire(s.rc, bg, time.Hour)
			case 2:
				s.rc.mu.Lock()
				for r, e := range s.rc.cache {
					if r[0]%2 == 0 {
						e.LastRead = e.LastRead.Add(-2 * time.Hour)
						s.rc.cache[r] = e
					}
				}
				s.rc.mu.Unlock()
				p = c17SafeExpire(s.rc, bg, time.Hour)
			default:
				p = c17SafeExpire(s.rc, bg, 200*time.Microsecond)
			}
			if p != nil {
				viol(&c17Viol{"DeleteOldEntries(concurrent)/panic", fmt.Sprint(p)})
				return
			}
			for k := rng.Intn(4); k > 0; k-- {
				runtime.Gosched()
			}
		}
	}()
	fin := make(chan struct{})
	go func() { wg.Wait(); close(fin) }()
	select {
	case <-fin:
	case <-time.After(10 * time.Minute):
		rec.Inconclusive(fmt.Sprintf("stress round %d did not finish before the watchdog", c.Round))
		return
	}
	gcCancel()
	s.failAt = nil
	if v := s.readback(bg, "readback(concurrent)"); v != nil {
		viol(v)
	}
	rec.Eval(c.Readers * c.Ops)
	rec.Count("stress_hits", int(hits.Load()))
	rec.Count("stress_misses", int(misses.Load()))
	rec.Count("stress_errors_explained_by_failed_fetch", int(errs.Load()))
	rec.Count("stress_refused_outside_file", int(refused.Load()))
	rec.Count("stress_remote_fetches", s.logLen())
	if hits.Load() > 0 && misses.Load() > 0 && errs.Load() > 0 {
		rec.Distinct(fmt.Sprintf("stress-round-%d-with-hits-misses-and-failed-fetches", c.Round))
	}
}

func TestVerifC17Concurrent(t *testing.T) {
	rec := ev.New("C17", "concurrent")
	defer rec.Flush()
	rec.Rule("steered pairs: every (range A, range B) of non-empty ranges of a 6-byte file x fail mask of the first two remote fetches x third party; distinct = distinct (relation A/B, fail mask, third party, observed fetch order) where both readers passed the look-up before either fetched; stress rounds counted when hits, misses and failed fetches all occurred")
	if c17ReplayEnv() != "" {
		var pc c17PairCase
		var sc c17StressCase
		switch {
		case ev.LoadReplay(&pc) && pc.Kind == "pair":
			pc.Obs = ""
			rec.Eval(1)
			if v, inc, sched := c17RunPair(&pc); v != nil {
				rec.Violation(v.key, v.detail, pc)
				t.Logf("replayed: VIOLATION %s", v.detail)
			} else if inc != "" {
				rec.Inconclusive(inc)
			} else {
				t.Logf("replayed: held (schedule %s)", sched)
			}
		case ev.LoadReplay(&sc) && sc.Kind == "stress":
			sc.Obs = ""
			c17RunStress(rec, sc)
		default:
			rec.Eval(1)
			rec.Note("replay", "not a replay of this part")
		}
		return
	}
	// (1) steered pairs
	const n = 6
	var ranges [][2]int64
	for s := int64(0); s < n; s++ {
		for l := int64(1); l <= n-s; l++ {
			ranges = append(ranges, [2]int64{s, l})
		}
	}
	reps := ev.Pick(1, 4)
	both := 0
	for rep := 0; rep < reps; rep++ {
		for _, a := range ranges {
			for _, b := range ranges {
				for mask := 0; mask < 4; mask++ {
					for _, third := range []string{"", "xall", "setall"} {
						if rec.Enough() {
							goto stress
						}
						c := &c17PairCase{Kind: "pair", N: n, A: a, B: b, FailMask: mask, Third: third}
						v, inc, sched := c17RunPair(c)
						rec.Eval(1)
						if v != nil {
							c.Obs = v.detail
							rec.Violation(v.key, v.detail, *c)
						} else if inc != "" {
							rec.Inconclusive(inc)
						} else if len(sched) > 8 && sched[:9] == "barrier2:" {
							both++
							rec.Distinct(fmt.Sprintf("%s/m%d/%s/%s", c17PairRelation(a, b), mask, third, sched))
						}
						if (a[0]*7+b[0]*3+a[1]+b[1]+int64(mask))%211 == 5 && third == "xall" {
							cc := *c
							cc.Obs = sched
							rec.Sample(cc)
						}
					}
				}
			}
		}
	}
stress:
	rec.Count("pairs_both_readers_held_past_the_lookup", both)
	// (2) stress
	rounds := ev.Pick(8, 40)
	for r := 0; r < rounds && !rec.Enough(); r++ {
		c := c17StressCase{Kind: "stress", Seed: ev.Seed(), Round: r, N: []int{40, 13, 64, 8}[r%4], Readers: 16, Ops: ev.Pick(3000, 8000)}
		c17RunStress(rec, c)
		if r == 0 {
			rec.Sample(c)
		}
	}
}
