//go:build verif

package main

// C19 — streaming a slot range returns exactly the archived items matching the filter.
// Two consecutive epochs with skipped slots, vote/non-vote, failed/successful, legacy and
// v0-with-lookups transactions over a universe of 6 accounts, loaded once with and once without the
// gsfa address index.  Oracle: reference filter over the generator's model ("mentions" = static
// account keys + address-table loaded keys).

import (
	"context"
	"fmt"
	"math/rand"
	"os"
	"path/filepath"
	"strings"
	"sync"
	"testing"
	"time"

	"github.com/gagliardetto/solana-go"
	old_faithful_grpc "github.com/rpcpool/yellowstone-faithful/old-faithful-proto/old-faithful-grpc"
	"github.com/rpcpool/yellowstone-faithful/zzverif/cargen"
	"github.com/rpcpool/yellowstone-faithful/zzverif/ev"
	"google.golang.org/grpc"
)

type c19Case struct {
	Seed     int64    `json:"seed"`
	RPC      string   `json:"rpc"`
	Gsfa     bool     `json:"address_index_loaded"`
	Start    uint64   `json:"start_slot"`
	End      *uint64  `json:"end_slot"`
	HasFilt  bool     `json:"has_filter"`
	Vote     *bool    `json:"vote"`
	Failed   *bool    `json:"failed"`
	Include  []string `json:"include"`
	Exclude  []string `json:"exclude"`
	Required []string `json:"required"`
	Want     []string `json:"want,omitempty"`
	Got      []string `json:"got,omitempty"`
}

type c19TxStream struct {
	grpc.ServerStream
	ctx  context.Context
	sent []*old_faithful_grpc.TransactionResponse
}

func (s *c19TxStream) Context() context.Context { return s.ctx }
func (s *c19TxStream) Send(r *old_faithful_grpc.TransactionResponse) error {
	s.sent = append(s.sent, r)
	return nil
}

type c19BlockStream struct {
	grpc.ServerStream
	ctx  context.Context
	sent []*old_faithful_grpc.BlockResponse
}

func (s *c19BlockStream) Context() context.Context { return s.ctx }
func (s *c19BlockStream) Send(r *old_faithful_grpc.BlockResponse) error {
	s.sent = append(s.sent, r)
	return nil
}

func c19Mentions(tx *cargen.Tx, accs []string) (any, all bool) {
	all = true
	for _, a := range accs {
		k := solana.MustPublicKeyFromBase58(a)
		if tx.Mentions(k) {
			any = true
		} else {
			all = false
		}
	}
	return
}

func c19Keep(tx *cargen.Tx, c *c19Case) bool {
	if !c.HasFilt {
		return true
	}
	if c.Vote != nil && !*c.Vote && tx.IsVote {
		return false
	}
	if c.Failed != nil && !*c.Failed && tx.Failed {
		return false
	}
	if len(c.Include) > 0 {
		if any, _ := c19Mentions(tx, c.Include); !any {
			return false
		}
	}
	if any, _ := c19Mentions(tx, c.Exclude); any {
		return false
	}
	if _, all := c19Mentions(tx, c.Required); !all {
		return false
	}
	return true
}

func TestVerifC19(t *testing.T) {
	rec := ev.New("C19", "streams")
	defer rec.Flush()
	rec.Rule("StreamTransactions / StreamBlocks over a grid of slot ranges (inside an epoch, across the boundary, starting/ending on skipped slots, end absent) x filters (vote, failed in {absent,true,false}; include/exclude/required subsets of <= 2 of an 8-account universe, two of the accounts occurring in one epoch only; no filter), with and without the address index; distinct = (rpc, range, filter, index-loaded) tuples with a non-empty expected stream")
	seed := ev.Seed()
	root := filepath.Join(ev.Scratch(), "c19")
	os.MkdirAll(root, 0o755)
	defer os.RemoveAll(root)
	var universe []solana.PublicKey
	// accounts 0..5 occur in both epochs; 6 only in the older epoch, 7 only in the newer one
	for i := 0; i < 8; i++ {
		var k solana.PublicKey
		copy(k[:], []byte(fmt.Sprintf("C19-universe-account-%d-padpadpadpad", i)))
		universe = append(universe, k)
	}
	epochNums := []uint64{20, 21}
	fxs := make([]*vfEpochFx, 2)
	var wg sync.WaitGroup
	for i, e := range epochNums {
		wg.Add(1)
		go func(i int, e uint64) {
			defer wg.Done()
			o := cargen.Opts{Epoch: e, Seed: seed + int64(e), NSlots: 70, SkipOneIn: 4, MaxEntries: 2, MaxTx: 3, MultiFrameOneIn: 7, VoteOneIn: 4, FailOneIn: 3, V0OneIn: 3, Universe: universe[:6], RewardsOneIn: 5, TinyOneIn: 9, FailOtherKindOneIn: 3}
			if i == 1 {
				// a hot account: > 100 matching transactions inside one range
				o.MaxTx = 5
				o.KeyHook = func(slot uint64, pos int) []solana.PublicKey {
					var ks []solana.PublicKey
					if slot%4 != 3 {
						ks = append(ks, universe[5])
					}
					if slot%5 == 0 && pos%2 == 0 {
						ks = append(ks, universe[7])
					}
					return ks
				}
			}
			if i == 0 {
				o.LastSlot = true // a block at the very end of the first epoch: ranges across the boundary
				o.KeyHook = func(slot uint64, pos int) []solana.PublicKey {
					if slot%3 == 0 || slot == (e+1)*cargen.SlotsPerEpoch-1 {
						return []solana.PublicKey{universe[6]}
					}
					return nil
				}
			}
			fx, ierr, err := vfMakeEpoch(filepath.Join(root, fmt.Sprintf("e%d", e)), o, true)
			if err != nil || ierr != "" {
				t.Errorf("fixture: %v %s", err, ierr)
				return
			}
			fxs[i] = fx
		}(i, e)
	}
	wg.Wait()
	if t.Failed() {
		t.FailNow()
	}
	type world struct {
		multi *MultiEpoch
		gsfa  bool
	}
	var worlds []world
	for _, withGsfa := range []bool{true, false} {
		cache := vfNewCache()
		multi := NewMultiEpoch(&Options{EpochSearchConcurrency: 2})
		for _, fx := range fxs {
			ov := map[string]string{"__name": fmt.Sprintf("epoch-gsfa-%v.yml", withGsfa)}
			if !withGsfa {
				ov["gsfa"] = ""
			}
			if err := fx.writeConfig("", ov); err != nil {
				t.Fatal(err)
			}
			ep, err := fx.vfLoad(cache)
			if err != nil {
				t.Fatal(err)
			}
			if (ep.gsfaReader != nil) != withGsfa {
				t.Fatalf("fixture: gsfa loaded=%v want %v", ep.gsfaReader != nil, withGsfa)
			}
			multi.AddEpoch(fx.Model.Epoch, ep)
		}
		worlds = append(worlds, world{multi, withGsfa})
	}
	// all blocks in slot order
	var blocks []*cargen.Block
	for _, fx := range fxs {
		blocks = append(blocks, fx.Model.Blocks...)
	}
	b0 := epochNums[0] * cargen.SlotsPerEpoch
	b1 := epochNums[1] * cargen.SlotsPerEpoch
	skipped := func(base uint64) uint64 {
		for s := base + 1; s < base+70; s++ {
			if _, ok := fxs[0].Model.BySlot[s]; ok {
				continue
			}
			if _, ok := fxs[1].Model.BySlot[s]; ok {
				continue
			}
			return s
		}
		return base + 69
	}
	u64 := func(v uint64) *uint64 { return &v }
	type rng struct {
		s uint64
		e *uint64
	}
	ranges := []rng{
		{b0, u64(b0 + 10)}, {b0 + 3, u64(b0 + 3)}, {b0, u64(b0 + 69)}, {b0 + 20, u64(b0 + 45)},
		{skipped(b0), u64(skipped(b0) + 12)}, {b0 + 5, u64(skipped(b0 + 20))}, {skipped(b0), u64(skipped(b0))},
		{b0 + 60, nil}, {b1 + 30, nil},
		{b1 - 1, u64(b1 + 8)}, {b1 - 3, u64(b1)}, {b1, u64(b1 + 69)}, {b1 + 40, u64(b1 + 80)},
		{b0 + 65, u64(b0 + 75)}, {b1 + 65, u64(b1 + 100)},
	}
	if ev.Thorough() {
		r := rand.New(rand.NewSource(seed))
		for i := 0; i < 40; i++ {
			base := []uint64{b0, b1, b1 - 20}[r.Intn(3)]
			s := base + uint64(r.Intn(70))
			ranges = append(ranges, rng{s, u64(s + uint64(r.Intn(40)))})
		}
	}
	str := func(k solana.PublicKey) string { return k.String() }
	tr, fa := true, false
	bools := []*bool{nil, &tr, &fa}
	// account subsets of size <= 2 (a sample of them, deterministic)
	var subsets [][]string
	subsets = append(subsets, nil)
	for i := range universe {
		subsets = append(subsets, []string{str(universe[i])})
	}
	for i := 0; i < len(universe); i++ {
		for j := i + 1; j < len(universe); j++ {
			subsets = append(subsets, []string{str(universe[i]), str(universe[j])})
		}
	}
	frng := rand.New(rand.NewSource(seed ^ 0xC19))
	type filt struct {
		has        bool
		vote, fail *bool
		inc, exc   []string
		req        []string
	}
	filters := []filt{{has: false}}
	for _, v := range bools {
		for _, f := range bools {
			filters = append(filters, filt{has: true, vote: v, fail: f})
		}
	}
	nRandomFilters := ev.Pick(50, 600)
	for i := 0; i < nRandomFilters; i++ {
		f := filt{has: true, vote: bools[frng.Intn(3)], fail: bools[frng.Intn(3)]}
		switch frng.Intn(6) {
		case 0:
			f.inc = subsets[frng.Intn(len(subsets))]
		case 1:
			f.exc = subsets[frng.Intn(len(subsets))]
		case 2:
			f.req = subsets[frng.Intn(len(subsets))]
		case 3:
			f.inc, f.exc = subsets[frng.Intn(len(subsets))], subsets[frng.Intn(7)]
		case 4:
			f.inc, f.req = subsets[frng.Intn(len(subsets))], subsets[frng.Intn(7)]
		default:
			f.inc, f.exc, f.req = subsets[frng.Intn(len(subsets))], subsets[frng.Intn(7)], subsets[frng.Intn(7)]
		}
		filters = append(filters, f)
	}
	// every single-account include, plainly (the gsfa path)
	for i := range universe {
		filters = append(filters, filt{has: true, vote: &tr, fail: &tr, inc: []string{str(universe[i])}})
	}
	// the program accounts every transaction names (the all-zero System Program key is the smallest key of
	// any address index: its list is the first record of the log)
	for _, pk := range []solana.PublicKey{solana.SystemProgramID, solana.TokenProgramID, solana.VoteProgramID} {
		filters = append(filters, filt{has: true, inc: []string{pk.String()}})
		filters = append(filters, filt{has: true, vote: &fa, inc: []string{pk.String(), str(universe[1])}})
	}
	var rc c19Case
	replay := ev.LoadReplay(&rc)

	sigOf := func(raw []byte) string {
		if len(raw) < 65 {
			return "?"
		}
		var s solana.Signature
		copy(s[:], raw[1:65])
		return s.String()
	}
	nCapKnown := 0
	for _, w := range worlds {
		for ri, r := range ranges {
			end := r.s + 100 // the server's default window when end is absent
			if r.e != nil {
				end = *r.e
			}
			for fi, f := range filters {
				if rec.Enough() {
					break
				}
				c := c19Case{Seed: seed, RPC: "StreamTransactions", Gsfa: w.gsfa, Start: r.s, End: r.e, HasFilt: f.has, Vote: f.vote, Failed: f.fail, Include: f.inc, Exclude: f.exc, Required: f.req}
				if replay && (rc.RPC != c.RPC || rc.Gsfa != c.Gsfa || rc.Start != c.Start || fmt.Sprint(rc.End != nil) != fmt.Sprint(c.End != nil) || (rc.End != nil && *rc.End != *c.End) || fmt.Sprint(rc.Include, rc.Exclude, rc.Required, rc.HasFilt) != fmt.Sprint(c.Include, c.Exclude, c.Required, c.HasFilt)) {
					continue
				}
				var want []string
				nOther := 0
				for _, b := range blocks {
					if b.Slot < r.s || b.Slot > end {
						continue
					}
					for _, tx := range b.Txs {
						if c19Keep(tx, &c) {
							want = append(want, tx.Sig.String())
							if tx.FailOtherKind {
								nOther++
							}
						}
					}
				}
				req := &old_faithful_grpc.StreamTransactionsRequest{StartSlot: r.s, EndSlot: r.e}
				if f.has {
					req.Filter = &old_faithful_grpc.StreamTransactionsFilter{Vote: f.vote, Failed: f.fail, AccountInclude: f.inc, AccountExclude: f.exc, AccountRequired: f.req}
				}
				ctx, cancel := context.WithTimeout(context.Background(), 2*time.Minute)
				st := &c19TxStream{ctx: ctx}
				err := w.multi.StreamTransactions(req, st)
				cancel()
				rec.Eval(1)
				if err != nil {
					rec.Violation("StreamTransactions/error", fmt.Sprintf("gsfa=%v range [%d,%d] filter %d: %v", w.gsfa, r.s, end, fi, err), c)
					continue
				}
				var got []string
				for _, m := range st.sent {
					if m.Transaction != nil && len(m.Transaction.Transaction) > 0 {
						got = append(got, sigOf(m.Transaction.Transaction))
					}
				}
				if strings.Join(got, ",") != strings.Join(want, ",") {
					c.Want, c.Got = want, got
					key := "StreamTransactions/" + c19Classify(got, want)
					if w.gsfa && len(f.inc) > 0 {
						key += "(index-path)"
						// the known finding, exactly: the index path asks the address index for the newest 100
						// in-range entries of each included account and never pages.  Only a stream that equals
						// what that cap produces is attributed to it; any other difference is reported as such.
						over := false
						keepSig := map[string]bool{}
						for _, a := range f.inc {
							n := 0
							for bi := len(blocks) - 1; bi >= 0; bi-- {
								b := blocks[bi]
								if b.Slot < r.s || b.Slot > end {
									continue
								}
								for ti := len(b.Txs) - 1; ti >= 0; ti-- {
									tx := b.Txs[ti]
									if any, _ := c19Mentions(tx, []string{a}); any {
										n++
										if n <= 100 {
											keepSig[tx.Sig.String()] = true
										}
									}
								}
							}
							if n > 100 {
								over = true
							}
						}
						if over {
							var capped []string
							for _, sg := range want {
								if keepSig[sg] {
									capped = append(capped, sg)
								}
							}
							if strings.Join(got, ",") == strings.Join(capped, ",") {
								key = "StreamTransactions/index-path-caps-at-100-per-account"
								nCapKnown++
								if nCapKnown > 5 {
									// one defect, already reported with five witnesses: do not let it use up the
									// violation budget of the run
									rec.Count("index_path_cap_repeats", 1)
									continue
								}
							}
						}
					} else {
						key += "(scan-path)"
					}
					rec.Violation(key, fmt.Sprintf("gsfa=%v range [%d,%d] filter{has=%v vote=%v failed=%v inc=%d exc=%d req=%d}: got %d transactions, want %d", w.gsfa, r.s, end, f.has, c19b(f.vote), c19b(f.fail), len(f.inc), len(f.exc), len(f.req), len(got), len(want)), c)
				}
				if len(want) > 0 {
					rec.Distinct(fmt.Sprintf("tx/%v/%d/%d", w.gsfa, ri, fi))
				}
			}
			// ---- StreamBlocks
			for si, inc := range [][]string{nil, {str(universe[0])}, {str(universe[1]), str(universe[4])}, {str(universe[5])}, {"11111111111111111111111111111112"}} {
				if replay && rc.RPC != "StreamBlocks" {
					continue
				}
				c := c19Case{Seed: seed, RPC: "StreamBlocks", Gsfa: w.gsfa, Start: r.s, End: r.e, Include: inc, HasFilt: si > 0}
				var want []string
				for _, b := range blocks {
					if b.Slot < r.s || b.Slot > end {
						continue
					}
					ok := len(inc) == 0
					for _, tx := range b.Txs {
						if any, _ := c19Mentions(tx, inc); any {
							ok = true
						}
					}
					if ok {
						want = append(want, fmt.Sprint(b.Slot))
					}
				}
				req := &old_faithful_grpc.StreamBlocksRequest{StartSlot: r.s, EndSlot: r.e}
				if si > 0 {
					req.Filter = &old_faithful_grpc.StreamBlocksFilter{AccountInclude: inc}
				}
				ctx, cancel := context.WithTimeout(context.Background(), 2*time.Minute)
				st := &c19BlockStream{ctx: ctx}
				err := w.multi.StreamBlocks(req, st)
				cancel()
				rec.Eval(1)
				if err != nil {
					rec.Violation("StreamBlocks/error", fmt.Sprintf("range [%d,%d]: %v", r.s, end, err), c)
					continue
				}
				var got []string
				for _, m := range st.sent {
					got = append(got, fmt.Sprint(m.Slot))
				}
				if strings.Join(got, ",") != strings.Join(want, ",") {
					c.Want, c.Got = want, got
					rec.Violation("StreamBlocks/"+c19Classify(got, want), fmt.Sprintf("range [%d,%d] include=%d: got %d blocks, want %d", r.s, end, len(inc), len(got), len(want)), c)
				}
				if len(want) > 0 {
					rec.Distinct(fmt.Sprintf("blocks/%v/%d/%d", w.gsfa, ri, si))
				}
			}
		}
	}
	nv0, nvote, nfail := 0, 0, 0
	for _, b := range blocks {
		for _, tx := range b.Txs {
			if tx.V0 {
				nv0++
			}
			if tx.IsVote {
				nvote++
			}
			if tx.Failed {
				nfail++
			}
		}
	}
	rec.Sample(map[string]any{"blocks": len(blocks), "v0_txs": nv0, "vote_txs": nvote, "failed_txs": nfail, "ranges": len(ranges), "filters": len(filters)})
}

func c19b(b *bool) string {
	if b == nil {
		return "absent"
	}
	return fmt.Sprint(*b)
}

func c19Classify(got, want []string) string {
	ws := map[string]bool{}
	for _, w := range want {
		ws[w] = true
	}
	gs := map[string]bool{}
	extra, dup := 0, 0
	for _, g := range got {
		if gs[g] {
			dup++
		}
		gs[g] = true
		if !ws[g] {
			extra++
		}
	}
	missing := 0
	for _, w := range want {
		if !gs[w] {
			missing++
		}
	}
	switch {
	case missing > 0 && extra > 0:
		return "missing-and-extra"
	case missing > 0:
		return "missing"
	case extra > 0:
		return "extra"
	case dup > 0:
		return "duplicates"
	}
	return "wrong-order"
}
